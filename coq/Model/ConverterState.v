(* Executable model of DataFrameToTensorFrameConverter (torch_frame/data/dataset.py:
   __init__, _get_mapper, _merge_feat, __call__) as a state machine, and of
   Dataset.materialize(col_stats=...).  Definitions only; lemmas are in
   Proofs/ConverterStateProofs.v.

   State = `_col_names_dict`.  The SAME dict object is handed to every TensorFrame
   the converter returns and is rewritten in place by `_merge_feat`, so the names a
   caller sees through any returned frame are the converter's current state.

   Modelled primitives: every TensorMapper.forward is a row-wise function built from
   the fitted statistics only (`apply_fit`); the categorical / multicategorical ones
   are concrete (position in the fitted category list, Model/Stats.v), all others are
   opaque (a cell is an id).  Features are column-major: a feature of one stype is the
   list of its columns, so `cat(dim=1)` of features and `+` of name lists are both
   list append. *)
From Coq Require Import List Arith ZArith Bool String.
From PF Require Import Lib.ListX Gen.Tables Model.Stats.
Import ListNotations.

(* ------------------------------------------------------- Python dict[stype, X] *)
(* insertion-ordered association list; keys are unique by construction *)
Definition dict (X : Type) := list (stype * X).

Fixpoint dget {X} (d : dict X) (k : stype) : option X :=
  match d with
  | [] => None
  | (k', v) :: r => if stype_eqb k' k then Some v else dget r k
  end.
Definition dmem {X} (d : dict X) (k : stype) : bool :=
  match dget d k with Some _ => true | None => false end.
(* d[k] = v : in place when the key exists, appended otherwise *)
Fixpoint dset {X} (d : dict X) (k : stype) (v : X) : dict X :=
  match d with
  | [] => [(k, v)]
  | (k', v') :: r => if stype_eqb k' k then (k, v) :: r else (k', v') :: dset r k v
  end.
(* d.pop(k) *)
Definition dpop {X} (d : dict X) (k : stype) : dict X :=
  filter (fun p => negb (stype_eqb (fst p) k)) d.
Definition dmap {X Y} (f : X -> Y) (d : dict X) : dict Y := map (fun p => (fst p, f (snd p))) d.
Definition keys {X} (d : dict X) : list stype := map fst d.

(* ------------------------------------------------------------ _merge_feat *)
Definition is_child (s : stype) : bool := negb (stype_eqb (stype_parent s) s).

(* one iteration of the loop body, on ONE dict.  The feature dict and the name dict get
   the same operations:   d[parent] = d.get(parent, []) ++ d[child] ; d.pop(child)
   (for features the code tests `parent in tf.stypes` and either concatenates along
   dim 1 or takes the child feature as is -- with column-major features both are ++) *)
Definition merge_step {X} (d : dict (list X)) (s : stype) : option (dict (list X)) :=
  if is_child s then
    match dget d s with
    | None => None                                        (* KeyError *)
    | Some child =>
        let p := stype_parent s in
        let pv := match dget d p with Some v => v | None => [] end in
        Some (dpop (dset d p (pv ++ child)) s)
    end
  else Some d.

(* tf.stypes: the enum order filtered by membership; evaluated once, before the loop *)
Definition tf_stypes {X} (d : dict X) : list stype := filter (dmem d) all_stype.

Fixpoint merge_loop {X} (l : list stype) (d : dict (list X)) : option (dict (list X)) :=
  match l with
  | [] => Some d
  | s :: r => d' <- merge_step d s ;; merge_loop r d'
  end.
Definition merge_feat {X} (d : dict (list X)) : option (dict (list X)) := merge_loop (tf_stypes d) d.

(* ------------------------------------------------------------------ mappers *)
Inductive raw := RCat (v : option Z) | RMulti (toks : option (list Z)) | ROpaque (id : Z).
Inductive enc := ECat (i : Z) | EMulti (l : list Z) | EOpaque (id : Z) | EBad.
(* what _get_mapper builds for a column -- from the fitted statistics only *)
Inductive col_fit := FitCat (cats : list Z) | FitMulti (cats : list Z) | FitOpaque.

Definition apply_fit (f : col_fit) (r : raw) : enc :=
  match f, r with
  | FitCat cats, RCat v => ECat (encode_cat cats v)
  | FitMulti cats, RMulti t => EMulti (encode_multi cats t)
  | FitOpaque, ROpaque i => EOpaque i
  | _, _ => EBad
  end.

Definition dataframe := list (string * list raw).       (* column label -> cells *)
Fixpoint lookup {V} (l : list (string * V)) (c : string) : option V :=
  match l with
  | [] => None
  | (c', v) :: r => if String.eqb c' c then Some v else lookup r c
  end.
Definition df_col (df : dataframe) (c : string) : option (list raw) := lookup df c.

Record config := { cfg_cts : list (string * stype);          (* col_to_stype, in dict order *)
                   cfg_target : option string;
                   cfg_fits : list (string * col_fit) }.     (* the mapper of every column *)

(* self._get_mapper(col).forward(df[col]); KeyError when the frame lacks the column *)
Definition map_col (cfg : config) (df : dataframe) (c : string) : option (list enc) :=
  f <- lookup (cfg_fits cfg) c ;;
  col <- df_col df c ;;
  Some (map (apply_fit f) col).

(* ----------------------------------------------------------------- __init__ *)
Definition is_target (t : option string) (c : string) : bool :=
  match t with Some t => String.eqb t c | None => false end.
Fixpoint insert_str (x : string) (l : list string) : list string :=
  match l with
  | [] => [x]
  | y :: r => if String.leb x y then x :: l else y :: insert_str x r
  end.
Definition sort_str (l : list string) : list string := fold_right insert_str [] l.
(* group the non-target columns by stype in col_to_stype order, then sort every list *)
Definition init_names (cts : list (string * stype)) (target : option string) : dict (list string) :=
  let grouped :=
    fold_left (fun d p =>
                 if is_target target (fst p) then d
                 else dset d (snd p) (match dget d (snd p) with Some l => l ++ [fst p] | None => [fst p] end))
              cts [] in
  dmap sort_str grouped.

(* ----------------------------------------------------------------- __call__ *)
Record tframe := { feats : dict (list (list enc));     (* stype -> columns -> rows *)
                   y : option (list enc) }.

(* a missing column surfaces as a KeyError somewhere inside the loops; which statement
   raises is not observable, so the option is carried per column and sequenced at the end *)
Definition seq_cols (cols : list (option (list enc))) : option (list (list enc)) := mapM (fun c => c) cols.
Definition seq_dict (d : dict (list (option (list enc)))) : option (dict (list (list enc))) :=
  mapM (fun p => cols <- seq_cols (snd p) ;; Some (fst p, cols)) d.

Definition call_y (cfg : config) (df : dataframe) : option (option (list enc)) :=
  match cfg_target cfg with
  | Some t =>
      match df_col df t with                     (* `self.target_col in df` *)
      | Some _ => option_map Some (map_col cfg df t)
      | None => Some None
      end
  | None => Some None
  end.

(* one call: (state before, frame) -> (state after, returned TensorFrame); the returned
   frame's col_names_dict IS the state after *)
Definition call (cfg : config) (d : dict (list string)) (df : dataframe)
  : option (dict (list string) * tframe) :=
  let xs := dmap (map (map_col cfg df)) d in            (* xs_dict -> feat_dict *)
  yv <- call_y cfg df ;;
  fd <- merge_feat xs ;;                                 (* _merge_feat on feat_dict ... *)
  d' <- merge_feat d ;;                                  (* ... and on the shared col_names_dict *)
  fd' <- seq_dict fd ;;
  Some (d', {| feats := fd'; y := yv |}).

(* a sequence of calls on one converter *)
Fixpoint run (cfg : config) (d : dict (list string)) (dfs : list dataframe)
  : option (dict (list string) * list tframe) :=
  match dfs with
  | [] => Some (d, [])
  | df :: r =>
      p <- call cfg d df ;;
      q <- run cfg (fst p) r ;;
      Some (fst q, snd p :: snd q)
  end.

(* ---------------------------------------------------------------- selections *)
(* df.iloc[idx] : positions, any multiset / order; IndexError when out of range *)
Definition df_select (idx : list nat) (df : dataframe) : option dataframe :=
  mapM (fun p => col <- tgather (snd p) idx ;; Some (fst p, col)) df.
(* tensor_frame[idx] *)
Definition cols_select (idx : list nat) (cols : list (list enc)) : option (list (list enc)) :=
  mapM (fun col => tgather col idx) cols.
Definition feats_select (idx : list nat) (fd : dict (list (list enc))) : option (dict (list (list enc))) :=
  mapM (fun p => cols <- cols_select idx (snd p) ;; Some (fst p, cols)) fd.
Definition y_select (idx : list nat) (yv : option (list enc)) : option (option (list enc)) :=
  match yv with None => Some None | Some l => option_map Some (tgather l idx) end.
Definition tf_select (idx : list nat) (tf : tframe) : option tframe :=
  fd <- feats_select idx (feats tf) ;;
  yv <- y_select idx (y tf) ;;
  Some {| feats := fd; y := yv |}.

(* ------------------------------------------- materialize(col_stats = ...) *)
(* one column's statistics: which StatType keys exist, the category list, EMB_DIM *)
Record col_stat := { cs_keys : list stat_type; cs_cats : list Z; cs_emb : option nat }.
Definition stats := list (string * col_stat).
Definition has_key (k : stat_type) (cs : col_stat) : bool := existsb (stat_type_eqb k) (cs_keys cs).

(* _get_mapper: reads col_stats[col][COUNT] / [MULTI_COUNT] (KeyError when absent), nothing else *)
Definition fit_of_stat (s : stype) (cs : col_stat) : option col_fit :=
  match s with
  | st_categorical => if has_key stat_COUNT cs then Some (FitCat (cs_cats cs)) else None
  | st_multicategorical => if has_key stat_MULTI_COUNT cs then Some (FitMulti (cs_cats cs)) else None
  | _ => Some FitOpaque
  end.
Definition fits_of (cts : list (string * stype)) (st : stats) : option (list (string * col_fit)) :=
  mapM (fun p => cs <- lookup st (fst p) ;; f <- fit_of_stat (snd p) cs ;; Some (fst p, f)) cts.

(* the asserts on user-supplied col_stats: every column present, every required statistic present *)
Definition validate_stats (cts : list (string * stype)) (st : stats) : bool :=
  forallb (fun p => match lookup st (fst p) with
                    | None => false
                    | Some cs => forallb (fun k => has_key k cs) (stats_for_stype (snd p))
                    end) cts.

(* self._col_stats[col][EMB_DIM] = w *)
Fixpoint set_emb (st : stats) (c : string) (w : nat) : option stats :=
  match st with
  | [] => None                                                   (* KeyError *)
  | (c', cs) :: r =>
      if String.eqb c' c
      then Some ((c', {| cs_keys := if has_key stat_EMB_DIM cs then cs_keys cs else cs_keys cs ++ [stat_EMB_DIM];
                         cs_cats := cs_cats cs; cs_emb := Some w |}) :: r)
      else r' <- set_emb r c w ;; Some ((c', cs) :: r')
  end.
(* _update_col_stats: EMB_DIM of every column of the (merged) embedding feature; `width` is the
   width of the vectors the column's mapper produces (offset differences, see Model/Stats.v) *)
Fixpoint update_emb (width : string -> nat) (st : stats) (cols : list string) : option stats :=
  match cols with
  | [] => Some st
  | c :: r => st' <- set_emb st c (width c) ;; update_emb width st' r
  end.
Definition update_col_stats (width : string -> nat) (st : stats) (d : dict (list string)) : option stats :=
  match dget d st_embedding with
  | Some cols => update_emb width st cols
  | None => Some st
  end.

(* Dataset.materialize(col_stats = supplied) without cache path.  `compute` stands for the
   per-column compute_col_stats (+ binary target re-sort), Model/Stats.v *)
Definition materialize (cts : list (string * stype)) (target : option string)
           (compute : dataframe -> stats) (width : string -> nat)
           (supplied : option stats) (df : dataframe)
  : option (stats * dict (list string) * tframe) :=
  st <- match supplied with
        | None => Some (compute df)
        | Some s => if validate_stats cts s then Some s else None        (* AssertionError *)
        end ;;
  fits <- fits_of cts st ;;
  p <- call {| cfg_cts := cts; cfg_target := target; cfg_fits := fits |} (init_names cts target) df ;;
  st' <- update_col_stats width st (fst p) ;;
  Some (st', fst p, snd p).

(* ------------------------------------------------- observations (harness side) *)
Record obs := mk_obs { o_names : dict (list string); o_feats : dict (list (list enc)); o_y : option (list enc) }.

Definition enc_eqb (a b : enc) : bool :=
  match a, b with
  | ECat i, ECat j => Z.eqb i j
  | EMulti l, EMulti l' => list_eqb Z.eqb l l'
  | EOpaque i, EOpaque j => Z.eqb i j
  | _, _ => false
  end.
(* dicts are compared as mappings (dict equality ignores insertion order) *)
Definition canon {X} (d : dict X) : list (stype * X) :=
  flat_map (fun s => match dget d s with Some v => [(s, v)] | None => [] end) all_stype.
Definition dict_eqb {X} (e : X -> X -> bool) (d d' : dict X) : bool :=
  (List.length d =? List.length (canon d))%nat && (List.length d' =? List.length (canon d'))%nat &&
  list_eqb (fun a b => stype_eqb (fst a) (fst b) && e (snd a) (snd b)) (canon d) (canon d').
Definition obs_ok (d : dict (list string)) (tf : tframe) (o : obs) : bool :=
  dict_eqb (list_eqb String.eqb) d (o_names o)
  && dict_eqb (list_eqb (list_eqb enc_eqb)) (feats tf) (o_feats o)
  && match y tf, o_y o with
     | None, None => true
     | Some a, Some b => list_eqb enc_eqb a b
     | _, _ => false
     end.

(* an observation None = the implementation raised: the model must raise too, and the
   converter (whose state a raising call leaves untouched) stays usable *)
Fixpoint session_go (cfg : config) (d : dict (list string)) (calls : list (dataframe * option obs)) : bool :=
  match calls with
  | [] => true
  | (df, o) :: r =>
      match call cfg d df, o with
      | None, None => session_go cfg d r
      | Some (d1, tf), Some o => obs_ok d1 tf o && session_go cfg d1 r
      | _, _ => false
      end
  end.
(* a fresh converter (state = init_names) followed through a sequence of calls, each compared
   with what the implementation returned *)
Definition session_ok (cts : list (string * stype)) (target : option string)
           (fits : list (string * col_fit)) (calls : list (dataframe * option obs)) : bool :=
  session_go {| cfg_cts := cts; cfg_target := target; cfg_fits := fits |} (init_names cts target) calls.
