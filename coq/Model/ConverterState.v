(* Executable model of DataFrameToTensorFrameConverter (torch_frame/data/dataset.py:
   __init__, _get_mapper, _merge_feat, __call__) as a state machine, and of
   Dataset.materialize(col_stats=...).  Definitions only; lemmas are in
   Proofs/ConverterStateProofs.v.

   State = `_col_names_dict`.  The SAME dict object is handed to every TensorFrame
   the converter returns and is rewritten in place by `_merge_feat`, so the names a
   caller sees through any returned frame are the converter's current state.

   The state machine (section Machine) is generic in the per-column mapper
   `enc_col name index column` = `self._get_mapper(name).forward(df[name])`; NOTHING is
   assumed about it there.  It is then instantiated (`pipeline_col`) with the pandas /
   torch pipeline models of Model/Mapper.v through Converter.encode_col: numerical,
   categorical, multicategorical, sequence, timestamp and embedding columns run the
   modelled pipelines (their row-locality is DERIVED from the theorems of Props/C01.v in
   Proofs/ConverterStateProofs.v).  Only the columns handled by user callables
   (text_embedded, image_embedded, text_tokenized -- stub embedders / tokenizer in the
   harness) are opaque: a cell is the id of the source row it came from, carried as a
   one-entry vector through the embedded-column pipeline.  Multicategorical cells are
   sets and are observed sorted.  pd.to_datetime is a black box (a timestamp cell
   arrives parsed).  Features are column-major: a feature of one stype is the list of
   its columns, so `cat(dim=1)` of features and `+` of name lists are both append. *)
From Coq Require Import List Arith ZArith QArith Bool String.
From PF Require Import Lib.ListX Gen.Tables Model.Ragged Model.Mapper Model.MapperSpec Model.Converter.
Import ListNotations.
Local Open Scope nat_scope.
Local Notation length := List.length (only parsing).

(* ------------------------------------------------------- Python dict[stype, X] *)
(* insertion-ordered association list; keys are unique by construction *)
Definition dict (X : Type) := list (stype * X).

Fixpoint dget {X} (d : dict X) (k : stype) : option X :=
  match d with
  | [] => None
  | (k', v) :: r => if stype_eqb k' k then Some v else dget r k
  end.
Definition dmem {X} (d : dict X) (k : stype) : bool :=
  match dget d k with Some _ => true | None => false end.
(* d[k] = v : in place when the key exists, appended otherwise *)
Fixpoint dset {X} (d : dict X) (k : stype) (v : X) : dict X :=
  match d with
  | [] => [(k, v)]
  | (k', v') :: r => if stype_eqb k' k then (k, v) :: r else (k', v') :: dset r k v
  end.
(* d.pop(k) *)
Definition dpop {X} (d : dict X) (k : stype) : dict X :=
  filter (fun p => negb (stype_eqb (fst p) k)) d.
Definition dmap {X Y} (f : X -> Y) (d : dict X) : dict Y := map (fun p => (fst p, f (snd p))) d.
Definition keys {X} (d : dict X) : list stype := map fst d.

(* ------------------------------------------------------------ _merge_feat *)
Definition is_child (s : stype) : bool := negb (stype_eqb (stype_parent s) s).

(* one iteration of the loop body, on ONE dict.  The feature dict and the name dict get
   the same operations:   d[parent] = d.get(parent, []) ++ d[child] ; d.pop(child)
   (for features the code tests `parent in tf.stypes` and either concatenates along
   dim 1 or takes the child feature as is -- with column-major features both are ++) *)
Definition merge_step {X} (d : dict (list X)) (s : stype) : option (dict (list X)) :=
  if is_child s then
    match dget d s with
    | None => None                                        (* KeyError *)
    | Some child =>
        let p := stype_parent s in
        let pv := match dget d p with Some v => v | None => [] end in
        Some (dpop (dset d p (pv ++ child)) s)
    end
  else Some d.

(* tf.stypes: the enum order filtered by membership; evaluated once, before the loop *)
Definition tf_stypes {X} (d : dict X) : list stype := filter (dmem d) all_stype.

Fixpoint merge_loop {X} (l : list stype) (d : dict (list X)) : option (dict (list X)) :=
  match l with
  | [] => Some d
  | s :: r => d' <- merge_step d s ;; merge_loop r d'
  end.
Definition merge_feat {X} (d : dict (list X)) : option (dict (list X)) := merge_loop (tf_stypes d) d.

(* ------------------------------------------------------------- association lists *)
Fixpoint lookup {V} (l : list (string * V)) (c : string) : option V :=
  match l with
  | [] => None
  | (c', v) :: r => if String.eqb c' c then Some v else lookup r c
  end.

(* ----------------------------------------------------------------- __init__ *)
Definition is_target (t : option string) (c : string) : bool :=
  match t with Some t => String.eqb t c | None => false end.
Fixpoint insert_str (x : string) (l : list string) : list string :=
  match l with
  | [] => [x]
  | y :: r => if String.leb x y then x :: l else y :: insert_str x r
  end.
Definition sort_str (l : list string) : list string := fold_right insert_str [] l.
(* group the non-target columns by stype in col_to_stype order, then sort every list *)
Definition init_names (cts : list (string * stype)) (target : option string) : dict (list string) :=
  let grouped :=
    fold_left (fun d p =>
                 if is_target target (fst p) then d
                 else dset d (snd p) (match dget d (snd p) with Some l => l ++ [fst p] | None => [fst p] end))
              cts [] in
  dmap sort_str grouped.

(* ======================================================================== *)
Section Machine.
  (* L: index labels; Col: a DataFrame column; Enc: an encoded cell *)
  Context {L Col Enc : Type}.
  (* self._get_mapper(name).forward(df[name]) -- built from the fitted statistics only;
     None = it raises.  Arbitrary in this section. *)
  Variable enc_col : string -> list L -> Col -> option (list Enc).
  (* column.iloc[idx] *)
  Variable col_select : list nat -> Col -> option Col.

  Record dataframe := { df_index : list L; df_cols : list (string * Col) }.
  Definition df_col (df : dataframe) (c : string) : option Col := lookup (df_cols df) c.

  (* KeyError when the frame lacks the column *)
  Definition map_col (df : dataframe) (c : string) : option (list Enc) :=
    col <- df_col df c ;; enc_col c (df_index df) col.

  Record tframe := { feats : dict (list (list Enc));     (* stype -> columns -> rows *)
                     y : option (list Enc) }.

  (* a missing column surfaces as a KeyError somewhere inside the loops; which statement
     raises is not observable, so the option is carried per column and sequenced at the end *)
  Definition seq_cols (cols : list (option (list Enc))) : option (list (list Enc)) := mapM (fun c => c) cols.
  Definition seq_dict (d : dict (list (option (list Enc)))) : option (dict (list (list Enc))) :=
    mapM (fun p => cols <- seq_cols (snd p) ;; Some (fst p, cols)) d.

  Definition call_y (target : option string) (df : dataframe) : option (option (list Enc)) :=
    match target with
    | Some t =>
        match df_col df t with                     (* `self.target_col in df` *)
        | Some _ => option_map Some (map_col df t)
        | None => Some None
        end
    | None => Some None
    end.

  (* one call: (state before, frame) -> (state after, returned TensorFrame); the returned
     frame's col_names_dict IS the state after *)
  Definition call (target : option string) (d : dict (list string)) (df : dataframe)
    : option (dict (list string) * tframe) :=
    let xs := dmap (map (map_col df)) d in                 (* xs_dict -> feat_dict *)
    yv <- call_y target df ;;
    fd <- merge_feat xs ;;                                 (* _merge_feat on feat_dict ... *)
    d' <- merge_feat d ;;                                  (* ... and on the shared col_names_dict *)
    fd' <- seq_dict fd ;;
    Some (d', {| feats := fd'; y := yv |}).

  (* a sequence of calls on one converter *)
  Fixpoint run (target : option string) (d : dict (list string)) (dfs : list dataframe)
    : option (dict (list string) * list tframe) :=
    match dfs with
    | [] => Some (d, [])
    | df :: r =>
        p <- call target d df ;;
        q <- run target (fst p) r ;;
        Some (fst q, snd p :: snd q)
    end.

  (* df.iloc[idx] : positions, any multiset / order; IndexError when out of range *)
  Definition df_select (idx : list nat) (df : dataframe) : option dataframe :=
    ix <- tgather (df_index df) idx ;;
    cols <- mapM (fun p => col <- col_select idx (snd p) ;; Some (fst p, col)) (df_cols df) ;;
    Some {| df_index := ix; df_cols := cols |}.
  (* tensor_frame[idx] *)
  Definition cols_select (idx : list nat) (cols : list (list Enc)) : option (list (list Enc)) :=
    mapM (fun col => tgather col idx) cols.
  Definition feats_select (idx : list nat) (fd : dict (list (list Enc))) : option (dict (list (list Enc))) :=
    mapM (fun p => cols <- cols_select idx (snd p) ;; Some (fst p, cols)) fd.
  Definition y_select (idx : list nat) (yv : option (list Enc)) : option (option (list Enc)) :=
    match yv with None => Some None | Some l => option_map Some (tgather l idx) end.
  Definition tf_select (idx : list nat) (tf : tframe) : option tframe :=
    fd <- feats_select idx (feats tf) ;;
    yv <- y_select idx (y tf) ;;
    Some {| feats := fd; y := yv |}.
End Machine.
Arguments dataframe : clear implicits.
Arguments tframe : clear implicits.

(* ======================================================================== *)
(* Instantiation with the pipeline models of Model/Mapper.v *)

(* a DataFrame column as the converter receives it (cells only; what the converter knows
   about the column comes from the fitted statistics / configuration, `col_fit`) *)
Inductive fcol :=
| FNum (cells : list (option num))
| FCat (cells : list (option pval))
| FMulti (dtype_ok : bool) (cells : list mc_cell)       (* dtype_ok: held with object / string dtype *)
| FSeq (cells : list seq_cell)
| FTime (cells : list (option Z))                        (* parsed by pd.to_datetime (black box) *)
| FVec (cells : list (list num))
| FStub (ids : list Z).                                  (* handled by a user callable: opaque row ids *)

(* what _get_mapper builds for a column -- from the fitted statistics / configuration only *)
Inductive col_fit :=
| FitNum | FitCat (cats : list pval) | FitMulti (cats : list pval) (sep : option str)
| FitSeq | FitTime | FitEmb | FitStub.

(* the mapper applied to a column of the wrong kind raises *)
Definition attach (f : col_fit) (c : fcol) : option rawcol :=
  match f, c with
  | FitNum, FNum cells => Some (RNum cells)
  | FitCat cats, FCat cells => Some (RCat cats cells)
  | FitMulti cats sep, FMulti dt cells => Some (RMulti dt cats sep cells)
  | FitSeq, FSeq cells => Some (RSeq cells)
  | FitTime, FTime cells => Some (RTime cells)
  | FitEmb, FVec cells => Some (REmb cells)
  | FitStub, FStub ids => Some (RTextEmb (map (fun i => [NFin i]) ids))
  | _, _ => None
  end.
Definition is_multi_fit (f : col_fit) : bool := match f with FitMulti _ _ => true | _ => false end.

(* _get_mapper(name).forward(df[name]) through the pipeline models; multicategorical cells
   are sets (Python set order is unspecified): observed sorted *)
Definition pipeline_col {L} (leqb : L -> L -> bool) (fits : list (string * col_fit))
           (c : string) (ix : list L) (col : fcol) : option (list ecell) :=
  f <- lookup fits c ;;
  rc <- attach f col ;;
  e <- encode_col leqb ix rc ;;
  cells <- as_col e ;;
  Some (if is_multi_fit f then map sort_cell cells else cells).

Definition fcol_select (idx : list nat) (c : fcol) : option fcol :=
  match c with
  | FNum cells => option_map FNum (tgather cells idx)
  | FCat cells => option_map FCat (tgather cells idx)
  | FMulti dt cells => option_map (FMulti dt) (tgather cells idx)
  | FSeq cells => option_map FSeq (tgather cells idx)
  | FTime cells => option_map FTime (tgather cells idx)
  | FVec cells => option_map FVec (tgather cells idx)
  | FStub ids => option_map FStub (tgather ids idx)
  end.
Definition fcol_len (c : fcol) : nat :=
  match c with
  | FNum l => length l | FCat l => length l | FMulti _ l => length l | FSeq l => length l
  | FTime l => length l | FVec l => length l | FStub l => length l
  end.

(* the concrete converter: labels are naturals *)
Definition pdataframe := dataframe nat fcol.
Definition ptframe := tframe ecell.
Definition pcall (fits : list (string * col_fit)) := call (pipeline_col Nat.eqb fits).
Definition prun (fits : list (string * col_fit)) := run (pipeline_col Nat.eqb fits).
Definition pdf_select := @df_select nat fcol fcol_select.

(* ------------------------------------------------------- typed category values *)
(* A raw cell of a category column with its Python type.  pandas merges the column against the
   category index on OBJECT keys (CategoricalTensorMapper.forward: astype(object) on both sides), i.e.
   by Python equality + hash: numbers compare by value whatever their type (1 == 1.0), a str equals
   only the same str, +/-inf only itself; NaN / None are missing (no key). *)
Inductive tval := TInt (z : Z) | TFloat (q : Q) | TInf (pos : bool) | TStr (s : str).
Definition tnum (v : tval) : option Q :=
  match v with TInt z => Some (inject_Z z) | TFloat q => Some q | _ => None end.
Definition key_eqb (a b : tval) : bool :=
  match tnum a, tnum b with
  | Some x, Some y => Qeq_bool x y
  | None, None =>
      match a, b with
      | TStr s, TStr t => str_eqb s t
      | TInf p, TInf q => Bool.eqb p q
      | _, _ => false
      end
  | _, _ => false
  end.
(* the merge + NaN -> -1 on typed keys: position of the first category equal to the cell *)
Fixpoint typed_find (cats : list tval) (v : tval) : option nat :=
  match cats with
  | [] => None
  | c :: r => if key_eqb c v then Some 0 else option_map S (typed_find r v)
  end.
Definition typed_cat_cell (cats : list tval) (c : option tval) : Z :=
  match c with
  | None => (-1)%Z
  | Some v => match typed_find cats v with Some k => Z.of_nat k | None => (-1)%Z end
  end.
(* how a typed value is presented to the untyped pipeline model (Mapper.pval = VInt | VStr; this is
   what harness/c04.py `pv` does): an integral number is that integer; any other number / infinity
   becomes a string beginning with a negative code point, which no Python str contains *)
Definition norm_q (q : Q) : pval :=
  let r := Qred q in
  if (Zpos (Qden r) =? 1)%Z then VInt (Qnum r) else VStr [(-1)%Z; Qnum r; Zpos (Qden r)].
Definition norm (v : tval) : pval :=
  match v with
  | TInt z => norm_q (inject_Z z)            (* = VInt z *)
  | TFloat q => norm_q q
  | TInf p => VStr [(-2)%Z; if p then 1%Z else 0%Z]
  | TStr s => VStr s
  end.
Definition wf_tval (v : tval) : Prop := match v with TStr s => Forall (fun c => (0 <= c)%Z) s | _ => True end.

(* ------------------------------------------- materialize(col_stats = ...) *)
(* one column's statistics: which StatType keys exist, the category list, EMB_DIM *)
Record col_stat := { cs_keys : list stat_type; cs_cats : list pval; cs_emb : option nat }.
Definition stats := list (string * col_stat).
Definition has_key (k : stat_type) (cs : col_stat) : bool := existsb (stat_type_eqb k) (cs_keys cs).

(* _get_mapper: reads col_stats[col][COUNT] / [MULTI_COUNT] (KeyError when absent) and col_to_sep[col], nothing else *)
Definition fit_of_stat (s : stype) (sep : option str) (cs : col_stat) : option col_fit :=
  match s with
  | st_numerical => Some FitNum
  | st_categorical => if has_key stat_COUNT cs then Some (FitCat (cs_cats cs)) else None
  | st_multicategorical => if has_key stat_MULTI_COUNT cs then Some (FitMulti (cs_cats cs) sep) else None
  | st_sequence_numerical => Some FitSeq
  | st_timestamp => Some FitTime
  | st_embedding => Some FitEmb
  | _ => Some FitStub
  end.
Definition sep_of (seps : list (string * option str)) (c : string) : option str :=
  match lookup seps c with Some s => s | None => None end.
Definition fits_of (cts : list (string * stype)) (seps : list (string * option str)) (st : stats)
  : option (list (string * col_fit)) :=
  mapM (fun p => cs <- lookup st (fst p) ;; f <- fit_of_stat (snd p) (sep_of seps (fst p)) cs ;; Some (fst p, f)) cts.

(* the asserts on user-supplied col_stats: every column present, every required statistic present *)
Definition validate_stats (cts : list (string * stype)) (st : stats) : bool :=
  forallb (fun p => match lookup st (fst p) with
                    | None => false
                    | Some cs => forallb (fun k => has_key k cs) (stats_for_stype (snd p))
                    end) cts.

(* self._col_stats[col][EMB_DIM] = w *)
Fixpoint set_emb (st : stats) (c : string) (w : nat) : option stats :=
  match st with
  | [] => None                                                   (* KeyError *)
  | (c', cs) :: r =>
      if String.eqb c' c
      then Some ((c', {| cs_keys := if has_key stat_EMB_DIM cs then cs_keys cs else cs_keys cs ++ [stat_EMB_DIM];
                         cs_cats := cs_cats cs; cs_emb := Some w |}) :: r)
      else r' <- set_emb r c w ;; Some ((c', cs) :: r')
  end.
(* _update_col_stats: EMB_DIM of every column of the (merged) embedding feature; `width` is the
   width of the vectors the column's mapper produced (offset differences, see Model/Stats.v) *)
Fixpoint update_emb (width : string -> nat) (st : stats) (cols : list string) : option stats :=
  match cols with
  | [] => Some st
  | c :: r => st' <- set_emb st c (width c) ;; update_emb width st' r
  end.
Definition update_col_stats (width : string -> nat) (st : stats) (d : dict (list string)) : option stats :=
  match dget d st_embedding with
  | Some cols => update_emb width st cols
  | None => Some st
  end.

(* Dataset.materialize(col_stats = supplied) without cache path.  `compute` stands for the
   per-column compute_col_stats (+ binary target re-sort), Model/Stats.v *)
Definition materialize (cts : list (string * stype)) (seps : list (string * option str)) (target : option string)
           (compute : pdataframe -> stats) (width : string -> nat)
           (supplied : option stats) (df : pdataframe)
  : option (stats * dict (list string) * ptframe) :=
  st <- match supplied with
        | None => Some (compute df)
        | Some s => if validate_stats cts s then Some s else None        (* AssertionError *)
        end ;;
  fits <- fits_of cts seps st ;;
  p <- pcall fits target (init_names cts target) df ;;
  st' <- update_col_stats width st (fst p) ;;
  Some (st', fst p, snd p).

(* ------------------------------------------------- observations (harness side) *)
Record obs := mk_obs { o_names : dict (list string); o_feats : dict (list (list ecell)); o_y : option (list ecell) }.

Definition num_eqb (a b : num) : bool :=
  match a, b with
  | NFin x, NFin y => (x =? y)%Z
  | NNaN, NNaN | NPosInf, NPosInf | NNegInf, NNegInf => true
  | _, _ => false
  end.
Definition scalar_eqb (a b : scalar) : bool :=
  match a, b with
  | SInt x, SInt y => (x =? y)%Z
  | SNum x, SNum y => num_eqb x y
  | _, _ => false
  end.
Fixpoint list_eqb {A} (e : A -> A -> bool) (a b : list A) : bool :=
  match a, b with
  | [], [] => true
  | x :: a', y :: b' => e x y && list_eqb e a' b'
  | _, _ => false
  end.
Definition ecell_eqb : ecell -> ecell -> bool := list_eqb scalar_eqb.

(* dicts are compared as mappings (dict equality ignores insertion order) *)
Definition canon {X} (d : dict X) : list (stype * X) :=
  flat_map (fun s => match dget d s with Some v => [(s, v)] | None => [] end) all_stype.
Definition dict_eqb {X} (e : X -> X -> bool) (d d' : dict X) : bool :=
  (List.length d =? List.length (canon d)) && (List.length d' =? List.length (canon d')) &&
  list_eqb (fun a b => stype_eqb (fst a) (fst b) && e (snd a) (snd b)) (canon d) (canon d').
Definition names_eqb : dict (list string) -> dict (list string) -> bool := dict_eqb (list_eqb String.eqb).
Definition feats_eqb : dict (list (list ecell)) -> dict (list (list ecell)) -> bool :=
  dict_eqb (list_eqb (list_eqb ecell_eqb)).
Definition y_eqb (a b : option (list ecell)) : bool :=
  match a, b with
  | None, None => true
  | Some a, Some b => list_eqb ecell_eqb a b
  | _, _ => false
  end.
Definition obs_ok (d : dict (list string)) (tf : ptframe) (o : obs) : bool :=
  names_eqb d (o_names o) && feats_eqb (feats tf) (o_feats o) && y_eqb (y tf) (o_y o).

(* an observation None = the implementation raised: the model must raise too, and the
   converter (whose state a raising call leaves untouched) stays usable *)
Fixpoint session_go (fits : list (string * col_fit)) (target : option string) (d : dict (list string))
         (calls : list (pdataframe * option obs)) : bool :=
  match calls with
  | [] => true
  | (df, o) :: r =>
      match pcall fits target d df, o with
      | None, None => session_go fits target d r
      | Some (d1, tf), Some o => obs_ok d1 tf o && session_go fits target d1 r
      | _, _ => false
      end
  end.
(* a fresh converter (state = init_names) followed through a sequence of calls, each compared
   with what the implementation returned *)
Definition session_ok (cts : list (string * stype)) (target : option string)
           (fits : list (string * col_fit)) (calls : list (pdataframe * option obs)) : bool :=
  session_go fits target (init_names cts target) calls.

(* df.iloc[idx] / tensor_frame[idx]: the model's selection of the whole frame is the frame the
   harness handed to the converter, and the model's selection of the materialized TensorFrame is
   what `dataset.tensor_frame[idx]` returned *)
Definition fcol_eqb (a b : fcol) : bool :=
  match a, b with
  | FNum x, FNum y => list_eqb (fun p q => match p, q with None, None => true | Some u, Some v => num_eqb u v | _, _ => false end) x y
  | FStub x, FStub y => list_eqb Z.eqb x y
  | FTime x, FTime y => list_eqb (fun p q => match p, q with None, None => true | Some u, Some v => (u =? v)%Z | _, _ => false end) x y
  | FCat x, FCat y => (List.length x =? List.length y)
  | FMulti d x, FMulti d' y => Bool.eqb d d' && (List.length x =? List.length y)
  | FSeq x, FSeq y => (List.length x =? List.length y)
  | FVec x, FVec y => list_eqb (list_eqb num_eqb) x y
  | _, _ => false
  end.
Definition selection_ok (cts : list (string * stype)) (target : option string) (fits : list (string * col_fit))
           (whole : pdataframe) (idx : list nat) (selected : pdataframe) (o : obs) : bool :=
  match pdf_select idx whole, pcall fits target (init_names cts target) whole with
  | Some df', Some (d1, tf) =>
      list_eqb Nat.eqb (df_index df') (df_index selected)
      && list_eqb (fun a b => String.eqb (fst a) (fst b) && fcol_eqb (snd a) (snd b)) (df_cols df') (df_cols selected)
      && match tf_select idx tf, pcall fits target d1 df' with
         | Some tf', Some (d2, tf'') =>
             obs_ok d1 tf' o && obs_ok d2 tf'' o
         | _, _ => false
         end
  | _, _ => false
  end.

(* materialize(col_stats = supplied) evaluated end to end: validation, mappers from the statistics,
   first converter call, _update_col_stats; compared with the TensorFrame and the statistics observed *)
Definition col_stat_eqb (a b : col_stat) : bool :=
  forallb (fun k => Bool.eqb (has_key k a) (has_key k b)) all_stat_type
  && list_eqb pval_eqb (cs_cats a) (cs_cats b)
  && match cs_emb a, cs_emb b with None, None => true | Some x, Some y => x =? y | _, _ => false end.
Definition stats_eqb (a b : stats) : bool :=
  list_eqb (fun p q => String.eqb (fst p) (fst q) && col_stat_eqb (snd p) (snd q)) a b.
Definition materialize_ok (cts : list (string * stype)) (seps : list (string * option str)) (target : option string)
           (computed : stats) (widths : list (string * nat)) (supplied : option stats)
           (df : pdataframe) (st_obs : stats) (o : obs) : bool :=
  match materialize cts seps target (fun _ => computed)
                    (fun c => match lookup widths c with Some w => w | None => 0 end) supplied df with
  | Some (st', d1, tf) =>
      stats_eqb st' st_obs && obs_ok d1 tf o
      (* the dataset's own frame converted again, with the mappers of the FINAL statistics, from the
         state the materialization left: must again be the TensorFrame observed *)
      && match fits_of cts seps st' with
         | Some fits' => match pcall fits' target d1 df with
                         | Some (d2, tf2) => obs_ok d2 tf2 o
                         | None => false
                         end
         | None => false
         end
  | None => false
  end.

(* correspondence form: the typed model on the cells of one category column vs. the TensorFrame *)
Definition typed_cat_ok (cats : list tval) (cells : list (option tval)) (observed : list Z) : bool :=
  list_eqb Z.eqb (map (typed_cat_cell cats) cells) observed.
