(* C10 — the CALL-level model of torch_frame.data.DataLoader.__init__: Python positional
   arguments and keyword dictionaries as they are, so that "a user-supplied collate_fn cannot
   replace the row-selection collation" and "shuffle over an empty source, given either way"
   are statements about dictionary manipulation as written, not facts true by construction.
   Definitions only.

     def __init__(self, dataset, *args, **kwargs):
         kwargs.pop('collate_fn', None)
         ... self.tensor_frame = ...
         if len(dataset) == 0:
             if kwargs.get('shuffle'): kwargs['shuffle'] = False
             elif len(args) >= 2 and args[1]: args = (args[0], False) + tuple(args[2:])
         super().__init__(range(len(dataset)), *args, collate_fn=self.collate_fn, **kwargs)

   torch.utils.data.DataLoader.__init__ (modelled): Python binds positional arguments to the
   parameter names in order, a name given twice (positionally and by keyword, or explicitly and
   through **kwargs) is a TypeError, as is an unknown keyword; then torch's documented checks. *)
From Coq Require Import String.
From Coq Require Import List Arith Bool.
From PF Require Import Lib.ListX Lib.Chunks Model.Loader.
Import ListNotations.

(* the Python values that occur as DataLoader arguments *)
Inductive pyval :=
| PNone
| PBool (b : bool)
| PNat (n : nat)
| PSampler (idx : list nat)                (* an iterable of row indices *)
| PBatchSampler (bss : list (list nat))    (* an iterable of index lists *)
| PCollate (tag : nat)                     (* a collate function; tag 0 = the loader's own self.collate_fn *)
| POpaque.                                 (* anything else torch only passes on (a Generator, ...) *)

Definition kwdict := list (string * pyval).

Fixpoint dict_get (k : string) (d : kwdict) : option pyval :=
  match d with
  | [] => None
  | (k', v) :: r => if String.eqb k k' then Some v else dict_get k r
  end.

(* d.pop(k, None) *)
Definition dict_pop (k : string) (d : kwdict) : kwdict :=
  filter (fun kv => negb (String.eqb k (fst kv))) d.

(* d[k] = v : replaces the value in place, or appends *)
Fixpoint dict_set (k : string) (v : pyval) (d : kwdict) : kwdict :=
  match d with
  | [] => [(k, v)]
  | (k', v') :: r => if String.eqb k k' then (k', v) :: r else (k', v') :: dict_set k v r
  end.

(* bool(x) *)
Definition truthy (v : pyval) : bool :=
  match v with
  | PNone => false
  | PBool b => b
  | PNat n => negb (n =? 0)
  | PSampler idx => negb (length idx =? 0)
  | PBatchSampler bss => negb (length bss =? 0)
  | PCollate _ | POpaque => true
  end.

Definition opt_truthy (o : option pyval) : bool := match o with Some v => truthy v | None => false end.

(* (args[0], False) + tuple(args[2:]) *)
Definition set_second_false (args : list pyval) : list pyval :=
  match args with
  | a0 :: _ :: r => a0 :: PBool false :: r
  | _ => args
  end.

(* parameter names of torch.utils.data.DataLoader.__init__ after `dataset`, in positional order
   (regenerated from the live signature by the harness and compared on every run) *)
Definition torch_params : list string :=
  ["batch_size"; "shuffle"; "sampler"; "batch_sampler"; "num_workers"; "collate_fn"; "pin_memory";
   "drop_last"; "timeout"; "worker_init_fn"; "multiprocessing_context"; "generator"]%string.

Definition torch_kwonly : list string :=
  ["prefetch_factor"; "persistent_workers"; "pin_memory_device"; "in_order"]%string.

Fixpoint bind_positional (names : list string) (args : list pyval) : option kwdict :=
  match args, names with
  | [], _ => Some []
  | a :: ar, nm :: nr => match bind_positional nr ar with Some d => Some ((nm, a) :: d) | None => None end
  | _ :: _, [] => None                     (* TypeError: too many positional arguments *)
  end.

Fixpoint has_dup (l : list string) : bool :=
  match l with
  | [] => false
  | x :: r => existsb (String.eqb x) r || has_dup r
  end.

(* the call f( *args, **kw ) of a function whose positional parameters are `names` and whose
   keyword-only parameters are `kwonly`: the bound arguments, or TypeError *)
Definition py_call (names kwonly : list string) (args : list pyval) (kw : kwdict) : option kwdict :=
  match bind_positional names args with
  | None => None
  | Some p =>
      let all := p ++ kw in
      if has_dup (map fst all) then None                                   (* multiple values for argument *)
      else if forallb (fun k => existsb (String.eqb k) (names ++ kwonly)) (map fst kw) then Some all
      else None                                                             (* unexpected keyword argument *)
  end.

Definition is_given (o : option pyval) : bool :=
  match o with None | Some PNone => false | Some _ => true end.

Section Call.
  Context {R DF : Type}.
  Variable convert : DF -> list R.
  Variable df_len : DF -> nat.

  (* torch's DataLoader.__init__ on bound arguments over a source of n rows; `order` is what
     RandomSampler would draw.  Result: the loader and the tag of the collate function in effect. *)
  Definition torch_loader_init (tf : list R) (n : nat) (b : kwdict) (order : list nat) : option (loader R * nat) :=
    let shuffle := opt_truthy (dict_get "shuffle" b) in
    let drop := opt_truthy (dict_get "drop_last" b) in
    let tag := match dict_get "collate_fn" b with Some (PCollate t) => Some t | Some _ => None | None => None end in
    match dict_get "batch_size" b with
    | Some (PNat 0) => None                                       (* ValueError *)
    | Some PNone | Some (PBool _) | Some (PSampler _) | Some (PBatchSampler _) | Some (PCollate _) | Some POpaque => None
    | bs_given =>
      let bs := match bs_given with Some (PNat k) => k | _ => 1 end in
      match tag with
      | None => None                                              (* torch's default_collate: outside this model *)
      | Some t =>
        let mk s := Some ({| ld_tensor_frame := tf; ld_n := n; ld_batch_size := bs;
                             ld_sampling := s; ld_drop_last := drop |}, t) in
        match dict_get "batch_sampler" b, dict_get "sampler" b with
        | Some (PBatchSampler bss), smp =>
            (* mutually exclusive with batch_size, shuffle, sampler, drop_last *)
            if negb (bs =? 1) || shuffle || is_given smp || drop then None else mk (BatchSampler bss)
        | Some PNone, Some (PSampler idx) | None, Some (PSampler idx) =>
            if shuffle then None else mk (Sampler idx)            (* sampler is mutually exclusive with shuffle *)
        | Some PNone, Some PNone | Some PNone, None | None, Some PNone | None, None =>
            if shuffle then (if n =? 0 then None                  (* RandomSampler: num_samples must be positive *)
                             else mk (Shuffled order))
            else mk Sequential
        | _, _ => None
        end
      end
    end.

  (* torch_frame.data.DataLoader.__init__ as written *)
  Definition loader_init_call (src : source R DF) (args : list pyval) (kwargs : kwdict) (order : list nat)
    : option (loader R * nat) :=
    let kwargs1 := dict_pop "collate_fn" kwargs in
    tfn <- match src with
           | SrcFrame tf => Some (tf, length tf)
           | SrcDataset ds =>
               tf <- ds_tensor_frame (ds_materialize convert ds) ;;
               Some (tf, ds_len df_len ds)
           end ;;
    let '(args2, kwargs2) :=
      if snd tfn =? 0 then
        if opt_truthy (dict_get "shuffle" kwargs1) then (args, dict_set "shuffle" (PBool false) kwargs1)
        else if (2 <=? length args) && truthy (nth 1 args PNone) then (set_second_false args, kwargs1)
        else (args, kwargs1)
      else (args, kwargs1) in
    b <- py_call torch_params torch_kwonly args2 (("collate_fn"%string, PCollate 0) :: kwargs2) ;;
    torch_loader_init (fst tfn) (snd tfn) b order.

  (* one epoch with the collate function in effect: tag 0 is self.collate_fn (row selection),
     any other tag is a user function *)
  Definition call_epoch (user : nat -> collate R) (ld : loader R) (tag : nat) : option (list (list R)) :=
    if tag =? 0 then loader_epoch ld else mapM (user tag) (loader_index_batches ld).
End Call.

(* ---- instance for the correspondence run: the harness ships the positional arguments and the
   keyword dictionary exactly as it passed them to the real class *)
Definition c10_call_run (src : source nat (list nat)) (args : list pyval) (kwargs : kwdict) (order : list nat)
  : option (list (list nat) * nat) :=
  lt <- loader_init_call (fun df => df) (@length nat) src args kwargs order ;;
  bs <- call_epoch (fun _ _ => Some [4999]) (fst lt) (snd lt) ;;
  Some (bs, loader_len (fst lt)).
