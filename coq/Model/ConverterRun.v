(* Boolean comparison of the model's output with the implementation's
   observation, used only by the per-run correspondence (harness/c01.py,
   harness/c02.py).  Definitions only. *)
From Coq Require Import ZArith List Bool Arith.
From PF Require Import Gen.Tables Lib.ListX Model.Ragged Model.Mapper Model.MapperSpec Model.Converter Model.DatasetInit.
Import ListNotations.
Local Open Scope nat_scope.

Definition num_eqb (a b : num) : bool :=
  match a, b with
  | NFin x, NFin y => (x =? y)%Z
  | NNaN, NNaN => true
  | NPosInf, NPosInf => true
  | NNegInf, NNegInf => true
  | _, _ => false
  end.
Definition scalar_eqb (a b : scalar) : bool :=
  match a, b with
  | SInt x, SInt y => (x =? y)%Z
  | SNum x, SNum y => num_eqb x y
  | _, _ => false
  end.
Fixpoint list_eqb {A} (e : A -> A -> bool) (a b : list A) : bool :=
  match a, b with
  | [], [] => true
  | x :: a', y :: b' => e x y && list_eqb e a' b'
  | _, _ => false
  end.
Definition ecell_eqb : ecell -> ecell -> bool := list_eqb scalar_eqb.
Definition cells_eqb : list ecell -> list ecell -> bool := list_eqb ecell_eqb.
Definition rows_eqb : list (list ecell) -> list (list ecell) -> bool := list_eqb cells_eqb.

Definition is_multi (c : rawcol) : bool := match c with RMulti _ _ _ _ => true | _ => false end.

(* the statement of Props/C01.v evaluated on one column: map canonical_cell *)
Definition spec_col (c : rawcol) : option (list ecell) :=
  match c with
  | RNum cells => Some (map canon_num cells)
  | RCat cats cells => Some (map (canon_cat cats) cells)
  | RMulti _ cats sep cells => mapM (canon_multi cats sep) cells
  | RSeq cells => mapM canon_seq cells
  | RTime cells => Some (map canon_time cells)
  | REmb cells => Some (map canon_vec cells)
  | RTextEmb rows => Some (map canon_vec rows)
  | RImageEmb rows => Some (map canon_vec rows)
  | RTok _ => None
  end.

(* C01: the mapper pipeline reproduces the implementation's cells (sets sorted),
   and so does the cell-by-cell canonical encoding *)
Definition check_col {L} (leqb : L -> L -> bool) (index : list L) (c : rawcol) (obs : list ecell) : bool :=
  match encode_col leqb index c with
  | Some (ECol cells) =>
      cells_eqb (if is_multi c then map sort_cell cells else cells) obs
      && match spec_col c with Some sp => cells_eqb sp obs | None => false end
  | _ => false
  end.

(* only the pipeline (used on the known-finding inputs, where the faithful
   pipeline and the implementation agree with each other but not with the spec) *)
Definition check_pipeline {L} (leqb : L -> L -> bool) (index : list L) (c : rawcol) (obs : list ecell) : bool :=
  match encode_col leqb index c with
  | Some (ECol cells) => cells_eqb (if is_multi c then map sort_cell cells else cells) obs
  | _ => false
  end.
Definition spec_differs (c : rawcol) (obs : list ecell) : bool :=
  match spec_col c with Some sp => negb (cells_eqb sp obs) | None => true end.

(* the model says the implementation raises on this column *)
Definition col_raises {L} (leqb : L -> L -> bool) (index : list L) (c : rawcol) : bool :=
  match encode_col leqb index c with None => true | Some _ => false end.

Definition unit_eqb (a b : unit) : bool := true.

(* ------------------------------------------------------------------------- *)
(* C02: the whole frame *)
Inductive obs_feat := OCols (rows : list (list ecell)) | ODict (d : list (str * list (list ecell))).
Record obs_tf := MkObs {
  o_rows : nat;
  o_names : sdict (list name);
  o_feats : sdict obs_feat;
  o_y : option (list scalar);
  o_emb_dims : list (name * nat) }.

Definition names_eqb : list name -> list name -> bool := list_eqb str_eqb.

Definition feat_matches (st : stype) (n : nat) (f : feat) (o : obs_feat) : bool :=
  let canon := if stype_eqb st st_multicategorical then map (map sort_cell) else (fun r => r) in
  match f, o with
  | FCols cols, OCols rows => rows_eqb (canon (rows_of n cols)) rows
  | FDict d, ODict od =>
      list_eqb (fun a b => str_eqb (fst a) (fst b) && rows_eqb (rows_of n (snd a)) (snd b)) d od
  | _, _ => false
  end.

Definition opt_eqb {A} (e : A -> A -> bool) (a b : option A) : bool :=
  match a, b with
  | None, None => true
  | Some x, Some y => e x y
  | _, _ => false
  end.

Definition check_obs (r : option tensor_frame) (o : obs_tf) : bool :=
  match r with
  | None => false
  | Some t =>
      forallb (fun st =>
                 opt_eqb names_eqb (sd_get (tf_names t) st) (sd_get (o_names o) st)
                 && match sd_get (tf_feats t) st, sd_get (o_feats o) st with
                    | None, None => true
                    | Some f, Some g => feat_matches st (o_rows o) f g
                    | _, _ => false
                    end) all_stype
      && (length (tf_names t) =? length (o_names o))
      && (length (tf_feats t) =? length (o_feats o))
      && match tf_y t, o_y o with
         | None, None => true
         | Some (ECol cells), Some ys => cells_eqb cells (map (fun s => [s]) ys)
         | _, _ => false
         end
      && (tf_num_rows (tf_feats t) =? o_rows o)
      && list_eqb (fun a b => str_eqb (fst a) (fst b) && (snd a =? snd b)) (update_emb_dims t) (o_emb_dims o)
  end.

Definition check_tf {L} (leqb : L -> L -> bool) (target : option name) (df : frame L) (o : obs_tf) : bool :=
  check_obs (convert leqb target df) o.

(* the k-th later call of the same converter object on the frame (k >= 1): the state left by the first call *)
Definition convert_again {L} (leqb : L -> L -> bool) (target : option name) (df : frame L) (k : nat)
  : option tensor_frame :=
  t <- convert leqb target df ;;
  frames <- converter_calls (encode_col leqb (f_index df)) target (f_cols df) k (tf_names t) ;;
  last_error frames.
Definition check_tf_again {L} (leqb : L -> L -> bool) (target : option name) (df : frame L) (k : nat) (o : obs_tf) : bool :=
  check_obs (convert_again leqb target df k) o.

(* raise / no raise of a conversion *)
Definition converts {L} (leqb : L -> L -> bool) (target : option name) (df : frame L) : bool :=
  match convert leqb target df with Some _ => true | None => false end.

Definition task_type_opt_eqb : option task_type -> option task_type -> bool := opt_eqb task_type_eqb.
Definition check_task (target : rawcol) (obs_task : option task_type) (obs_classes : option nat) : bool :=
  task_type_opt_eqb (task_type_of target) obs_task && opt_eqb Nat.eqb (num_classes target) obs_classes.

(* the witness of Props/C02.v column_perm_success_transfer_refuted, evaluated against /repo by harness/c02.py *)
Definition keyless_cols : list (name * rawcol) :=
  [([116%Z], RTok [[]; []]); ([120%Z], RNum [Some (NFin 8); Some (NFin 16)])].

(* Dataset.__init__: accept / reject, and the canonical separator / time-format dictionaries against the ones the
   real dataset holds (ds.col_to_sep, ds.col_to_time_format) *)
Definition init_accepts (a : ds_args) : bool := match dataset_init a with Some _ => true | None => false end.
Definition pat_matches (o : option (pat str)) (v : option str) : bool :=
  match o, v with
  | Some (PVal s), Some s' => str_eqb s s'
  | Some PNone, None => true
  | _, _ => false
  end.
Definition check_config (a : ds_args) (obs_sep obs_fmt : list (name * option str)) : bool :=
  match dataset_init a with
  | None => false
  | Some c =>
      forallb (fun e => pat_matches (pat_lookup (fst e) (c_sep c)) (snd e)) obs_sep
      && forallb (fun e => pat_matches (pat_lookup (fst e) (c_fmt c)) (snd e)) obs_fmt
      && (length (c_sep c) =? length obs_sep) && (length (c_fmt c) =? length obs_fmt)
  end.

(* Python's own cell.split(sep) / piece.strip() against the model's primitives, on every delimiter-joined cell *)
Definition check_split (s sep : str) (stripped_pieces : list str) : bool :=
  match py_split s sep with
  | Some ps => list_eqb str_eqb (map py_strip ps) stripped_pieces
  | None => false
  end.
