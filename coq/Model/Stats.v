(* Executable model of torch_frame/data/stats.py (StatType.compute, _flatten,
   _default_values, compute_col_stats) and of the statistics part of
   Dataset.materialize (binary-target re-sort of COUNT, _update_col_stats).
   Definitions only; lemmas are in Proofs/StatsProofs.v.

   Modelled primitives: numpy mean / std / quantile(linear) = the exact rational
   definitions of Lib/QStats.v; pandas value_counts = a RELATION
   (valid_count_order) that accepts whichever tie order pandas picked;
   to_datetime(errors='coerce') = a black box that turned every cell into
   NaT (None) or (epoch second, seven calendar components).
   Category values are integer ids (rank of the value in the sorted list of the
   column's distinct values), NaN results are None. *)
From Coq Require Import List Arith ZArith QArith Qabs Bool.
From PF Require Import Lib.ListX Lib.QStats Gen.Tables.
Import ListNotations.

(* ------------------------------------------------------------------ numbers *)
(* one float cell: finite / +inf / -inf / NaN (a missing cell of a float column is NaN) *)
Inductive num := NFin (q : Q) | NPosInf | NNegInf | NNaN.

(* ser.isnull() on a float cell *)
Definition num_isnull (x : num) : bool := match x with NNaN => true | _ => false end.
(* ser.mask(ser.isin([inf, -inf]), nan) *)
Definition mask_inf (ser : list num) : list num :=
  map (fun x => match x with NPosInf | NNegInf => NNaN | _ => x end) ser.
(* ser.dropna() *)
Definition num_dropna (ser : list num) : list num := filter (fun x => negb (num_isnull x)) ser.
(* flattened[np.isfinite(flattened)] *)
Definition finite_values (fl : list num) : list Q :=
  flat_map (fun x => match x with NFin q => [q] | _ => [] end) fl.

(* sums with eager normalisation (only to keep vm_compute fast; == qsum, see StatsProofs) *)
Definition qsum_r (l : list Q) : Q := fold_right (fun x a => Qred (x + a)) 0%Q l.
Definition mean_r (v : list Q) : Q := Qred (qsum_r v / qlen v).
Definition var_r (v : list Q) : Q :=
  let m := mean_r v in Qred (qsum_r (map (fun x => Qred ((x - m) * (x - m))) v) / qlen v).

(* StatType.MEAN / STD / QUANTILES .compute on the flattened array; None = NaN.
   STD is kept squared (population variance) so that everything stays rational. *)
Definition stat_mean (fl : list num) : option Q :=
  match finite_values fl with [] => None | v => Some (mean_r v) end.
Definition stat_var (fl : list num) : option Q :=
  match finite_values fl with [] => None | v => Some (var_r v) end.
Definition stat_quantiles (fl : list num) : list (option Q) :=
  match finite_values fl with
  | [] => [None; None; None; None; None]
  | v => map (fun q => Some (Qred q)) (five_quantiles v)
  end.

Record num_stats := { s_mean : option Q; s_var : option Q; s_quant : list (option Q) }.
(* _default_values[MEAN / STD / QUANTILES] *)
Definition default_num_stats : num_stats :=
  {| s_mean := None; s_var := None; s_quant := [None; None; None; None; None] |}.
Definition num_stats_of (fl : list num) : num_stats :=
  {| s_mean := stat_mean fl; s_var := stat_var fl; s_quant := stat_quantiles fl |}.

(* compute_col_stats(ser, numerical) *)
Definition compute_num (cells : list num) : num_stats :=
  let ser := mask_inf cells in
  if forallb num_isnull ser then default_num_stats
  else num_stats_of (num_dropna ser).

(* _flatten: np.hstack of the (non-missing) sequences *)
Definition flatten (ser : list (list num)) : list num := concat ser.
(* ser.dropna() on an object column: None = missing cell *)
Definition present {A} (ser : list (option A)) : list A :=
  flat_map (fun c => match c with Some x => [x] | None => [] end) ser.
Definition all_missing {A} (ser : list (option A)) : bool :=
  forallb (fun c => match c with None => true | Some _ => false end) ser.

(* compute_col_stats(ser, sequence_numerical): infinities are NOT masked here, they
   are removed by the isfinite mask inside each statistic *)
Definition compute_seq (cells : list (option (list num))) : num_stats :=
  if all_missing cells then default_num_stats
  else num_stats_of (flatten (present cells)).

(* --------------------------------------------------------------- categories *)
Definition count_occZ (l : list Z) (v : Z) : nat := length (filter (Z.eqb v) l).
Definition memZ (v : Z) (l : list Z) : bool := existsb (Z.eqb v) l.
Fixpoint nodupb (l : list Z) : bool :=
  match l with [] => true | x :: r => negb (memZ x r) && nodupb r end.
Fixpoint non_increasing (l : list nat) : bool :=
  match l with
  | x :: ((y :: _) as r) => (y <=? x)%nat && non_increasing r
  | _ => true
  end.
Fixpoint increasingZ (l : list Z) : bool :=
  match l with
  | x :: ((y :: _) as r) => (x <? y)%Z && increasingZ r
  | _ => true
  end.

(* what value_counts must return up to order: every distinct value once, with its exact count *)
Definition valid_counts (o : list (Z * nat)) (col : list Z) : bool :=
  nodupb (map fst o)
  && forallb (fun p => (count_occZ col (fst p) =? snd p)%nat && (0 <? snd p)%nat) o
  && forallb (fun v => memZ v (map fst o)) col.
(* value_counts(ascending=False): any order with non-increasing counts *)
Definition valid_count_order (o : list (Z * nat)) (col : list Z) : bool :=
  valid_counts o col && non_increasing (map snd o).

(* MULTI_COUNT: split_by_sep gives a SET per cell, explode + dropna + value_counts:
   each cell contributes each of its distinct tokens once *)
Fixpoint dedup (l : list Z) : list Z :=
  match l with [] => [] | x :: r => if memZ x r then dedup r else x :: dedup r end.
Definition multi_tokens (cells : list (option (list Z))) : list Z := flat_map dedup (present cells).

(* materialize: pd.Series(index=index, data=value).sort_index() when the target has two classes *)
Fixpoint insert_by_fst {B} (p : Z * B) (l : list (Z * B)) : list (Z * B) :=
  match l with
  | [] => [p]
  | q :: r => if (fst p <=? fst q)%Z then p :: l else q :: insert_by_fst p r
  end.
Definition sort_by_fst {B} (l : list (Z * B)) : list (Z * B) := fold_right insert_by_fst [] l.
Definition target_resort (o : list (Z * nat)) : list (Z * nat) :=
  if (length o =? 2)%nat then sort_by_fst o else o.
(* the order the statistics of a categorical TARGET must have *)
Definition valid_target_order (o : list (Z * nat)) (col : list Z) : bool :=
  valid_counts o col
  && (if (length o =? 2)%nat then increasingZ (map fst o) else non_increasing (map snd o)).

(* the category index space: position in the listed categories, -1 = missing / not listed *)
Fixpoint index_of (cats : list Z) (v : Z) : option nat :=
  match cats with
  | [] => None
  | c :: r => if Z.eqb c v then Some 0%nat else option_map S (index_of r v)
  end.
Definition encode_cat (cats : list Z) (cell : option Z) : Z :=
  match cell with
  | None => (-1)%Z
  | Some v => match index_of cats v with Some i => Z.of_nat i | None => (-1)%Z end
  end.
Fixpoint insertZ (x : Z) (l : list Z) : list Z :=
  match l with [] => [x] | y :: r => if (x <=? y)%Z then x :: l else y :: insertZ x r end.
Definition sortZ (l : list Z) : list Z := fold_right insertZ [] l.
(* a multicategorical cell as the sorted set of indices; missing cell = [-1]; unlisted tokens dropped *)
Definition encode_multi (cats : list Z) (cell : option (list Z)) : list Z :=
  match cell with
  | None => [(-1)%Z]
  | Some toks =>
      sortZ (flat_map (fun t => match index_of cats t with Some i => [Z.of_nat i] | None => [] end) (dedup toks))
  end.

(* --------------------------------------------------------------- timestamps *)
(* a parsed cell: (epoch second, [year; month-1; day-1; weekday; hour; minute; second]) *)
Notation tcell := (Z * list Z)%type (only parsing).
Record time_stats := { t_year_range : list Z; t_newest : list Z; t_oldest : list Z; t_median : list Z }.
Definition minus_ones (n : nat) : list Z := repeat (-1)%Z n.
(* _default_values[YEAR_RANGE / NEWEST_TIME / OLDEST_TIME / MEDIAN_TIME] *)
Definition default_time_stats : time_stats :=
  {| t_year_range := minus_ones 2; t_newest := minus_ones 7; t_oldest := minus_ones 7; t_median := minus_ones 7 |}.

Definition year_of (c : tcell) : option Z := nth_error (snd c) 0.
Definition zmin_list (x : Z) (l : list Z) : Z := fold_left Z.min l x.
Definition zmax_list (x : Z) (l : list Z) : Z := fold_left Z.max l x.
(* [min(ser.dt.year), max(ser.dt.year)]; ValueError on an empty series *)
Definition stat_year_range (ser : list tcell) : option (list Z) :=
  ys <- mapM year_of ser ;;
  match ys with [] => None | y :: r => Some [zmin_list y r; zmax_list y r] end.
(* ser.iloc[-1], ser.iloc[0], ser.iloc[len(ser) // 2] through TimestampTensorMapper.to_tensor *)
Definition stat_newest (ser : list tcell) : option (list Z) := option_map snd (last_error ser).
Definition stat_oldest (ser : list tcell) : option (list Z) := option_map snd (hd_error ser).
Definition stat_median (ser : list tcell) : option (list Z) := option_map snd (nth_error ser (length ser / 2)).

(* compute_col_stats(ser, timestamp): parse (black box), all-null test, sort_values, dropna *)
Definition compute_time (cells : list (option tcell)) : option time_stats :=
  if all_missing cells then Some default_time_stats
  else
    let ser := sort_by_fst (present cells) in
    yr <- stat_year_range ser ;;
    nw <- stat_newest ser ;;
    ol <- stat_oldest ser ;;
    md <- stat_median ser ;;
    Some {| t_year_range := yr; t_newest := nw; t_oldest := ol; t_median := md |}.

(* --------------------------------------------------------------- embeddings *)
(* StatType.EMB_DIM.compute: len(ser.iloc[0]); IndexError on an empty series *)
Definition stat_emb_dim {A} (ser : list (list A)) : option nat := option_map (@length A) (hd_error ser).
(* elementwise offset[1:] - offset[:-1] *)
Definition diffs (offs : list nat) : list nat := sub2 (tl offs) (removelast offs).
(* _update_col_stats: EMB_DIM of the i-th column of the (merged) embedding feature from its offsets *)
Definition update_emb_dims (offs : list nat) : list nat := diffs offs.
(* the offsets a MultiEmbeddingTensor of the given column widths carries *)
Definition emb_offsets (widths : list nat) : list nat := 0%nat :: cumsum widths.

(* which statistics the model produces per semantic type (compared with Gen.Tables.stats_for_stype) *)
Definition model_stats_for_stype (s : stype) : list stat_type :=
  match s with
  | st_numerical | st_sequence_numerical => [stat_MEAN; stat_STD; stat_QUANTILES]
  | st_categorical => [stat_COUNT]
  | st_multicategorical => [stat_MULTI_COUNT]
  | st_timestamp => [stat_YEAR_RANGE; stat_NEWEST_TIME; stat_OLDEST_TIME; stat_MEDIAN_TIME]
  | st_embedding => [stat_EMB_DIM]
  | _ => []
  end.

(* ------------------------------------------------- observations (harness side) *)
(* an observed IEEE double: exact value m * 2^e (|m| in [2^52, 2^53) or m = 0), or an infinity *)
Inductive dbl := DFin (m e : Z) | DInf.
Definition dbl_val (m e : Z) : Q := inject_Z m * Qpower 2 e.
Definition normalized (m : Z) : bool := (m =? 0)%Z || ((2 ^ 52 <=? Z.abs m)%Z && (Z.abs m <? 2 ^ 53)%Z).
(* the double nearest to q: |q - m 2^e| <= half an ulp *)
Definition nearest_double (q : Q) (m e : Z) : bool :=
  normalized m &&
  (if (m =? 0)%Z then Qeq_bool q 0 else Qle_bool (Qabs (q - dbl_val m e)) (Qpower 2 (e - 1))).
Definition mean_matches (q : option Q) (o : option dbl) : bool :=
  match q, o with
  | None, None => true
  | Some q, Some (DFin m e) => nearest_double q m e
  | _, _ => false
  end.
Definition quant_matches (q : option Q) (o : option dbl) : bool :=
  match q, o with
  | None, None => true
  | Some q, Some (DFin m e) => Qeq_bool q (dbl_val m e)
  | _, _ => false
  end.
(* relative tolerance on the variance for the one quantity that is genuinely rounded *)
Definition std_tol : Q := 1 # 1000000000000.
(* ... or, for ill-conditioned data (a tiny spread around a large magnitude), within the conditioning
   of the computation: |s - sigma| <= 8 ulps of the largest magnitude, i.e. (s-b)^2 <= v <= (s+b)^2 *)
Definition std_matches (maxabs : Q) (v : option Q) (o : option dbl) : bool :=
  match v, o with
  | None, None => true
  | Some v, Some (DFin m e) =>
      let s := dbl_val m e in
      Qle_bool 0 s &&
      (Qle_bool (Qabs (s * s - v)) (std_tol * v)
       || (let b := (8 # 4503599627370496) * maxabs in
           let lo := s - b in let hi := s + b in
           (Qle_bool lo 0 || Qle_bool (lo * lo) v) && Qle_bool v (hi * hi)))
  | _, _ => false
  end.
Definition qmaxabs (l : list Q) : Q := fold_right (fun x a => if Qle_bool a (Qabs x) then Qabs x else a) 0%Q l.
Fixpoint all2 {A B} (f : A -> B -> bool) (l : list A) (l' : list B) : bool :=
  match l, l' with
  | [], [] => true
  | x :: r, y :: r' => f x y && all2 f r r'
  | _, _ => false
  end.
Definition list_eqb {A} (e : A -> A -> bool) (l l' : list A) : bool := all2 e l l'.

Inductive column :=
| CNum (cells : list num)
| CSeq (cells : list (option (list num)))
| CCat (is_target : bool) (cells : list (option Z))
| CMulti (cells : list (option (list Z)))
| CTime (cells : list (option tcell))
| CEmb (cells : list (list Q))
| CEmbedded (widths : list nat).     (* text / image column embedded by a user callable: widths as materialized *)

Inductive observation :=
| ONum (mean std : option dbl) (quants : list (option dbl))
| OCount (o : list (Z * nat)) (tf_cells : list (list Z))
| OTime (year_range newest oldest median : list Z)
| OEmb (d : Z).

Definition num_stats_ok (maxabs : Q) (s : num_stats) (mean std : option dbl) (quants : list (option dbl)) : bool :=
  mean_matches (s_mean s) mean && std_matches maxabs (s_var s) std && all2 quant_matches (s_quant s) quants.
(* a column held in a reduced-precision float type (float32 / float16): numpy computes in that type, so only
   WHICH statistics are NaN is compared (the values are judged by the oracle within that type's precision) *)
Definition present_matches {A B} (a : option A) (b : option B) : bool :=
  match a, b with None, None | Some _, Some _ => true | _, _ => false end.
Definition num_shape_ok (s : num_stats) (mean std : option dbl) (quants : list (option dbl)) : bool :=
  present_matches (s_mean s) mean && present_matches (s_var s) std && all2 present_matches (s_quant s) quants.

Definition col_shape_ok (cells : list num) (m s : option dbl) (q : list (option dbl)) : bool :=
  num_shape_ok (compute_num cells) m s q.

(* model statistics of a column vs. what the implementation reported (and, for the
   category columns, how the materialized TensorFrame encoded every cell) *)
Definition col_stats_ok (c : column) (o : observation) : bool :=
  match c, o with
  | CNum cells, ONum m s q => num_stats_ok (qmaxabs (finite_values cells)) (compute_num cells) m s q
  | CSeq cells, ONum m s q => num_stats_ok (qmaxabs (finite_values (flatten (present cells)))) (compute_seq cells) m s q
  | CCat is_target cells, OCount o tf =>
      (if is_target then valid_target_order o (present cells) else valid_count_order o (present cells))
      && list_eqb (list_eqb Z.eqb) (map (fun c => [encode_cat (map fst o) c]) cells) tf
  | CMulti cells, OCount o tf =>
      valid_count_order o (multi_tokens cells)
      && list_eqb (list_eqb Z.eqb) (map (encode_multi (map fst o)) cells) tf
  | CTime cells, OTime yr nw ol md =>
      match compute_time cells with
      | Some t => list_eqb Z.eqb (t_year_range t) yr && list_eqb Z.eqb (t_newest t) nw
                  && list_eqb Z.eqb (t_oldest t) ol && list_eqb Z.eqb (t_median t) md
      | None => false
      end
  | CEmb cells, OEmb d =>
      match stat_emb_dim cells with Some w => (Z.of_nat w =? d)%Z | None => false end
  | CEmbedded widths, OEmb d => forallb (fun w => (Z.of_nat w =? d)%Z) widths
  | _, _ => false
  end.

(* `offs` is the offset tensor of the materialized (merged) embedding feature, `widths` the
   widths of its columns as read cell by cell, `dims` the EMB_DIM statistics in name order *)
Definition update_col_stats_ok (offs widths : list nat) (dims : list Z) : bool :=
  list_eqb Z.eqb (map Z.of_nat (update_emb_dims offs)) dims
  && list_eqb Nat.eqb offs (emb_offsets widths).

(* the binary-target re-sort evaluated on a frequency order: `o` is any valid frequency order of
   the column (built by the harness from the raw cells), the statistics must be its re-sort *)
Definition target_resort_ok (o : list (Z * nat)) (observed : list (Z * nat)) : bool :=
  list_eqb (fun a b => Z.eqb (fst a) (fst b) && Nat.eqb (snd a) (snd b)) (target_resort o) observed
  || negb (length o =? 2)%nat.

(* ------------------------------------------------------------------------- *)
(* The statistics store of a Dataset across a HISTORY (Dataset.materialize, step 1).
   `_col_stats` is one dict object: it survives a failed materialize (entries written before the
   raise stay), and copy.copy in col_select makes a column-selected dataset SHARE it with the
   dataset it was taken from.  A store is that dict; `compute c df` stands for
   compute_col_stats(df[c], ...) followed by the binary-target re-sort (None = it raises). *)
Section Store.
  Context {Frame Stat : Type}.
  Variable compute : String.string -> Frame -> option Stat.

  Definition store := list (String.string * Stat).
  Fixpoint slookup (s : store) (c : String.string) : option Stat :=
    match s with
    | [] => None
    | (c', v) :: r => if String.eqb c' c then Some v else slookup r c
    end.
  (* self._col_stats[c] = v *)
  Fixpoint sset (s : store) (c : String.string) (v : Stat) : store :=
    match s with
    | [] => [(c, v)]
    | (c', v') :: r => if String.eqb c' c then (c, v) :: r else (c', v') :: sset r c v
    end.

  (* for col, stype in self.col_to_stype.items(): self._col_stats[col] = compute_col_stats(...)
     -- in declaration order; a raise leaves what was written so far; true = the loop completed *)
  Fixpoint fill (cols : list String.string) (df : Frame) (s : store) : store * bool :=
    match cols with
    | [] => (s, true)
    | c :: r =>
        match compute c df with
        | None => (s, false)
        | Some v => fill r df (sset s c v)
        end
    end.

  (* one step of a history: a not yet materialized dataset object that shares the store -- the
     dataset itself or a column-selected copy declaring `cols` -- runs materialize on the frame
     `df` it holds at that moment (between steps the user may replace / edit the frame freely) *)
  Definition hop := (list String.string * Frame)%type.
  Fixpoint run_history (ops : list hop) (s : store) : store * list bool :=
    match ops with
    | [] => (s, [])
    | (cols, df) :: r =>
        let (s1, ok) := fill cols df s in
        let (s2, oks) := run_history r s1 in
        (s2, ok :: oks)
    end.
End Store.

(* correspondence form: frames are version numbers, a statistic is the version it was computed
   from; `table` lists the (column, version) pairs on which compute_col_stats raises *)
Definition history_ok (raises : list (String.string * nat)) (ops : list (list String.string * nat))
           (observed_flags : list bool) (final_cols : list String.string) (observed_versions : list Z) : bool :=
  let compute := fun c v => if existsb (fun p => String.eqb (fst p) c && Nat.eqb (snd p) v) raises
                            then None else Some (Z.of_nat v) in
  let (s, oks) := run_history compute ops [] in
  list_eqb Bool.eqb oks observed_flags
  && list_eqb Z.eqb (map (fun c => match slookup s c with Some v => v | None => (-1)%Z end) final_cols) observed_versions.

(* ------------------------------------------------------------------------- *)
(* MEAN of an INTEGER-backed column (StatType.MEAN.compute: np.mean(flattened[finite_mask])).
   numpy accumulates the mean of an integer array in float64, never in the array's own integer
   type: the model is the exact rational mean of the integers (float64 round-off of values beyond
   2^53 is not modelled; the correspondence allows 2^-48 of the largest magnitude).
   `wrapped_mean` is what `valid.sum() / valid.size` would give: the int64 sum wraps modulo 2^64. *)
Definition zsum (l : list Z) : Z := fold_right Z.add 0%Z l.
Definition int_mean (l : list Z) : Q := inject_Z (zsum l) / inject_Z (Z.of_nat (length l)).
Definition wrap64 (z : Z) : Z := ((z + 2 ^ 63) mod 2 ^ 64 - 2 ^ 63)%Z.
Definition in_int64 (z : Z) : Prop := (- 2 ^ 63 <= z < 2 ^ 63)%Z.
Definition wrapped_mean (l : list Z) : Q := inject_Z (wrap64 (zsum l)) / inject_Z (Z.of_nat (length l)).

(* observed double within 2^-48 of the largest magnitude of the exact value *)
Definition mean_close (q maxabs : Q) (o : option dbl) : bool :=
  match o with
  | Some (DFin m e) => Qle_bool (Qabs (dbl_val m e - q)) ((1 # 281474976710656) * maxabs)
  | _ => false
  end.
(* correspondence form for an integer-backed column (all cells present): the implementation's MEAN is
   the exact mean of the integers, and -- whenever the total leaves the int64 range -- NOT the wrapped one *)
Definition int_mean_ok (cells : list Z) (o : option dbl) : bool :=
  match cells with
  | [] => match o with None => true | Some _ => false end      (* no usable value: the NaN default *)
  | _ =>
  let maxabs := inject_Z (fold_right (fun z a => Z.max (Z.abs z) a) 0%Z cells) in
  mean_close (int_mean cells) maxabs o
  && ((Z.leb (- 2 ^ 63) (zsum cells) && Z.ltb (zsum cells) (2 ^ 63)) || negb (mean_close (wrapped_mean cells) maxabs o))
  end.
