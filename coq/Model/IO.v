(* Implementation-level model of
     torch_frame/utils/io.py        serialize_feat_dict, deserialize_feat_dict, save, load
     torch_frame/data/multi_tensor.py   _MultiTensor.to_dict, the keyword constructors Multi*Tensor( **d )
     torch_frame/data/tensor_frame.py   TensorFrame.__init__ / validate / num_rows
     torch_frame/data/dataset.py        Dataset.materialize(path=...), convert_to_tensor_frame
   one definition per Python function, mirroring the code as written.  A raised
   exception is None (or the `raised` flag of a step).  Definitions only.

   What is NOT modelled and enters as a parameter of the Section:
   * dense tensors are opaque values (`tensor`); only their rank and sizes are
     consulted (`tdim`, `tsize`), as TensorFrame.validate does;
   * the validate() methods of MultiNestedTensor / MultiEmbeddingTensor
     (`valid_nested`, `valid_embed`: C05 owns their meaning);
   * torch.save / torch.load: an opaque pair `enc` / `dec` on the pickled payload.
     The zip/pickle byte format is torch's; nothing here says anything about it
     except through the two hypotheses stated in Proofs/IOProofs.v and Props/C11.v;
   * the fresh computation of materialize (statistics -- computed from the
     DataFrame, or the ones SUPPLIED through `col_stats=`, which is part of the
     configuration fixed along a history --, converter call, _update_col_stats)
     is the value `fresh`; both ways of obtaining the statistics continue with
     the same steps 2-4 and the same `save` when a path is given; the converter is the function `conv`
     of the statistics dict it holds a reference to (its other arguments are the
     Dataset's configuration, fixed along a history). *)
From Coq Require Import List Arith Bool String.
From PF Require Import Lib.ListX Gen.Tables.
Import ListNotations.
Set Implicit Arguments.

Section IO.
  Variable tensor : Type.
  Variable tdim : tensor -> nat.                (* t.dim() *)
  Variable tsize : tensor -> nat -> nat.        (* t.size(d) for d < t.dim() *)
  Variable valid_nested : nat -> nat -> tensor -> tensor -> bool.   (* MultiNestedTensor.validate *)
  Variable valid_embed : nat -> nat -> tensor -> tensor -> bool.    (* MultiEmbeddingTensor.validate *)
  Variable stats : Type.                        (* col_stats: passed through untouched by io.py *)

  (* ---------------------------------------------------------------- *)
  (* _MultiTensor: the four attributes *)
  Record multi := MkMulti { m_rows : nat; m_cols : nat; m_values : tensor; m_offset : tensor }.

  (* TensorData, tagged by its Python class *)
  Inductive feat :=
  | FTensor (t : tensor)                         (* torch.Tensor *)
  | FNested (m : multi)                          (* MultiNestedTensor *)
  | FEmbed (m : multi)                           (* MultiEmbeddingTensor *)
  | FDict (d : list (string * multi)).           (* dict[str, MultiNestedTensor] *)

  (* what serialize_feat_dict produces ("Any"): ints, tensors, str-keyed dicts *)
  Inductive ser :=
  | SInt (n : nat)
  | STensor (t : tensor)
  | SDict (d : list (string * ser)).

  (* Python dicts are association lists in insertion order with unique keys *)
  Fixpoint lookup {K V : Type} (eqb : K -> K -> bool) (k : K) (d : list (K * V)) : option V :=
    match d with
    | [] => None
    | (k', v) :: r => if eqb k k' then Some v else lookup eqb k r
    end.

  (* _MultiTensor.to_dict *)
  Definition to_dict (m : multi) : ser :=
    SDict [("num_rows"%string, SInt (m_rows m)); ("num_cols"%string, SInt (m_cols m));
           ("values"%string, STensor (m_values m)); ("offset"%string, STensor (m_offset m))].

  (* cls( **d ): every parameter of __init__(num_rows, num_cols, values, offset)
     must be present and nothing else (TypeError otherwise), then validate().
     (Python would accept ill-typed values here and fail later; the model
     refuses them at once -- serialize never produces them.) *)
  Definition multi_kwargs (valid : nat -> nat -> tensor -> tensor -> bool) (s : ser) : option multi :=
    match s with
    | SDict d =>
        match lookup String.eqb "num_rows"%string d, lookup String.eqb "num_cols"%string d,
              lookup String.eqb "values"%string d, lookup String.eqb "offset"%string d with
        | Some (SInt r), Some (SInt c), Some (STensor v), Some (STensor o) =>
            if (List.length d =? 4) && valid r c v o then Some (MkMulti r c v o) else None
        | _, _, _, _ => None
        end
    | _ => None
    end.

  (* serialize_feat_dict, one (stype, feat) item; the asserts are None *)
  Definition serialize_feat (st : stype) (f : feat) : option ser :=
    if use_multi_tensor st then
      match f with                                   (* assert isinstance(feat, _MultiTensor) *)
      | FNested m | FEmbed m => Some (to_dict m)
      | _ => None
      end
    else if use_dict_nested st then
      match f with                                   (* assert isinstance(feat, dict) *)
      | FDict d => Some (SDict (map (fun p => (fst p, to_dict (snd p))) d))
      | _ => None
      end
    else
      match f with                                   (* assert isinstance(feat, Tensor) *)
      | FTensor t => Some (STensor t)
      | _ => None
      end.

  Definition serialize_feat_dict (fd : list (stype * feat)) : option (list (stype * ser)) :=
    mapM (fun p => s <- serialize_feat (fst p) (snd p) ;; Some (fst p, s)) fd.

  (* deserialize_feat_dict, one item *)
  Definition deserialize_feat (st : stype) (s : ser) : option feat :=
    if use_multi_nested st then option_map FNested (multi_kwargs valid_nested s)
    else if use_multi_embedding st then option_map FEmbed (multi_kwargs valid_embed s)
    else if use_dict_nested st then
      match s with
      | SDict d =>
          option_map FDict
            (mapM (fun p => m <- multi_kwargs valid_nested (snd p) ;; Some (fst p, m)) d)
      | _ => None                                   (* .items() of a non-dict *)
      end
    else
      match s with                                   (* assert isinstance(feat_serialized, Tensor) *)
      | STensor t => Some (FTensor t)
      | _ => None
      end.

  Definition deserialize_feat_dict (sd : list (stype * ser)) : option (list (stype * feat)) :=
    mapM (fun p => f <- deserialize_feat (fst p) (snd p) ;; Some (fst p, f)) sd.

  (* ---------------------------------------------------------------- *)
  (* TensorFrame *)
  Record tframe := MkTF {
    tf_feat : list (stype * feat);                (* feat_dict *)
    tf_names : list (stype * list string);        (* col_names_dict *)
    tf_y : option tensor;
    tf_num_rows : option nat                      (* the optional num_rows argument (_num_rows) *)
  }.

  (* the tensors validate() looks at: the dict's values or the feature itself *)
  Definition feat_sizes (f : feat) : list (nat * nat * nat) :=   (* (dim, size(0), size(1)) *)
    match f with
    | FTensor t => [(tdim t, tsize t 0, tsize t 1)]
    | FNested m | FEmbed m => [(3, m_rows m, m_cols m)]          (* _MultiTensor.ndim = 3 *)
    | FDict d => map (fun p => (3, m_rows (snd p), m_cols (snd p))) d
    end.

  (* TensorFrame.num_rows *)
  Definition num_rows (t : tframe) : option nat :=
    match tf_num_rows t with
    | Some n => Some n
    | None =>
        match tf_feat t with
        | [] => Some 0                                            (* is_empty *)
        | (_, f) :: _ =>
            match feat_sizes f with
            | (_, r, _) :: _ => Some r
            | [] => None                                          (* next(iter({})) : StopIteration *)
            end
        end
    end.

  Definition keys {K V} (d : list (K * V)) : list K := map fst d.
  Definition subset (a b : list stype) : bool :=
    forallb (fun x => existsb (stype_eqb x) b) a.

  (* TensorFrame.validate, as written; every raise is false *)
  Definition tf_validate (t : tframe) : bool :=
    (* feat_dict.keys() != col_names_dict.keys()  (set comparison of key views) *)
    subset (keys (tf_feat t)) (keys (tf_names t)) && subset (keys (tf_names t)) (keys (tf_feat t)) &&
    match num_rows t with
    | None => false
    | Some n =>
        forallb (fun p =>
          match lookup stype_eqb (fst p) (tf_names t) with
          | None => false
          | Some names =>
              let nc := List.length names in
              negb (nc =? 0) &&                                   (* empty_stypes -> RuntimeError *)
              forallb (fun s => match s with (d, r, c) => (2 <=? d) && (nc =? c) && (r =? n) end)
                      (feat_sizes (snd p))
          end) (tf_feat t) &&
        match tf_y t with
        | None => true
        | Some y => tsize y 0 =? n                                (* len(self.y) != num_rows *)
        end
    end.

  (* TensorFrame(feat_dict=..., col_names_dict=..., y=..., num_rows=...) *)
  Definition mk_tframe (fd : list (stype * feat)) (names : list (stype * list string)) (y : option tensor)
    (nr : option nat) : option tframe :=
    let t := MkTF fd names y nr in
    if tf_validate t then Some t else None.

  (* ---------------------------------------------------------------- *)
  (* Well-formedness, i.e. what the library's own constructors guarantee of the
     objects it produces (the quantifier of C11).  Stated from the documentation
     of the storage flags in _stype.py -- NOT from the branch order of io.py:
     a feature stored in class X is legal under a stype iff the stype's flag for
     X is set; a plain Tensor iff no flag is set. *)
  Definition multi_ok (valid : nat -> nat -> tensor -> tensor -> bool) (m : multi) : Prop :=
    valid (m_rows m) (m_cols m) (m_values m) (m_offset m) = true.   (* it passed validate() *)

  Definition feat_wf (st : stype) (f : feat) : Prop :=
    match f with
    | FTensor _ => use_multi_nested st = false /\ use_multi_embedding st = false /\ use_dict_nested st = false
    | FNested m => use_multi_nested st = true /\ multi_ok valid_nested m
    | FEmbed m => use_multi_embedding st = true /\ multi_ok valid_embed m
    | FDict d => use_dict_nested st = true /\ Forall (fun p => multi_ok valid_nested (snd p)) d
    end.

  Definition feat_dict_wf (fd : list (stype * feat)) : Prop :=
    Forall (fun p => feat_wf (fst p) (snd p)) fd.

  (* a TensorFrame that exists at run time: it passed its constructor's
     validate() and its features are well-formed.  An explicitly given num_rows
     (frames without features) is allowed. *)
  Definition tframe_wf (t : tframe) : Prop :=
    feat_dict_wf (tf_feat t) /\ tf_validate t = true.

  (* the same, as a decision procedure (evaluated on every frame the harness
     draws from the library, so that the hypothesis of the round-trip theorems
     is checked against what the library really produces) *)
  Definition multi_okb (valid : nat -> nat -> tensor -> tensor -> bool) (m : multi) : bool :=
    valid (m_rows m) (m_cols m) (m_values m) (m_offset m).
  Definition feat_wfb (st : stype) (f : feat) : bool :=
    match f with
    | FTensor _ => negb (use_multi_nested st) && negb (use_multi_embedding st) && negb (use_dict_nested st)
    | FNested m => use_multi_nested st && multi_okb valid_nested m
    | FEmbed m => use_multi_embedding st && multi_okb valid_embed m
    | FDict d => use_dict_nested st && forallb (fun p => multi_okb valid_nested (snd p)) d
    end.
  Definition tframe_wfb (t : tframe) : bool :=
    forallb (fun p => feat_wfb (fst p) (snd p)) (tf_feat t) && tf_validate t.

  (* ---------------------------------------------------------------- *)
  (* save / load around torch.save / torch.load *)
  Record tf_dict := MkTD {
    d_y : option tensor;
    d_names : list (stype * list string);
    d_ser : list (stype * ser);
    d_num_rows : option nat                       (* 'num_rows': tensor_frame._num_rows *)
  }.
  Definition payload : Type := tf_dict * stats.   (* the tuple handed to torch.save *)

  Variable byte : Type.
  Variable enc : payload -> list byte.            (* torch.save: the file's bytes *)
  Variable dec : list byte -> option payload.     (* torch.load: None = raises *)

  (* torch_frame.save(tensor_frame, col_stats, path): the bytes written *)
  Definition save_payload (t : tframe) (cs : stats) : option payload :=
    s <- serialize_feat_dict (tf_feat t) ;;
    Some (MkTD (tf_y t) (tf_names t) s (tf_num_rows t), cs).
  Definition save (t : tframe) (cs : stats) : option (list byte) :=
    option_map enc (save_payload t cs).

  (* torch_frame.load(path) with device=None (`.to(None)` is the identity):
     pop 'feat_serialized_dict', deserialize, TensorFrame( **tf_dict ) *)
  Definition load (b : list byte) : option (tframe * stats) :=
    p <- dec b ;;
    fd <- deserialize_feat_dict (d_ser (fst p)) ;;
    t <- mk_tframe fd (d_names (fst p)) (d_y (fst p)) (d_num_rows (fst p)) ;;
    Some (t, snd p).

  (* ---------------------------------------------------------------- *)
  (* Dataset.materialize(path) as a state machine over one cache path *)
  Variable rows : Type.                           (* a DataFrame handed to the converter *)
  Variable cout : Type.                           (* what the converter returns for it *)
  Variable conv : stats -> rows -> option cout.   (* DataFrameToTensorFrameConverter(col_stats=...)(df) *)
  Variable fresh : tframe * stats.                (* steps 1-3 of materialize on this dataset's df *)

  (* the Dataset object: _is_materialized, _tensor_frame, _col_stats, and the
     statistics dict _to_tensor_frame_converter was built around *)
  Record dataset := MkDs {
    ds_mat : bool;
    ds_tf : option tframe;
    ds_stats : option stats;
    ds_conv : option stats
  }.
  Definition new_dataset : dataset := MkDs false None None None.

  (* the world: the file at the cache path (None = absent; any byte string,
     complete or cut short, otherwise) and the live Dataset object *)
  Record world := MkW { fs : option (list byte); cur : dataset }.

  Definition isfile (w : world) : bool := match fs w with Some _ => true | None => false end.

  (* what a torch.save leaves behind when the process dies after k bytes *)
  Definition written (cut : option nat) (b : list byte) : list byte :=
    match cut with None => b | Some k => firstn k b end.

  (* Dataset.materialize(path=...) ; with_path = (path is not None) ;
     returns the new world and whether the call raised *)
  Definition materialize (cut : option nat) (w : world) (with_path : bool) : world * bool :=
    let ds := cur w in
    if ds_mat ds then
      (* materialized earlier without a path, now with one: write the file if absent *)
      if with_path && negb (isfile w) then
        match ds_tf ds, ds_stats ds with
        | Some t, Some cs =>
            match save t cs with
            | Some b => (MkW (Some (written cut b)) ds, false)
            | None => (w, true)
            end
        | _, _ => (w, true)
        end
      else (w, false)
    else if with_path && isfile w then
      (* load tensor_frame and col_stats, instantiate the converter, mark materialized *)
      match fs w with
      | Some b =>
          match load b with
          | Some (t, cs) => (MkW (fs w) (MkDs true (Some t) (Some cs) (Some cs)), false)
          | None => (w, true)                      (* torch_frame.load raised: nothing assigned *)
          end
      | None => (w, true)
      end
    else
      (* 1.-4.: statistics, converter, tensor frame, _update_col_stats, mark *)
      let ds' := MkDs true (Some (fst fresh)) (Some (snd fresh)) (Some (snd fresh)) in
      if with_path then
        match save (fst fresh) (snd fresh) with
        | Some b => (MkW (Some (written cut b)) ds', false)
        | None => (MkW (fs w) ds', true)
        end
      else (MkW (fs w) ds', false).

  Inductive event :=
  | Materialize (with_path : bool)                (* cur.materialize(path or None) *)
  | CrashDuringSave (k : nat)                     (* cur.materialize(path); the process dies k bytes into the save *)
  | NewDatasetMaterialize (with_path : bool)      (* Dataset(df, ...).materialize(path or None) *)
  | Convert (r : rows).                           (* cur.convert_to_tensor_frame(df') *)

  Inductive obs :=
  | ORaise
  | OMat (t : tframe) (cs : stats)                (* .tensor_frame, .col_stats after the call *)
  | OConv (c : cout)
  | OCrash.

  Definition mat_obs (r : world * bool) : obs :=
    if snd r then ORaise
    else match ds_tf (cur (fst r)), ds_stats (cur (fst r)) with
         | Some t, Some cs => OMat t cs
         | _, _ => ORaise
         end.

  Definition step (w : world) (e : event) : world * obs :=
    match e with
    | Materialize p => let r := materialize None w p in (fst r, mat_obs r)
    | NewDatasetMaterialize p =>
        let r := materialize None (MkW (fs w) new_dataset) p in (fst r, mat_obs r)
    | CrashDuringSave k =>
        let r := materialize (Some k) w true in
        (MkW (fs (fst r)) new_dataset, OCrash)   (* the object dies with the process *)
    | Convert r =>
        (* requires_post_materialization, then the converter *)
        if ds_mat (cur w) then
          match ds_conv (cur w) with
          | Some cs => match conv cs r with Some c => (w, OConv c) | None => (w, ORaise) end
          | None => (w, ORaise)
          end
        else (w, ORaise)
    end.

  Fixpoint run (w : world) (h : list event) : world * list obs :=
    match h with
    | [] => (w, [])
    | e :: r =>
        let s := step w e in
        let t := run (fst s) r in
        (fst t, snd s :: snd t)
    end.

  Definition init : world := MkW None new_dataset.

  (* ---------------------------------------------------------------- *)
  (* vocabulary of the history theorems *)
  Definition is_materialize (e : event) : bool :=
    match e with Materialize _ | NewDatasetMaterialize _ => true | _ => false end.
  Definition crash_free (h : list event) : Prop :=
    Forall (fun e => match e with CrashDuringSave _ => False | _ => True end) h.
  (* the converter's answer, as an observation *)
  Definition conv_obs (cs : stats) (r : rows) : obs :=
    match conv cs r with Some c => OConv c | None => ORaise end.
  (* an observation that is never partial data: a raise, or exactly the fresh
     computation, or exactly what the fresh statistics' converter returns *)
  Definition complete_or_raise (e : event) (o : obs) : Prop :=
    match e with
    | Materialize _ | NewDatasetMaterialize _ => o = ORaise \/ o = OMat (fst fresh) (snd fresh)
    | Convert r => o = ORaise \/ o = conv_obs (snd fresh) r
    | CrashDuringSave _ => o = OCrash
    end.
End IO.
