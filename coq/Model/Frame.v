(* Implementation-level model of torch_frame/data/tensor_frame.py and
   torch_frame/utils/concat.py (C07, C08).  One definition per Python
   function/method, mirroring the code as written.  A raised exception is None.
   Definitions only; lemmas live in Proofs/FrameProofs.v.

   Storage kinds of feat_dict values:
     FDense  - a torch.Tensor of shape (n, ncols, *inner): rows flattened to
               ncols*inner scalars each (numerical, categorical: inner = 1;
               timestamp: inner = 7 in the library, any width here)
     FNested - MultiNestedTensor          (Model/Ragged.v)
     FEmb    - MultiEmbeddingTensor       (Model/Ragged.v)
     FDict   - dict[str, MultiNestedTensor] in insertion order (text_tokenized)
   Python dicts are association lists in insertion order with distinct keys. *)
From Coq Require Import String ZArith List Bool Arith.
From PF Require Import Lib.ListX Lib.PySlice Model.Ragged Model.RaggedRun Gen.Tables.
Import ListNotations.

Inductive feat :=
| FDense (rows : list (list payload)) (ncols inner : nat)
| FNested (t : mnt payload)
| FEmb (t : met payload)
| FDict (d : list (string * mnt payload)).

Record tframe := MkTF {
  feats : list (stype * feat);              (* feat_dict *)
  names : list (stype * list string);       (* col_names_dict *)
  y : option (list payload);                (* 1-D target tensor or None *)
  num_rows_override : option nat;           (* _num_rows *)
}.

(* ------------------------------------------------------------------ *)
(* dict helpers *)
Section Assoc.
  Context {K V : Type}.
  Variable keqb : K -> K -> bool.

  (* d[k] : KeyError = None *)
  Fixpoint alookup (k : K) (d : list (K * V)) : option V :=
    match d with
    | [] => None
    | (k', v) :: r => if keqb k k' then Some v else alookup k r
    end.

  (* d[k] = v : overwrite in place, or append *)
  Fixpoint aset (k : K) (v : V) (d : list (K * V)) : list (K * V) :=
    match d with
    | [] => [(k, v)]
    | (k', v') :: r => if keqb k k' then (k', v) :: r else (k', v') :: aset k v r
    end.

  Definition amem (k : K) (ks : list K) : bool := existsb (keqb k) ks.

  (* a.keys() == b.keys() : set comparison *)
  Definition keys_eqb (a b : list K) : bool :=
    (length a =? length b) && forallb (fun k => amem k b) a && forallb (fun k => amem k a) b.

  (* a == b for dicts: same key set, equal values *)
  Definition dict_eqb (veqb : V -> V -> bool) (a b : list (K * V)) : bool :=
    (length a =? length b)
    && forallb (fun kv => match alookup (fst kv) b with Some v => veqb (snd kv) v | None => false end) a.
End Assoc.

(* defaultdict(list): d[k].extend(ws)   (d[k].append(w) is d[k].extend([w])) *)
Definition dict_extend {K W} (keqb : K -> K -> bool) (d : list (K * list W)) (k : K) (ws : list W)
  : list (K * list W) :=
  match alookup keqb k d with
  | Some l => aset keqb k (l ++ ws) d
  | None => d ++ [(k, ws)]
  end.

Definition names_eqb : list (stype * list string) -> list (stype * list string) -> bool :=
  dict_eqb stype_eqb (list_eqb String.eqb).

(* ------------------------------------------------------------------ *)
(* Modelled primitive: torch indexing x[index] along dimension 0 of a tensor
   with n rows that holds at least one element per row: the positions are those
   of the same index on a Python list of n rows -- slices clamp, a non-positive
   step raises, out-of-range list / range / tensor entries raise, negative
   entries wrap once, a boolean mask needs length n.  (Validated against torch
   by the C07 harness on every run.) *)
Definition torch_positions (n : nat) (ix : index) : option (list nat) := py_positions n ix.

(* dense x[index]; an int index never reaches a tensor (__getitem__ wraps it
   into a list first) and would drop a dimension, which feat cannot express *)
Definition dense_index {X} (rows : list X) (ix : index) : option (list X) :=
  match ix with
  | IInt _ => None
  | _ => pos <- torch_positions (length rows) ix ;; tgather rows pos
  end.

(* fn(x) of __getitem__: x[index], for a dict every value *)
Definition feat_index (f : feat) (ix : index) : option feat :=
  match f with
  | FDense rows c k => rows' <- dense_index rows ix ;; Some (FDense rows' c k)
  | FNested t => option_map FNested (select _ _ (mnt_kernels payload) t ix 0)
  | FEmb t => option_map FEmb (select _ _ (met_kernels payload) t ix 0)
  | FDict d =>
      option_map FDict
        (mapM (fun kv => option_map (pair (fst kv)) (select _ _ (mnt_kernels payload) (snd kv) ix 0)) d)
  end.

(* len(feat) *)
Definition feat_len (f : feat) : option nat :=
  match f with
  | FDense rows _ _ => Some (length rows)
  | FNested t => Some (nr t)
  | FEmb t => Some (er t)
  | FDict d => match d with [] => None (* next(iter({}.values())): StopIteration *) | kv :: _ => Some (nr (snd kv)) end
  end.

(* TensorFrame.num_rows *)
Definition tf_num_rows (f : tframe) : option nat :=
  match num_rows_override f with
  | Some n => Some n
  | None => match feats f with [] => Some 0 | sx :: _ => feat_len (snd sx) end
  end.

(* (size(0), size(1)) of every tensor of a feature *)
Definition feat_shapes (f : feat) : list (nat * nat) :=
  match f with
  | FDense rows c _ => [(length rows, c)]
  | FNested t => [(nr t, nc t)]
  | FEmb t => [(er t, ec t)]
  | FDict d => map (fun kv => (nr (snd kv), nc (snd kv))) d
  end.

(* TensorFrame.validate(): True = passes, False = raises *)
Definition tf_validate (f : tframe) : bool :=
  keys_eqb stype_eqb (map fst (feats f)) (map fst (names f))
  && match tf_num_rows f with
     | None => false
     | Some n =>
         forallb (fun sx =>
                    match alookup stype_eqb (fst sx) (names f) with
                    | None => false
                    | Some cn => forallb (fun rc => (length cn =? snd rc) && (fst rc =? n)) (feat_shapes (snd sx))
                    end) (feats f)
         && forallb (fun sx => match alookup stype_eqb (fst sx) (names f) with
                               | Some cn => negb (length cn =? 0) | None => false end) (feats f)
         && match y f with None => true | Some v => length v =? n end
     end.

(* TensorFrame(feat_dict, col_names_dict, y, num_rows) *)
Definition tf_mk (fs : list (stype * feat)) (nm : list (stype * list string)) (yy : option (list payload))
           (ov : option nat) : option tframe :=
  let f := MkTF fs nm yy ov in if tf_validate f then Some f else None.

(* TensorFrame.__getitem__(index): int -> [int]; _apply(fn) on every feature
   and on y; with an explicit _num_rows the new count is dummy[index].size(0)
   for dummy = torch.empty((num_rows, 1)) (one column, so that torch checks the bounds) *)
Definition tf_getitem (f : tframe) (ix : index) : option tframe :=
  let ix' := match ix with IInt i => IList [i] | _ => ix end in
  fs <- mapM (fun sx => option_map (pair (fst sx)) (feat_index (snd sx) ix')) (feats f) ;;
  yy <- match y f with
        | None => Some None
        | Some v => option_map Some (dense_index v ix')
        end ;;
  ov <- match num_rows_override f with
        | None => Some None
        | Some n => option_map (fun pos => Some (length pos)) (dense_index (seq 0 n) ix')
        end ;;
  Some (MkTF fs (names f) yy ov).

(* a chain tf[i1][i2]...[ik] *)
Fixpoint tf_getitem_chain (f : tframe) (p : list index) : option tframe :=
  match p with
  | [] => Some f
  | ix :: rest => f' <- tf_getitem f ix ;; tf_getitem_chain f' rest
  end.

(* ------------------------------------------------------------------ *)
(* _col_to_stype_idx built by __init__: later assignments overwrite earlier ones *)
Definition col_to_stype_idx (nm : list (stype * list string)) : list (string * (stype * nat)) :=
  fold_left (fun acc sc =>
               fold_left (fun acc' ic => aset String.eqb (snd ic) (fst sc, fst ic) acc')
                         (combine (seq 0 (length (snd sc))) (snd sc)) acc)
            nm [].

(* feat[:, idx] on a ragged container: __getitem__((slice(None), idx)) *)
Definition mnt_col (t : mnt payload) (idx : nat) : option (mnt payload) :=
  match getitem_pair _ _ (mnt_kernels payload) t (ISlice None None None) (IInt (Z.of_nat idx)) with
  | Some (ItemTensor _ _ t') => Some t'
  | _ => None
  end.
Definition met_col (t : met payload) (idx : nat) : option (met payload) :=
  match getitem_pair _ _ (met_kernels payload) t (ISlice None None None) (IInt (Z.of_nat idx)) with
  | Some (ItemTensor _ _ t') => Some t'
  | _ => None
  end.

(* TensorFrame.get_col_feat(col_name, return_stype=True) *)
Definition tf_get_col_feat (f : tframe) (name : string) : option (feat * stype) :=
  si <- alookup String.eqb name (col_to_stype_idx (names f)) ;;
  x <- alookup stype_eqb (fst si) (feats f) ;;
  let idx := snd si in
  out <- match x with
         | FDict d => option_map FDict (mapM (fun kv => option_map (pair (fst kv)) (mnt_col (snd kv) idx)) d)
         | FNested t => option_map FNested (mnt_col t idx)
         | FEmb t => option_map FEmb (met_col t idx)
         | FDense rows c k =>
             (* feat[:, idx].unsqueeze(1) : IndexError unless idx < ncols *)
             if idx <? c then Some (FDense (map (fun r => tslice r (idx * k) ((idx + 1) * k)) rows) 1 k) else None
         end ;;
  Some (out, fst si).

(* ------------------------------------------------------------------ *)
(* __eq__ *)
Section Eq.
  (* torch.allclose on one pair of finite scalars (modelled primitive; on the
     harness grid -- multiples of 1/8, |x| < 1000 -- it is equality) *)
  Variable close : Z -> Z -> bool.

  Definition pclose (equal_nan : bool) (a b : payload) : bool :=
    match a, b with
    | Some u, Some v => close u v
    | None, None => equal_nan
    | _, _ => false
    end.

  (* _MultiTensor.allclose: shape, values.shape, values, offset.shape, offset *)
  Definition mnt_allclose (equal_nan : bool) (a b : mnt payload) : bool :=
    (nr a =? nr b) && (nc a =? nc b)
    && (length (vals a) =? length (vals b)) && list_eqb (pclose equal_nan) (vals a) (vals b)
    && (length (offs a) =? length (offs b)) && list_eqb Nat.eqb (offs a) (offs b).
  Definition met_allclose (equal_nan : bool) (a b : met payload) : bool :=
    (er a =? er b) && (ec a =? ec b)
    && (length (t2rows (evals a)) =? length (t2rows (evals b))) && (t2w (evals a) =? t2w (evals b))
    && list_eqb (list_eqb (pclose equal_nan)) (t2rows (evals a)) (t2rows (evals b))
    && (length (eoffs a) =? length (eoffs b)) && list_eqb Nat.eqb (eoffs a) (eoffs b).

  (* one iteration of the feat_dict loop: Some true = continue, Some false = return False *)
  Definition feat_eq (a b : feat) : bool :=
    match a, b with
    | FDense ra ca ka, FDense rb cb kb =>
        (length ra =? length rb) && (ca =? cb) && (ka =? kb) && list_eqb (list_eqb (pclose true)) ra rb
    | FNested ta, FNested tb => mnt_allclose true ta tb
    | FEmb ta, FEmb tb => met_allclose true ta tb
    | FDict da, FDict db =>
        keys_eqb String.eqb (map fst da) (map fst db)
        && forallb (fun kv => match alookup String.eqb (fst kv) db with
                              | Some tb => mnt_allclose true (snd kv) tb
                              | None => false end) da
    | _, _ => false
    end.

  (* TensorFrame.__eq__(self, other), other a TensorFrame; None = raises *)
  Definition tf_eq (a b : tframe) : option bool :=
    la <- tf_num_rows a ;;
    lb <- tf_num_rows b ;;
    if negb (la =? lb) then Some false                               (* match length *)
    else
      yok <- match y a, y b with                                     (* match target: allclose WITHOUT equal_nan *)
             | Some ya, Some yb =>
                 if length ya =? length yb then Some (list_eqb (pclose false) yb ya)
                 else None                                           (* shapes do not broadcast (lengths > 1) *)
             | None, None => Some true
             | _, _ => Some false
             end ;;
      if negb yok then Some false
      else if negb (names_eqb (names a) (names b)) then Some false   (* match col_names_dict *)
      else
        (* match feat_dict: other.feat_dict[stype_name] raises KeyError when absent *)
        fold_left (fun acc sx =>
                     r <- acc ;;
                     if negb r then Some false
                     else xb <- alookup stype_eqb (fst sx) (feats b) ;; Some (feat_eq (snd sx) xb))
                  (feats a) (Some true).
End Eq.

(* ------------------------------------------------------------------ *)
(* torch_frame.cat on TensorFrames.  The ragged containers' own cat is a
   parameter (modelled by another file, Model/RaggedCat.v). *)
Section Cat.
  Variable mnt_cat : list (mnt payload) -> nat -> option (mnt payload).
  Variable met_cat : list (met payload) -> nat -> option (met payload).

  Definition all_some {X} (l : list (option X)) : option (list X) := mapM (fun o => o) l.

  (* torch.cat of >= 2-D tensors: dim 0 needs equal trailing shape, dim 1 equal
     row count and inner shape *)
  Definition dense_cat (l : list (list (list payload) * nat * nat)) (dim : nat)
    : option (list (list payload) * nat * nat) :=
    match l with
    | [] => None
    | (r0, c0, k0) :: _ =>
        if dim =? 0 then
          if forallb (fun d => (snd (fst d) =? c0) && (snd d =? k0)) l
          then Some (concat (map (fun d => fst (fst d)) l), c0, k0) else None
        else
          if forallb (fun d => (length (fst (fst d)) =? length r0) && (snd d =? k0)) l
          then Some (map (fun i => concat (map (fun d => nth i (fst (fst d)) []) l)) (seq 0 (length r0)),
                     sum (map (fun d => snd (fst d)) l), k0)
          else None
    end.

  Definition as_dense (f : feat) := match f with FDense r c k => Some (r, c, k) | _ => None end.
  Definition as_nested (f : feat) := match f with FNested t => Some t | _ => None end.
  Definition as_emb (f : feat) := match f with FEmb t => Some t | _ => None end.
  Definition as_dict (f : feat) := match f with FDict d => Some d | _ => None end.

  (* _cat_tensor_data(td_list, dim) *)
  Definition cat_tensor_data (l : list feat) (dim : nat) : option feat :=
    match l with
    | [] => None                                   (* ValueError *)
    | [x] => Some x
    | x :: _ =>
        match x with
        | FDense _ _ _ =>                          (* isinstance check fails on a mixed list: as_dense = None *)
            ds <- mapM as_dense l ;; r <- dense_cat ds dim ;;
            Some (FDense (fst (fst r)) (snd (fst r)) (snd r))
        | FEmb _ => ts <- mapM as_emb l ;; option_map FEmb (met_cat ts dim)
        | FNested _ => ts <- mapM as_nested l ;; option_map FNested (mnt_cat ts dim)
        | FDict d0 =>
            ds <- mapM as_dict l ;;
            (* every dict must have the key set of the first: td_dict.keys() != td.keys() raises *)
            if negb (forallb (fun d => keys_eqb String.eqb (map fst d) (map fst d0)) ds) then None
            else
            (* for name in td.keys(): cat([td_dict[name] for td_dict in td_list]) *)
            option_map FDict
              (mapM (fun kv =>
                       ts <- mapM (alookup String.eqb (fst kv)) ds ;;
                       option_map (pair (fst kv)) (mnt_cat ts dim)) d0)
        end
    end.

  (* feat_list_dict[stype].append(feat) for every frame, every stype *)
  Definition group_feats (tfs : list tframe) : list (stype * list feat) :=
    fold_left (fun acc tf =>
                 fold_left (fun acc' sx => dict_extend stype_eqb acc' (fst sx) [snd sx]) (feats tf) acc)
              tfs [].

  (* _cat_helper *)
  Definition cat_helper (tfs : list tframe) (dim : nat) : option (list (stype * feat)) :=
    mapM (fun sl => option_map (pair (fst sl)) (cat_tensor_data (snd sl) dim)) (group_feats tfs).

  (* _cat_row *)
  Definition cat_row (tfs : list tframe) : option tframe :=
    match tfs with
    | [] => None
    | t0 :: rest =>
        if negb (forallb (fun t => names_eqb (names t) (names t0)) rest) then None
        else
          yy <- match y t0 with
                | None => if forallb (fun t => match y t with None => true | _ => false end) tfs
                          then Some None else None
                | Some _ => option_map (fun ys => Some (concat ys)) (mapM y tfs)      (* all not None, torch.cat *)
                end ;;
          fs <- cat_helper tfs 0 ;;
          (* without features the number of rows is carried explicitly: sum(len(tf)) *)
          ov <- match fs with
                | [] => option_map (fun ls => Some (sum ls)) (mapM tf_num_rows tfs)
                | _ => Some None
                end ;;
          tf_mk fs (names t0) yy ov
    end.

  (* _get_duplicates(lst) != [] *)
  Fixpoint has_dup (l : list string) : bool :=
    match l with
    | [] => false
    | x :: r => amem String.eqb x r || has_dup r
    end.

  (* col_names_dict[stype].extend(...) for every frame, every stype *)
  Definition group_names (tfs : list tframe) : list (stype * list string) :=
    fold_left (fun acc tf =>
                 fold_left (fun acc' sc => dict_extend stype_eqb acc' (fst sc) (snd sc)) (names tf) acc)
              tfs [].

  (* _cat_col *)
  Definition cat_col (tfs : list tframe) : option tframe :=
    let ys := flat_map (fun t => match y t with Some v => [v] | None => [] end) tfs in
    yy <- match ys with
          | [] => Some None
          | [v] => Some (Some v)
          | _ => None                               (* more than one non-None y *)
          end ;;
    let nm := group_names tfs in
    if existsb (fun sc => has_dup (snd sc)) nm then None              (* duplicates within a stype *)
    else if has_dup (flat_map snd nm) then None                       (* duplicates across stypes *)
    else
      (* all parts must have the same number of rows: any(len(tf) != len(tf_list[0])) *)
      ls <- mapM tf_num_rows tfs ;;
      match ls with
      | [] => None                                                    (* tf_list[0] : IndexError *)
      | n0 :: _ =>
          if negb (forallb (Nat.eqb n0) ls) then None
          else
            fs <- cat_helper tfs 1 ;;
            (* without features the number of rows is carried explicitly: len(tf_list[0]) *)
            tf_mk fs nm yy (match fs with [] => Some n0 | _ => None end)
      end.

  (* torch_frame.cat(tf_list, dim) / _cat_tensor_frame; dim as given (no negative normalisation) *)
  Definition tf_cat (tfs : list tframe) (dim : Z) : option tframe :=
    match tfs with
    | [] => None
    | _ => if (dim =? 0)%Z then cat_row tfs else if (dim =? 1)%Z then cat_col tfs else None
    end.
End Cat.
