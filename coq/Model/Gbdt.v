(* Model of torch_frame/gbdt: the three TensorFrame adapters
   (XGBoost._to_xgboost_input + neg_to_nan, CatBoost._to_catboost_input,
   LightGBM._to_lightgbm_input), GBDT.__init__ metric selection, the is_fitted
   guards of tune / predict / save / load, and compute_metric for RMSE / MAE /
   ACCURACY.  Definitions only.  Lemmas: Proofs/GbdtProofs.v.  Statements: Props/C20.v.

   Values are exact rationals; None stands for NaN.  A 2-D tensor is the list of
   its rows together with its column count (a tensor with zero rows still has a
   width).  Stypes other than categorical / numerical / embedding are not in the
   model: the adapters never look at them (validated by the harness, which adds
   such stypes to the frames).

   Modelled primitives: torch.cat(dim=-1) / pd.concat(axis=1) of blocks with the
   same number of rows ([hcat]); MultiEmbeddingTensor.values = per row, the cells
   of that row concatenated in column order ([emb_values], a representation
   invariant of the container, read back cell by cell through its public API by
   the harness); numpy arange; torch mean / abs / square / comparison on exact
   values.  Out of scope: the boosters, optuna, ROC-AUC and R2 (sklearn), float
   round-off (RMSE is compared squared, within a stated tolerance). *)
From Coq Require Import List ZArith QArith Qabs Bool Arith.
From PF Require Import Gen.Tables.
Import ListNotations.
Close Scope Q_scope.
Open Scope nat_scope.
Open Scope bool_scope.

Definition val := option Q.          (* None = NaN *)
Definition row := list val.
Definition block := list row.

(* feat_dict[s] for a dense stype, with len(col_names_dict[s]) and tensor.size(1) *)
Record feat (A : Type) := { f_names : nat; f_width : nat; f_rows : list (list A) }.
Arguments f_names {A}. Arguments f_width {A}. Arguments f_rows {A}.

(* feat_dict[embedding]: per row, one cell (a vector) per column; column j has
   dimension nth j e_dims *)
Record efeat := { e_names : nat; e_dims : list nat; e_rows : list (list (list val)) }.

Record tframe := {
  tf_cat : option (feat Z);          (* category indices, -1 = missing *)
  tf_num : option (feat val);
  tf_emb : option efeat;
  tf_y : option (list val);
}.

Definition total (l : list nat) : nat := fold_right Nat.add 0 l.

(* MultiEmbeddingTensor.values.view(num_rows, -1) and its width offset[-1] *)
Definition emb_values (e : efeat) : block := map (@concat val) (e_rows e).
Definition emb_width (e : efeat) : nat := total (e_dims e).

(* ---------------------------------------------------------------- feat_dict as a dictionary *)
(* TensorFrame.feat_dict: a Python dict from (parent) stype to tensor data, in insertion
   order.  The adapters only ever ask `stype.X in tf.feat_dict` and `tf.feat_dict[stype.X]`
   for X in {categorical, numerical, embedding}; every other entry is [POther]. *)
Inductive payload :=
| PCat (c : feat Z)
| PNum (f : feat val)
| PEmb (e : efeat)
| POther.                         (* timestamp / multicategorical / sequence_numerical / text_tokenized ... data *)

Definition feat_dict := list (stype * payload).

(* d[k] / k in d : first entry with that key (keys of a dict are unique anyway) *)
Fixpoint lookup (k : stype) (d : feat_dict) : option payload :=
  match d with
  | [] => None
  | (k', p) :: r => if stype_eqb k k' then Some p else lookup k r
  end.

(* the view the adapters take of the dictionary.  None: a key holds data of the wrong
   kind (excluded by TensorFrame's own validation; not a frame) *)
Definition frame_of_dict (d : feat_dict) (y : option (list val)) : option tframe :=
  match lookup st_categorical d, lookup st_numerical d, lookup st_embedding d with
  | (None | Some (PCat _)) as c, (None | Some (PNum _)) as n, (None | Some (PEmb _)) as e =>
      Some {| tf_cat := match c with Some (PCat x) => Some x | _ => None end;
              tf_num := match n with Some (PNum x) => Some x | _ => None end;
              tf_emb := match e with Some (PEmb x) => Some x | _ => None end;
              tf_y := y |}
  | _, _, _ => None
  end.

(* ---------------------------------------------------------------- concatenation along columns *)
Definition hcat2 (a b : block) : option block :=
  if length a =? length b then Some (map (fun p => fst p ++ snd p) (combine a b))
  else None.                                             (* RuntimeError: sizes must match *)

Definition hcat (bs : list block) : option block :=
  match bs with
  | [] => None
  | b :: r => fold_left (fun acc x => match acc with Some a => hcat2 a x | None => None end) r (Some b)
  end.

(* ---------------------------------------------------------------- XGBoost *)
Inductive ftype := FC | FQ.                              (* 'c' categorical, 'q' numerical *)

(* neg_to_nan: -1 -> NaN, every other entry unchanged (the tensor is converted to
   float only if it contains a -1; the values are the same either way) *)
Definition neg_to_nan (z : Z) : val := if (z =? -1)%Z then None else Some (inject_Z z).
Definition keep_int (z : Z) : val := Some (inject_Z z).

Definition olist {A} (o : option A) : list A := match o with Some a => [a] | None => [] end.

Definition to_xgboost_input (tf : tframe) : option (block * option (list val) * list ftype) :=
  let y := tf_y tf in
  let feats :=
    olist (option_map (fun c => map (map neg_to_nan) (f_rows c)) (tf_cat tf)) ++
    olist (option_map (fun n => f_rows n) (tf_num tf)) ++
    olist (option_map emb_values (tf_emb tf)) in
  let types :=
    match tf_cat tf with Some c => repeat FC (f_names c) | None => [] end ++
    match tf_num tf with Some n => repeat FQ (f_names n) | None => [] end ++
    match tf_emb tf with Some e => repeat FQ (emb_width e) | None => [] end in
  match feats with
  | [] => None                                           (* ValueError: the TensorFrame is empty *)
  | _ => match hcat feats with
         | Some m => Some (m, y, types)
         | None => None
         end
  end.

(* ---------------------------------------------------------------- XGBoost, with the float32 casts as written *)
(* int64 -> float32 (Tensor.to(torch.float32), and the dtype promotion of torch.cat):
   round to nearest, ties to even, 24-bit significand.  Exponent overflow is not
   modelled (|z| < 2^127 for every int64). *)
Definition f32_of_Z (z : Z) : Z :=
  let a := Z.abs z in
  let e := (Z.log2 a - 23)%Z in                          (* bits beyond the significand *)
  if (e <=? 0)%Z then z
  else
    let q := Z.shiftr a e in
    let r := (a mod 2 ^ e)%Z in
    let half := (2 ^ (e - 1))%Z in
    let q' := if (half <? r)%Z || ((r =? half)%Z && Z.odd q) then (q + 1)%Z else q in
    (Z.sgn z * (q' * 2 ^ e))%Z.

(* the categorical block as the XGBoost adapter really emits it:
   - neg_to_nan converts the whole block to float32 iff it contains a -1;
   - torch.cat promotes: with a float64 block everything becomes float64 (int64 exact
     below 2^53), else with a float32 block the int64 block is cast to float32. *)
Definition cat_block_f32 (has_f32_block has_f64_block : bool) (rows : list (list Z)) : block :=
  let has_m1 := existsb (existsb (Z.eqb (-1))) rows in
  let cast (z : Z) : Z :=
    if has_m1 then f32_of_Z z
    else if has_f64_block then z
    else if has_f32_block then f32_of_Z z
    else z in
  map (map (fun z => if has_m1 && (z =? -1)%Z then None else Some (inject_Z (cast z)))) rows.

(* _to_xgboost_input with an arbitrary treatment of the categorical block *)
Definition to_xgboost_input_gen (conv : list (list Z) -> block) (tf : tframe)
  : option (block * option (list val) * list ftype) :=
  let y := tf_y tf in
  let feats :=
    olist (option_map (fun c => conv (f_rows c)) (tf_cat tf)) ++
    olist (option_map (fun n => f_rows n) (tf_num tf)) ++
    olist (option_map emb_values (tf_emb tf)) in
  let types :=
    match tf_cat tf with Some c => repeat FC (f_names c) | None => [] end ++
    match tf_num tf with Some n => repeat FQ (f_names n) | None => [] end ++
    match tf_emb tf with Some e => repeat FQ (emb_width e) | None => [] end in
  match feats with
  | [] => None
  | _ => match hcat feats with
         | Some m => Some (m, y, types)
         | None => None
         end
  end.

(* num_is_f64: the numerical block is float64 (the embedding block is float32) *)
Definition to_xgboost_input_f32 (num_is_f64 : bool) (tf : tframe) :=
  let has_f64 := match tf_num tf with Some _ => num_is_f64 | None => false end in
  let has_f32 := match tf_num tf with Some _ => negb num_is_f64 | None => false end
                 || match tf_emb tf with Some _ => true | None => false end in
  to_xgboost_input_gen (cat_block_f32 has_f32 has_f64) tf.

(* ---------------------------------------------------------------- CatBoost / LightGBM *)
(* the returned DataFrame: column labels and rows *)
Record dframe := { d_columns : list nat; d_rows : block }.

(* the shared body of _to_catboost_input and _to_lightgbm_input, with the running
   `offset` as written: returns (dfs, cat_features, offset) *)
Definition df_parts (tf : tframe) : list (list nat * block) * list (list nat) * nat :=
  let offset := 0 in
  let '(dfs, cats, offset) :=
    match tf_cat tf with
    | Some c =>
        let arange := seq offset (f_width c) in
        ([(arange, map (map keep_int) (f_rows c))], [arange], offset + f_width c)
    | None => ([], [], offset)
    end in
  let '(dfs, offset) :=
    match tf_num tf with
    | Some n =>
        let arange := seq offset (f_width n) in
        (dfs ++ [(arange, f_rows n)], offset + f_width n)
    | None => (dfs, offset)
    end in
  let '(dfs, offset) :=
    match tf_emb tf with
    | Some e =>
        let arange := seq offset (emb_width e) in
        (dfs ++ [(arange, emb_values e)], offset + emb_width e)
    | None => (dfs, offset)
    end in
  (dfs, cats, offset).

Definition to_df_input (tf : tframe) : option (dframe * option (list val) * list nat) :=
  let '(dfs, cats, _) := df_parts tf in
  match dfs with
  | [] => None                                           (* ValueError: the TensorFrame is empty *)
  | _ => match hcat (map snd dfs) with                   (* pd.concat(dfs, axis=1), equal RangeIndex *)
         | Some m => Some ({| d_columns := concat (map fst dfs); d_rows := m |}, tf_y tf, concat cats)
         | None => None
         end
  end.

Definition to_catboost_input := to_df_input.             (* cat_features as an ndarray *)
Definition to_lightgbm_input := to_df_input.             (* cat_features as a list *)

(* the adapters on a frame given by its dictionary *)
Definition on_dict {R} (adapter : tframe -> option R) (d : feat_dict) (y : option (list val)) : option R :=
  match frame_of_dict d y with Some tf => adapter tf | None => None end.

(* ---------------------------------------------------------------- metric selection (GBDT.__init__) *)
(* None = the constructor raises (KeyError for a task without default, ValueError
   for an unsupported metric) *)
Definition gbdt_init (t : task_type) (m : option metric) : option metric :=
  match gbdt_default_metric t with
  | None => None
  | Some d =>
      match m with
      | None => Some d
      | Some m => if metric_supports_task m t then Some m else None
      end
  end.

(* ---------------------------------------------------------------- is_fitted guards *)
Inductive gop :=
| OTune (tune_ok : bool)        (* tune(); the subclass' _tune returns (true) or raises (false) *)
| OPredict | OSave | OLoad.
(* RErr: the call raises.  ROk: the is_fitted guard lets the call through; what the
   call does after the guard (the subclass' _predict and its shape asserts,
   os.makedirs(dirname(path)) and model.save_model for save, _load) is NOT modelled --
   in the harness it is a trivial stub with a path that has a directory part.  E.g.
   save("model.bin") on a fitted model raises FileNotFoundError from os.makedirs(''):
   that is outside the model and outside the property ("before tuning => raises"). *)
Inductive gres := ROk | RErr.

Definition gstep (fitted : bool) (o : gop) : bool * gres :=
  match o with
  | OTune true => (true, ROk)
  | OTune false => (fitted, RErr)                        (* _is_fitted is set after _tune returned *)
  | OPredict => (fitted, if fitted then ROk else RErr)
  | OSave => (fitted, if fitted then ROk else RErr)
  | OLoad => (true, ROk)
  end.

Fixpoint grun (fitted : bool) (ops : list gop) : list (gres * bool) :=
  match ops with
  | [] => []
  | o :: r => let '(f, res) := gstep fitted o in (res, f) :: grun f r
  end.

(* ---------------------------------------------------------------- compute_metric *)
Definition qsum (l : list Q) : Q := fold_right Qplus 0%Q l.
Definition qmean (l : list Q) : Q := (qsum l / inject_Z (Z.of_nat (length l)))%Q.
Definition qsub2 (a b : list Q) : list Q := map (fun p => (fst p - snd p)%Q) (combine a b).

(* None below = outside the model (vectors of different lengths, which torch would
   broadcast, or empty vectors, for which torch returns NaN) -- NOT "the code raises";
   the harness generates equal non-zero lengths only. *)

(* Metric.RMSE: (pred - target).square().mean().sqrt(); the model stops before sqrt *)
Definition mse (target pred : list Q) : option Q :=
  if negb (length target =? length pred) || (length target =? 0) then None
  else Some (qmean (map (fun d => (d * d)%Q) (qsub2 pred target))).

(* Metric.MAE: (pred - target).abs().mean() *)
Definition mae (target pred : list Q) : option Q :=
  if negb (length target =? length pred) || (length target =? 0) then None
  else Some (qmean (map Qabs (qsub2 pred target))).

(* pred > 0.5 *)
Definition above_half (s : Q) : bool := negb (Qle_bool s (1 # 2)).

Definition count_true (l : list bool) : nat := length (filter (fun b => b) l).

(* Metric.ACCURACY: (target == pred).sum() / len(target) on labels *)
Definition accuracy_labels (target pred : list Z) : option Q :=
  if negb (length target =? length pred) || (length target =? 0) then None
  else Some (inject_Z (Z.of_nat (count_true (map (fun p => Z.eqb (fst p) (snd p)) (combine target pred))))
             / inject_Z (Z.of_nat (length target)))%Q.

(* binary task: pred = pred > 0.5 first; True == 1, False == 0 *)
Definition accuracy_binary (target : list Z) (scores : list Q) : option Q :=
  accuracy_labels target (map (fun s => if above_half s then 1%Z else 0%Z) scores).

(* ---------------------------------------------------------------- for the correspondence *)
Definition val_eqb (a b : val) : bool :=
  match a, b with
  | Some x, Some y => Qeq_bool x y
  | None, None => true
  | _, _ => false
  end.

Fixpoint list_eqb {A} (eqb : A -> A -> bool) (a b : list A) : bool :=
  match a, b with
  | [], [] => true
  | x :: r, y :: s => eqb x y && list_eqb eqb r s
  | _, _ => false
  end.

Definition block_eqb := list_eqb (list_eqb val_eqb).
Definition oy_eqb (a b : option (list val)) : bool :=
  match a, b with
  | Some x, Some y => list_eqb val_eqb x y
  | None, None => true
  | _, _ => false
  end.
Definition ftype_eqb (a b : ftype) : bool := match a, b with FC, FC | FQ, FQ => true | _, _ => false end.

(* observed: None = raised *)
Definition xgb_eqb (m : option (block * option (list val) * list ftype))
           (o : option (block * option (list val) * list ftype)) : bool :=
  match m, o with
  | Some (a, y, t), Some (a', y', t') => block_eqb a a' && oy_eqb y y' && list_eqb ftype_eqb t t'
  | None, None => true
  | _, _ => false
  end.

Definition df_eqb (m : option (dframe * option (list val) * list nat))
           (o : option (list nat * block * option (list val) * list nat)) : bool :=
  match m, o with
  | Some (d, y, c), Some (cols, rows, y', c') =>
      list_eqb Nat.eqb (d_columns d) cols && block_eqb (d_rows d) rows && oy_eqb y y' && list_eqb Nat.eqb c c'
  | None, None => true
  | _, _ => false
  end.

Definition ometric_eqb (a b : option metric) : bool :=
  match a, b with
  | Some x, Some y => metric_eqb x y
  | None, None => true
  | _, _ => false
  end.

Definition gres_eqb (a b : gres * bool) : bool :=
  match fst a, fst b with ROk, ROk | RErr, RErr => Bool.eqb (snd a) (snd b) | _, _ => false end.

(* |obs - ref| <= tol * (1 + |ref|) *)
Definition q_close (tol : Q) (obs : Q) (ref : option Q) : bool :=
  match ref with
  | Some r => Qle_bool (Qabs (obs - r)) (tol * (1 + Qabs r))
  | None => false
  end.
