(* Spec layer of C01: the canonical encoding of ONE raw cell, in the words of
   the property ("the float value for numerical, the index from the column's
   category statistics for categorical, the set of such indices for
   multicategorical, the value sequence, the seven calendar components, the
   given vector; missing -> NaN / -1 / empty sequence").  No pandas here: no
   labels, no merge, no explode, no offsets.  Definitions only. *)
From Coq Require Import ZArith List Bool Arith.
From PF Require Import Lib.ListX Lib.Calendar Model.Ragged Model.Mapper.
Import ListNotations.
Local Open Scope nat_scope.

(* position of v in the category list (first occurrence) *)
Fixpoint find_index (cats : list pval) (v : pval) : option nat :=
  match cats with
  | [] => None
  | c :: r => if pval_eqb c v then Some 0 else option_map S (find_index r v)
  end.
(* ... as the integer stored in the tensor: -1 for a value that is not a category *)
Definition index_of (cats : list pval) (v : pval) : Z :=
  match find_index cats v with Some k => Z.of_nat k | None => (-1)%Z end.

Definition canon_num (c : option num) : ecell := [SNum (match c with Some x => x | None => NNaN end)].

Definition canon_cat (cats : list pval) (c : option pval) : ecell :=
  [SInt (match c with Some v => index_of cats v | None => (-1)%Z end)].

(* the tokens of a multicategorical cell: the stripped pieces of a
   delimiter-joined string (none for a blank string), or the list's elements *)
Definition tokens_of (sep : option str) (c : mc_cell) : option (list pval) :=
  match c, sep with
  | MCStr s, Some sp =>
      match py_strip s with
      | [] => Some []
      | _ => option_map (map (fun t => VStr (py_strip t))) (py_split s sp)
      end
  | MCList l, None => Some l
  | _, _ => None
  end.

(* the category positions k whose category cats[k] is one of the tokens, ascending *)
Definition canon_idx (cats toks : list pval) : list nat :=
  filter (fun k => match nth_error cats k with
                   | Some cat => existsb (pval_eqb cat) toks
                   | None => false
                   end) (seq 0 (length cats)).

(* the set of category indices of a cell, ascending; [-1] for a missing cell;
   None when the cell does not fit the separator configuration (the mapper raises) *)
Definition canon_multi (cats : list pval) (sep : option str) (c : mc_cell) : option ecell :=
  match c with
  | MCMissing => Some [SInt (-1)]
  | _ => toks <- tokens_of sep c ;; Some (map (fun k => SInt (Z.of_nat k)) (canon_idx cats toks))
  end.

(* a cell none of whose tokens is the integer -1 (the mapper's own marker for
   a missing cell); always the case for delimiter-joined strings *)
Definition tokens_ok (sep : option str) (c : mc_cell) : Prop :=
  forall toks, tokens_of sep c = Some toks -> ~ In (VInt (-1)) toks.

Definition canon_seq (c : seq_cell) : option ecell :=
  match c with
  | SQMissing => Some []
  | SQList l => Some (map (fun x => SNum (match x with Some v => v | None => NNaN end)) l)
  | SQOther => None
  end.

(* (year, month-1, day-1, weekday, hour, minute, second) of the instant, or seven -1 *)
Definition canon_time (c : option Z) : ecell :=
  match c with
  | None => repeat (SInt (-1)) 7
  | Some s =>
      let d := days_of_secs s in
      [SInt (year_of_days d); SInt (month_of_days d - 1); SInt (day_of_days d - 1); SInt (weekday_of_days d);
       SInt (hour_of_secs s); SInt (minute_of_secs s); SInt (second_of_secs s)]
  end.

Definition canon_vec (v : list num) : ecell := map SNum v.

(* multicategorical cells are sets: compared after sorting *)
Fixpoint insert_scalar (x : scalar) (l : list scalar) : list scalar :=
  match l with
  | [] => [x]
  | y :: r =>
      match x, y with
      | SInt a, SInt b => if (a <=? b)%Z then x :: l else y :: insert_scalar x r
      | _, _ => x :: l
      end
  end.
Definition sort_cell (c : ecell) : ecell := fold_right insert_scalar [] c.
