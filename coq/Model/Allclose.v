(* torch.allclose(input, other, rtol=1e-05, atol=1e-08, equal_nan) on ONE pair of scalars, over the rationals:
     close  <->  |input - other| <= atol + rtol * |other|
   (asymmetric: the tolerance scales with |other|).  TensorFrame.__eq__ calls allclose(self_feat, other_feat,
   equal_nan=True) on features and allclose(other.y, self.y) on targets (data/tensor_frame.py:__eq__,
   data/multi_tensor.py:_MultiTensor.allclose).  Definitions only. *)
From Coq Require Import ZArith QArith Qabs Bool.
Open Scope Q_scope.

Definition allclose_rtol : Q := 1 # 100000.        (* 1e-05 *)
Definition allclose_atol : Q := 1 # 100000000.     (* 1e-08 *)

Definition allclose_q (a b : Q) : bool :=
  Qle_bool (Qabs (a - b)) (allclose_atol + allclose_rtol * Qabs b).

(* the harness grid: a scalar x is shipped as the integer 8*x *)
Definition close_grid (z1 z2 : Z) : bool := allclose_q (z1 # 8) (z2 # 8).
