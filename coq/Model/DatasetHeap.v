(* C09, aliasing made explicit: the Python objects behind Model/Dataset.v.

   `copy.copy(self)` (index_select, col_select) is a SHALLOW copy: the new
   Dataset object gets its own attribute slots, but every slot still points to
   the same Python object as in the source.  In the anchored code the rows, the
   TensorFrame, the column lists and the flags are then re-bound on the copy by
   attribute assignment (df.iloc / TensorFrame.__getitem__ / df[cols] build new
   objects), so they behave as values; the one object that is shared AND mutated
   in place is the statistics dict `_col_stats`:

     materialize():   for col in self.col_to_stype: self._col_stats[col] = ...   (in place)
     materialize(col_stats=user_dict) / materialize(path=existing cache):
                      self._col_stats = <another dict>                           (re-binding)

   The heap below has one cell per statistics dict (its keys, in insertion order
   as Python dicts keep them) and one entry per Dataset object holding the
   functional view `ds` of Model/Dataset.v plus the address of its dict.
   Definitions only; lemmas in Proofs/DatasetHeapProofs.v. *)
From Coq Require Import ZArith List Bool String.
From PF Require Import Lib.ListX Lib.PySlice Model.Dataset Model.DatasetRun.
Import ListNotations.

Record hobj := mkHObj {
  body : ds;            (* the attributes that are re-bound on every copy: Model/Dataset.v *)
  stats_at : nat        (* address of the dict `self._col_stats` points to *)
}.

Record heap := mkHeap {
  objs : list (option hobj);        (* every Dataset object created so far (None: the call raised) *)
  dicts : list (list string)        (* the statistics dicts: keys in insertion order *)
}.

(* d[k] = v : an existing key keeps its place, a new one goes last *)
Definition dict_set (keys : list string) (k : string) : list string :=
  if mem_str k keys then keys else keys ++ [k].
Definition dict_update (keys : list string) (ks : list string) : list string := fold_left dict_set ks keys.

(* the columns whose statistics get written before materialize() stops: all of
   col_to_stype, or those before the first column that names two frame columns
   (where compute_col_stats raises) *)
Fixpoint written (dfc : list string) (cols : list string) : list string :=
  match cols with
  | [] => []
  | c :: r => if Nat.eqb (count_str c dfc) 1 then c :: written dfc r else []
  end.

(* how materialize() obtains its statistics *)
Inductive mat_mode :=
| InPlace      (* computed into the dict the object already points to *)
| Rebind.      (* col_stats=<user dict>, or loaded from an existing cache file: a dict of its own *)

Inductive hstep :=
| HOp (p : nat) (o : op) (m : mat_mode)    (* objs[p].op(...); m is read for OMaterialize only *)
| HReadTF (p : nat)
| HReadStats (p : nat).

Definition erase (s : hstep) : tstep :=
  match s with
  | HOp p o _ => TOp p o
  | HReadTF p => TReadTF p
  | HReadStats p => TReadStats p
  end.

Definition hlookup (h : heap) (p : nat) : option hobj :=
  match nth_error (objs h) p with Some (Some o) => Some o | _ => None end.

Definition heap_step (h : heap) (s : hstep) : heap :=
  match s with
  | HOp p OMaterialize m =>
      match hlookup h p with
      | None => h
      | Some o =>
          let d := body o in
          if materialized d then h                       (* returns self *)
          else
            match m with
            | InPlace =>
                (* stats_at o is a valid address in every well-formed heap (wf_heap) *)
                let old := nth (stats_at o) (dicts h) [] in
                let dicts' := set_nth (dicts h) (stats_at o)
                                      (dict_update old (written (df_cols d) (stype_cols d))) in
                match materialize d with
                | Some d' => mkHeap (set_nth (objs h) p (Some (mkHObj d' (stats_at o)))) dicts'
                | None => mkHeap (objs h) dicts'           (* raised half-way: the dict keeps what was written *)
                end
            | Rebind =>
                match materialize d with
                | Some d' => mkHeap (set_nth (objs h) p (Some (mkHObj d' (List.length (dicts h)))))
                                    (dicts h ++ [stype_cols d])
                | None => h
                end
            end
      end
  | HOp p o _ =>
      (* dataset = copy.copy(self): same dict address; then attributes re-bound *)
      match hlookup h p with
      | Some ob => mkHeap (objs h ++ [option_map (fun d' => mkHObj d' (stats_at ob)) (step (body ob) o)]) (dicts h)
      | None => mkHeap (objs h ++ [None]) (dicts h)
      end
  | HReadTF _ | HReadStats _ => h
  end.

(* the functional store of Model/DatasetRun.v seen through the heap *)
Definition project (h : heap) : list (option ds) := map (option_map body) (objs h).

(* list(obj.col_stats.keys()) - None where the property raises or the object does not exist *)
Definition stats_view (h : heap) (e : option hobj) : option (list string) :=
  match e with
  | Some ob => if materialized (body ob) then Some (nth (stats_at ob) (dicts h) []) else None
  | None => None
  end.
Definition heap_views (h : heap) : list (option (list string)) := map (stats_view h) (objs h).

(* a history: per step, what the call returned (as in tree_step) and the
   statistics keys of EVERY object afterwards *)
Fixpoint heap_run (h : heap) (prog : list hstep) : heap * list (obs * list (option (list string))) :=
  match prog with
  | [] => (h, [])
  | s :: r =>
      let o := snd (tree_step (project h) (erase s)) in
      let h' := heap_step h s in
      let '(h'', os) := heap_run h' r in
      (h'', (o, heap_views h') :: os)
  end.

Definition wf_heap (h : heap) : Prop :=
  forall p ob, nth_error (objs h) p = Some (Some ob) -> stats_at ob < List.length (dicts h).

(* a single fresh object with an empty statistics dict *)
Definition heap0 (d0 : ds) : heap := mkHeap [Some (mkHObj d0 0)] [[]].

(* ---- correspondence ---- *)
Definition view_eqb := opt_eqb (list_eqb String.eqb).
Definition hobs_eqb (a b : obs * list (option (list string))) : bool :=
  obs_eqb (fst a) (fst b) && list_eqb view_eqb (snd a) (snd b).
Definition heap_case (d0 : ds) (prog : list hstep) (expected : list (obs * list (option (list string)))) : bool :=
  list_eqb hobs_eqb (snd (heap_run (heap0 d0) prog)) expected.
