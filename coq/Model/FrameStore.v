(* A small STORE model for the two places where the anchored code writes Python
   objects in place (C07/C08 "source / inputs unchanged"):
     - utils/concat.py::_cat_col builds the result's column-name lists with
       defaultdict(list) + list.extend                       (lists of names are heap objects)
     - data/multi_tensor.py::_normalize_index, tensor branch:
       index = index.clone(); index[neg_mask] += max_entries  (index tensors are heap objects)
   A heap is a list of objects, an address is a position; allocation appends,
   an in-place write replaces the object at its address.  Every function returns
   the new heap and the list of addresses it wrote.  Definitions only. *)
From Coq Require Import String ZArith List Bool Arith.
From PF Require Import Lib.ListX Model.Frame Gen.Tables.
Import ListNotations.

Section Heap.
  Context {O : Type}.
  Variable dflt : O.
  Definition hget (h : list O) (a : nat) : O := nth a h dflt.
  Definition hset (h : list O) (a : nat) (v : O) : list O := firstn a h ++ v :: skipn (S a) h.
  Definition halloc (h : list O) (v : O) : list O * nat := (h ++ [v], length h).
End Heap.

(* ------------------------------------------------------------------ *)
(* _cat_col: col_names_dict = defaultdict(list)
             for tf in tf_list: for stype in tf.col_names_dict: col_names_dict[stype].extend(tf.col_names_dict[stype]) *)
Definition nheap := list (list string).
Definition ndict := list (stype * nat).             (* stype -> ADDRESS of the list object holding its names *)
Definition nstate := (nheap * ndict * list nat)%type.   (* heap, result dict under construction, addresses written *)

Definition extend_step (st : nstate) (sa : stype * nat) : nstate :=
  let '(h, d, w) := st in
  match alookup stype_eqb (fst sa) d with
  | Some a =>                                           (* col_names_dict[stype] exists: .extend writes THAT object *)
      (hset h a (hget [] h a ++ hget [] h (snd sa)), d, a :: w)
  | None =>                                             (* defaultdict(list): a NEW empty list is allocated, then extended *)
      let '(h', a) := halloc h [] in
      (hset h' a (hget [] h' a ++ hget [] h' (snd sa)), d ++ [(fst sa, a)], a :: w)
  end.

Definition cat_col_names_store (h : nheap) (parts : list ndict) : nstate :=
  fold_left (fun st p => fold_left extend_step p st) parts (h, [], []).

(* reading a dict of references through a heap *)
Definition read_ndict (h : nheap) (d : ndict) : list (stype * list string) :=
  map (fun sa => (fst sa, hget [] h (snd sa))) d.

(* ------------------------------------------------------------------ *)
(* _normalize_index(index : Tensor, dim): negative entries are wrapped on a CLONE
     neg_mask = index < 0
     if neg_mask.any(): index = index.clone(); index[neg_mask] += max_entries
   returns (heap, address of the normalised index, addresses written) *)
Definition theap := list (list Z).
Definition wrap_neg (n : nat) (i : Z) : Z := if (i <? 0)%Z then (i + Z.of_nat n)%Z else i.

Definition normalize_index_store (h : theap) (a : nat) (n : nat) : theap * nat * list nat :=
  let v := hget [] h a in
  if existsb (fun i => (i <? 0)%Z) v then
    let '(h', a') := halloc h v in                       (* index.clone() *)
    (hset h' a' (map (wrap_neg n) (hget [] h' a')), a', [a'])      (* the masked += writes the clone *)
  else (h, a, []).

(* TensorFrame.__getitem__ hands the SAME index object to every ragged container of the frame, one after the other *)
Fixpoint getitem_index_store (h : theap) (a : nat) (n : nat) (containers : nat) : theap * list nat :=
  match containers with
  | 0 => (h, [])
  | S k => let '(h1, _, w1) := normalize_index_store h a n in
           let '(h2, w2) := getitem_index_store h1 a n k in (h2, w1 ++ w2)
  end.
