(* numpy's legacy `np.random.shuffle` on a 1-d array, as generate_random_split
   uses it after `np.random.seed(seed)` (C09).  Definitions only.

   numpy/random/mtrand.pyx  RandomState.shuffle -> _shuffle_raw:
       for i in reversed(range(1, n)):
           j = random_interval(&self._bitgen, i)
           swap x[i], x[j]
   numpy/random/src/legacy/legacy-distributions.c  (random_interval, max <= 0xffffffff):
       mask = max; mask |= mask >> 1; ... ; mask |= mask >> 32;
       while ((value = (next_uint32(bitgen_state) & mask)) > max);
   The only black box left is the Mersenne-Twister word stream: `stream` is the
   sequence of next_uint32() values after seeding (the harness reads it with
   RandomState(seed).randint(0, 2**32, dtype=uint32), which hands the words out
   unchanged).  None = the finite stream given to the model ran out. *)
From Coq Require Import ZArith List Bool.
From Coq Require Import PrimFloat.
From PF Require Import Lib.ListX Model.DatasetRun Model.Split.
Import ListNotations.

(* mask |= mask >> 1; mask |= mask >> 2; ... ; mask |= mask >> 32 *)
Definition interval_mask (mx : Z) : Z :=
  fold_left (fun m s => Z.lor m (Z.shiftr m s)) [1; 2; 4; 8; 16; 32]%Z mx.

(* the rejection loop: the first word whose masked value is <= max *)
Fixpoint reject_loop (mask mx : Z) (stream : list Z) : option (Z * list Z) :=
  match stream with
  | [] => None
  | w :: r => let v := Z.land w mask in
              if (v <=? mx)%Z then Some (v, r) else reject_loop mask mx r
  end.

Definition random_interval (mx : Z) (stream : list Z) : option (Z * list Z) :=
  if (mx =? 0)%Z then Some (0%Z, stream) else reject_loop (interval_mask mx) mx stream.

Section Shuffle.
  Context {A : Type}.

  (* x[i], x[j] = x[j], x[i] *)
  Definition swap (l : list A) (i j : nat) : list A :=
    match nth_error l i, nth_error l j with
    | Some a, Some b => set_nth (set_nth l i b) j a
    | _, _ => l
    end.

  (* i = k, k-1, ..., 1 *)
  Fixpoint shuffle_loop (k : nat) (stream : list Z) (l : list A) : option (list A) :=
    match k with
    | O => Some l
    | S k' =>
        match random_interval (Z.of_nat k) stream with
        | Some (j, r) => shuffle_loop k' r (swap l k (Z.to_nat j))
        | None => None
        end
    end.

  Definition np_shuffle (stream : list Z) (l : list A) : option (list A) :=
    shuffle_loop (List.length l - 1) stream l.
End Shuffle.

(* the arrangement for (stream, n): the shuffle of arange(n).  When the finite
   stream handed to the model is too short the identity stands in (it is never
   reached in the correspondence, which demands `np_shuffle ... <> None`). *)
Definition np_perm_fy (mt : Z -> list Z) (seed : Z) (n : nat) : list nat :=
  match np_shuffle (mt seed) (seq 0 n) with Some p => p | None => seq 0 n end.

(* correspondence: generate_random_split with numpy's shuffle computed by the
   model from the raw word stream of this seed *)
Definition split_case_fy (stream : list Z) (n seed : Z) (tr vr : float) (include_test : bool)
    (expected : option (list Z)) : bool :=
  match np_shuffle stream (seq 0 (Z.to_nat n)) with
  | None => false
  | Some _ =>
      opt_eqb (list_eqb Z.eqb)
        (generate_random_split (np_perm_fy (fun _ => stream)) (Z.to_nat n) seed tr vr include_test) expected
  end.
