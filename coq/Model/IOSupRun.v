(* Concrete instance of Model/IOSup.v for the correspondence check of C11
   (see Model/IORun.v for the conventions).  Definitions only. *)
From Coq Require Import List Arith Bool String ZArith.
From PF Require Import Lib.ListX Gen.Tables Model.IO Model.IORun Model.IOSup.
Import ListNotations.

(* The statistics argument of a history segment is one value `seg` (None, or the
   digest of the supplied statistics); the harness ships the fresh computation
   under exactly that argument.  Any OTHER argument computes an absurd frame, so
   a model step that consulted the wrong argument would be seen. *)
Definition c_compute (seg : option cstats) (fresh : tframe ctensor * cstats) (sup : option cstats)
  : tframe ctensor * cstats :=
  if opt_eqb Z.eqb sup seg then fresh else (MkTF [] [] None (Some 4242), (-1)%Z).

Definition c_runS (seg : option cstats) (fresh : tframe ctensor * cstats) (h : list (@eventS ctensor cstats crows))
  : list (@obsS ctensor cstats ccout) :=
  snd (runS ct_dim ct_size c_valid_nested c_valid_embed cenc cdec cconv (c_compute seg fresh)
            (init ctensor cstats cbyte) h).

Inductive iobsS :=
| II (i : iobs)
| IDerived (raised : bool).

Definition obsS_match (fresh_stats : cstats) (o : @obsS ctensor cstats ccout) (i : iobsS) : bool :=
  match o, i with
  | OS o', II i' => obs_match fresh_stats o' i'
  | ODerived r, IDerived r' => Bool.eqb r r'
  | _, _ => false
  end.

(* history segment under one statistics argument, derived datasets included *)
Definition check_historyS (seg : option cstats) (fresh : tframe ctensor * cstats)
  (h : list (@eventS ctensor cstats crows)) (is : list iobsS) : bool :=
  c_tframe_wfb (fst fresh) &&
  (List.length (c_runS seg fresh h) =? List.length is) &&
  forallb (fun p => obsS_match (snd fresh) (fst p) (snd p)) (combine (c_runS seg fresh h) is).

(* generations: frames = the frame saved at each generation (the implementation's
   selection from the frame it loaded the generation before); the last load must
   be the last frame *)
Definition c_generations := generations ct_dim ct_size c_valid_nested c_valid_embed cenc cdec.
Definition check_generations (frames : list (tframe ctensor)) (cs : cstats) (i : iobs) : bool :=
  match frames with
  | [] => false
  | t0 :: _ =>
      forallb c_tframe_wfb frames &&
      match c_generations (map (fun t (_ : tframe ctensor) => t) frames) t0 cs with
      | Some t => obs_match cs (OMat ccout t cs) i
      | None => match i with IRaise => true | _ => false end
      end
  end.
