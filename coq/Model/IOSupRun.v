(* Concrete instance of Model/IOSup.v for the correspondence check of C11
   (see Model/IORun.v for the conventions).  Definitions only. *)
From Coq Require Import List Arith Bool String ZArith.
From PF Require Import Lib.ListX Gen.Tables Model.IO Model.IORun Model.IOSup.
Import ListNotations.

(* The statistics argument of a history segment is one value `seg` (None, or the
   digest of the supplied statistics); the harness ships the fresh computation
   under exactly that argument.  Any OTHER argument computes an absurd frame, so
   a model step that consulted the wrong argument would be seen. *)
Definition c_compute (seg : option cstats) (fresh : tframe ctensor * cstats) (sup : option cstats)
  : tframe ctensor * cstats :=
  if opt_eqb Z.eqb sup seg then fresh else (MkTF [] [] None (Some 4242), (-1)%Z).

Definition c_runS (seg : option cstats) (fresh : tframe ctensor * cstats) (h : list (@eventS ctensor cstats crows))
  : list (@obsS ctensor cstats ccout) :=
  snd (runS ct_dim ct_size c_valid_nested c_valid_embed cenc cdec cconv (c_compute seg fresh)
            (init ctensor cstats cbyte) h).

Inductive iobsS :=
| II (i : iobs)
| IDerived (raised : bool).

Definition obsS_match (fresh_stats : cstats) (o : @obsS ctensor cstats ccout) (i : iobsS) : bool :=
  match o, i with
  | OS o', II i' => obs_match fresh_stats o' i'
  | ODerived r, IDerived r' => Bool.eqb r r'
  | _, _ => false
  end.

(* history segment under one statistics argument, derived datasets included *)
Definition check_historyS (seg : option cstats) (fresh : tframe ctensor * cstats)
  (h : list (@eventS ctensor cstats crows)) (is : list iobsS) : bool :=
  c_tframe_wfb (fst fresh) &&
  (List.length (c_runS seg fresh h) =? List.length is) &&
  forallb (fun p => obsS_match (snd fresh) (fst p) (snd p)) (combine (c_runS seg fresh h) is).

(* generations: frames = the frame saved at each generation (the implementation's
   selection from the frame it loaded the generation before); the last load must
   be the last frame *)
Definition c_generations := generations ct_dim ct_size c_valid_nested c_valid_embed cenc cdec.
Definition check_generations (frames : list (tframe ctensor)) (cs : cstats) (i : iobs) : bool :=
  match frames with
  | [] => false
  | t0 :: _ =>
      forallb c_tframe_wfb frames &&
      match c_generations (map (fun t (_ : tframe ctensor) => t) frames) t0 cs with
      | Some t => obs_match cs (OMat ccout t cs) i
      | None => match i with IRaise => true | _ => false end
      end
  end.

(* a payload written by torch.save directly (not by torch_frame.save): what does
   load make of it?  Compared with the implementation when both return, and when
   the implementation raises; when the implementation returns normally where the
   model mirrors today's raise, nothing is demanded. *)
Definition check_crafted (p : payload ctensor cstats) (i : iobs) : bool :=
  match c_load (cenc p), i with
  | Some (t, cs), IMat f cs' =>
      c_tframe_wfb t &&                                  (* load_returns_only_wellformed_frames, evaluated *)
      match read_frame t with Some f' => frame_obs_eqb f' f | None => false end && (cs =? cs')%Z
  | None, IRaise => true
  | None, _ => true
  | Some _, _ => false
  end.

(* several saves onto ONE path (truncating open), then load: the last one *)
Definition c_reuse_then_load :=
  reuse_then_load ct_dim ct_size c_valid_nested c_valid_embed cenc cdec.
Definition check_reuse (l : list (tframe ctensor * cstats)) (i : iobs) : bool :=
  forallb (fun p => c_tframe_wfb (fst p)) l &&
  match c_reuse_then_load OTrunc None l, last l (MkTF [] [] None None, 0%Z) with
  | Some (t, cs), (_, cs0) => obs_match cs0 (OMat ccout t cs) i
  | None, _ => match i with IRaise => true | _ => false end
  end.
