(* Spec layer for TensorFrames (C07, C08): a feature IS its matrix of cells
   (rows x columns x cell), whatever its storage kind; a frame is a list of such
   views sharing one row axis, plus column names and a target.  Selections and
   partitions are the plain-list operations of Lib/PySlice.v / RaggedSpec.v.
   Definitions only. *)
From Coq Require Import String ZArith List Bool Arith.
From PF Require Import Lib.ListX Lib.PySlice Model.Ragged Model.RaggedSpec Model.RaggedRun Model.Frame Gen.Tables.
Import ListNotations.

Definition cmat := cellmat payload.

Inductive fview :=
| VDense (c k : nat) (m : cmat)                 (* every cell has k scalars *)
| VNested (c : nat) (m : cmat)                  (* ragged cells *)
| VEmb (ws : list nat) (m : cmat)               (* column j has cells of ws[j] scalars *)
| VDict (d : list (string * (nat * cmat))).     (* key -> (c, cells) *)

(* the implementation-level feature that stores a view *)
Definition feat_of_view (v : fview) : feat :=
  match v with
  | VDense c k m => FDense (map (@concat payload) m) c k
  | VNested c m => FNested (mnt_of_cells c m)
  | VEmb ws m => FEmb (met_of_cells ws m)
  | VDict d => FDict (map (fun kcm => (fst kcm, mnt_of_cells (fst (snd kcm)) (snd (snd kcm)))) d)
  end.

(* apply a transformation of the row list to every cell matrix of a view *)
Definition vmap (g : cmat -> cmat) (v : fview) : fview :=
  match v with
  | VDense c k m => VDense c k (g m)
  | VNested c m => VNested c (g m)
  | VEmb ws m => VEmb ws (g m)
  | VDict d => VDict (map (fun kcm => (fst kcm, (fst (snd kcm), g (snd (snd kcm))))) d)
  end.

(* the rows at positions pos, in that order *)
Definition vsel (pos : list nat) : fview -> fview := vmap (pick_rows pos).
Definition ysel (pos : list nat) (y : list payload) : list payload := map (fun i => nth i y None) pos.

(* all parts of a view have n rows and the column structure it declares *)
Definition view_wf (n : nat) (v : fview) : Prop :=
  match v with
  | VDense c k m => length m = n /\ Forall (fun r => length r = c /\ Forall (fun cl => length cl = k) r) m
  | VNested c m => length m = n /\ rect c m
  | VEmb ws m => length m = n /\ rect_w ws m
  | VDict d => d <> [] /\ Forall (fun kcm => length (snd (snd kcm)) = n /\ rect (fst (snd kcm)) (snd (snd kcm))) d
  end.

Definition frame_of (vs : list (stype * fview)) (nm : list (stype * list string)) (yy : option (list payload))
           (ov : option nat) : tframe :=
  MkTF (map (fun sv => (fst sv, feat_of_view (snd sv))) vs) nm yy ov.

(* a frame of n rows: every feature and the target have n rows; the explicit
   row count, when given, is n; a frame without features and without explicit
   count has 0 rows *)
Definition frame_wf (n : nat) (vs : list (stype * fview)) (yy : option (list payload)) (ov : option nat) : Prop :=
  Forall (fun sv => view_wf n (snd sv)) vs
  /\ match yy with Some v => length v = n | None => True end
  /\ match ov with Some k => k = n | None => vs <> [] \/ n = 0 end.

(* __getitem__ wraps an int into a one-element list *)
Definition as_list_index (ix : index) : index := match ix with IInt i => IList [i] | _ => ix end.

(* the frame tf[ix] must be: the same positions pos picked from every view and from the target *)
Definition sel_frame (pos : list nat) (vs : list (stype * fview)) (nm : list (stype * list string))
           (yy : option (list payload)) (ov : option nat) : tframe :=
  frame_of (map (fun sv => (fst sv, vsel pos (snd sv))) vs) nm (option_map (ysel pos) yy)
           (option_map (fun _ => length pos) ov).

(* a chain of selections on the spec side: the positions of the ORIGINAL rows that survive *)
Fixpoint chain_positions (n : nat) (p : list index) : option (list nat) :=
  match p with
  | [] => Some (seq 0 n)
  | ix :: rest =>
      match py_positions n (as_list_index ix) with
      | Some pos =>
          match chain_positions (length pos) rest with
          | Some pos' => Some (map (fun i => nth i pos 0) pos')
          | None => None
          end
      | None => None
      end
  end.

(* ---------------------------------------------------------------- C08 *)
(* columns a..b of a view *)
Definition col_chunk (a b : nat) (m : cmat) : cmat := map (fun r => tslice r a b) m.
Definition vcols (a b : nat) (v : fview) : fview :=
  match v with
  | VDense c k m => VDense (Nat.min b c - a) k (col_chunk a b m)
  | VNested c m => VNested (Nat.min b c - a) (col_chunk a b m)
  | VEmb ws m => VEmb (tslice ws a b) (col_chunk a b m)
  | VDict d => VDict (map (fun kcm => (fst kcm, (Nat.min b (fst (snd kcm)) - a, col_chunk a b (snd (snd kcm))))) d)
  end.

(* number of columns of a view *)
Definition vncols (v : fview) : nat :=
  match v with
  | VDense c _ _ => c
  | VNested c _ => c
  | VEmb ws _ => length ws
  | VDict d => match d with [] => 0 | kcm :: _ => fst (snd kcm) end
  end.

(* column j of a view, as get_col_feat must return it *)
Definition vcol (j : nat) (v : fview) : fview := vcols j (j + 1) v.
