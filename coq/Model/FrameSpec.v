(* Spec layer for TensorFrames (C07, C08): a feature IS its matrix of cells
   (rows x columns x cell), whatever its storage kind; a frame is a list of such
   views sharing one row axis, plus column names and a target.  Selections and
   partitions are the plain-list operations of Lib/PySlice.v / RaggedSpec.v.
   Definitions only. *)
From Coq Require Import String ZArith List Bool Arith.
From PF Require Import Lib.ListX Lib.PySlice Model.Ragged Model.RaggedSpec Model.RaggedRun Model.Frame Gen.Tables.
Import ListNotations.

Notation cmat := (cellmat payload) (only parsing).

Inductive fview :=
| VDense (c k : nat) (m : cmat)                 (* every cell has k scalars *)
| VNested (c : nat) (m : cmat)                  (* ragged cells *)
| VEmb (ws : list nat) (m : cmat)               (* column j has cells of ws[j] scalars *)
| VDict (d : list (string * (nat * cmat))).     (* key -> (c, cells) *)

(* the implementation-level feature that stores a view *)
Definition feat_of_view (v : fview) : feat :=
  match v with
  | VDense c k m => FDense (map (@concat payload) m) c k
  | VNested c m => FNested (mnt_of_cells c m)
  | VEmb ws m => FEmb (met_of_cells ws m)
  | VDict d => FDict (map (fun kcm => (fst kcm, mnt_of_cells (fst (snd kcm)) (snd (snd kcm)))) d)
  end.

(* apply a transformation of the row list to every cell matrix of a view *)
Definition vmap (g : cmat -> cmat) (v : fview) : fview :=
  match v with
  | VDense c k m => VDense c k (g m)
  | VNested c m => VNested c (g m)
  | VEmb ws m => VEmb ws (g m)
  | VDict d => VDict (map (fun kcm => (fst kcm, (fst (snd kcm), g (snd (snd kcm))))) d)
  end.

(* the rows at positions pos, in that order *)
Definition vsel (pos : list nat) : fview -> fview := vmap (pick_rows pos).
Definition ysel (pos : list nat) (y : list payload) : list payload := map (fun i => nth i y None) pos.

(* all parts of a view have n rows and the column structure it declares *)
Definition view_wf (n : nat) (v : fview) : Prop :=
  match v with
  | VDense c k m => length m = n /\ Forall (fun r => length r = c /\ Forall (fun cl => length cl = k) r) m
  | VNested c m => length m = n /\ rect c m
  | VEmb ws m => length m = n /\ rect_w ws m
  | VDict d => d <> [] /\ Forall (fun kcm => length (snd (snd kcm)) = n /\ rect (fst (snd kcm)) (snd (snd kcm))) d
  end.

Definition frame_of (vs : list (stype * fview)) (nm : list (stype * list string)) (yy : option (list payload))
           (ov : option nat) : tframe :=
  MkTF (map (fun sv => (fst sv, feat_of_view (snd sv))) vs) nm yy ov.

(* a frame of n rows: every feature and the target have n rows; the explicit
   row count, when given, is n; a frame without features and without explicit
   count has 0 rows *)
Definition frame_wf (n : nat) (vs : list (stype * fview)) (yy : option (list payload)) (ov : option nat) : Prop :=
  Forall (fun sv => view_wf n (snd sv)) vs
  /\ match yy with Some v => length v = n | None => True end
  /\ match ov with Some k => k = n | None => vs <> [] \/ n = 0 end.

(* __getitem__ wraps an int into a one-element list *)
Definition as_list_index (ix : index) : index := match ix with IInt i => IList [i] | _ => ix end.

(* the frame tf[ix] must be: the same positions pos picked from every view and from the target *)
Definition sel_frame (pos : list nat) (vs : list (stype * fview)) (nm : list (stype * list string))
           (yy : option (list payload)) (ov : option nat) : tframe :=
  frame_of (map (fun sv => (fst sv, vsel pos (snd sv))) vs) nm (option_map (ysel pos) yy)
           (option_map (fun _ => length pos) ov).

(* a chain of selections on the spec side: the positions of the ORIGINAL rows that survive *)
Fixpoint chain_positions (n : nat) (p : list index) : option (list nat) :=
  match p with
  | [] => Some (seq 0 n)
  | ix :: rest =>
      match py_positions n (as_list_index ix) with
      | Some pos =>
          match chain_positions (length pos) rest with
          | Some pos' => Some (map (fun i => nth i pos 0) pos')
          | None => None
          end
      | None => None
      end
  end.

(* a chain of selections on the spec side: every step picks the same positions from every view and the target *)
Fixpoint spec_chain (n : nat) (vs : list (stype * fview)) (nm : list (stype * list string))
         (yy : option (list payload)) (ov : option nat) (p : list index) : option tframe :=
  match p with
  | [] => Some (frame_of vs nm yy ov)
  | ix :: rest =>
      match py_positions n (as_list_index ix) with
      | Some pos => spec_chain (length pos) (map (fun sv => (fst sv, vsel pos (snd sv))) vs) nm
                               (option_map (ysel pos) yy) (option_map (fun _ => length pos) ov) rest
      | None => None
      end
  end.

(* ---------------------------------------------------------------- C08 *)
(* columns a..b of a view *)
Definition col_chunk (a b : nat) (m : cmat) : cmat := map (fun r => tslice r a b) m.
Definition vcols (a b : nat) (v : fview) : fview :=
  match v with
  | VDense c k m => VDense (Nat.min b c - a) k (col_chunk a b m)
  | VNested c m => VNested (Nat.min b c - a) (col_chunk a b m)
  | VEmb ws m => VEmb (tslice ws a b) (col_chunk a b m)
  | VDict d => VDict (map (fun kcm => (fst kcm, (Nat.min b (fst (snd kcm)) - a, col_chunk a b (snd (snd kcm))))) d)
  end.

(* row-wise concatenation of cell matrices of n rows each (column concatenation) *)
Definition zip_rows (n : nat) (ms : list cmat) : cmat :=
  map (fun i => concat (map (fun m => nth i m []) ms)) (seq 0 n).

(* number of columns of a view *)
Definition vncols (v : fview) : nat :=
  match v with
  | VDense c _ _ => c
  | VNested c _ => c
  | VEmb ws _ => length ws
  | VDict d => match d with [] => 0 | kcm :: _ => fst (snd kcm) end
  end.

(* column j of a view, as get_col_feat must return it *)
Definition vcol (j : nat) (v : fview) : fview := vcols j (j + 1) v.

(* ---------------------------------------------------------------- validity *)
(* a dict-valued feature has distinct keys and the same number of columns under every key *)
Definition vdict_ok (v : fview) : Prop :=
  match v with
  | VDict d => NoDup (map fst d) /\ Forall (fun kcm => fst (snd kcm) = vncols v) d
  | _ => True
  end.

(* feat_dict and col_names_dict are dicts over the same stypes, and every stype has one name per column *)
Definition names_ok (vs : list (stype * fview)) (nm : list (stype * list string)) : Prop :=
  NoDup (map fst vs) /\ NoDup (map fst nm) /\ length nm = length vs
  /\ (forall s, In s (map fst nm) -> In s (map fst vs))
  /\ (forall s v, In (s, v) vs ->
        vdict_ok v /\ exists cn, alookup stype_eqb s nm = Some cn /\ length cn = vncols v /\ cn <> []).

(* two views hold close data: same storage kind and shape, every scalar close, missing matching missing *)
Definition cells_close (close : Z -> Z -> bool) (m m' : cmat) : Prop :=
  Forall2 (Forall2 (Forall2 (fun a b => pclose close true a b = true))) m m'.

(* ---------------------------------------------------------------- equality *)
(* what `a == b` must mean, branch by branch of __eq__: same length; same target (every pair of entries close,
   a missing target entry is never close to anything); same col_names_dict as dicts; every feature of a has a
   close feature under the same stype in b *)
Definition y_equiv (close : Z -> Z -> bool) (ya yb : option (list payload)) : Prop :=
  match ya, yb with
  | Some u, Some v => length u = length v /\ Forall2 (fun q p => pclose close false q p = true) v u
  | None, None => True
  | _, _ => False
  end.

Definition names_equiv (na nb : list (stype * list string)) : Prop :=
  length na = length nb /\ forall s cn, In (s, cn) na -> alookup stype_eqb s nb = Some cn.

Definition tf_equiv (close : Z -> Z -> bool) (a b : tframe) : Prop :=
  (exists n, tf_num_rows a = Some n /\ tf_num_rows b = Some n)
  /\ y_equiv close (y a) (y b)
  /\ names_equiv (names a) (names b)
  /\ Forall (fun sx => exists xb, alookup stype_eqb (fst sx) (feats b) = Some xb /\ feat_eq close (snd sx) xb = true)
            (feats a).

(* two views hold close data *)
Definition view_close (close : Z -> Z -> bool) (v v' : fview) : Prop :=
  match v, v' with
  | VDense c k m, VDense c' k' m' => c = c' /\ k = k' /\ cells_close close m m'
  | VNested c m, VNested c' m' => c = c' /\ cells_close close m m'
  | VEmb ws m, VEmb ws' m' => ws = ws' /\ cells_close close m m'
  | VDict d, VDict d' =>
      length d = length d'
      /\ (forall k, In k (map fst d') -> In k (map fst d))
      /\ forall k c m, In (k, (c, m)) d -> exists m', alookup String.eqb k d' = Some (c, m') /\ cells_close close m m'
  | _, _ => False
  end.

(* one scalar of a cell matrix, and one component (cell matrix) of a view: key = None for the three tensor
   storage kinds, Some k for the k-entry of a dict-valued feature *)
Definition scalar_at (m : cmat) (i j k : nat) : payload := nth k (nth j (nth i m []) []) None.
Definition view_comp (key : option string) (v : fview) : option cmat :=
  match v, key with
  | VDense _ _ m, None => Some m
  | VNested _ m, None => Some m
  | VEmb _ m, None => Some m
  | VDict d, Some k => option_map (fun cm => snd cm) (alookup String.eqb k d)
  | _, _ => None
  end.

(* ---------------------------------------------------------------- column partitions *)
(* part of a frame holding, for every stype s, the columns lo s .. hi s - 1 (a stype with no column in the
   part is absent from it, as validate() demands) *)
Definition col_part_views (lo hi : stype -> nat) (vs : list (stype * fview)) : list (stype * fview) :=
  flat_map (fun sv => if lo (fst sv) <? hi (fst sv)
                      then [(fst sv, vcols (lo (fst sv)) (hi (fst sv)) (snd sv))] else []) vs.
Definition col_part_names (lo hi : stype -> nat) (nm : list (stype * list string)) : list (stype * list string) :=
  flat_map (fun sc => if lo (fst sc) <? hi (fst sc)
                      then [(fst sc, tslice (snd sc) (lo (fst sc)) (hi (fst sc)))] else []) nm.
(* the j-th of the parts cut at cut 0 s <= cut 1 s <= ... for every stype s *)
Definition col_part (cut : nat -> stype -> nat) (vs : list (stype * fview)) (nm : list (stype * list string))
           (py : nat -> option (list payload)) (pov : nat -> option nat) (j : nat) : tframe :=
  frame_of (col_part_views (cut j) (cut (S j)) vs) (col_part_names (cut j) (cut (S j)) nm) (py j) (pov j).

(* What "the two frames are equal" means, stated on the views only (no reference to the implementation's
   comparison loop): same number of rows; same target (entry-wise close, a missing entry never close); the same
   column names per stype (as dicts); and for every stype of the first frame a view of the same storage kind and
   shape in the second whose cells are all close, missing matching missing. *)
Definition frames_equal (close : Z -> Z -> bool)
           (n : nat) (vs : list (stype * fview)) (nm : list (stype * list string)) (yy : option (list payload))
           (n' : nat) (vs' : list (stype * fview)) (nm' : list (stype * list string)) (yy' : option (list payload)) : Prop :=
  n = n' /\ y_equiv close yy yy' /\ names_equiv nm nm'
  /\ forall s v, In (s, v) vs -> exists v', In (s, v') vs' /\ view_close close v v'.
