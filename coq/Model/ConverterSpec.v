(* Spec layer of C02 (and of the converter clauses of C01): the vocabulary in
   which the property theorems are stated.  Definitions only. *)
From Coq Require Import ZArith List Bool Arith.
From PF Require Import Gen.Tables Lib.ListX Model.Ragged Model.Mapper Model.MapperSpec Model.Converter.
Import ListNotations.
Local Open Scope nat_scope.

(* the canonical col_names_dict the constructor computes for a frame *)
Definition init_names (cols : list (name * rawcol)) (target : option name) : sdict (list name) :=
  col_names_dict_init (col_to_stype_of cols) target.

(* names of the feature columns of one stype, in col_to_stype order, target skipped *)
Definition group_of (cts : list (name * stype)) (target : option name) (st : stype) : list name :=
  map fst (filter (fun c => negb (is_target target (fst c)) && stype_eqb (snd c) st) cts).

Definition name_le (a b : name) : Prop := str_leb a b = true.

Definition dflt {A} (o : option (list A)) : list A := match o with Some l => l | None => [] end.

(* the embedding group after _merge_feat: own columns, then text_embedded, then image_embedded *)
Definition merged_embedding_names (N : sdict (list name)) : option (list name) :=
  match sd_get N st_embedding, sd_get N st_text_embedded, sd_get N st_image_embedded with
  | None, None, None => None
  | e, te, ie => Some (dflt e ++ dflt te ++ dflt ie)
  end.

(* `col` is the encoding of the DataFrame column called nm *)
Definition col_of (enc : rawcol -> option encoded) (cols : list (name * rawcol)) (nm : name) (col : list ecell) : Prop :=
  exists c, get_col cols nm = Some c /\ enc c = Some (ECol col).

(* names and feature columns are aligned: column j of every group holds the
   encoding of the DataFrame column called names[j] *)
Definition aligned (enc : rawcol -> option encoded) (cols : list (name * rawcol)) (t : tensor_frame) : Prop :=
  forall k, match sd_get (tf_names t) k, sd_get (tf_feats t) k with
            | Some names, Some (FCols fc) => Forall2 (col_of enc cols) names fc
            | Some _, Some (FDict _) => True
            | None, None => True
            | _, _ => False
            end.

(* y as __call__ computes it *)
Definition target_y (enc : rawcol -> option encoded) (cols : list (name * rawcol)) (target : option name)
  : option (option encoded) :=
  match target with
  | None => Some None
  | Some t => match get_col cols t with None => Some None | Some c => option_map Some (enc c) end
  end.

(* what the statistics / configuration of a column must satisfy for the cell
   theorems: categories listed once (value_counts), the int -1 is not a
   category or token, vectors of one width *)
Definition rawcol_ok (c : rawcol) : Prop :=
  match c with
  | RCat cats _ => NoDup cats
  | RMulti dt cats sep cells => dt = true /\ NoDup cats /\ ~ In (VInt (-1)) cats /\ Forall (tokens_ok sep) cells
  | REmb cells | RTextEmb cells | RImageEmb cells => exists w, Forall (fun v => length v = w) cells
  | _ => True
  end.

(* a well-formed DataFrame: every column has one cell per index label *)
Definition frame_wf {L} (df : frame L) : Prop :=
  Forall (fun c => rawcol_len (snd c) = length (f_index df) /\ rawcol_ok (snd c)) (f_cols df).

(* C01 for a whole column: row i holds the canonical encoding of raw cell i *)
Definition canonical_col (c : rawcol) (col : list ecell) : Prop :=
  match c with
  | RNum cells => col = map canon_num cells
  | RCat cats cells => col = map (canon_cat cats) cells
  | RMulti _ cats sep cells => mapM (canon_multi cats sep) cells = Some (map sort_cell col)
  | RSeq cells => mapM canon_seq cells = Some col
  | RTime cells => col = map canon_time cells
  | REmb cells | RTextEmb cells | RImageEmb cells => col = map canon_vec cells
  | RTok _ => True
  end.

(* reflexivity is all the theorems need of the label equality *)
Definition leqb_refl {L} (leqb : L -> L -> bool) : Prop := forall a, leqb a a = true.

(* equality of TensorFrames as dictionaries (key order is not observable through ==) *)
Definition tf_equiv (t t' : tensor_frame) : Prop :=
  tf_y t = tf_y t' /\
  (forall k, sd_get (tf_names t) k = sd_get (tf_names t') k) /\
  (forall k, sd_get (tf_feats t) k = sd_get (tf_feats t') k).

(* the distinct non-missing values of a column *)
Definition lists_distinct_values (cats : list pval) (cells : list (option pval)) : Prop :=
  NoDup cats /\ forall v, In v cats <-> In (Some v) cells.
