(* Executable model of torch_frame/data/dataset.py : the row-subset API of
   `Dataset` (C09).  Definitions only; lemmas are in Proofs/DatasetProofs.v.

   A dataset is two representations of the same rows: `df` (the DataFrame: each
   row carries its index label, a row identity `rid` and its split value) and
   `tf` (the TensorFrame: the rid of each of its rows), plus the materialized
   flag and the column bookkeeping `col_select` edits.  Every method returns a
   new record (copy.copy + attribute assignment in the Python); the only method
   that mutates its receiver is `materialize` (see Model/DatasetRun.v).  What
   copy.copy shares between the Python objects (the `_col_stats` dict, the
   frame's buffers) is NOT represented: that derived datasets leave their
   source alone is observed by the harness, not derived from this model.

   A raise is `None`.  Index labels are carried along but never consulted (the
   pre-fix `get_split` that did consult them lives in Legacy/DatasetLegacy.v).

   Modelled primitives (validated on every run by harness/c09.py):
     df.iloc[ix] and TensorFrame[ix] pick the positions `py_positions len ix`
       (Lib/PySlice.v); negative steps are accepted by iloc but rejected by
       TensorFrame indexing, so the pair raises;
     `float * int` and `round` are IEEE double / half-even (Lib/FloatInt.v);
     the converter at materialization maps df row i to TensorFrame row i. *)
From Coq Require Import ZArith List Bool String PrimFloat.
From PF Require Import Lib.ListX Lib.PySlice Lib.FloatInt Gen.Tables.
Import ListNotations.
Local Open Scope Z_scope.

Inductive lbl := LInt (z : Z) | LStr (s : string).

Record row := mkRow { label : lbl; rid : nat; split : Z }.

Record ds := mkDs {
  df : list row;                (* self.df, rows in order *)
  df_cols : list string;        (* self.df.columns *)
  stype_cols : list string;     (* keys of self.col_to_stype (features and target) *)
  target_col : option string;   (* self.target_col *)
  split_col : option string;    (* self.split_col *)
  materialized : bool;          (* self._is_materialized *)
  tf : option (list nat);       (* self._tensor_frame (None before materialization): rid of each row *)
}.

Definition with_rows (d : ds) (rows : list row) (t : list nat) : ds :=
  mkDs rows (df_cols d) (stype_cols d) (target_col d) (split_col d) (materialized d) (Some t).

(* keys of `{col: ... for col in cols}`: a repeated name is kept once, at its first position *)
Fixpoint dedup_str (l : list string) : list string :=
  match l with
  | [] => []
  | c :: r => c :: filter (fun x => negb (String.eqb x c)) (dedup_str r)
  end.

(* dataset.df = self.df[cols] keeps repeated names; col_to_stype is a dict *)
Definition with_cols (d : ds) (cols : list string) : ds :=
  mkDs (df d) cols (dedup_str cols) (target_col d) (split_col d) (materialized d) (tf d).

Definition mem_str (c : string) (l : list string) : bool := existsb (String.eqb c) l.

(* len(self) = len(self.df) *)
Definition len (d : ds) : nat := List.length (df d).

(* the two decorators *)
Definition requires_pre_materialization {A} (d : ds) (body : option A) : option A :=
  if materialized d then None else body.
Definition requires_post_materialization {A} (d : ds) (body : option A) : option A :=
  if materialized d then body else None.

Definition count_str (c : string) (l : list string) : nat := List.length (filter (String.eqb c) l).

(* materialize() without a cache path: returns self when already materialized;
   else statistics + converter: row i of the frame becomes row i of the
   TensorFrame.  `self.df[col]` is a DataFrame, not a Series, when the frame has
   the column name twice (possible after col_select with a repeated name): the
   statistics / mappers raise.  Other failures of materialization (C01) are
   outside this model. *)
Definition materialize (d : ds) : option ds :=
  if materialized d then Some d
  else if forallb (fun c => Nat.eqb (count_str c (df_cols d)) 1) (stype_cols d)
  then Some (mkDs (df d) (df_cols d) (stype_cols d) (target_col d) (split_col d) true (Some (map rid (df d))))
  else None.

(* the `tensor_frame` and `col_stats` properties: only the gate of col_stats is
   modelled (the statistics dict is shared between copy.copy siblings and is
   not part of this property) *)
Definition tensor_frame (d : ds) : option (list nat) := requires_post_materialization d (tf d).
Definition col_stats (d : ds) : option unit := requires_post_materialization d (Some tt).

(* What index_select / __getitem__ accept for rows: IndexSelectType, where a
   slice may carry float bounds. *)
Inductive bound := BInt (z : Z) | BFloat (f : float).
Inductive dindex :=
| DIdx (ix : index)                            (* int | list | range | Tensor (long / bool) | slice with int bounds *)
| DSlice (a b : option bound) (s : option Z).  (* slice whose bounds may be floats *)

(* `start = round(start * len(self))` for a float bound *)
Definition float_cut (n : nat) (b : option bound) : option (option Z) :=
  match b with
  | None => Some None
  | Some (BInt z) => Some (Some z)
  | Some (BFloat f) => option_map Some (py_round (PrimFloat.mul f (float_of_nat n)))
  end.

(* the preamble of index_select: int -> [int]; float slice bounds -> round(f * len) *)
Definition resolve_index (n : nat) (i : dindex) : option index :=
  match i with
  | DIdx (IInt k) => Some (IList [k])
  | DIdx ix => Some ix
  | DSlice a b s =>
      a' <- float_cut n a ;;
      b' <- float_cut n b ;;
      Some (ISlice a' b' s)
  end.

(* index_select: the same index is applied to df.iloc and to the TensorFrame,
   each normalising it against its own length. *)
Definition index_select (d : ds) (i : dindex) : option ds :=
  requires_post_materialization d (
    ix <- resolve_index (len d) i ;;
    pd <- py_positions (List.length (df d)) ix ;;
    rows <- tgather (df d) pd ;;
    t <- tf d ;;
    pt <- py_positions (List.length t) ix ;;
    t' <- tgather t pt ;;
    Some (with_rows d rows t')).

(* shuffle: perm = torch.randperm(len(self)) is an input of the model (its value
   is what return_perm reports); dataset = self.index_select(perm) *)
Definition shuffle (d : ds) (perm : list nat) : option (ds * list nat) :=
  d' <- index_select d (DIdx (ITensor (map Z.of_nat perm))) ;;
  Some (d', perm).

(* col_select: str -> [str]; the target is appended when missing; df[cols] and
   col_to_stype[col] raise KeyError for unknown names *)
Definition col_select (d : ds) (cols : list string) : option ds :=
  requires_pre_materialization d (
    let cols' := match target_col d with
                 | Some t => if mem_str t cols then cols else cols ++ [t]
                 | None => cols
                 end in
    if forallb (fun c => mem_str c (df_cols d)) cols' then
      if forallb (fun c => mem_str c (stype_cols d)) cols' then Some (with_cols d cols')
      else None
    else None).

Fixpoint assoc_str {A} (k : string) (l : list (string * A)) : option A :=
  match l with
  | [] => None
  | (k', v) :: r => if String.eqb k k' then Some v else assoc_str k r
  end.

(* get_split (repaired, commit 965832b): positions of the rows whose split value
   is SPLIT_TO_NUM[split], fed to index_select.  `split_to_num` is regenerated
   from the live Python on every run (Gen/Tables.v). *)
Definition get_split (d : ds) (name : string) : option ds :=
  match split_col d with
  | None => None                                               (* ValueError *)
  | Some sc =>
      if mem_str name ["train"; "val"; "test"]%string then
        if mem_str sc (df_cols d) then                         (* self.df[self.split_col] : KeyError *)
          k <- assoc_str name split_to_num ;;
          let mask := map (fun r => split r =? k) (df d) in
          index_select d (DIdx (IList (map Z.of_nat (nonzero mask))))
        else None
      else None                                                (* ValueError *)
  end.

(* split() = (get_split("train"), get_split("val"), get_split("test")) *)
Definition split3 (d : ds) : option (ds * ds * ds) :=
  a <- get_split d "train" ;;
  b <- get_split d "val" ;;
  c <- get_split d "test" ;;
  Some (a, b, c).

(* __getitem__ : a str, or a non-empty list whose first element is a str, is a
   column selection; everything else a row selection *)
Inductive key := KStr (c : string) | KStrs (cs : list string) | KRows (i : dindex).
Definition getitem (d : ds) (k : key) : option ds :=
  match k with
  | KStr c => col_select d [c]
  | KStrs [] => index_select d (DIdx (IList []))
  | KStrs cs => col_select d cs
  | KRows i => index_select d i
  end.

(* The history language: every operation returns a dataset. *)
Inductive op :=
| OGetItem (k : key)
| OIndexSelect (i : dindex)
| OShuffle (perm : list nat)        (* the permutation torch.randperm returned *)
| OGetSplit (name : string)
| OColSelect (cols : list string)
| OMaterialize.

Definition step (d : ds) (o : op) : option ds :=
  match o with
  | OGetItem k => getitem d k
  | OIndexSelect i => index_select d i
  | OShuffle perm => option_map fst (shuffle d perm)
  | OGetSplit name => get_split d name
  | OColSelect cols => col_select d cols
  | OMaterialize => materialize d
  end.

(* a finite history; a raise is absorbing *)
Definition run (d : ds) (ops : list op) : option ds :=
  fold_left (fun acc o => d' <- acc ;; step d' o) ops (Some d).
