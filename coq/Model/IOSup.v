(* Extension of Model/IO.v (definitions only):
   * Dataset.materialize(path=..., col_stats=SUPPLIED): the statistics argument is
     explicit.  `compute sup` is what steps 1-4 of materialize produce on this
     dataset's DataFrame when called with col_stats=sup (None: statistics computed
     from the frame; Some s: validated, taken over, converter built around them).
     As in dataset.py, the argument is consulted ONLY in the compute branch: an
     already materialized object and a cache hit ignore it.
   * a DERIVED dataset (ds[idx], ds.shuffle(), ...: index_select copies the object,
     selects its TensorFrame, keeps statistics and converter, and counts as
     materialized) calling materialize(path, ...).
   * generations: load -> select -> save -> load -> ... on TensorFrames. *)
From Coq Require Import List Arith Bool String.
From PF Require Import Lib.ListX Gen.Tables Model.IO.
Import ListNotations.
Set Implicit Arguments.

Section IOSup.
  Variable tensor : Type.
  Variable tdim : tensor -> nat.
  Variable tsize : tensor -> nat -> nat.
  Variable valid_nested valid_embed : nat -> nat -> tensor -> tensor -> bool.
  Variable stats : Type.
  Variable byte : Type.
  Variable enc : payload tensor stats -> list byte.
  Variable dec : list byte -> option (payload tensor stats).
  Variable rows cout : Type.
  Variable conv : stats -> rows -> option cout.
  Variable compute : option stats -> tframe tensor * stats.

  Local Notation world := (IO.world tensor stats byte).

  (* Dataset.materialize(path, col_stats=sup): Model/IO.v's materialize with the
     fresh computation instantiated by the statistics argument *)
  Definition materializeS (cut : option nat) (w : world) (with_path : bool) (sup : option stats) : world * bool :=
    IO.materialize tdim tsize valid_nested valid_embed enc dec (compute sup) cut w with_path.

  Inductive eventS :=
  | EvS (sup : option stats) (e : event rows)     (* an event of Model/IO.v, its materialize given col_stats=sup *)
  | DerivedMat (sel : tframe tensor -> tframe tensor) (with_path : bool) (sup : option stats).
                                                  (* d = cur[sel]; d.materialize(path or None, col_stats=sup) *)
  Inductive obsS :=
  | OS (o : obs tensor stats cout)
  | ODerived (raised : bool).

  Definition stepS (w : world) (e : eventS) : world * obsS :=
    match e with
    | EvS sup e' =>
        let r := IO.step tdim tsize valid_nested valid_embed enc dec conv (compute sup) w e' in
        (fst r, OS (snd r))
    | DerivedMat sel p sup =>
        (* index_select: requires_post_materialization; copy.copy(self) with the selected frame *)
        match ds_mat (cur w), ds_tf (cur w) with
        | true, Some t =>
            let d := MkDs true (Some (sel t)) (ds_stats (cur w)) (ds_conv (cur w)) in
            let r := materializeS None (MkW (fs w) d) p sup in
            (MkW (fs (fst r)) (cur w), ODerived (snd r))        (* the live object itself is untouched *)
        | _, _ => (w, ODerived true)
        end
    end.

  Fixpoint runS (w : world) (h : list eventS) : world * list obsS :=
    match h with
    | [] => (w, [])
    | e :: r =>
        let s := stepS w e in
        let t := runS (fst s) r in
        (fst t, snd s :: snd t)
    end.

  (* the statistics arguments that occur in a history *)
  Definition sup_of (e : eventS) : option stats :=
    match e with EvS s _ => s | DerivedMat _ _ s => s end.
  Definition sups (h : list eventS) : list (option stats) := map sup_of h.

  (* C11's quantifier: the cache path is written by a dataset over the table its
     readers use.  A derived dataset may call materialize(path) only while the
     file exists (then it is a no-op); with no file it would write its own row
     subset -- a foreign cache. *)
  Fixpoint guarded (w : world) (h : list eventS) : Prop :=
    match h with
    | [] => True
    | e :: r =>
        match e with DerivedMat _ true _ => isfile w = true | _ => True end /\
        guarded (fst (stepS w e)) r
    end.

  (* ---------------------------------------------------------------- *)
  (* generations of one frame: select, save, load, select, save, load, ... *)
  Fixpoint generations (sels : list (tframe tensor -> tframe tensor)) (t : tframe tensor) (cs : stats)
    : option (tframe tensor) :=
    match sels with
    | [] => Some t
    | f :: r =>
        b <- save enc (f t) cs ;;
        p <- load tdim tsize valid_nested valid_embed dec b ;;
        generations r (fst p) cs
    end.

  (* ---------------------------------------------------------------- *)
  (* Path reuse: torch_frame.save(tf, stats, path) onto WHATEVER the path holds.
     torch.save(obj, path) opens the path for writing, which truncates it
     (OTrunc).  ONoTrunc is the other way a file can be opened for writing
     (os.open(path, O_WRONLY | O_CREAT)): the new bytes overwrite the beginning
     and the tail of a longer old file stays. *)
  Inductive open_mode := OTrunc | ONoTrunc.

  Definition write_file (m : open_mode) (old : option (list byte)) (new : list byte) : list byte :=
    match m, old with
    | ONoTrunc, Some o => new ++ skipn (List.length new) o
    | _, _ => new
    end.

  (* one save onto the path; None = save raised (file untouched is not modelled further) *)
  Definition save_to (m : open_mode) (f : option (list byte)) (t : tframe tensor) (cs : stats)
    : option (option (list byte)) :=
    option_map (fun b => Some (write_file m f b)) (save enc t cs).

  (* several saves onto one and the same path, never removed in between *)
  Fixpoint save_all (m : open_mode) (f : option (list byte)) (l : list (tframe tensor * stats))
    : option (option (list byte)) :=
    match l with
    | [] => Some f
    | (t, cs) :: r => f' <- save_to m f t cs ;; save_all m f' r
    end.

  Definition reuse_then_load (m : open_mode) (f : option (list byte)) (l : list (tframe tensor * stats))
    : option (tframe tensor * stats) :=
    f' <- save_all m f l ;;
    match f' with
    | Some b => load tdim tsize valid_nested valid_embed dec b
    | None => None
    end.
End IOSup.

Arguments EvS {tensor stats rows} sup e.
Arguments DerivedMat {tensor stats rows} sel with_path sup.
Arguments OS {tensor stats cout} o.
Arguments ODerived {tensor stats cout} raised.
