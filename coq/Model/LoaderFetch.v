(* C10 — the FETCH step between torch's batch sampler and DataLoader.collate_fn, definitions only.

   torch.utils.data._utils.fetch._MapDatasetFetcher.fetch (auto-collation):
       data = [self.dataset[idx] for idx in possibly_batched_index]
       return self.collate_fn(data)
   and torch_frame's loader passes dataset = range(len(source)), so every index a sampler yields
   goes through Python's `range(n)[idx]` BEFORE DataLoader.collate_fn sees it: a negative index
   counts from the end (once), anything outside [-n, n) is an IndexError.  Sampler indices are
   therefore integers (Z), not positions; what reaches self.tensor_frame[...] are positions. *)
From Coq Require Import ZArith List Arith Bool.
From PF Require Import Lib.ListX Lib.Chunks Lib.PySlice Model.Loader.
Import ListNotations.

(* range(n)[i] *)
Definition range_getitem (n : nat) (i : Z) : option nat := norm_index n i.

(* [range(n)[idx] for idx in batch] *)
Definition fetch_positions (n : nat) (batch : list Z) : option (list nat) := mapM (range_getitem n) batch.

(* torch BatchSampler over any index type *)
Definition sampler_batches {A} (bs : nat) (order : list A) (drop_last : bool) : list (list A) :=
  let cs := chunks bs order in
  if drop_last then drop_short bs cs else cs.

(* what a user may pass as sampler / batch_sampler: arbitrary integers *)
Inductive zsampling :=
| ZSequential
| ZShuffled (order : list nat)
| ZSampler (idx : list Z)
| ZBatchSampler (bss : list (list Z)).

Section Fetch.
  Context {R : Type}.

  (* the index lists handed to the fetcher during one epoch *)
  Definition z_index_batches (n bs : nat) (s : zsampling) (drop_last : bool) : list (list Z) :=
    match s with
    | ZSequential => sampler_batches bs (map Z.of_nat (seq 0 n)) drop_last
    | ZShuffled order => sampler_batches bs (map Z.of_nat order) drop_last
    | ZSampler idx => sampler_batches bs idx drop_last
    | ZBatchSampler bss => bss
    end.

  (* fetch one batch: look the indices up in range(n), then collate by row selection *)
  Definition fetch_batch (tf : list R) (n : nat) (batch : list Z) : option (list R) :=
    pos <- fetch_positions n batch ;; tgather tf pos.

  (* list(loader) with the fetch step: an IndexError in any batch aborts the iteration *)
  Definition fetch_epoch (tf : list R) (n bs : nat) (s : zsampling) (drop_last : bool) : option (list (list R)) :=
    mapM (fetch_batch tf n) (z_index_batches n bs s drop_last).
End Fetch.

(* instance for the correspondence run: a TensorFrame / materialized source of row tokens *)
Definition c10_fetch_run (tf : list nat) (bs : nat) (s : zsampling) (drop_last : bool)
  : option (list (list nat)) :=
  fetch_epoch tf (length tf) bs s drop_last.

Definition c10_fetch_eqb (a b : option (list (list nat))) : bool :=
  match a, b with
  | None, None => true
  | Some x, Some y =>
      (length x =? length y) &&
      forallb (fun p => (length (fst p) =? length (snd p)) &&
                        forallb (fun q => fst q =? snd q) (combine (fst p) (snd p)))
              (combine x y)
  | _, _ => false
  end.
