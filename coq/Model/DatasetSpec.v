(* Specification-level notions the C09 theorems are stated with (definitions
   only): alignment of the two representations, the invariant, relabelling,
   the denotation of a row-selection argument, the block array of the split
   generator. *)
From Coq Require Import ZArith List Bool String.
From PF Require Import Lib.ListX Lib.PySlice Lib.FloatInt Model.Dataset.
Import ListNotations.

(* DataFrame and TensorFrame hold the same rows in the same order *)
Definition aligned (d : ds) : Prop := tf d = Some (map rid (df d)).

(* ... whenever the dataset is materialized *)
Definition inv (d : ds) : Prop := materialized d = true -> aligned d.

(* relabelling the index: the row ids and split values stay *)
Definition relabel_row (f : lbl -> lbl) (r : row) : row := mkRow (f (label r)) (rid r) (split r).
Definition relabel (f : lbl -> lbl) (d : ds) : ds :=
  mkDs (map (relabel_row f) (df d)) (df_cols d) (stype_cols d) (target_col d) (split_col d)
       (materialized d) (tf d).

(* tree of datasets: entries of the store *)
Definition oinv (e : option ds) : Prop := match e with Some d => inv d | None => True end.

(* what an older entry may become: itself, or itself materialized *)
Definition same_or_materialized (a b : option ds) : Prop :=
  b = a \/ exists d d', a = Some d /\ materialize d = Some d' /\ b = Some d'.

(* the index expression a row selection denotes: only float slice bounds need
   translating (an int k selects like the list [k]) *)
Definition spec_index (n : nat) (i : dindex) : option index :=
  match i with
  | DIdx ix => Some ix
  | DSlice a b s => a' <- float_cut n a ;; b' <- float_cut n b ;; Some (ISlice a' b' s)
  end.

(* the property's constants: split name -> split value *)
Definition split_names : list (string * Z) := [("train", 0); ("val", 1); ("test", 2)]%string%Z.

(* train block, then val block, then test block *)
Definition blocks (tn vn rest : nat) : list Z := repeat 0%Z tn ++ repeat 1%Z vn ++ repeat 2%Z rest.
