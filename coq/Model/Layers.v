(* Executable model of the repository's own glue in the model zoo, the table convolutions and the
   decoders (properties C14, C15).  DEFINITIONS ONLY; lemmas are in Proofs/LayersProofs.v.

   Every function is written twice:
     <name>       the batch-level computation AS WRITTEN in the Python source (tensors with a leading
                  batch axis, `repeat(batch_size, ...)`, reshapes to B*heads, chunking, concatenation);
     <name>_row   what the same code computes for ONE row.
   Props/C14.v and Props/C15.v prove   <name> X = map <name>_row X   for every batch X (any size).

   torch-internal blocks (nn.Linear, LayerNorm, GroupNorm, nn.TransformerEncoder, nn.Sequential of
   those) are ARGUMENTS of the definitions: batch-level functions in <name>, per-row / per-vector
   functions in <name>_row; the theorems relate the two by explicit hypotheses
   ("Lin X = map lin_r X": the block acts on each row separately).
   Dropout is the identity (evaluation mode).  Scalars are abstract (Lib/Tensor.v). *)
From Coq Require Import List Arith Bool ZArith.
From PF Require Import Lib.Chunks Lib.Tensor.
Import ListNotations.

Section Layers.
  Context {R : Type} (O : Ops R).
  Notation vec := (list R).
  Notation mat := (list (list R)).
  Notation t3 := (list (list (list R))).

  (* ================================================================== *)
  (* Normalisation                                                       *)
  (* ================================================================== *)

  (* torch BatchNorm1d in EVALUATION mode (F.batch_norm with training = False), as it is computed on
     the [B, F] matrix:
         (x - running_mean[None, :]) / sqrt(running_var[None, :] + eps) * weight[None, :] + bias[None, :]
     the `[None, :]` broadcast over the batch axis is `repeat _ B`; all four operations are elementwise
     on [B, F] matrices.  (Training mode would use the batch mean / variance instead: bn_train below.) *)
  Definition bn_eval (mean var w b : vec) (X : mat) : mat :=
    let B := length X in
    let centred := zipw (vadd O) X (repeat (vfn O FNeg mean) B) in
    let scaled := zipw (vmul O) centred (repeat (vfn O FRsqrtEps var) B) in
    zipw (vadd O) (zipw (vmul O) scaled (repeat w B)) (repeat b B).
  (* the same for one row *)
  Definition bn_eval_row (mean var w b : vec) (row : vec) : vec :=
    vadd O (vmul O (vmul O (vadd O row (vfn O FNeg mean)) (vfn O FRsqrtEps var)) w) b.

  (* for contrast only (used in a refutation example): TRAINING mode centres by the BATCH mean *)
  Definition bn_train (n : nat) (X : mat) : mat :=
    let m := vecmean O n X in
    map (fun row => vadd O row (vfn O FScale m)) X.

  (* tabnet.py GhostBatchNorm1d.forward, as written:
       if len(x) > 0:
           num_chunks = math.ceil(len(x) / self.virtual_batch_size)
           chunks = torch.chunk(x, num_chunks, dim=0)
           res = [self.bn(x_) for x_ in chunks]
           return torch.cat(res, dim=0)
       else:
           return self.bn(x)                                                  *)
  Definition ghost_bn (Bn : mat -> mat) (vbs : nat) (X : mat) : mat :=
    if 0 <? length X then
      let num_chunks := cdiv (length X) vbs in
      concat (map Bn (torch_chunk num_chunks X))
    else Bn X.

  (* the batches self.bn is called with, as row counts (observable on the real module with a forward hook) *)
  Definition ghost_call_sizes (vbs n : nat) : list nat :=
    if 0 <? n then map (@length nat) (torch_chunk (cdiv n vbs) (seq 0 n)) else [0].

  (* ================================================================== *)
  (* MLP  (models/mlp.py)                                                *)
  (* ================================================================== *)
  (* x, _ = self.encoder(tf); x = torch.mean(x, dim=1); out = self.mlp(x) *)
  Definition mlp_forward {A : Type} (C : nat) (Enc : list A -> t3) (Mlp : mat -> mat) (X : list A) : mat :=
    let x := Enc X in
    let x := map (vecmean O C) x in
    Mlp x.
  Definition mlp_row {A : Type} (C : nat) (enc_r : A -> mat) (mlp_r : vec -> vec) (a : A) : vec :=
    mlp_r (vecmean O C (enc_r a)).

  (* ================================================================== *)
  (* ResNet  (models/resnet.py)                                          *)
  (* ================================================================== *)
  (* FCResidualBlock.forward; norm1/norm2/shortcut are optional modules *)
  Definition fc_residual_block (Lin1 Lin2 : mat -> mat) (Norm1 Norm2 Shortcut : option (mat -> mat))
             (X : mat) : mat :=
    let out := Lin1 X in
    let out := match Norm1 with Some N => N out | None => out end in
    let out := map (vfn O FRelu) out in
    let out := Lin2 out in
    let out := match Norm2 with Some N => N out | None => out end in
    let out := map (vfn O FRelu) out in
    let x := match Shortcut with Some Sc => Sc X | None => X end in
    zipw (vadd O) out x.
  Definition fc_residual_block_row (lin1 lin2 : vec -> vec) (norm1 norm2 shortcut : option (vec -> vec))
             (x : vec) : vec :=
    let out := lin1 x in
    let out := match norm1 with Some N => N out | None => out end in
    let out := vfn O FRelu out in
    let out := lin2 out in
    let out := match norm2 with Some N => N out | None => out end in
    let out := vfn O FRelu out in
    let x := match shortcut with Some Sc => Sc x | None => x end in
    vadd O out x.

  (* x, _ = self.encoder(tf); x = x.view(x.size(0), prod(x.shape[1:])); x = self.backbone(x);
     out = self.decoder(x) *)
  Definition resnet_forward {A : Type} (Enc : list A -> t3) (Backbone : list (mat -> mat)) (Decoder : mat -> mat)
             (X : list A) : mat :=
    let x := Enc X in
    let x := map (@concat R) x in
    let x := sequential Backbone x in
    Decoder x.
  Definition resnet_row {A : Type} (enc_r : A -> mat) (backbone_r : list (vec -> vec)) (decoder_r : vec -> vec)
             (a : A) : vec :=
    decoder_r (sequential backbone_r (concat (enc_r a))).

  (* ================================================================== *)
  (* TabNet  (models/tabnet.py)                                          *)
  (* ================================================================== *)
  (* GLUBlock.forward:
       for i, glu_layer in enumerate(self.glu_layers):
           if self.no_first_residual and i == 0: x = glu_layer(x)
           else: x = x * math.sqrt(0.5) + glu_layer(x)                        *)
  Fixpoint glu_block_from (i : nat) (no_first_residual : bool) (layers : list (mat -> mat)) (X : mat) : mat :=
    match layers with
    | [] => X
    | G :: rest =>
        let x := if no_first_residual && (i =? 0) then G X
                 else zipw (vadd O) (map (vfn O FScale) X) (G X) in
        glu_block_from (S i) no_first_residual rest x
    end.
  Definition glu_block := glu_block_from 0.
  Fixpoint glu_block_from_row (i : nat) (no_first_residual : bool) (layers : list (vec -> vec)) (x : vec) : vec :=
    match layers with
    | [] => x
    | g :: rest =>
        let x := if no_first_residual && (i =? 0) then g x
                 else vadd O (vfn O FScale x) (g x) in
        glu_block_from_row (S i) no_first_residual rest x
    end.
  Definition glu_block_row := glu_block_from_row 0.

  (* AttentiveTransformer.forward(x, prior):
       x = self.lin(x); x = self.bn(x)  [ghost batch norm]; x = prior * x; x = F.softmax(x, dim=-1) *)
  Definition attentive (Lin : mat -> mat) (Bn : mat -> mat) (vbs : nat) (X prior : mat) : mat :=
    let x := Lin X in
    let x := ghost_bn Bn vbs x in
    let x := zipw (vmul O) prior x in
    map (softmax O) x.
  Definition attentive_row (lin bn : vec -> vec) (x prior : vec) : vec :=
    softmax O (vmul O prior (bn (lin x))).

  (* one TabNet decision step: (attentive transformer's Linear, its BatchNorm, feature transformer) *)
  Definition tabnet_step : Type := ((mat -> mat) * (mat -> mat) * (mat -> mat))%type.
  Definition tabnet_step_row : Type := ((vec -> vec) * (vec -> vec) * (vec -> vec))%type.

  (* the body of `for i in range(self.num_layers)` with `outs.append(feature_x)`:
     returns the list `outs` *)
  Fixpoint tabnet_loop (split vbs : nat) (steps : list tabnet_step) (x att prior : mat) : list mat :=
    match steps with
    | [] => []
    | (Lin, Bn, Ft) :: rest =>
        let mask := attentive Lin Bn vbs att prior in                        (* attention_mask *)
        let masked := zipw (vmul O) mask x in                               (* attention_mask * x *)
        let out := Ft masked in
        let feature_x := map (vfn O FRelu) (map (firstn split) out) in      (* relu(out[:, :split]) *)
        let att' := map (skipn split) out in                                (* out[:, split:] *)
        let prior' := zipw (vmul O) (map (vfn O FGammaMinus) mask) prior in (* (gamma - mask) * prior *)
        feature_x :: tabnet_loop split vbs rest x att' prior'
    end.
  Fixpoint tabnet_loop_row (split : nat) (steps : list tabnet_step_row) (x att prior : vec) : list vec :=
    match steps with
    | [] => []
    | (lin, bn, ft) :: rest =>
        let mask := attentive_row lin bn att prior in
        let masked := vmul O mask x in
        let out := ft masked in
        let feature_x := vfn O FRelu (firstn split out) in
        let att' := skipn split out in
        let prior' := vmul O (vfn O FGammaMinus mask) prior in
        feature_x :: tabnet_loop_row split rest x att' prior'
    end.

  (* TabNet.forward (return_reg = False).  `sum(outs)` is Python's left fold; an empty `outs` cannot
     occur because __init__ raises ValueError for num_layers <= 0: None. *)
  Definition tabnet_forward {A : Type} (Enc : list A -> t3) (Bn0 : mat -> mat) (Ft0 : mat -> mat)
             (split vbs : nat) (steps : list tabnet_step) (Lin : mat -> mat) (X : list A) : option mat :=
    let x := Enc X in
    let x := map (@concat R) x in                    (* x.view(batch_size, prod(x.shape[1:])) *)
    let x := Bn0 x in
    let prior := map (map (fun _ => o1 O)) x in      (* torch.ones_like(x) *)
    let att := map (skipn split) (Ft0 x) in
    match tabnet_loop split vbs steps x att prior with
    | [] => None
    | o :: outs => Some (Lin (fold_left (zipw (vadd O)) outs o))
    end.
  Definition tabnet_row {A : Type} (enc_r : A -> mat) (bn0 ft0 : vec -> vec) (split : nat)
             (steps : list tabnet_step_row) (lin : vec -> vec) (a : A) : option vec :=
    let x := bn0 (concat (enc_r a)) in
    let prior := map (fun _ => o1 O) x in
    let att := skipn split (ft0 x) in
    match tabnet_loop_row split steps x att prior with
    | [] => None
    | o :: outs => Some (lin (fold_left (vadd O) outs o))
    end.

  (* ================================================================== *)
  (* Multi-head attention, shared by TabTransformerConv.SelfAttention and ExcelFormerConv.DiaM  *)
  (* ================================================================== *)
  (* _reshape:  x.reshape(B, cols, H, d).transpose(1, 2).reshape(B * H, cols, d) *)
  Definition reshape_heads (H d : nat) (X : t3) : t3 := concat (map (heads_split H d) X).

  (* forward of both attention modules between the q/k/v projections and lin_out; `post` is what is
     done to one [cols, cols] score matrix before the softmax (scaling, or mask + scaling):
       Q = _reshape(Q); K = _reshape(K)
       attention_score = einsum('ijk, ilk->ijl', Q, K)
       attention_probs = softmax(post(attention_score), dim=-1)
       x = einsum('ijk, ikl->ijl', attention_probs, _reshape(V))
       x = x.reshape(B, H, cols, d).transpose(1, 2).reshape(B, cols, H * d)           *)
  Definition mha (H d : nat) (post : mat -> mat) (LinQ LinK LinV : t3 -> t3) (X : t3) : t3 :=
    let Q := reshape_heads H d (LinQ X) in
    let K := reshape_heads H d (LinK X) in
    let score := zipw (fun q k => map (fun qj => map (fun kl => dot O qj kl) k) q) Q K in
    let probs := map (fun s => map (softmax O) (post s)) score in
    let x := zipw (fun a v => map (fun aj => lincomb O d aj v) a) probs (reshape_heads H d (LinV X)) in
    map heads_merge (chunks H x).
  Definition mha_row (H d : nat) (post : mat -> mat) (lq lk lv : vec -> vec) (row : mat) : mat :=
    let Q := heads_split H d (map lq row) in
    let K := heads_split H d (map lk row) in
    let score := zipw (fun q k => map (fun qj => map (fun kl => dot O qj kl) k) q) Q K in
    let probs := map (fun s => map (softmax O) (post s)) score in
    heads_merge (zipw (fun a v => map (fun aj => lincomb O d aj v) a) probs (heads_split H d (map lv row))).

  (* the slice of a projected vector that belongs to head h *)
  Definition head_slice (d h : nat) (v : vec) : vec := firstn d (skipn (h * d) v).

  (* ================================================================== *)
  (* TabTransformerConv  (conv/tab_transformer_conv.py)                  *)
  (* ================================================================== *)
  (* GEGLU.forward: x, gates = x.chunk(2, dim=-1); return x * F.gelu(gates).  lin_1 has an even number
     (2 * mult * channels) of outputs, so both chunks exist. *)
  Definition geglu (v : vec) : vec :=
    let k := cdiv (length v) 2 in
    vmul O (firstn k v) (vfn O FGelu (skipn k v)).
  (* FFN.forward: lin_1, geglu, dropout (identity), lin_2 -- per vector *)
  Definition ffn_vec (lin1 lin2 : vec -> vec) (v : vec) : vec := lin2 (geglu (lin1 v)).

  (* SelfAttention.forward: scaled_attention_score = attention_score * self.scale *)
  Definition tab_post (s : mat) : mat := map (vfn O FScale) s.

  (* TabTransformerConv.forward:  x = norm_1(x); out = attn(x); x = x + out; x = ffn(x)
     (norm_2 is constructed but not used by the source) *)
  Definition tab_conv (H d : nat) (Norm1 LinQ LinK LinV LinOut Lin1 Lin2 : t3 -> t3) (X : t3) : t3 :=
    let x := Norm1 X in
    let out := LinOut (mha H d tab_post LinQ LinK LinV x) in
    let x := zipw (zipw (vadd O)) x out in
    let x := Lin1 x in
    let x := map (map geglu) x in
    Lin2 x.
  Definition tab_conv_row (H d : nat) (norm1 lq lk lv lout lin1 lin2 : vec -> vec) (row : mat) : mat :=
    let x := map norm1 row in
    let out := map lout (mha_row H d tab_post lq lk lv x) in
    let x := zipw (vadd O) x out in
    map (ffn_vec lin1 lin2) x.

  (* the same layer written column by column: output column for the input column xj of a row whose
     (normalised) columns are xs.  Used to state and prove permutation equivariance. *)
  Definition tab_head_out (d : nat) (lq lk lv : vec -> vec) (h : nat) (xj : vec) (xs : mat) : vec :=
    lincomb O d
      (softmax O (vfn O FScale (map (fun xl => dot O (head_slice d h (lq xj)) (head_slice d h (lk xl))) xs)))
      (map (fun xl => head_slice d h (lv xl)) xs).
  Definition tab_conv_col (H d : nat) (lq lk lv lout lin1 lin2 : vec -> vec) (xj : vec) (xs : mat) : vec :=
    ffn_vec lin1 lin2 (vadd O xj (lout (flat_map (fun h => tab_head_out d lq lk lv h xj xs) (seq 0 H)))).

  (* ================================================================== *)
  (* FTTransformerConvs  (conv/ft_transformer_convs.py)                  *)
  (* ================================================================== *)
  (* x_cls = self.cls_embedding.repeat(B, 1, 1); x_concat = cat([x_cls, x], dim=1);
     x_concat = self.transformer(x_concat); x_cls, x = x_concat[:, 0, :], x_concat[:, 1:, :].
     Indexing [:, 0, :] raises IndexError on a tensor without tokens: None. *)
  Definition ft_convs (cls : vec) (TE : t3 -> t3) (X : t3) : option (t3 * mat) :=
    let x_cls := repeat [cls] (length X) in
    let x_concat := zipw (@app vec) x_cls X in
    let y := TE x_concat in
    match opt_all (map (fun row => nth_error row 0) y) with
    | Some c => Some (map (skipn 1) y, c)
    | None => None
    end.
  Definition ft_convs_row (cls : vec) (te_r : mat -> mat) (row : mat) : option (mat * vec) :=
    let y := te_r (cls :: row) in
    match nth_error y 0 with
    | Some c => Some (skipn 1 y, c)
    | None => None
    end.

  (* FTTransformer.forward: x, _ = encoder(tf); x, x_cls = backbone(x); out = decoder(x_cls) *)
  Definition ft_forward {A : Type} (Enc : list A -> t3) (cls : vec) (TE : t3 -> t3) (Decoder : mat -> mat)
             (X : list A) : option mat :=
    match ft_convs cls TE (Enc X) with
    | Some (_, x_cls) => Some (Decoder x_cls)
    | None => None
    end.
  Definition ft_row {A : Type} (enc_r : A -> mat) (cls : vec) (te_r : mat -> mat) (decoder_r : vec -> vec)
             (a : A) : option vec :=
    match ft_convs_row cls te_r (enc_r a) with
    | Some (_, c) => Some (decoder_r c)
    | None => None
    end.

  (* ================================================================== *)
  (* TabTransformer  (models/tab_transformer.py)                          *)
  (* ================================================================== *)
  (* forward: both branches guarded by `if stype.X in self.col_names_dict`; torch.cat of an empty
     list raises: None. *)
  Definition tabt_forward {A : Type} (has_cat has_num : bool) (CatEnc : list A -> t3) (pad : mat)
             (Convs : list (t3 -> t3)) (NumEnc : list A -> t3) (NumNorm Decoder : mat -> mat)
             (X : list A) : option mat :=
    let batch_size := length X in
    let xs := [] in
    let xs := if has_cat then
                let x_cat := CatEnc X in
                let pos_enc_pad := repeat pad batch_size in            (* weight.unsqueeze(0).repeat(B,1,1) *)
                let x_cat := zipw (zipw (@app R)) x_cat pos_enc_pad in  (* cat(dim=-1) *)
                let x_cat := sequential Convs x_cat in
                xs ++ [map (@concat R) x_cat]                          (* reshape(B, prod(shape[1:])) *)
              else xs in
    let xs := if has_num then
                let x_num := map (@concat R) (NumEnc X) in
                xs ++ [NumNorm x_num]
              else xs in
    match xs with
    | [] => None
    | x0 :: rest => Some (Decoder (fold_left (zipw (@app R)) rest x0))   (* torch.cat(xs, dim=1) *)
    end.
  Definition tabt_row {A : Type} (has_cat has_num : bool) (cat_enc_r : A -> mat) (pad : mat)
             (convs_r : list (mat -> mat)) (num_enc_r : A -> mat) (num_norm_r decoder_r : vec -> vec)
             (a : A) : option vec :=
    let xs := [] in
    let xs := if has_cat then
                xs ++ [concat (sequential convs_r (zipw (@app R) (cat_enc_r a) pad))]
              else xs in
    let xs := if has_num then xs ++ [num_norm_r (concat (num_enc_r a))] else xs in
    match xs with
    | [] => None
    | x0 :: rest => Some (decoder_r (fold_left (@app R) rest x0))
    end.

  (* ================================================================== *)
  (* ExcelFormerConv  (conv/excelformer_conv.py)                          *)
  (* ================================================================== *)
  (* DiaM.get_attention_mask, one [num_cols, num_cols] slice (the source repeats it B*H times):
       attention_mask = seq_ids[None, None, :].repeat(B, num_cols, 1) <= seq_ids[None, :, None]
       attention_mask = (1.0 - attention_mask.float()) * -1e5
     entry [j][l] is 0 where seq_ids[l] <= seq_ids[j] and -1e5 elsewhere *)
  Definition diam_mask (num_cols : nat) : mat :=
    let seq_ids := seq 0 num_cols in
    map (fun sj => map (fun sl => if sl <=? sj then o0 O else onegbig O) seq_ids) seq_ids.

  (* The comparison behind the mask, over the INTEGER column ids held in the buffer `seq_ids`:
     query column j may attend to key column l  iff  seq_ids[l] <= seq_ids[j]. *)
  Definition mask_allowed (ids : list Z) (j l : nat) : bool :=
    match nth_error ids l, nth_error ids j with
    | Some a, Some b => (a <=? b)%Z
    | _, _ => false
    end.
  (* torch.arange(num_cols): int64, exact for every width *)
  Definition ids_int64 (n : nat) : list Z := map Z.of_nat (seq 0 n).
  (* what an 8-bit signed buffer would hold: two's-complement wrap *)
  Definition wrap8 (z : Z) : Z := ((z + 128) mod 256 - 128)%Z.
  Definition ids_int8 (n : nat) : list Z := map (fun i => wrap8 (Z.of_nat i)) (seq 0 n).
  (* output columns that change when input column c is perturbed = the queries allowed to attend to c *)
  Definition causal_row (ids : list Z) (n c : nat) : list bool := map (fun j => mask_allowed ids j c) (seq 0 n).

  (* scaled_attention_score = (attention_score + masks) / math.sqrt(d_heads) *)
  Definition diam_post (num_cols : nat) (s : mat) : mat :=
    zipw (zipw (fun a m => ofn O FScale (oadd O a m))) s (diam_mask num_cols).

  (* DiaM.forward; lin_out exists only for num_heads > 1 *)
  Definition diam (num_cols H d : nat) (LinQ LinK LinV : t3 -> t3) (LinOut : option (t3 -> t3)) (X : t3) : t3 :=
    let x := mha H d (diam_post num_cols) LinQ LinK LinV X in
    match LinOut with Some L => L x | None => x end.
  Definition diam_row (num_cols H d : nat) (lq lk lv : vec -> vec) (lout : option (vec -> vec)) (row : mat) : mat :=
    let x := mha_row H d (diam_post num_cols) lq lk lv row in
    match lout with Some L => map L x | None => x end.

  (* AiuM.forward: tanh(lin_1(x)) * lin_2(x) -- per vector *)
  Definition aium_vec (lin1 lin2 : vec -> vec) (v : vec) : vec := vmul O (vfn O FTanh (lin1 v)) (lin2 v).

  (* ExcelFormerConv.forward:
       x = norm_1(x); x_residual = DiaM(x); x = x_residual + x
       x_residual = norm_2(x); x_residual = AiuM(x_residual); x = x_residual + x
     Adding the [num_cols, num_cols] mask to the scores needs x.shape[1] == num_cols: torch raises a
     broadcasting error otherwise: None.  EXCLUDED from the model: the configuration num_cols = 1, where
     the [1, 1] mask broadcasts against any number of columns and the code runs unmasked; every theorem
     about this guard carries the hypothesis 1 < num_cols, and the causality theorems are stated for
     rows with exactly num_cols columns (where the model is faithful for every num_cols >= 1). *)
  Definition excel_conv (num_cols H d : nat) (Norm1 LinQ LinK LinV : t3 -> t3) (LinOut : option (t3 -> t3))
             (Norm2 A1 A2 : t3 -> t3) (X : t3) : option t3 :=
    if forallb (fun row => length row =? num_cols) X then
      let x := Norm1 X in
      let x_residual := diam num_cols H d LinQ LinK LinV LinOut x in
      let x := zipw (zipw (vadd O)) x_residual x in
      let x_residual := Norm2 x in
      let x_residual := zipw (zipw (vmul O)) (map (map (vfn O FTanh)) (A1 x_residual)) (A2 x_residual) in
      Some (zipw (zipw (vadd O)) x_residual x)
    else None.
  Definition excel_conv_core_row (num_cols H d : nat) (norm1 lq lk lv : vec -> vec) (lout : option (vec -> vec))
             (norm2 a1 a2 : vec -> vec) (row : mat) : mat :=
    let x := map norm1 row in
    let x := zipw (vadd O) (diam_row num_cols H d lq lk lv lout x) x in
    zipw (vadd O) (map (fun v => aium_vec a1 a2 (norm2 v)) x) x.
  Definition excel_conv_row (num_cols H d : nat) (norm1 lq lk lv : vec -> vec) (lout : option (vec -> vec))
             (norm2 a1 a2 : vec -> vec) (row : mat) : option mat :=
    if length row =? num_cols then Some (excel_conv_core_row num_cols H d norm1 lq lk lv lout norm2 a1 a2 row)
    else None.

  (* column by column: the DiaM output of head h for column j (content xj) of a row with columns xs *)
  Definition diam_mask_row (n j : nat) : vec := map (fun l => if l <=? j then o0 O else onegbig O) (seq 0 n).
  Definition diam_head_out (n d : nat) (lq lk lv : vec -> vec) (h j : nat) (xj : vec) (xs : mat) : vec :=
    lincomb O d
      (softmax O (zipw (fun a m => ofn O FScale (oadd O a m))
                       (map (fun xl => dot O (head_slice d h (lq xj)) (head_slice d h (lk xl))) xs)
                       (diam_mask_row n j)))
      (map (fun xl => head_slice d h (lv xl)) xs).
  (* the same with the attention restricted to a prefix of the columns and no mask at all *)
  Definition diam_head_prefix (d : nat) (lq lk lv : vec -> vec) (h : nat) (xj : vec) (pre : mat) : vec :=
    lincomb O d
      (softmax O (map (fun xl => ofn O FScale (oadd O (dot O (head_slice d h (lq xj)) (head_slice d h (lk xl))) (o0 O)))
                      pre))
      (map (fun xl => head_slice d h (lv xl)) pre).

  (* output column i of ExcelFormerConv computed from the FIRST i+1 input columns only (statement of
     causality: Props/C15.v proves this equals column i of excel_conv_core_row on the full row) *)
  Definition excel_col_prefix (H d : nat) (norm1 lq lk lv : vec -> vec) (lout : option (vec -> vec))
             (norm2 a1 a2 : vec -> vec) (pre : mat) (i : nat) : option vec :=
    let xs := map norm1 pre in
    match nth_error xs i with
    | None => None
    | Some xi =>
        let r := flat_map (fun h => diam_head_prefix d lq lk lv h xi xs) (seq 0 H) in
        let r := match lout with Some L => L r | None => r end in
        let x2 := vadd O r xi in
        Some (vadd O (aium_vec a1 a2 (norm2 x2)) x2)
    end.

  (* ================================================================== *)
  (* ExcelFormerDecoder, ExcelFormer                                      *)
  (* ================================================================== *)
  (* x = x.transpose(1, 2); x = lin_f(x); x = activation(x); x = lin_d(x.transpose(1, 2)).squeeze(2) *)
  Definition excel_decoder (Cin Cout : nat) (LinF LinD : t3 -> t3) (X : t3) : mat :=
    let x := map (transpose Cin) X in
    let x := LinF x in
    let x := map (map (vfn O FPrelu)) x in
    let x := LinD (map (transpose Cout) x) in
    map (@concat R) x.
  Definition excel_decoder_row (Cin Cout : nat) (lin_f lin_d : vec -> vec) (row : mat) : vec :=
    concat (map lin_d (transpose Cout (map (fun v => vfn O FPrelu (lin_f v)) (transpose Cin row)))).

  (* ExcelFormer.forward (mixup_encoded = False):
       x, _ = encoder(tf); for conv in convs: x = conv(x); out = decoder(x) *)
  Fixpoint opt_seq {T : Type} (fs : list (T -> option T)) (x : T) : option T :=
    match fs with
    | [] => Some x
    | f :: r => match f x with Some y => opt_seq r y | None => None end
    end.
  Definition excel_forward {A : Type} (Enc : list A -> t3) (Convs : list (t3 -> option t3)) (Decoder : t3 -> mat)
             (X : list A) : option mat :=
    match opt_seq Convs (Enc X) with
    | Some x => Some (Decoder x)
    | None => None
    end.
  Definition excel_row {A : Type} (enc_r : A -> mat) (convs_r : list (mat -> option mat)) (decoder_r : mat -> vec)
             (a : A) : option vec :=
    match opt_seq convs_r (enc_r a) with
    | Some x => Some (decoder_r x)
    | None => None
    end.

  (* ================================================================== *)
  (* TromptConv, TromptDecoder, Trompt                                    *)
  (* ================================================================== *)
  (* TromptConv.forward(x, x_prompt).  ep / ec are layer_norm_e_prompt(embedding_prompt) and
     layer_norm_e_column(embedding_column) -- constants of the layer; w is self.weight.
       batch_size = len(x)
       assert x.shape == (batch_size, self.num_cols, self.channels)
       assert x_prompt.shape == (batch_size, self.num_prompts, self.channels)                *)
  Definition trompt_conv (num_cols C P : nat) (ep ec : mat) (w : vec) (Lin : t3 -> t3)
             (GN : list t3 -> list t3) (X Xp : t3) : option t3 :=
    let batch_size := length X in
    if negb (shape3_ok num_cols C X) then None else
    if negb ((length Xp =? batch_size) && shape3_ok P C Xp) then None else
    let stacked_e_prompt := repeat ep batch_size in
    let cat := zipw (zipw (@app R)) stacked_e_prompt Xp in                            (* cat(dim=-1) *)
    let stacked_e_prompt :=
      zipw (zipw (vadd O)) (zipw (zipw (vadd O)) stacked_e_prompt Xp) (Lin cat) in
    let stacked_e_column := repeat ec batch_size in
    (* stacked_e_prompt @ stacked_e_column.transpose(1, 2) : [B, P, num_cols] *)
    let m := zipw (fun sp sc => map (fun pv => map (fun cv => dot O pv cv) sc) sp)
                  stacked_e_prompt stacked_e_column in
    let m := map (map (softmax O)) m in
    (* z = einsum('ijl,k->ikjl', x, self.weight); z = relu(z) *)
    let z := map (fun x => map (fun wk => map (fun v => vfn O FRelu (map (fun s => omul O s wk) v)) x) w) X in
    (* x.unsqueeze(1).repeat(1, self.num_prompts, 1, 1) *)
    let x4 := map (fun x => repeat x P) X in
    let x4 := zipw (zipw (zipw (vadd O))) (GN z) x4 in
    (* (x * m_importance).sum(dim=2) *)
    Some (zipw (zipw (lincomb O C)) m x4).
  Definition trompt_conv_row (num_cols C P : nat) (ep ec : mat) (w : vec) (lin : vec -> vec)
             (gn_r : t3 -> t3) (x xp : mat) : option mat :=
    if negb (shape2_ok num_cols C x) then None else
    if negb (shape2_ok P C xp) then None else
    let cat := zipw (@app R) ep xp in
    let sep := zipw (vadd O) (zipw (vadd O) ep xp) (map lin cat) in
    let m := map (fun pv => softmax O (map (fun cv => dot O pv cv) ec)) sep in
    let z := map (fun wk => map (fun v => vfn O FRelu (map (fun s => omul O s wk) v)) x) w in
    let x4 := zipw (zipw (vadd O)) (gn_r z) (repeat x P) in
    Some (zipw (lincomb O C) m x4).

  (* TromptDecoder.forward:
       assert x.shape == (batch_size, self.num_prompts, self.in_channels)
       w_prompt = softmax(self.lin_attn(x), dim=1)     [B, P, 1]: softmax over the prompt axis
       x = (w_prompt * x).sum(dim=1); x = self.mlp(x)                                          *)
  Definition trompt_decoder (P C : nat) (LinAttn : t3 -> t3) (Mlp : mat -> mat) (X : t3) : option mat :=
    if negb (shape3_ok P C X) then None else
    let w_prompt := map (fun m => softmax O (concat m)) (LinAttn X) in
    Some (Mlp (zipw (lincomb O C) w_prompt X)).
  Definition trompt_decoder_row (P C : nat) (lin_attn mlp : vec -> vec) (x : mat) : option vec :=
    if negb (shape2_ok P C x) then None else
    Some (mlp (lincomb O C (softmax O (concat (map lin_attn x))) x)).

  (* Trompt.forward:
       x_prompt = self.x_prompt.repeat(batch_size, 1, 1)
       for i in range(num_layers):
           x, _ = self.encoders[i](tf); x_prompt = self.trompt_convs[i](x, x_prompt)
           out = self.trompt_decoder(x_prompt); out = out.view(batch_size, 1, out_channels); outs.append(out)
       stacked_out = torch.cat(outs, dim=1)                                                       *)
  Fixpoint trompt_loop {A : Type} (layers : list ((list A -> t3) * (t3 -> t3 -> option t3)))
           (Dec : t3 -> option mat) (X : list A) (xp : t3) : option (list t3) :=
    match layers with
    | [] => Some []
    | (Enc, Conv) :: rest =>
        match Conv (Enc X) xp with
        | None => None
        | Some xp' =>
            match Dec xp' with
            | None => None
            | Some out =>
                match trompt_loop rest Dec X xp' with
                | None => None
                | Some outs => Some (map (fun v => [v]) out :: outs)
                end
            end
        end
    end.
  Definition trompt_forward {A : Type} (prompt : mat) (layers : list ((list A -> t3) * (t3 -> t3 -> option t3)))
             (Dec : t3 -> option mat) (X : list A) : option t3 :=
    let batch_size := length X in
    let x_prompt := repeat prompt batch_size in
    match trompt_loop layers Dec X x_prompt with
    | Some (o :: outs) => Some (fold_left (zipw (@app vec)) outs o)
    | _ => None                   (* conv / decoder assertion failed, or no layer (rejected by __init__) *)
    end.

  Fixpoint trompt_loop_row {A : Type} (layers : list ((A -> mat) * (mat -> mat -> option mat)))
           (dec : mat -> option vec) (a : A) (xp : mat) : option (list mat) :=
    match layers with
    | [] => Some []
    | (enc, conv) :: rest =>
        match conv (enc a) xp with
        | None => None
        | Some xp' =>
            match dec xp' with
            | None => None
            | Some out =>
                match trompt_loop_row rest dec a xp' with
                | None => None
                | Some outs => Some ([out] :: outs)
                end
            end
        end
    end.
  Definition trompt_row {A : Type} (prompt : mat) (layers : list ((A -> mat) * (mat -> mat -> option mat)))
             (dec : mat -> option vec) (a : A) : option mat :=
    match trompt_loop_row layers dec a prompt with
    | Some (o :: outs) => Some (fold_left (@app vec) outs o)
    | _ => None
    end.
End Layers.
Arguments tabnet_step R : clear implicits.
Arguments tabnet_step_row R : clear implicits.
