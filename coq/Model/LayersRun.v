(* Provenance instances of Model/Layers.v and footprint evaluators (DESIGN.md section 3.3).
   DEFINITIONS ONLY.  A scalar is the set of input cells it was computed from (Lib/Tensor.v `prov`);
   the batch-level definitions of Model/Layers.v are run AS THEY ARE on a batch whose cell (r, c)
   carries the id  off + r * stride + c, with every torch block replaced by a block that mixes all
   entries of the vector it acts on (`dense`).  The harness compares the resulting dependency
   matrices with the dependencies measured on the real modules by single-cell perturbation. *)
From Coq Require Import List Arith Bool NArith.
From PF Require Import Lib.Chunks Lib.Tensor Model.Layers.
Import ListNotations.

Notation pvec := (list prov).
Notation pmat := (list (list prov)).
Notation pt3 := (list (list (list prov))).
Definition PO : Ops prov := prov_ops.

(* encoder output / layer input: row r, column c (c ranges over ids), C channels *)
Definition penc_at (off stride C : nat) (ids : list nat) (X : list nat) : pt3 :=
  map (fun r => map (fun c => repeat (PVal [cell_id off stride r c]) C) ids) X.
Definition penc (cols C : nat) (ids : list nat) (X : list nat) : pt3 := penc_at 0 cols C ids X.

Definition pconst (n : nat) : pvec := repeat (PVal []) n.
Definition dense2 (n : nat) : pmat -> pmat := map (dense n).
Definition dense3 (n : nat) : pt3 -> pt3 := map (map (dense n)).
Definition prelu2 : pmat -> pmat := map (vfn PO FRelu).
(* BatchNorm1d(width) in evaluation mode *)
Definition pbn (width : nat) : pmat -> pmat := bn_eval PO (pconst width) (pconst width) (pconst width) (pconst width).
(* normalization option of MLP / ResNet: 0 none, 1 layer_norm, 2 batch_norm *)
Definition pnorm (k width : nat) : option (pmat -> pmat) :=
  match k with 0 => None | 1 => Some (dense2 width) | _ => Some (pbn width) end.
Definition pnorm_list (k width : nat) : list (pmat -> pmat) :=
  match pnorm k width with Some N => [N] | None => [] end.

(* ---------------- the seven models ---------------- *)
(* Each p_<model> runs Model/Layers.v with the CASE'S OWN hyper-parameters and returns a list of
   probes [B, K]: model-specific intermediate tensors (flattened per row), obtained by instantiating the
   blocks downstream of the probe point with the identity, followed by the final output.  The harness
   measures the same tensors on the real model with forward hooks. *)
Definition idm : pmat -> pmat := fun x => x.
Definition flat3 (T : pt3) : pmat := map (@concat prov) T.

(* MLP: [input of self.mlp ; output] *)
Definition p_mlp (norm layers cols C out : nat) (X : list nat) : option (list pmat) :=
  let enc := penc cols C (seq 0 cols) in
  let blocks := concat (repeat ([dense2 C] ++ pnorm_list norm C ++ [prelu2]) layers) ++ [dense2 out] in
  Some [mlp_forward PO C enc idm X; mlp_forward PO C enc (sequential blocks) X].

(* ResNet: [input of self.backbone ; input of self.decoder ; output] *)
Definition p_resnet (norm layers cols C out : nat) (X : list nat) : option (list pmat) :=
  let enc := penc cols C (seq 0 cols) in
  let block i := fc_residual_block PO (dense2 C) (dense2 C) (pnorm norm C) (pnorm norm C)
                   (if (i =? 0) && negb (cols =? 1) then Some (dense2 C) else None) in
  let blocks := map block (seq 0 layers) in
  Some [resnet_forward enc [] idm X; resnet_forward enc blocks idm X;
        resnet_forward enc blocks (sequential [dense2 C; prelu2; dense2 out]) X].

(* FeatureTransformer: shared GLUBlock (2 layers, no first residual) if num_shared_glu_layers > 0,
   dependent GLUBlock with num_dependent_glu_layers layers *)
Definition p_feat_transformer (n_out shared dep : nat) (X : pmat) : pmat :=
  let x := if shared =? 0 then X else glu_block PO true (repeat (dense2 n_out) 2) X in
  if dep =? 0 then x else glu_block PO (shared =? 0) (repeat (dense2 n_out) dep) x.

(* TabNet: [input of self.bn ; first attention mask ; output] *)
(* split = split_feat_channels, nattn = split_attn_channels *)
Definition p_tabnet (layers cols Ce split nattn shared dep vbs out : nat) (X : list nat) : option (list pmat) :=
  let width := cols * Ce in
  let enc := penc cols Ce (seq 0 cols) in
  let ft := p_feat_transformer (split + nattn) shared dep in
  let steps := repeat (dense2 width, pbn width, ft) layers in
  let x := pbn width (flat3 (enc X)) in
  let mask0 := attentive PO (dense2 width) (pbn width) vbs (map (skipn split) (ft x)) (map (map (fun _ => o1 PO)) x) in
  match tabnet_forward PO enc (pbn width) ft split vbs steps (dense2 out) X with
  | Some y => Some [flat3 (enc X); mask0; y]
  | None => None
  end.

(* FT-Transformer: [input of the TransformerEncoder (CLS token first) ; input of self.decoder ; output] *)
Definition p_ft (cols C out : nat) (X : list nat) : option (list pmat) :=
  let enc := penc cols C (seq 0 cols) in
  match ft_convs (pconst C) (fun x => x) (enc X),
        ft_forward enc (pconst C) (map dense_mat) idm X,
        ft_forward enc (pconst C) (map dense_mat) (sequential [dense2 C; prelu2; dense2 out]) X with
  | Some (x, c), Some dec_in, Some y => Some [zipw (@app prov) c (flat3 x); dec_in; y]
  | _, _, _ => None
  end.

Definition p_tab_conv (H C : nat) : pt3 -> pt3 :=
  tab_conv PO H (C / H) (dense3 C) (dense3 C) (dense3 C) (dense3 C) (dense3 C) (dense3 (8 * C)) (dense3 C).

(* TabTransformer: [input of the first conv (categorical tokens with the positional pad) ; input of
   self.decoder ; output]; the first probe only when there are categorical columns *)
Definition p_tabt (layers H cols C pad out : nat) (cat_ids num_ids : list nat) (X : list nat) : option (list pmat) :=
  let hc := negb (length cat_ids =? 0) in
  let hn := negb (length num_ids =? 0) in
  let len := length cat_ids * C + length num_ids in
  let cat_enc := penc cols (C - pad) cat_ids in
  let padm := repeat (pconst pad) (length cat_ids) in
  let convs := repeat (p_tab_conv H C) layers in
  let num_enc := penc cols 1 num_ids in
  let num_norm := dense2 (length num_ids) in
  let dec := sequential [dense2 (2 * len); pbn (2 * len); map (vfn PO FSelu); dense2 (4 * len); pbn (4 * len);
                         map (vfn PO FSelu); dense2 out] in
  match tabt_forward hc hn cat_enc padm convs num_enc num_norm idm X,
        tabt_forward hc hn cat_enc padm convs num_enc num_norm dec X with
  | Some dec_in, Some y =>
      match (if hc then tabt_forward true false cat_enc padm [] num_enc num_norm idm X else Some []) with
      | Some conv_in => Some ((if hc then [conv_in] else []) ++ [dec_in; y])
      | None => None
      end
  | _, _ => None
  end.

(* GroupNorm on [B, P, cols, C]: normalises within one sample; over-approximated by "mixes the whole sample" *)
Definition p_group_norm (Z : list pt3) : list pt3 :=
  map (fun z => let d := PVal (tdeps z) in map (map (map (fun _ => d))) z) Z.
Definition p_trompt_conv (cols C P : nat) : pt3 -> pt3 -> option pt3 :=
  trompt_conv PO cols C P (repeat (pconst C) P) (repeat (pconst C) cols) (pconst P) (dense3 C) p_group_norm.
Definition p_trompt_decoder (P C out : nat) : pt3 -> option pmat :=
  trompt_decoder PO P C (dense3 1) (dense2 out).
(* Trompt: [the prompts after every layer, [B, layers * P * C] ; output [B, layers * out]] *)
Definition p_trompt (layers cols C P out : nat) (X : list nat) : option (list pmat) :=
  let ls := repeat (penc cols C (seq 0 cols), p_trompt_conv cols C P) layers in
  match trompt_forward (repeat (pconst C) P) ls (fun xp => Some (flat3 xp)) X,
        trompt_forward (repeat (pconst C) P) ls (p_trompt_decoder P C out) X with
  | Some prompts, Some y => Some [flat3 prompts; flat3 y]
  | _, _ => None
  end.

Definition p_excel_conv (cols H C : nat) : pt3 -> option pt3 :=
  excel_conv PO cols H (C / H) (dense3 C) (dense3 C) (dense3 C) (dense3 C)
    (if 1 <? H then Some (dense3 C) else None) (dense3 C) (dense3 C) (dense3 C).
Definition p_excel_decoder (C out : nat) : pt3 -> pmat := excel_decoder PO C out (dense3 out) (dense3 1).
(* ExcelFormer: [input of the decoder, [B, cols * C] ; output] *)
Definition p_excel (layers H cols C out : nat) (X : list nat) : option (list pmat) :=
  let enc := penc cols C (seq 0 cols) in
  let convs := repeat (p_excel_conv cols H C) layers in
  match excel_forward enc convs flat3 X, excel_forward enc convs (p_excel_decoder C out) X with
  | Some dec_in, Some y => Some [dec_in; y]
  | _, _ => None
  end.

(* ---------------- footprints ---------------- *)
(* Y : per output row, the input cells it depends on *)
Definition depends_on_row (off stride n_in r : nat) (deps : list N) : bool :=
  let ids := map (cell_id off stride r) (seq 0 n_in) in
  existsb (fun x => existsb (N.eqb x) ids) deps.

(* rows of the output that change when input row r is perturbed *)
Definition rows_changed (off stride n_in : nat) (Y : list (list N)) (r : nat) : list nat :=
  map fst (filter (fun p => depends_on_row off stride n_in r (snd p)) (combine (seq 0 (length Y)) Y)).

(* input column c influences the output of its own row, for some row *)
Definition col_reach (off stride n_in : nat) (Y : list (list N)) : list bool :=
  map (fun c => existsb (fun p => membN (cell_id off stride (fst p) c) (snd p)) (combine (seq 0 (length Y)) Y))
      (seq 0 n_in).

(* [c][c'] : input column c influences output column c' (of the same row, some row) *)
Definition col_fp (off stride n_in n_out : nat) (Y : pt3) : list (list bool) :=
  map (fun c => map (fun c' => existsb (fun r => match nth_error Y r with
                                                | Some row => match nth_error row c' with
                                                              | Some v => membN (cell_id off stride r c) (vdeps v)
                                                              | None => false
                                                              end
                                                | None => false
                                                end) (seq 0 (length Y))) (seq 0 n_out)) (seq 0 n_in).

Fixpoint nats_eqb (a b : list nat) : bool :=
  match a, b with
  | [], [] => true
  | x :: a', y :: b' => (x =? y) && nats_eqb a' b'
  | _, _ => false
  end.

(* measured : [(perturbed row, rows whose output changed)] *)
Definition rows_ok (off stride n_in : nat) (Y : list (list N)) (measured : list (nat * list nat)) : bool :=
  forallb (fun p => nats_eqb (rows_changed off stride n_in Y (fst p)) (snd p)) measured.

(* [c][k] : input column c influences position k of a probe [B, K] (in the same row, some row) *)
Definition bmat_or (a b : list (list bool)) : list (list bool) := zipw (zipw orb) a b.
Definition pos_fp (cols : nat) (T : pmat) : list (list bool) :=
  let K := match T with r :: _ => length r | [] => 0 end in
  fold_left (fun acc p =>
               bmat_or acc (map (fun c => let id := cell_id 0 cols (fst p) c in map (fun x => membN id (pdeps x)) (snd p))
                                (seq 0 cols)))
            (combine (seq 0 (length T)) T) (repeat (repeat false K) cols).

(* C14: the probes of a model; measured_rows from the final output, one measured matrix per probe
   (None = the harness could not hook that tensor) *)
(* every measured dependency is predicted *)
Definition bmat_leb (a b : list (list bool)) : bool :=
  (length a =? length b) &&
  forallb (fun p => (length (fst p) =? length (snd p)) &&
                    forallb (fun q => implb (fst q) (snd q)) (combine (fst p) (snd p))) (combine a b).

(* a measured probe: (complete, matrix).  complete = true: every dependency the architecture allows was measured
   within the trials -- compared EXACTLY; false (saturated arithmetic hid some dependency of an intermediate
   tensor on extreme data): only soundness, measured <= predicted.  The final output is always compared exactly. *)
Definition model_fp_ok (cols : nat) (Ps : option (list pmat)) (B : nat)
           (measured_rows : list (nat * list nat)) (measured : list (option (bool * list (list bool)))) : bool :=
  match Ps with
  | Some Ps =>
      match rev Ps with
      | final :: _ => (length final =? B) && rows_ok 0 cols cols (map vdeps final) measured_rows
      | [] => false
      end
      && (length Ps =? length measured)
      && forallb (fun p => match snd p with
                           | Some (true, m) => bmat_eqb (pos_fp cols (fst p)) m
                           | Some (false, m) => bmat_leb m (pos_fp cols (fst p))
                           | None => true
                           end)
                 (combine Ps measured)
      && match rev measured with Some (false, _) :: _ => false | _ => true end
  | None => false
  end.

(* C15: a layer output [B, n_out, C] for the input pin B cols C *)
Definition pin (B cols C : nat) : pt3 := penc cols C (seq 0 cols) (seq 0 B).
Definition layer_fp_ok (cols n_out : nat) (Y : option pt3) (B : nat)
           (measured_rows : list (nat * list nat)) (measured_cols : list (list bool)) : bool :=
  match Y with
  | Some Y => (length Y =? B) && rows_ok 0 cols cols (map mdeps Y) measured_rows
              && bmat_eqb (col_fp 0 cols cols n_out Y) measured_cols
  | None => false
  end.

Definition all_true (v : list bool) : bool := forallb (fun b => b) v.
Definition lower_triangular (n : nat) : list (list bool) :=
  map (fun c => map (fun c' => c <=? c') (seq 0 n)) (seq 0 n).
Definition identity_rows (B : nat) : list (nat * list nat) := map (fun r => (r, [r])) (seq 0 B).

(* ---------------- C15 evaluators for the remaining layers ---------------- *)
(* FTTransformerConvs on pin B cols C: (column outputs, CLS outputs) *)
Definition p_ft_convs (B cols C : nat) : option (pt3 * pmat) :=
  ft_convs (pconst C) (map dense_mat) (pin B cols C).
Definition ft_layer_fp_ok (cols B : nat) (Y : option (pt3 * pmat))
           (measured_rows : list (nat * list nat)) (measured_cols : list (list bool)) (measured_cls : list bool) : bool :=
  match Y with
  | Some (x, cls) =>
      (length x =? B) && (length cls =? B)
      && rows_ok 0 cols cols (map (fun p => punion (mdeps (fst p)) (vdeps (snd p))) (combine x cls)) measured_rows
      && bmat_eqb (col_fp 0 cols cols cols x) measured_cols
      && bvec_eqb (col_reach 0 cols cols (map vdeps cls)) measured_cls
  | None => false
  end.

(* TromptConv on x = pin B cols C and x_prompt with ids B*cols + r*P + p *)
Definition p_trompt_conv_run (B cols C P : nat) : option pt3 :=
  p_trompt_conv cols C P (pin B cols C) (penc_at (B * cols) P C (seq 0 P) (seq 0 B)).
Definition trompt_layer_fp_ok (cols P B : nat) (Y : option pt3)
           (measured_rows : list (nat * list nat)) (measured_x : list (list bool)) (measured_p : list (list bool)) : bool :=
  match Y with
  | Some Y => (length Y =? B) && rows_ok 0 cols cols (map mdeps Y) measured_rows
              && bmat_eqb (col_fp 0 cols cols P Y) measured_x
              && bmat_eqb (col_fp (B * cols) P P P Y) measured_p
  | None => false
  end.

(* decoders: [B, n_in, C] -> [B, out] *)
Definition decoder_fp_ok (n_in B : nat) (Y : option pmat)
           (measured_rows : list (nat * list nat)) (measured_in : list bool) : bool :=
  match Y with
  | Some Y => (length Y =? B) && rows_ok 0 n_in n_in (map vdeps Y) measured_rows
              && bvec_eqb (col_reach 0 n_in n_in (map vdeps Y)) measured_in
  | None => false
  end.
Definition diagonal (n : nat) : list (list bool) := map (fun c => map (fun c' => c =? c') (seq 0 n)) (seq 0 n).

(* ---------------- C15: the rejection (None) branches ---------------- *)
Definition pshape (B n C : nat) : pt3 := repeat (repeat (pconst C) n) B.
Definition is_none {A : Type} (o : option A) : bool := match o with None => true | Some _ => false end.
Definition shp : Type := (nat * nat * nat)%type.
Definition pshape' (s : shp) : pt3 := match s with (B, n, C) => pshape B n C end.
(* observed : [((shape of x, shape of x_prompt), the real layer raised)] *)
Definition trompt_conv_rejections_ok (cols C P : nat) (obs : list (shp * shp * bool)) : bool :=
  forallb (fun o => Bool.eqb (is_none (p_trompt_conv cols C P (pshape' (fst (fst o))) (pshape' (snd (fst o))))) (snd o)) obs.
Definition trompt_decoder_rejections_ok (P C out : nat) (obs : list (shp * bool)) : bool :=
  forallb (fun o => Bool.eqb (is_none (p_trompt_decoder P C out (pshape' (fst o)))) (snd o)) obs.
Definition excel_conv_rejections_ok (cols H C : nat) (obs : list (shp * bool)) : bool :=
  forallb (fun o => Bool.eqb (is_none (p_excel_conv cols H C (pshape' (fst o)))) (snd o)) obs.

(* ---------------- closed forms of the model-specific footprints (used in Props/C14.v) ---------------- *)
Definition final_of (Ps : option (list pmat)) : option (list (list N)) :=
  match Ps with
  | Some Ps => match rev Ps with f :: _ => Some (map vdeps f) | [] => None end
  | None => None
  end.
Definition probe_fp (cols k : nat) (Ps : option (list pmat)) : option (list (list bool)) :=
  match Ps with
  | Some Ps => option_map (pos_fp cols) (nth_error Ps k)
  | None => None
  end.
Definition fp_matrix (cols K : nat) (f : nat -> nat -> bool) : list (list bool) :=
  map (fun c => map (f c) (seq 0 K)) (seq 0 cols).
Definition obmat_eqb (a : option (list (list bool))) (b : list (list bool)) : bool :=
  match a with Some a => bmat_eqb a b | None => false end.

(* ---------------- C15: the attention core at CHANNEL granularity ---------------- *)
(* One row whose cell (column c, channel ch) carries the id c * C + ch, identity q/k/v projections:
   the merged head outputs (the input of lin_out).  Input (l, ch') reaches output (j, ch) exactly when
   ch' and ch lie in the same head block (and, for DiaM, l <= j).  This exercises the head reshape
   (heads_split / chunks H / heads_merge) for the case's real (H, d), the einsum patterns and the
   orientation of the mask; the harness measures the same on the real module with identity
   projections installed and norm_1 bypassed. *)
Definition pin_ch (cols C : nat) : pt3 :=
  [map (fun c => map (fun ch => PVal [cell_id 0 C c ch]) (seq 0 C)) (seq 0 cols)].
Definition idt3 : pt3 -> pt3 := fun x => x.
Definition core_fp (cols C : nat) (Y : pt3) : list (list bool) :=
  match Y with
  | [row] => let flat := concat row in
             map (fun i => let id := N.of_nat i in map (fun x => membN id (pdeps x)) flat) (seq 0 (cols * C))
  | _ => []
  end.
Definition p_tab_core (H C cols : nat) : pt3 := mha PO H (C / H) (tab_post PO) idt3 idt3 idt3 (pin_ch cols C).
Definition p_excel_core (H C cols : nat) : pt3 := mha PO H (C / H) (diam_post PO cols) idt3 idt3 idt3 (pin_ch cols C).
(* `skip` leading output positions are not compared: an output column that attends to a single column has
   softmax weight exp(s)/exp(s) = 1, a constant -- the score path then carries no dependence on the real
   module although the provenance of exp(s)/exp(s) is non-empty.  (DiaM: output column 0; skip = C.) *)
Definition core_ok (cols C skip : nat) (Y : pt3) (measured : option (list (list bool))) : bool :=
  match measured with
  | Some m => bmat_eqb (map (skipn skip) (core_fp cols C Y)) (map (skipn skip) m)
  | None => true
  end.

(* ---------------- C14: ghost batch norm call sizes; C15: wide causal masks ---------------- *)
Definition ghost_sizes_ok (vbs n : nat) (measured : option (list nat)) : bool :=
  match measured with Some m => nats_eqb (ghost_call_sizes vbs n) m | None => true end.

(* probes : [(perturbed input column c, for every output column whether it changed)] on an n-column ExcelFormerConv *)
Definition wide_mask_ok (n : nat) (probes : list (nat * list bool)) : bool :=
  forallb (fun p => bvec_eqb (causal_row (ids_int64 n) n (fst p)) (snd p)) probes.
(* the refutation witness replayed: for a probed column >= 128 the measured row is NOT what an int8 buffer gives *)
Definition wide_mask_not_int8 (n : nat) (probes : list (nat * list bool)) : bool :=
  forallb (fun p => (fst p <? 128) || negb (bvec_eqb (causal_row (ids_int8 n) n (fst p)) (snd p))) probes.
