(* Provenance instances of Model/Layers.v and footprint evaluators (DESIGN.md section 3.3).
   DEFINITIONS ONLY.  A scalar is the set of input cells it was computed from (Lib/Tensor.v `prov`);
   the batch-level definitions of Model/Layers.v are run AS THEY ARE on a batch whose cell (r, c)
   carries the id  off + r * stride + c, with every torch block replaced by a block that mixes all
   entries of the vector it acts on (`dense`).  The harness compares the resulting dependency
   matrices with the dependencies measured on the real modules by single-cell perturbation. *)
From Coq Require Import List Arith Bool NArith.
From PF Require Import Lib.Chunks Lib.Tensor Model.Layers.
Import ListNotations.

Notation pvec := (list prov).
Notation pmat := (list (list prov)).
Notation pt3 := (list (list (list prov))).
Definition PO : Ops prov := prov_ops.

(* encoder output / layer input: row r, column c (c ranges over ids), C channels *)
Definition penc_at (off stride C : nat) (ids : list nat) (X : list nat) : pt3 :=
  map (fun r => map (fun c => repeat (PVal [N.of_nat (off + r * stride + c)]) C) ids) X.
Definition penc (cols C : nat) (ids : list nat) (X : list nat) : pt3 := penc_at 0 cols C ids X.

Definition pconst (n : nat) : pvec := repeat (PVal []) n.
Definition dense2 (n : nat) : pmat -> pmat := map (dense n).
Definition dense3 (n : nat) : pt3 -> pt3 := map (map (dense n)).
Definition prelu2 : pmat -> pmat := map (vfn PO FRelu).
(* BatchNorm1d(width) in evaluation mode *)
Definition pbn (width : nat) : pmat -> pmat := bn_eval PO (repeat (PVal [], PVal []) width).
(* normalization option of MLP / ResNet: 0 none, 1 layer_norm, 2 batch_norm *)
Definition pnorm (k width : nat) : option (pmat -> pmat) :=
  match k with 0 => None | 1 => Some (dense2 width) | _ => Some (pbn width) end.
Definition pnorm_list (k width : nat) : list (pmat -> pmat) :=
  match pnorm k width with Some N => [N] | None => [] end.

(* ---------------- the seven models ---------------- *)
Definition p_mlp (norm layers cols C out : nat) (X : list nat) : option pmat :=
  let hidden := concat (repeat ([dense2 C] ++ pnorm_list norm C ++ [prelu2]) layers) in
  Some (mlp_forward PO C (penc cols C (seq 0 cols)) (sequential (hidden ++ [dense2 out])) X).

Definition p_resnet (norm layers cols C out : nat) (X : list nat) : option pmat :=
  let block i := fc_residual_block PO (dense2 C) (dense2 C) (pnorm norm C) (pnorm norm C)
                   (if (i =? 0) && negb (cols =? 1) then Some (dense2 C) else None) in
  Some (resnet_forward (penc cols C (seq 0 cols)) (map block (seq 0 layers))
          (sequential [dense2 C; prelu2; dense2 out]) X).

(* FeatureTransformer: shared GLUBlock (2 layers, no first residual) if num_shared_glu_layers > 0,
   dependent GLUBlock with num_dependent_glu_layers layers *)
Definition p_feat_transformer (n_out shared dep : nat) (X : pmat) : pmat :=
  let x := if shared =? 0 then X else glu_block PO true (repeat (dense2 n_out) 2) X in
  if dep =? 0 then x else glu_block PO (shared =? 0) (repeat (dense2 n_out) dep) x.

Definition p_tabnet (layers cols Ce split shared dep vbs out : nat) (X : list nat) : option pmat :=
  let width := cols * Ce in
  let ft := p_feat_transformer (2 * split) shared dep in
  tabnet_forward PO (penc cols Ce (seq 0 cols)) (pbn width) ft split vbs
    (repeat (dense2 width, pbn width, ft) layers) (dense2 out) X.

Definition p_ft (cols C out : nat) (X : list nat) : option pmat :=
  ft_forward (penc cols C (seq 0 cols)) (pconst C) (map dense_mat)
    (sequential [dense2 C; prelu2; dense2 out]) X.

Definition p_tab_conv (H C : nat) : pt3 -> pt3 :=
  tab_conv PO H (C / H) (dense3 C) (dense3 C) (dense3 C) (dense3 C) (dense3 C) (dense3 (8 * C)) (dense3 C).

Definition p_tabt (layers H cols C pad out : nat) (cat_ids num_ids : list nat) (X : list nat) : option pmat :=
  let hidden := 2 in
  tabt_forward (negb (length cat_ids =? 0)) (negb (length num_ids =? 0))
    (penc cols (C - pad) cat_ids) (repeat (pconst pad) (length cat_ids)) (repeat (p_tab_conv H C) layers)
    (penc cols 1 num_ids) (dense2 (length num_ids))
    (sequential [dense2 hidden; pbn hidden; map (vfn PO FSelu); dense2 hidden; pbn hidden; map (vfn PO FSelu); dense2 out]) X.

(* GroupNorm on [B, P, cols, C]: normalises within one sample; over-approximated by "mixes the whole sample" *)
Definition p_group_norm (Z : list pt3) : list pt3 :=
  map (fun z => map (map (map (fun _ => PVal (tdeps z)))) z) Z.
Definition p_trompt_conv (cols C P : nat) : pt3 -> pt3 -> option pt3 :=
  trompt_conv PO cols C P (repeat (pconst C) P) (repeat (pconst C) cols) (pconst P) (dense3 C) p_group_norm.
Definition p_trompt_decoder (P C out : nat) : pt3 -> option pmat :=
  trompt_decoder PO P C (dense3 1) (dense2 out).
Definition p_trompt (layers cols C P out : nat) (X : list nat) : option pt3 :=
  trompt_forward (repeat (pconst C) P)
    (repeat (penc cols C (seq 0 cols), p_trompt_conv cols C P) layers) (p_trompt_decoder P C out) X.

Definition p_excel_conv (cols H C : nat) : pt3 -> option pt3 :=
  excel_conv PO cols H (C / H) (dense3 C) (dense3 C) (dense3 C) (dense3 C)
    (if 1 <? H then Some (dense3 C) else None) (dense3 C) (dense3 C) (dense3 C).
Definition p_excel_decoder (C out : nat) : pt3 -> pmat := excel_decoder PO C out (dense3 out) (dense3 1).
Definition p_excel (layers H cols C out : nat) (X : list nat) : option pmat :=
  excel_forward (penc cols C (seq 0 cols)) (repeat (p_excel_conv cols H C) layers) (p_excel_decoder C out) X.

(* ---------------- footprints ---------------- *)
(* Y : per output row, the input cells it depends on *)
Definition depends_on_row (off stride n_in r : nat) (deps : list N) : bool :=
  existsb (fun c => memb (off + r * stride + c) deps) (seq 0 n_in).

(* rows of the output that change when input row r is perturbed *)
Definition rows_changed (off stride n_in : nat) (Y : list (list N)) (r : nat) : list nat :=
  filter (fun s => match nth_error Y s with Some deps => depends_on_row off stride n_in r deps | None => false end)
         (seq 0 (length Y)).

(* input column c influences the output of its own row, for some row *)
Definition col_reach (off stride n_in : nat) (Y : list (list N)) : list bool :=
  map (fun c => existsb (fun r => match nth_error Y r with Some deps => memb (off + r * stride + c) deps | None => false end)
                        (seq 0 (length Y))) (seq 0 n_in).

(* [c][c'] : input column c influences output column c' (of the same row, some row) *)
Definition col_fp (off stride n_in n_out : nat) (Y : pt3) : list (list bool) :=
  map (fun c => map (fun c' => existsb (fun r => match nth_error Y r with
                                                | Some row => match nth_error row c' with
                                                              | Some v => memb (off + r * stride + c) (vdeps v)
                                                              | None => false
                                                              end
                                                | None => false
                                                end) (seq 0 (length Y))) (seq 0 n_out)) (seq 0 n_in).

Fixpoint nats_eqb (a b : list nat) : bool :=
  match a, b with
  | [], [] => true
  | x :: a', y :: b' => (x =? y) && nats_eqb a' b'
  | _, _ => false
  end.

(* measured : [(perturbed row, rows whose output changed)] *)
Definition rows_ok (off stride n_in : nat) (Y : list (list N)) (measured : list (nat * list nat)) : bool :=
  forallb (fun p => nats_eqb (rows_changed off stride n_in Y (fst p)) (snd p)) measured.

(* C14: a model output [B, out] (or [B, layers, out] flattened by the caller) *)
Definition model_fp_ok (cols : nat) (Y : option (list (list N))) (B : nat)
           (measured_rows : list (nat * list nat)) (measured_cols : list bool) : bool :=
  match Y with
  | Some Y => (length Y =? B) && rows_ok 0 cols cols Y measured_rows && bvec_eqb (col_reach 0 cols cols Y) measured_cols
  | None => false
  end.
Definition deps2 (Y : option pmat) : option (list (list N)) := option_map (map vdeps) Y.
Definition deps3 (Y : option pt3) : option (list (list N)) := option_map (map mdeps) Y.

(* C15: a layer output [B, n_out, C] for the input pin B cols C *)
Definition pin (B cols C : nat) : pt3 := penc cols C (seq 0 cols) (seq 0 B).
Definition layer_fp_ok (cols n_out : nat) (Y : option pt3) (B : nat)
           (measured_rows : list (nat * list nat)) (measured_cols : list (list bool)) : bool :=
  match Y with
  | Some Y => (length Y =? B) && rows_ok 0 cols cols (map mdeps Y) measured_rows
              && bmat_eqb (col_fp 0 cols cols n_out Y) measured_cols
  | None => false
  end.

Definition all_true (v : list bool) : bool := forallb (fun b => b) v.
Definition lower_triangular (n : nat) : list (list bool) :=
  map (fun c => map (fun c' => c <=? c') (seq 0 n)) (seq 0 n).
Definition identity_rows (B : nat) : list (nat * list nat) := map (fun r => (r, [r])) (seq 0 B).

(* ---------------- C15 evaluators for the remaining layers ---------------- *)
(* FTTransformerConvs on pin B cols C: (column outputs, CLS outputs) *)
Definition p_ft_convs (B cols C : nat) : option (pt3 * pmat) :=
  ft_convs (pconst C) (map dense_mat) (pin B cols C).
Definition ft_layer_fp_ok (cols B : nat) (Y : option (pt3 * pmat))
           (measured_rows : list (nat * list nat)) (measured_cols : list (list bool)) (measured_cls : list bool) : bool :=
  match Y with
  | Some (x, cls) =>
      (length x =? B) && (length cls =? B)
      && rows_ok 0 cols cols (map (fun p => punion (mdeps (fst p)) (vdeps (snd p))) (combine x cls)) measured_rows
      && bmat_eqb (col_fp 0 cols cols cols x) measured_cols
      && bvec_eqb (col_reach 0 cols cols (map vdeps cls)) measured_cls
  | None => false
  end.

(* TromptConv on x = pin B cols C and x_prompt with ids B*cols + r*P + p *)
Definition p_trompt_conv_run (B cols C P : nat) : option pt3 :=
  p_trompt_conv cols C P (pin B cols C) (penc_at (B * cols) P C (seq 0 P) (seq 0 B)).
Definition trompt_layer_fp_ok (cols P B : nat) (Y : option pt3)
           (measured_rows : list (nat * list nat)) (measured_x : list (list bool)) (measured_p : list (list bool)) : bool :=
  match Y with
  | Some Y => (length Y =? B) && rows_ok 0 cols cols (map mdeps Y) measured_rows
              && bmat_eqb (col_fp 0 cols cols P Y) measured_x
              && bmat_eqb (col_fp (B * cols) P P P Y) measured_p
  | None => false
  end.

(* decoders: [B, n_in, C] -> [B, out] *)
Definition decoder_fp_ok (n_in B : nat) (Y : option pmat)
           (measured_rows : list (nat * list nat)) (measured_in : list bool) : bool :=
  match Y with
  | Some Y => (length Y =? B) && rows_ok 0 n_in n_in (map vdeps Y) measured_rows
              && bvec_eqb (col_reach 0 n_in n_in (map vdeps Y)) measured_in
  | None => false
  end.
Definition diagonal (n : nat) : list (list bool) := map (fun c => map (fun c' => c =? c') (seq 0 n)) (seq 0 n).
