(* Implementation-level model of torch_frame/data/mapper.py: every
   TensorMapper.forward as the pandas/torch pipeline it is, over a small pandas
   model in which a Series is a list of (label, cell) pairs.

   Labels.  The label type L comes with a decidable equality `leqb` that the
   model CAN use: the pandas operations that are keyed by label are modelled as
   keyed (Section Keyed below: `ser[label]`, boolean-mask alignment,
   `value_counts().reindex(labels)`, the left merge against an index), and each
   pipeline uses them exactly where the code does.  In the current code the
   caller's labels reach a keyed operation in one place only (the boolean mask
   `ser[offset != 0]` of the sequence mapper, whose index IS the series' index);
   the categorical and multicategorical mappers first replace the labels by
   positions (`reset_index(drop=True)`) and do their keyed bookkeeping on those.
   The pre-fix, label-keyed variants are written in the same vocabulary in
   Legacy/MapperLegacy.v, where relabelling invariance fails.  A raise is None.
   Definitions only; lemmas are in Proofs/MapperProofs.v.

   Modelled primitives (validated against /repo on every run by the
   correspondence of harness/c01.py): Series.values / apply / explode /
   reset_index / boolean-mask indexing, pd.merge(how='left', right_index=True)
   against an index, dropna, Index.value_counts + reindex(fill_value=0),
   torch.cumsum / cat / nan_to_num, np.stack, Python str.strip / str.split /
   set(), MultiNestedTensor / MultiEmbeddingTensor constructors (Model/Ragged.v)
   and the .dt calendar fields (Lib/Calendar.v).  pd.to_datetime(errors='coerce')
   is a black box: a timestamp cell arrives as parsed epoch seconds or NaT. *)
From Coq Require Import ZArith List Bool Arith.
From PF Require Import Lib.ListX Lib.Calendar Model.Ragged.
Import ListNotations.
Local Open Scope nat_scope.

(* ------------------------------------------------------------------------- *)
(* Values *)

Definition str := list Z.                        (* a Python str: its code points *)

Fixpoint str_eqb (a b : str) : bool :=
  match a, b with
  | [], [] => true
  | x :: a', y :: b' => (x =? y)%Z && str_eqb a' b'
  | _, _ => false
  end.

(* a hashable Python value held in a cell: an int or a str (1 != "1") *)
Inductive pval := VInt (z : Z) | VStr (s : str).
Definition pval_eqb (a b : pval) : bool :=
  match a, b with
  | VInt x, VInt y => (x =? y)%Z
  | VStr x, VStr y => str_eqb x y
  | _, _ => false
  end.

(* a float: payloads are dyadic rationals shipped as scaled integers; they are
   only moved, never computed on (casts to float32/float64 are exact) *)
Inductive num := NFin (z : Z) | NNaN | NPosInf | NNegInf.

(* an entry of an output tensor *)
Inductive scalar := SInt (z : Z) | SNum (x : num).
Definition ecell := list scalar.                 (* what tf[i, j] holds *)

(* ------------------------------------------------------------------------- *)
(* pandas Series *)
Section Series.
  Context {L : Type}.

  Definition series (C : Type) := list (L * C).
  Definition ser_values {C} (s : series C) : list C := map snd s.                       (* ser.values *)
  Definition ser_apply {C D} (f : C -> D) (s : series C) : series D :=                  (* ser.apply(f) *)
    map (fun p => (fst p, f (snd p))) s.
  (* ser.apply(f) for an f that may raise: same labels, new values *)
  Definition ser_apply_opt {C D} (f : C -> option D) (s : series C) : option (series D) :=
    vals <- mapM f (ser_values s) ;; Some (combine (map fst s) vals).
End Series.

(* ser.reset_index(drop=True): labels become 0..n-1 *)
Definition reset_index {L C} (s : @series L C) : @series nat C := combine (seq 0 (length s)) (map snd s).

(* ------------------------------------------------------------------------- *)
(* pandas operations that are keyed by index label *)
Section Keyed.
  Context {L : Type} (leqb : L -> L -> bool).

  Fixpoint labels_eqb (a b : list L) : bool :=                     (* Index.equals *)
    match a, b with
    | [], [] => true
    | x :: a', y :: b' => leqb x y && labels_eqb a' b'
    | _, _ => false
    end.

  (* ser[label] / ser.loc[label] for a scalar result: KeyError if absent *)
  Definition ser_loc {C} (s : @series L C) (label : L) : option C :=
    option_map snd (find (fun p => leqb (fst p) label) s).

  (* idx.value_counts().reindex(target, fill_value=0): for every target label the
     number of occurrences of that label *)
  Definition label_counts (labels target : list L) : list nat :=
    map (fun t => length (filter (leqb t) labels)) target.

  (* ser[mask] for a boolean Series: if mask.index equals ser.index the mask is
     used positionally; otherwise it is aligned by label (mask.reindex(ser.index):
     ValueError on duplicated mask labels, IndexingError on a label the mask lacks) *)
  Definition mask_select {C} (s : @series L C) (mask : @series L bool) : option (@series L C) :=
    if labels_eqb (map fst s) (map fst mask)
    then Some (map fst (filter snd (combine s (map snd mask))))
    else
      if forallb (fun p => Nat.eqb (length (filter (fun q => leqb (fst q) (fst p)) mask)) 1) mask
      then option_map (fun bs => map fst (filter snd (combine s bs))) (mapM (fun p => ser_loc mask (fst p)) s)
      else None.
End Keyed.

(* ser.explode() on list-likes: one row per element, an empty list-like gives one NaN row;
   labels are repeated *)
Definition explode {L C} (s : @series L (list C)) : @series L (option C) :=
  flat_map (fun p => match snd p with
                     | [] => [(fst p, None)]
                     | xs => map (fun x => (fst p, Some x)) xs
                     end) s.

(* pd.merge(ser.rename('data'), index, how='left', left_on='data', right_index=True):
   for every left row, in order, one output row per matching entry of the right
   index, or one row with NaN if there is none; a NaN key matches nothing (the
   right index holds no NaN).  Result rows: (label, data, index). *)
Definition merge_left {L} (s : @series L (option pval)) (right : list (pval * Z))
  : list (L * option pval * option Z) :=
  flat_map (fun p =>
    match snd p with
    | None => [(fst p, None, None)]
    | Some v =>
        match filter (fun e => pval_eqb (fst e) v) right with
        | [] => [(fst p, Some v, None)]
        | ms => map (fun e => (fst p, Some v, Some (snd e))) ms
        end
    end) s.

(* pd.Series(index=categories, data=pd.RangeIndex(0, len(categories))) *)
Definition range_index (cats : list pval) : list (pval * Z) :=
  combine cats (map Z.of_nat (seq 0 (length cats))).

(* ------------------------------------------------------------------------- *)
(* NumericalTensorMapper.forward: ser.values.astype(float dtype) *)
Definition astype_float (c : option num) : num := match c with None => NNaN | Some x => x end.
Definition numerical_forward {L} (s : @series L (option num)) : list num := map astype_float (ser_values s).

(* ------------------------------------------------------------------------- *)
(* CategoricalTensorMapper: categories index; forward = merge (on object keys),
   .values, index[index.isnan()] = -1, .to(long) *)
Definition categorical_forward {L} (cats : list pval) (s : @series L (option pval)) : list Z :=
  let s0 := reset_index s in                                       (* .reset_index(drop=True) *)
  let index := map snd (merge_left s0 (range_index cats)) in       (* [...]['index'].values *)
  map (fun o => match o with None => (-1)%Z | Some k => k end) index.

(* ------------------------------------------------------------------------- *)
(* Python str.strip() / str.split(sep) / set() *)

(* code points with str.isspace() *)
Definition py_isspace (c : Z) : bool :=
  (((9 <=? c) && (c <=? 13)) || ((28 <=? c) && (c <=? 32)) || (c =? 133) || (c =? 160) || (c =? 5760)
   || ((8192 <=? c) && (c <=? 8202)) || (c =? 8232) || (c =? 8233) || (c =? 8239) || (c =? 8287) || (c =? 12288))%Z.

Fixpoint lstrip (s : str) : str :=
  match s with
  | c :: r => if py_isspace c then lstrip r else s
  | [] => []
  end.
Definition py_strip (s : str) : str := rev (lstrip (rev (lstrip s))).

Fixpoint is_prefix (p s : str) : bool :=
  match p, s with
  | [], _ => true
  | x :: p', y :: s' => (x =? y)%Z && is_prefix p' s'
  | _ :: _, [] => false
  end.

(* scan left to right; `skip` counts the remaining characters of a separator
   just matched; `cur` is the current piece, reversed *)
Fixpoint split_go (sep s cur : str) (skip : nat) : list str :=
  match s with
  | [] => [rev cur]
  | c :: r =>
      match skip with
      | S k => split_go sep r cur k
      | O => if is_prefix sep s then rev cur :: split_go sep r [] (length sep - 1)
             else split_go sep r (c :: cur) 0
      end
  end.
(* s.split(sep): ValueError for an empty separator *)
Definition py_split (s sep : str) : option (list str) :=
  match sep with [] => None | _ => Some (split_go sep s [] 0) end.

(* set(xs): duplicates removed; the iteration order of a Python set is
   unspecified -- every comparison of multicategorical cells is up to order *)
Fixpoint py_set (l : list pval) : list pval :=
  match l with
  | [] => []
  | x :: r => if existsb (pval_eqb x) r then py_set r else x :: py_set r
  end.

(* ------------------------------------------------------------------------- *)
(* MultiCategoricalTensorMapper *)

(* a raw multicategorical cell: None/NaN/pd.NA; a str; a list; anything else *)
Inductive mc_cell := MCMissing | MCStr (s : str) | MCList (l : list pval) | MCOther.

(* split_by_sep(row, sep); assert failures and the ValueError are None *)
Definition split_by_sep (row : mc_cell) (sep : option str) : option (list pval) :=
  match row with
  | MCMissing => Some [VInt (-1)]
  | MCStr s =>
      match sep with
      | None => None                                                   (* assert sep is not None *)
      | Some sp =>
          match py_strip s with
          | [] => Some []
          | _ => pieces <- py_split s sp ;; Some (py_set (map (fun t => VStr (py_strip t)) pieces))
          end
      end
  | MCList l => match sep with None => Some (py_set l) | Some _ => None end   (* assert sep is None *)
  | MCOther => None
  end.

(* self.index = Series(index=Index(categories + [-1], dtype=object), data=[0..len-1] + [-1]) *)
Definition multicat_index (cats : list pval) : list (pval * Z) := range_index cats ++ [(VInt (-1), (-1)%Z)].

(* dtype_ok: ser.dtype == 'object' or is_string_dtype(ser); otherwise ValueError *)
Definition multicategorical_forward {L} (dtype_ok : bool) (cats : list pval) (sep : option str) (s : @series L mc_cell)
  : option (mnt Z) :=
  if negb dtype_ok then None else
  let s0 := reset_index s in
  let original_index := map fst s0 in
  sets <- ser_apply_opt (fun row => split_by_sep row sep) s0 ;;
  let exploded := explode sets in
  let merged := merge_left exploded (multicat_index cats) in
  let kept := filter (fun r => match r with (_, Some _, Some _) => true | _ => false end) merged in   (* .dropna() *)
  let values := flat_map (fun r => match snd r with Some k => [k] | None => [] end) kept in          (* ['index'].values *)
  let counts := label_counts Nat.eqb (map (fun r => fst (fst r)) kept) original_index in   (* value_counts().reindex(original_index) *)
  let offset := cumsum (0 :: counts) in                                   (* cumsum(concat([0], offset)) *)
  mk_mnt Z (length original_index) 1 values offset.

(* ------------------------------------------------------------------------- *)
(* NumericalSequenceTensorMapper *)
Inductive seq_cell := SQMissing | SQList (l : list (option num)) | SQOther.

Definition get_sequence_length (row : seq_cell) : option nat :=
  match row with
  | SQList l => Some (length l)
  | SQMissing => Some 0
  | SQOther => None                                                       (* ValueError *)
  end.

Definition sequence_forward {L} (leqb : L -> L -> bool) (s : @series L seq_cell) : option (mnt num) :=
  let num_rows := length s in
  offset <- ser_apply_opt get_sequence_length s ;;                        (* offset = ser.apply(get_sequence_length) *)
  let mask := ser_apply (fun k => negb (k =? 0)) offset in                 (* offset != 0 *)
  kept <- mask_select leqb s mask ;;                                      (* ser = ser[offset != 0] *)
  let offsets := cumsum (0 :: ser_values offset) in
  let lists := ser_apply (fun c => match c with SQList l => l | _ => [] end) kept in
  let values := map (fun p => match snd p with Some x => astype_float x | None => NNaN end)
                    (explode lists) in                                    (* ser.explode().values.astype('float32') *)
  mk_mnt num num_rows 1 values offsets.

(* ------------------------------------------------------------------------- *)
(* TimestampTensorMapper: a cell is the result of pd.to_datetime(errors='coerce'):
   Some epoch-seconds, or None for NaT (missing or unparseable) *)
Definition dt_field (f : Z -> Z) (c : option Z) : option Z := option_map f c.        (* ser.dt.<field>.values *)
Definition dt_year (s : Z) : Z := year_of_days (days_of_secs s).
Definition dt_month (s : Z) : Z := month_of_days (days_of_secs s).
Definition dt_day (s : Z) : Z := day_of_days (days_of_secs s).
Definition dt_dayofweek (s : Z) : Z := weekday_of_days (days_of_secs s).
Definition minus1 (o : option Z) : option Z := option_map (fun v => (v - 1)%Z) o.
Definition nan_to_num_m1 (o : option Z) : Z := match o with Some v => v | None => (-1)%Z end.

(* torch.cat(tensors, dim=1) of n x 1 columns: row i collects entry i of every column *)
Definition cat_columns {A} (d : A) (n : nat) (cols : list (list A)) : list (list A) :=
  map (fun i => map (fun c => nth i c d) cols) (seq 0 n).

Definition timestamp_to_tensor (cells : list (option Z)) : list (list Z) :=
  let tensors :=
    [ map (dt_field dt_year) cells;
      map (fun c => minus1 (dt_field dt_month c)) cells;
      map (fun c => minus1 (dt_field dt_day c)) cells;
      map (dt_field dt_dayofweek) cells;
      map (dt_field hour_of_secs) cells;
      map (dt_field minute_of_secs) cells;
      map (dt_field second_of_secs) cells ] in
  let stacked := cat_columns None (length cells) tensors in
  map (map nan_to_num_m1) stacked.                                        (* nan_to_num(nan=-1).to(long) *)

Definition timestamp_forward {L} (s : @series L (option Z)) : list (list Z) := timestamp_to_tensor (ser_values s).

(* ------------------------------------------------------------------------- *)
(* EmbeddingTensorMapper *)

(* np.stack(ser.values): at least one row, all of one width *)
Definition np_stack {A} (rows : list (list A)) : option (t2 A) :=
  match rows with
  | [] => None
  | r0 :: _ => if forallb (fun r => length r =? length r0) rows then Some (MkT2 rows (length r0)) else None
  end.

(* MultiEmbeddingTensor(num_rows=len(ser), num_cols=1, values, offset=[0, len(values[0])]) *)
Definition wrap_embedding {A} (n : nat) (values : t2 A) : option (met A) :=
  match t2rows values with
  | [] => None                                                            (* values[0]: IndexError *)
  | v0 :: _ => mk_met A n 1 values [0; length v0]
  end.

(* embedder is None: the cells are the vectors *)
Definition embedding_forward {L} (s : @series L (list num)) : option (met num) :=
  values <- np_stack (ser_values s) ;;
  wrap_embedding (length s) values.

(* with a user embedder: `values` is what the embedder returned for
   [str(x) for x in ser.tolist()] (black box, C16); one row per cell *)
Definition embedded_forward {L} (s : @series L (list num)) : option (met num) :=
  match ser_values s with
  | [] => None
  | v0 :: _ => wrap_embedding (length s) (MkT2 (ser_values s) (length v0))
  end.

(* ------------------------------------------------------------------------- *)
(* Reading a one-column container cell by cell: t[i, 0] for every row *)
Definition mnt_column {A} (t : mnt A) : option (list (list A)) :=
  mapM (fun i => mnt_get_value A t i 0) (seq 0 (nr t)).
Definition met_column {A} (t : met A) : option (list (list A)) :=
  mapM (fun i => met_get_value A t i 0) (seq 0 (er t)).

(* the encoded column as a list of cells, one per row *)
Definition numerical_encode {L} (s : @series L (option num)) : list ecell :=
  map (fun x => [SNum x]) (numerical_forward s).
Definition categorical_encode {L} (cats : list pval) (s : @series L (option pval)) : list ecell :=
  map (fun k => [SInt k]) (categorical_forward cats s).
Definition multicategorical_encode {L} (dtype_ok : bool) (cats : list pval) (sep : option str) (s : @series L mc_cell)
  : option (list ecell) :=
  t <- multicategorical_forward dtype_ok cats sep s ;; c <- mnt_column t ;; Some (map (map SInt) c).
Definition sequence_encode {L} (leqb : L -> L -> bool) (s : @series L seq_cell) : option (list ecell) :=
  t <- sequence_forward leqb s ;; c <- mnt_column t ;; Some (map (map SNum) c).
Definition timestamp_encode {L} (s : @series L (option Z)) : list ecell :=
  map (map SInt) (timestamp_forward s).
Definition embedding_encode {L} (s : @series L (list num)) : option (list ecell) :=
  t <- embedding_forward s ;; c <- met_column t ;; Some (map (map SNum) c).
Definition embedded_encode {L} (s : @series L (list num)) : option (list ecell) :=
  t <- embedded_forward s ;; c <- met_column t ;; Some (map (map SNum) c).
