(* Implementation-level model of the C06 operations of pytorch-frame:
     MultiNestedTensor.cat / to_dense / fillna_col        (data/multi_nested_tensor.py)
     MultiEmbeddingTensor.cat / fillna_col                (data/multi_embedding_tensor.py)
     _MultiTensor.clone, _normalize_dim                   (data/multi_tensor.py)
     _cat_tensor_data                                     (utils/concat.py)
   one definition per Python function, mirroring the code as written.  The
   constructors from_tensor_mat / from_tensor_list are Model/Ragged.v
   (mnt_from_mat, met_from_cells).  A raised exception is None.

   Uninitialised storage (torch.empty) is modelled by an arbitrary function
   `junk` from positions to contents; every theorem quantifies over it, i.e. the
   results do not depend on what torch.empty happened to contain.

   Definitions only: lemmas are in Proofs/RaggedCatProofs.v. *)
From Coq Require Import ZArith List Bool Arith.
From PF Require Import Lib.ListX Lib.PySlice Model.Ragged Model.RaggedRun.
Import ListNotations.

(* ---------------------------------------------------------------------- *)
(* torch primitives used by the code below *)
Section Prims.
  Context {X : Type}.

  (* t[i] = v, i in range *)
  Definition set_nth (l : list X) (i : nat) (v : X) : list X := firstn i l ++ v :: skipn (S i) l.

  (* buf[idx] = src  (index_put_ with a 1-D index tensor of non-negative
     entries): IndexError for an entry out of range, RuntimeError when the
     number of indices and of values differ.  (torch would broadcast a
     one-element src; on validated containers the two lengths are always equal.) *)
  Fixpoint scatter (buf : list X) (idx : list nat) (src : list X) : option (list X) :=
    match idx, src with
    | [], [] => Some buf
    | i :: idx', v :: src' => if i <? length buf then scatter (set_nth buf i v) idx' src' else None
    | _, _ => None
    end.

  (* buf[a : a + len(src)] = src : the target slice must not have been clamped *)
  Definition write_at (buf : list X) (a : nat) (src : list X) : option (list X) :=
    if a + length src <=? length buf
    then Some (firstn a buf ++ src ++ skipn (a + length src) buf) else None.

  (* buf[a:] = src *)
  Definition write_tail (buf : list X) (a : nat) (src : list X) : option (list X) :=
    if a + length src =? length buf then Some (firstn a buf ++ src) else None.

  (* torch.empty(n) *)
  Definition empty_buf (junk : nat -> X) (n : nat) : list X := map junk (seq 0 n).
End Prims.

(* count.max() : RuntimeError on an empty tensor *)
Definition max_error (l : list nat) : option nat :=
  match l with [] => None | _ => Some (list_max l) end.

(* offset[1:] - offset[:-1] *)
Definition diffs (o : list nat) : list nat := sub2 (tl o) (removelast o).

(* _MultiTensor._normalize_dim *)
Definition normalize_dim (d : Z) : option nat :=
  let d' := if (d <? 0)%Z then (d + 3)%Z else d in
  if (d' =? 0)%Z then Some 0 else if (d' =? 1)%Z then Some 1 else None.

Section RaggedCat.
  Variable A : Type.
  Variable junk_o : nat -> nat.   (* contents of torch.empty(.., dtype=long) *)
  Variable junk_v : nat -> A.     (* contents of torch.empty(.., dtype=values.dtype) *)

  (* ------------------------------------------------------------------ *)
  (* MultiNestedTensor.cat, dim = 0 *)

  (* the accum / idx loop over xs[:-1] followed by the two statements for xs[-1]:
       offset[idx:idx+len(x.offset[:-1])] = x.offset[:-1] ; ....add_(accum)
       accum += x.offset[-1] ; idx += len(x.offset[:-1])
       ...
       offset[idx:] = xs[-1].offset ; offset[idx:].add_(accum)                  *)
  Fixpoint mnt_cat0_offsets (xs : list (mnt A)) (buf : list nat) (accum idx : nat) : option (list nat) :=
    match xs with
    | [] => None
    | x :: rest =>
        match rest with
        | [] => write_tail buf idx (map (fun o => o + accum) (offs x))
        | _ :: _ =>
            let src := removelast (offs x) in
            buf' <- write_at buf idx (map (fun o => o + accum) src) ;;
            l <- last_error (offs x) ;;
            mnt_cat0_offsets rest buf' (accum + l) (idx + length src)
        end
    end.

  Definition mnt_cat0 (xs : list (mnt A)) : option (mnt A) :=
    match xs with
    | [] => None                                        (* "Cannot concatenate a sequence of length 0." *)
    | x0 :: rest =>
        let num_rows := sum (map nr xs) in
        let num_cols := nc x0 in
        if forallb (fun x => nc x =? num_cols) rest then
          let values := concat (map vals xs) in
          offset <- mnt_cat0_offsets xs (empty_buf junk_o (num_rows * num_cols + 1)) 0 0 ;;
          mk_mnt A num_rows num_cols values offset
        else None                                       (* "num_cols must be the same ..." *)
    end.

  (* ------------------------------------------------------------------ *)
  (* MultiNestedTensor.cat, dim = 1 *)

  (* elem_length_mat[:, c0:c0 + x.num_cols] = blk   (blk : x.num_rows x x.num_cols) *)
  Definition write_block (mat : list (list nat)) (c0 : nat) (blk : list (list nat)) : option (list (list nat)) :=
    if length mat =? length blk
    then mapM (fun p => write_at (fst p) c0 (snd p)) (combine mat blk) else None.

  (* first loop: elem_count = x.offset[1:] - x.offset[:-1] written, reshaped, into the
     column window of x *)
  Fixpoint mnt_cat1_lengths (xs : list (mnt A)) (mat : list (list nat)) (c0 : nat) : option (list (list nat)) :=
    match xs with
    | [] => Some mat
    | x :: rest =>
        blk <- reshape (nr x) (nc x) (diffs (offs x)) ;;
        mat' <- write_block mat c0 blk ;;
        mnt_cat1_lengths rest mat' (c0 + nc x)
    end.

  (* second loop (after fix cb7ba98: arange(num_rows) * num_cols, defined for num_cols = 0):
       offset_start_idx = col_start_idx + arange(num_rows) * num_cols
       offset_start = offset[offset_start_idx] ; offset_end = offset[offset_start_idx + x.num_cols]
       count = offset_end - offset_start ; batch, arange = _batched_arange(count)
       values[offset_start[batch] + arange] = x.values                                          *)
  Fixpoint mnt_cat1_values (xs : list (mnt A)) (num_rows num_cols : nat) (offset : list nat)
           (values : list A) (c0 : nat) : option (list A) :=
    match xs with
    | [] => Some values
    | x :: rest =>
        let start_idx := map (fun r => c0 + r * num_cols) (seq 0 num_rows) in
        offset_start <- tgather offset start_idx ;;
        offset_end <- tgather offset (map (fun i => i + nc x) start_idx) ;;
        let count := sub2 offset_end offset_start in
        vidx <- batch_index offset_start (batched_arange count) ;;
        values' <- scatter values vidx (vals x) ;;
        mnt_cat1_values rest num_rows num_cols offset values' (c0 + nc x)
    end.

  Definition mnt_cat1 (xs : list (mnt A)) : option (mnt A) :=
    match xs with
    | [] => None
    | x0 :: rest =>
        let num_rows := nr x0 in
        let num_cols := sum (map nc xs) in
        if forallb (fun x => nr x =? num_rows) rest then
          (* elem_length_mat = torch.empty(num_rows, num_cols) *)
          let mat0 := map (fun r => map (fun c => junk_o (r * num_cols + c)) (seq 0 num_cols)) (seq 0 num_rows) in
          mat <- mnt_cat1_lengths xs mat0 0 ;;
          (* offset = zeros(num_rows*num_cols+1) ; cumsum(elem_length_mat.flatten(), out=offset[1:]) *)
          let offset := 0 :: cumsum (concat mat) in
          values <- mnt_cat1_values xs num_rows num_cols offset
                      (empty_buf junk_v (sum (map (fun x => length (vals x)) xs))) 0 ;;
          mk_mnt A num_rows num_cols values offset
        else None                                       (* "num_rows must be the same ..." *)
    end.

  Definition mnt_cat (xs : list (mnt A)) (dim : Z) : option (mnt A) :=
    match xs with
    | [] => None
    | _ => d <- normalize_dim dim ;; if d =? 0 then mnt_cat0 xs else mnt_cat1 xs
    end.

  (* ------------------------------------------------------------------ *)
  (* MultiNestedTensor.to_dense(fill_value).  The dense tensor is contiguous
     storage of num_rows*num_cols*max_length scalars; dense[row, col, arange] = values
     is index_put_ with three index tensors, each bounds-checked against its
     own dimension. *)
  Definition mnt_to_dense (t : mnt A) (fill : A) : option (list (list (list A))) :=
    let count := diffs (offs t) in
    max_length <- max_error count ;;
    let ba := batched_arange count in
    if nc t =? 0 then None                              (* batch // 0 ; not reachable after count.max() *)
    else
      let row := map (fun b => b / nc t) (fst ba) in
      let col := map (fun b => b mod nc t) (fst ba) in
      if forallb (fun r => r <? nr t) row && forallb (fun c => c <? nc t) col
         && forallb (fun k => k <? max_length) (snd ba)
      then
        let flat_idx := map (fun p => (fst (fst p) * nc t + snd (fst p)) * max_length + snd p)
                            (combine (combine row col) (snd ba)) in
        flat <- scatter (repeat fill (nr t * nc t * max_length)) flat_idx (vals t) ;;
        Some (chunk_rows (nr t) (nc t) (chunk_rows (nr t * nc t) max_length flat))
      else None.

  (* ------------------------------------------------------------------ *)
  (* fillna_col(col_index, fill_value), col_index a non-negative int.  `is_na`
     is isnan for floating point values and (== -1) otherwise.  In-place: the
     result is the container after the call. *)
  Definition fill_na (is_na : A -> bool) (fill : A) (v : A) : A := if is_na v then fill else v.

  Definition mnt_fillna_col (is_na : A -> bool) (t : mnt A) (j : nat) (fill : A) : option (mnt A) :=
    (* after fix 0b0fb8c: start_idx = arange(num_rows) * num_cols + col_index *)
    let start_idx := map (fun r => r * nc t + j) (seq 0 (nr t)) in
    o_s <- tgather (offs t) start_idx ;;
    o_e <- tgather (offs t) (map S start_idx) ;;
    let diff := sub2 o_e o_s in
    values_index <- batch_index o_s (batched_arange diff) ;;
    values_col <- tgather (vals t) values_index ;;
    values <- scatter (vals t) values_index (map (fill_na is_na fill) values_col) ;;
    Some (MkMnt (nr t) (nc t) values (offs t)).

  (* values[:, offset[j]:offset[j+1]] is a view; the masked assignment writes through *)
  Definition met_fillna_col (is_na : A -> bool) (t : met A) (j : nat) (fill : A) : option (met A) :=
    s <- tget (eoffs t) j ;;
    e <- tget (eoffs t) (j + 1) ;;
    let upd := fun row => firstn s row ++ map (fill_na is_na fill) (tslice row s e) ++ skipn (Nat.max s e) row in
    Some (MkMet (er t) (ec t) (MkT2 (map upd (t2rows (evals t))) (t2w (evals t))) (eoffs t)).

  (* ------------------------------------------------------------------ *)
  (* _MultiTensor.clone : the constructor (validate) on cloned tensors *)
  Definition mnt_clone (t : mnt A) : option (mnt A) := mk_mnt A (nr t) (nc t) (vals t) (offs t).
  Definition met_clone (t : met A) : option (met A) := mk_met A (er t) (ec t) (evals t) (eoffs t).

  (* ------------------------------------------------------------------ *)
  (* torch.cat of 2-D tensors *)
  Definition t2_cat0 (vs : list (t2 A)) : option (t2 A) :=
    match vs with
    | [] => None
    | v0 :: rest =>
        if forallb (fun v => t2w v =? t2w v0) rest
        then Some (MkT2 (concat (map (@t2rows A) vs)) (t2w v0)) else None
    end.
  Definition t2_cat1 (vs : list (t2 A)) : option (t2 A) :=
    match vs with
    | [] => None
    | v0 :: rest =>
        let n := length (t2rows v0) in
        if forallb (fun v => length (t2rows v) =? n) rest
        then Some (MkT2 (map (fun r => concat (map (fun v => nth r (t2rows v) []) vs)) (seq 0 n))
                        (sum (map (@t2w A) vs)))
        else None
    end.

  (* MultiEmbeddingTensor.cat *)
  Definition met_cat0 (xs : list (met A)) : option (met A) :=
    match xs with
    | [] => None
    | x0 :: rest =>
        match rest with
        | [] => Some x0                                 (* if len(xs) == 1: return xs[0] *)
        | _ :: _ =>
            (* for x in xs[1:]: num_cols must agree, and (fix db1caa6: "The embedding dimension of each
               column must be the same") torch.equal(x.offset, xs[0].offset) *)
            if forallb (fun x => (ec x =? ec x0) && list_eqb Nat.eqb (eoffs x) (eoffs x0)) rest then
              values <- t2_cat0 (map (@evals A) xs) ;;
              mk_met A (sum (map (@er A) xs)) (ec x0) values (eoffs x0)      (* offset = xs[0].offset *)
            else None
        end
    end.

  (* offset_list = [0] ; for x in xs: offset_list.extend(x.offset[1:] + offset_list[-1]) *)
  Fixpoint met_cat1_offsets (xs : list (met A)) (acc : list nat) : option (list nat) :=
    match xs with
    | [] => Some acc
    | x :: rest =>
        l <- last_error acc ;;
        met_cat1_offsets rest (acc ++ map (fun o => o + l) (tl (eoffs x)))
    end.

  Definition met_cat1 (xs : list (met A)) : option (met A) :=
    match xs with
    | [] => None
    | x0 :: rest =>
        match rest with
        | [] => Some x0
        | _ :: _ =>
            if forallb (fun x => er x =? er x0) rest then
              values <- t2_cat1 (map (@evals A) xs) ;;
              offset <- met_cat1_offsets xs [0] ;;
              mk_met A (er x0) (sum (map (@ec A) xs)) values offset
            else None
        end
    end.

  (* MultiEmbeddingTensor.from_tensor_list(tensor_list): the real input shape, a
     non-empty list of 2-D tensors with the same size(0); values = cat(dim=1) *)
  Definition met_from_tensor_list (cols : list (t2 A)) : option (met A) :=
    match cols with
    | [] => None                                        (* assert len(tensor_list) > 0 *)
    | v0 :: rest =>
        let num_rows := length (t2rows v0) in
        if forallb (fun v => length (t2rows v) =? num_rows) rest then
          values <- t2_cat1 cols ;;
          mk_met A num_rows (length cols) values (0 :: cumsum (map (@t2w A) cols))
        else None                                       (* "num_rows must be the same ..." *)
    end.

  Definition met_cat (xs : list (met A)) (dim : Z) : option (met A) :=
    match xs with
    | [] => None
    | _ => d <- normalize_dim dim ;; if d =? 0 then met_cat0 xs else met_cat1 xs
    end.

  (* ------------------------------------------------------------------ *)
  (* utils/concat.py: _cat_tensor_data *)
  Inductive tdata :=
  | TDense (v : t2 A)
  | TMnt (t : mnt A)
  | TMet (t : met A)
  | TDict (d : list (nat * mnt A)).

  Definition as_dense (x : tdata) := match x with TDense v => Some v | _ => None end.
  Definition as_mnt (x : tdata) := match x with TMnt v => Some v | _ => None end.
  Definition as_met (x : tdata) := match x with TMet v => Some v | _ => None end.
  Definition as_dict (x : tdata) := match x with TDict v => Some v | _ => None end.

  Fixpoint dict_get (d : list (nat * mnt A)) (k : nat) : option (mnt A) :=
    match d with
    | [] => None                                        (* KeyError *)
    | (k', v) :: r => if k' =? k then Some v else dict_get r k
    end.

  (* d.keys() == d0.keys() for dicts (association lists with distinct keys) *)
  Definition same_keys (d0 d : list (nat * mnt A)) : bool :=
    (length d =? length d0)
    && forallb (fun kv => existsb (fun kv0 => fst kv0 =? fst kv) d0) d
    && forallb (fun kv0 => existsb (fun kv => fst kv =? fst kv0) d) d0.

  Definition cat_tensor_data (l : list tdata) (dim : Z) : option tdata :=
    match l with
    | [] => None                                        (* ValueError("Cannot concatenate an empty list.") *)
    | x0 :: rest =>
        match rest with
        | [] => Some x0                                 (* return td_list[0] *)
        | _ :: _ =>
            (* every element must be an instance of the class of the first *)
            match x0 with
            | TDense _ =>
                vs <- mapM as_dense l ;;
                (* torch.cat(td_list, dim=dim) on 2-D tensors, dim in {0, 1} *)
                option_map TDense (if (dim =? 0)%Z then t2_cat0 vs else if (dim =? 1)%Z then t2_cat1 vs else None)
            | TMnt _ => ts <- mapM as_mnt l ;; option_map TMnt (mnt_cat ts dim)
            | TMet _ => ts <- mapM as_met l ;; option_map TMet (met_cat ts dim)
            | TDict d0 =>
                ds <- mapM as_dict l ;;
                (* fix c88cd56: every later dict must have the key SET of the first
                   (td_dict.keys() != td.keys() raises); keys of a dict are distinct *)
                if negb (forallb (same_keys d0) ds) then None else
                r <- mapM (fun kv => ts <- mapM (fun d => dict_get d (fst kv)) ds ;;
                                     t <- mnt_cat ts dim ;; Some (fst kv, t)) d0 ;;
                Some (TDict r)
            end
        end
    end.
End RaggedCat.

Arguments TDense {A}. Arguments TMnt {A}. Arguments TMet {A}. Arguments TDict {A}.

(* ====================================================================== *)
(* Executable observation layer for the correspondence check: a case is an
   expression tree over containers; the harness evaluates the same tree on the
   real library and reads every cell of the result back. *)

Inductive src :=
| SBase (m : list (list cell))                          (* public constructor *)
| SSel (s : src) (dim : nat) (ix : index)               (* a selection of C05 (t[ix] / t[:, ix]) *)
| SCat (xs : list src) (dim : Z) (via_tf : bool)        (* X.cat(parts, dim) / torch_frame.cat(parts, dim) *)
| SFill (s : src) (j : nat) (v : payload)               (* fillna_col(j, v), then the container itself *)
| SClone (s : src).

Definition junk0 : nat -> nat := fun _ => 0.
Definition junkp : nat -> payload := fun k => Some (Z.of_nat k + 900001)%Z.

Section Eval.
  (* is_na : isnan for float containers, == -1 for int containers (payload
     scalars are shipped doubled, so the harness passes the doubled marker) *)
  Variable is_na : payload -> bool.

  Fixpoint build_mnt (s : src) : option (mnt payload) :=
    match s with
    | SBase m => mnt_from_mat payload m
    | SSel s' d ix => t <- build_mnt s' ;; select payload _ (mnt_kernels payload) t ix d
    | SCat xs d tf =>
        ts <- (fix go (l : list src) : option (list (mnt payload)) :=
                 match l with
                 | [] => Some []
                 | x :: r => t <- build_mnt x ;; ts <- go r ;; Some (t :: ts)
                 end) xs ;;
        if tf then r <- cat_tensor_data payload junk0 junkp (map TMnt ts) d ;; as_mnt payload r
        else mnt_cat payload junk0 junkp ts d
    | SFill s' j v => t <- build_mnt s' ;; mnt_fillna_col payload is_na t j v
    | SClone s' => t <- build_mnt s' ;; mnt_clone payload t
    end.

  Fixpoint build_met (s : src) : option (met payload) :=
    match s with
    | SBase m => met_from_cells payload m
    | SSel s' d ix => t <- build_met s' ;; select payload _ (met_kernels payload) t ix d
    | SCat xs d tf =>
        ts <- (fix go (l : list src) : option (list (met payload)) :=
                 match l with
                 | [] => Some []
                 | x :: r => t <- build_met x ;; ts <- go r ;; Some (t :: ts)
                 end) xs ;;
        if tf then r <- cat_tensor_data payload junk0 junkp (map TMet ts) d ;; as_met payload r
        else met_cat payload ts d
    | SFill s' j v => t <- build_met s' ;; met_fillna_col payload is_na t j v
    | SClone s' => t <- build_met s' ;; met_clone payload t
    end.
End Eval.

(* plain 2-D tensors (kind "dense"): torch.tensor(rows of scalars), t[ix] / t[:, ix] with
   slices and index lists, torch_frame.cat *)
Fixpoint build_dense (s : src) : option (t2 payload) :=
  match s with
  | SBase m =>
      match m with
      | [] => Some (MkT2 [] 0)
      | r0 :: _ => if forallb (fun r => length r =? length r0) m
                   then Some (MkT2 (map (@concat payload) m) (length r0)) else None
      end
  | SSel s' d ix =>
      t <- build_dense s' ;;
      pos <- py_positions (if d =? 0 then length (t2rows t) else t2w t) ix ;;
      if d =? 0 then t2_row_gather payload t pos else t2_col_gather payload t pos
  | SCat xs d tf =>
      ts <- (fix go (l : list src) : option (list (t2 payload)) :=
               match l with
               | [] => Some []
               | x :: r => t <- build_dense x ;; ts <- go r ;; Some (t :: ts)
               end) xs ;;
      r <- cat_tensor_data payload junk0 junkp (map TDense ts) d ;; as_dense payload r
  | _ => None
  end.

(* shape and rows of a 2-D tensor; None = raised *)
Definition t2_obs_eqb (a : option (t2 payload)) (b : option (nat * nat * list (list payload))) : bool :=
  match a, b with
  | None, None => true
  | Some t, Some (r, w, rows) =>
      Nat.eqb (length (t2rows t)) r && Nat.eqb (t2w t) w && list_eqb (list_eqb payload_eqb) (t2rows t) rows
  | _, _ => false
  end.
Definition case_dense_cat (s : src) (seen : option (nat * nat * list (list payload))) : bool :=
  t2_obs_eqb (build_dense s) seen.

Definition na_float (p : payload) : bool := match p with None => true | Some _ => false end.
Definition na_int (marker : Z) (p : payload) : bool := payload_eqb p (Some marker).

(* what the harness saw: an exception, or the shape and every cell *)
Inductive cobs := CErr | CCells (r c : nat) (m : list (list cell)).

Definition cobs_of {T} (K : kernels payload T) (o : option T) : cobs :=
  match o with
  | None => CErr
  | Some t => match read_cells T K t with
              | Some m => CCells (k_rows _ _ K t) (k_cols _ _ K t) m
              | None => CErr
              end
  end.
Definition cobs_eqb (a b : cobs) : bool :=
  match a, b with
  | CErr, CErr => true
  | CCells r c m, CCells r' c' m' => Nat.eqb r r' && Nat.eqb c c' && cells_eqb m m'
  | _, _ => false
  end.

Definition case_mnt (is_na : payload -> bool) (s : src) (seen : cobs) : bool :=
  cobs_eqb (cobs_of (mnt_kernels payload) (build_mnt is_na s)) seen.
Definition case_met (is_na : payload -> bool) (s : src) (seen : cobs) : bool :=
  cobs_eqb (cobs_of (met_kernels payload) (build_met is_na s)) seen.

(* from_tensor_list on explicit column tensors *)
Definition case_met_cols (cols : list (t2 payload)) (seen : cobs) : bool :=
  cobs_eqb (cobs_of (met_kernels payload) (met_from_tensor_list payload cols)) seen.

(* to_dense(fill) of the container denoted by s: None = raised *)
Definition dense_eqb (a b : option (list (list (list payload)))) : bool :=
  match a, b with
  | None, None => true
  | Some x, Some y => cells_eqb x y
  | _, _ => false
  end.
Definition case_dense (is_na : payload -> bool) (s : src) (fill : payload)
           (seen : option (list (list (list payload)))) : bool :=
  dense_eqb (t <- build_mnt is_na s ;; mnt_to_dense payload t fill) seen.

(* torch_frame.cat on a list of dicts of MultiNestedTensor: per key observation *)
Definition case_dict (is_na : payload -> bool) (parts : list (list (nat * src))) (dim : Z)
           (seen : option (list (nat * cobs))) : bool :=
  let built := mapM (fun d => mapM (fun kv => t <- build_mnt is_na (snd kv) ;; Some (fst kv, t)) d) parts in
  match built with
  | None => match seen with None => true | Some _ => false end
  | Some ds =>
      match cat_tensor_data payload junk0 junkp (map TDict ds) dim, seen with
      | None, None => true
      | Some (TDict r), Some obs =>
          Nat.eqb (length r) (length obs) &&
          forallb (fun p => Nat.eqb (fst (fst p)) (fst (snd p))
                            && cobs_eqb (cobs_of (mnt_kernels payload) (Some (snd (fst p)))) (snd (snd p)))
                  (combine r obs)
      | _, _ => false
      end
  end.

(* ---------------------------------------------------------------------- *)
(* Executable form of the C06 statements (Props/C06.v), evaluated on the
   correspondence cases as a test of the statements themselves. *)
From PF Require Import Model.RaggedSpec.

(* nested-list reference: rows of the parts in order / rows appended pairwise *)
Definition vcat {X} (ms : list (list (list X))) : list (list X) := concat ms.
Definition hcat {X} (n : nat) (ms : list (list (list X))) : list (list X) :=
  map (fun r => concat (map (fun m => nth r m []) ms)) (seq 0 n).

(* the column tensors from_tensor_list is given for the cell matrix m of widths ws *)
Definition cols_of {X} (ws : list nat) (m : list (list (list X))) : list (t2 X) :=
  map (fun j => MkT2 (map (fun row => nth j row []) m) (nth j ws 0)) (seq 0 (length ws)).

(* apply f to the j-th element (nothing happens for j out of range) *)
Definition upd_nth {X} (f : X -> X) (j : nat) (l : list X) : list X :=
  firstn j l ++ match skipn j l with [] => [] | x :: r => f x :: r end.

(* nested-list reference of fillna_col: in column j every missing scalar becomes `fill` *)
Definition fill_cells {X} (is_na : X -> bool) (fill : X) (j : nat) (m : list (list (list X))) : list (list (list X)) :=
  map (upd_nth (map (fill_na X is_na fill)) j) m.

(* nested-list reference of to_dense: every cell followed by the fill value only *)
Definition pad_cells {X} (fill : X) (m : list (list (list X))) : list (list (list X)) :=
  let L := list_max (map (@length X) (concat m)) in
  map (map (fun cell => cell ++ repeat fill (L - length cell))) m.

(* cat of canonical containers is the canonical container of the nested-list cat *)
Definition canon_mnt_cat (cs : list nat) (ms : list (cellmat payload)) (dim : nat) : bool :=
  let xs := map (fun p => mnt_of_cells (fst p) (snd p)) (combine cs ms) in
  match mnt_cat payload junk0 junkp xs (Z.of_nat dim) with
  | Some t =>
      if dim =? 0 then mnt_eqb t (mnt_of_cells (hd 0 cs) (vcat ms))
      else mnt_eqb t (mnt_of_cells (sum cs) (hcat (length (hd [] ms)) ms))
  | None => false
  end.
