(* Executable model of torch_frame/nn/encoder/stype_encoder.py: the StypeEncoder
   pipeline (init_modules strategy validation and fill_values, na_forward,
   encode_forward of every built-in encoder, nan_to_num, post_forward), of the
   domain assertions of nn/encoding/{positional,cyclic}_encoding.py, and of the
   index arithmetic the C12 domain contract is about.
   Definitions only; lemmas live in Proofs/EncodersProofs.v.

   Tensors are nested lists.  Scalars are an abstract structure (record Scalar)
   extended with an absorbing NaN (type X), so that torch.nan_to_num is
   expressible; sin/cos/tanh are uninterpreted fields of the structure.
   Ragged containers appear through their cell semantics (C05 proves that the
   flattened representation refines it). *)
From Coq Require Import String List ZArith QArith Bool Arith.
Require Import PF.Lib.ListX PF.Lib.Calendar PF.Gen.Tables PF.Model.LazyModule.
Import ListNotations.
Local Close Scope Q_scope.
Local Close Scope Z_scope.
Local Open Scope nat_scope.

Definition mat (A : Type) := list (list A).

(* ------------------------------------------------------------ list plumbing *)
(* elementwise binary op on two equally long lists (torch broadcasting of equal shapes) *)
Definition zipWith {A B C} (f : A -> B -> C) (a : list A) (b : list B) : list C :=
  map (fun p => f (fst p) (snd p)) (combine a b).

Fixpoint mapi_from {A B} (k : nat) (f : nat -> A -> B) (l : list A) : list B :=
  match l with
  | [] => []
  | x :: r => f k x :: mapi_from (S k) f r
  end.
Definition mapi {A B} (f : nat -> A -> B) (l : list A) : list B := mapi_from 0 f l.

(* feat.shape[1] == c for every row *)
Definition rect {A} (c : nat) (m : mat A) : bool := forallb (fun row => length row =? c) m.

(* torch.stack(xs, dim=1) for xs = list of per-column tensors of b rows each *)
Definition stack1 {A} (b : nat) (cols : list (list A)) : option (mat A) :=
  mapM (fun r => mapM (fun c => nth_error c r) cols) (seq 0 b).

(* t[idx] = v  (IndexError outside the range is by construction impossible where used) *)
Fixpoint set_nth {A} (l : list A) (i : nat) (v : A) : list A :=
  match l, i with
  | [], _ => []
  | _ :: r, 0 => v :: r
  | x :: r, S i' => x :: set_nth r i' v
  end.

(* The canonical per-cell evaluation: the matrix must have c columns and cell
   (r, j) is mapped by f j; any failing cell fails the whole call. *)
Definition cw {A B} (c : nat) (f : nat -> A -> option B) (m : mat A) : option (mat B) :=
  if rect c m then mapM (fun row => mapM (fun p => f (fst p) (snd p)) (combine (seq 0 c) row)) m
  else None.

(* feat with cell (r, c) replaced by v *)
Definition upd2 {A} (m : mat A) (r c : nat) (v : A) : mat A :=
  mapi (fun i row => if i =? r then set_nth row c v else row) m.

Definition get2 {A} (m : mat A) (r c : nat) : option A :=
  match nth_error m r with Some row => nth_error row c | None => None end.

(* ---------------------------------------------------------------- scalars *)
Record Scalar := {
  car : Type;
  sc_0 : car; sc_1 : car;
  sc_add : car -> car -> car; sc_sub : car -> car -> car; sc_mul : car -> car -> car;
  sc_div : car -> car -> car; sc_max : car -> car -> car;
  sc_le : car -> car -> bool;
  sc_sin : car -> car; sc_cos : car -> car; sc_tanh : car -> car;
  sc_ofZ : Z -> car;
  sc_eps6 : car; sc_eps8 : car; sc_pi : car
}.

(* a float: finite value or NaN (infinities are not modelled) *)
Inductive X (R : Type) := XFin (x : R) | XNaN.
Arguments XFin {R} x.
Arguments XNaN {R}.

Section Enc.
  Variable S : Scalar.
  Notation R := (car S).
  Notation XR := (X (car S)).

  Definition xl1 (f : R -> R) (a : XR) : XR := match a with XFin x => XFin (f x) | XNaN => XNaN end.
  Definition xl2 (f : R -> R -> R) (a b : XR) : XR :=
    match a, b with XFin x, XFin y => XFin (f x y) | _, _ => XNaN end.
  Definition xadd := xl2 (sc_add S).
  Definition xsub := xl2 (sc_sub S).
  Definition xmul := xl2 (sc_mul S).
  Definition xdiv := xl2 (sc_div S).
  Definition xmax := xl2 (sc_max S).
  Definition x0 : XR := XFin (sc_0 S).
  Definition x1 : XR := XFin (sc_1 S).
  Definition xofZ (z : Z) : XR := XFin (sc_ofZ S z).
  Definition xnan (a : XR) : bool := match a with XNaN => true | _ => false end.
  (* a > b ; every comparison with NaN is false *)
  Definition xgt (a b : XR) : bool :=
    match a, b with XFin x, XFin y => negb (sc_le S x y) | _, _ => false end.
  (* torch.nan_to_num(x, nan=0) on the modelled (finite or NaN) values *)
  Definition nan_to_num (a : XR) : XR := match a with XNaN => x0 | _ => a end.
  Definition xsum (l : list XR) : XR := fold_left xadd l x0.
  Definition fins (l : list R) : list XR := map XFin l.

  (* per-column statistics (Dataset.col_stats[col]) *)
  Record colstats := {
    cs_mean : XR; cs_std : XR; cs_quant : list XR;        (* MEAN, STD, QUANTILES *)
    cs_ncat : nat;                                        (* len(COUNT[0]) / len(MULTI_COUNT[0]) *)
    cs_year_min : Z;                                      (* YEAR_RANGE[0] *)
    cs_oldest : list Z; cs_newest : list Z; cs_median : list Z;
    cs_emb_dim : nat                                      (* EMB_DIM *)
  }.

  (* default used by `nth` where the index is in range by construction *)
  Definition dstats : colstats :=
    {| cs_mean := XNaN; cs_std := XNaN; cs_quant := []; cs_ncat := 0; cs_year_min := 0%Z;
       cs_oldest := []; cs_newest := []; cs_median := []; cs_emb_dim := 0 |}.

  (* ------------------------------------------- StypeEncoder.init_modules *)
  (* the chain of `if`s validating na_strategy against stype; false = ValueError *)
  Definition strategy_ok (st : stype) (na : option na_strategy) : bool :=
    match na with
    | None => true
    | Some s =>
        if stype_eqb st st_numerical && negb (na_is_numerical_strategy s) then false
        else if stype_eqb st st_categorical && negb (na_is_categorical_strategy s) then false
        else if stype_eqb st st_multicategorical && negb (na_is_multicategorical_strategy s) then false
        else if stype_eqb st st_timestamp && negb (na_is_timestamp_strategy s) then false
        else if stype_eqb st st_embedding then false
        else true
    end.

  Inductive fillv := FInt (z : Z) | FNum (x : XR) | FTime (t : list Z).

  (* the loop building fill_values: the statistic is read from stats_list[col] *)
  Definition fill_value (na : na_strategy) (cs : colstats) : fillv :=
    match na with
    | na_MOST_FREQUENT => FInt 0
    | na_MEAN => FNum (cs_mean cs)
    | na_ZEROS => FInt 0
    | na_NEWEST_TIMESTAMP => FTime (cs_newest cs)
    | na_OLDEST_TIMESTAMP => FTime (cs_oldest cs)
    | na_MEDIAN_TIMESTAMP => FTime (cs_median cs)
    end.
  Definition fill_values (na : na_strategy) (stats : list colstats) : list fillv := map (fill_value na) stats.

  Definition as_num (f : fillv) : option XR :=
    match f with FInt z => Some (xofZ z) | FNum x => Some x | FTime _ => None end.
  Definition as_idx (f : fillv) : option Z := match f with FInt z => Some z | _ => None end.
  Definition as_time (f : fillv) : option (list Z) := match f with FTime t => Some t | _ => None end.

  (* ---------------------------------------------------------- na_forward *)
  (* dense 2-D float: torch.where(isnan(feat), fill_values, feat) *)
  Definition na_forward_num (na : option na_strategy) (stats : list colstats) (feat : mat XR) : option (mat XR) :=
    match na with
    | None => Some feat
    | Some s =>
        fv <- mapM as_num (fill_values s stats) ;;
        if rect (length fv) feat
        then Some (map (fun row => zipWith (fun x f => if xnan x then f else x) row fv) feat)
        else None
    end.

  (* dense 2-D long: torch.where(feat == -1, fill_values, feat) *)
  Definition na_forward_idx (na : option na_strategy) (stats : list colstats) (feat : mat Z) : option (mat Z) :=
    match na with
    | None => Some feat
    | Some s =>
        fv <- mapM as_idx (fill_values s stats) ;;
        if rect (length fv) feat
        then Some (map (fun row => zipWith (fun x f => if (x =? -1)%Z then f else x) row fv) feat)
        else None
    end.

  (* dense 3-D (timestamp): per column, rows with any component == -1 get the fill cell *)
  Definition na_forward_time (na : option na_strategy) (stats : list colstats) (feat : mat (list Z))
    : option (mat (list Z)) :=
    match na with
    | None => Some feat
    | Some s =>
        fv <- mapM as_time (fill_values s stats) ;;
        if rect (length fv) feat
        then Some (map (fun row => zipWith (fun cell f => if existsb (fun z => (z =? -1)%Z) cell then f else cell)
                                          row fv) feat)
        else None
    end.

  (* ragged (multicategorical): fillna_col(col, fill) replaces every -1 of the column *)
  Definition na_forward_bag (na : option na_strategy) (stats : list colstats) (feat : mat (list Z))
    : option (mat (list Z)) :=
    match na with
    | None => Some feat
    | Some s =>
        fv <- mapM as_idx (fill_values s stats) ;;
        if rect (length fv) feat
        then Some (map (fun row => zipWith (fun cell f => map (fun z => if (z =? -1)%Z then f else z) cell)
                                          row fv) feat)
        else None
    end.

  (* ---------------------------------------------- shared encode_forward parts *)
  Definition means (stats : list colstats) : list XR := map cs_mean stats.
  Definition stds (stats : list colstats) : list XR :=
    map (fun cs => xadd (cs_std cs) (XFin (sc_eps6 S))) stats.               (* STD + 1e-6 *)

  (* feat = (feat - self.mean) / self.std      [B, C] with [C] broadcast over rows *)
  Definition normalize (stats : list colstats) (feat : mat XR) : mat XR :=
    map (fun row => zipWith xdiv (zipWith xsub row (means stats)) (stds stats)) feat.

  (* x + bias   [B, C, ch] + [C, ch] *)
  Definition add_bias (x : list (mat XR)) (b : mat R) : list (mat XR) :=
    map (fun row => zipWith (fun v brow => zipWith xadd v (fins brow)) row b) x.

  (* vec @ W for W : [k, ch]   (sum over k) *)
  Definition vecmat (ch : nat) (vec : list XR) (w : mat R) : list XR :=
    map (fun l => xsum (zipWith (fun v wrow => xmul v (XFin (nth l wrow (sc_0 S)))) vec w)) (seq 0 ch).

  (* einsum('ijk,jkl->ijl', x, W) *)
  Definition einsum_ijk_jkl (ch : nat) (x : list (mat XR)) (w : list (mat R)) : list (mat XR) :=
    map (fun row => zipWith (vecmat ch) row w) x.

  (* ---------------------------------------------------------- LinearEncoder *)
  Definition encode_linear (stats : list colstats) (w b : mat R) (feat : mat XR) : option (list (mat XR)) :=
    if rect (length stats) feat then
      let f := normalize stats feat in
      (* einsum('ij,jk->ijk', feat, weight) *)
      let x_lin := map (fun row => zipWith (fun x wrow => map (fun wv => xmul x (XFin wv)) wrow) row w) f in
      Some (add_bias x_lin b)
    else None.

  (* ----------------------------------------------------------- StackEncoder *)
  Definition encode_stack (stats : list colstats) (ch : nat) (feat : mat XR) : option (list (mat XR)) :=
    if rect (length stats) feat then
      (* feat.unsqueeze(2).repeat(1, 1, out_channels) *)
      Some (map (fun row => map (fun x => repeat x ch) row) (normalize stats feat))
    else None.

  (* ------------------------------------------------------ ExcelFormerEncoder *)
  (* W[None] * feat[:, :, None] + b[None] *)
  Definition affine_bc (w b : mat R) (f : mat XR) : list (mat XR) :=
    map (fun row => zipWith (fun x wb => zipWith (fun wv bv => xadd (xmul (XFin wv) x) (XFin bv)) (fst wb) (snd wb))
                            row (combine w b)) f.
  Definition encode_excel (stats : list colstats) (w1 b1 w2 b2 : mat R) (feat : mat XR)
    : option (list (mat XR)) :=
    if rect (length stats) feat then
      let f := normalize stats feat in
      let t1 := affine_bc w1 b1 f in
      let t2 := affine_bc w2 b2 f in
      (* torch.tanh(x1) * x2 *)
      Some (zipWith (zipWith (zipWith (fun a c => xmul (xl1 (sc_tanh S) a) c))) t1 t2)
    else None.

  (* -------------------------------------------------- LinearPeriodicEncoder *)
  Definition encode_periodic (stats : list colstats) (ch : nat) (lin_in : mat R) (lin_out : list (mat R))
             (feat : mat XR) : option (list (mat XR)) :=
    if rect (length stats) feat then
      let f := normalize stats feat in
      (* v = 2 * pi * linear_in[None] * feat[..., None] *)
      let two_pi := sc_mul S (sc_ofZ S 2) (sc_pi S) in
      let v := map (fun row => zipWith (fun x lrow => map (fun lv => xmul (XFin (sc_mul S two_pi lv)) x) lrow)
                                       row lin_in) f in
      (* cat([sin(v), cos(v)], dim=-1) *)
      let sc := map (map (fun vs => map (xl1 (sc_sin S)) vs ++ map (xl1 (sc_cos S)) vs)) v in
      Some (einsum_ijk_jkl ch sc lin_out)
    else None.

  (* ---------------------------------------------------- LinearBucketEncoder *)
  (* torch.bucketize(x, inner): number of boundaries b with b < x; NaN sorts last *)
  Definition bucketize (x : XR) (inner : list XR) : nat :=
    match x with
    | XNaN => length inner
    | _ => length (filter (fun b => xgt x b) inner)
    end.

  (* one entry of column i: the row of `greater_mask` after the index-put of frac *)
  Definition bucket_cell (q : list XR) (x : XR) : list XR :=
    let inner := removelast (tl q) in                                  (* boundaries[i, 1:-1] *)
    let idx := bucketize x inner in
    let b_start := nth idx q XNaN in                                   (* boundaries[i, idx]     (in range) *)
    let b_end := nth (Datatypes.S idx) q XNaN in                       (* boundaries[i, idx + 1] (in range) *)
    let frac := xdiv (xsub x b_start) (xadd (xsub b_end b_start) (XFin (sc_eps8 S))) in
    let greater := map (fun b => if xgt x b then x1 else x0) (removelast q) in   (* (x > boundaries[i, :-1]).float() *)
    set_nth greater idx frac.

  Definition encode_bucket (stats : list colstats) (ch : nat) (w : list (mat R)) (b : mat R) (feat : mat XR)
    : option (list (mat XR)) :=
    let c := length stats in
    if rect c feat then
      (* for i in range(feat.size(1)): feat_i = feat[:, i]; ... encoded_values.append(greater_mask) *)
      let encoded := map (fun i => map (fun row => bucket_cell (cs_quant (nth i stats dstats)) (nth i row XNaN))
                                       feat) (seq 0 c) in
      (* out = torch.stack(encoded_values, dim=1) *)
      out <- stack1 (length feat) encoded ;;
      Some (add_bias (einsum_ijk_jkl ch out w) b)
    else None.

  (* -------------------------------------------------------- EmbeddingEncoder *)
  Definition emb_num_categories_list (stats : list colstats) : list nat := 0 :: map cs_ncat stats.
  (* Embedding(sum(num_categories_list) + 1, out_channels, padding_idx=0) *)
  Definition emb_table_size (stats : list colstats) : nat := sum (emb_num_categories_list stats) + 1.
  (* offset = cumsum(num_categories_list[:-1]) *)
  Definition emb_offset (stats : list colstats) : list nat := cumsum (removelast (emb_num_categories_list stats)).
  (* feat + offset + 1, then feat[na_mask] = 0 *)
  Definition emb_index (x : Z) (off : nat) : Z := if (x <? 0)%Z then 0%Z else (x + Z.of_nat off + 1)%Z.
  (* F.embedding: IndexError outside [0, rows) *)
  Definition embedding_lookup (table : mat R) (i : Z) : option (list XR) :=
    if (i <? 0)%Z then None else option_map fins (nth_error table (Z.to_nat i)).

  Definition encode_embedding (stats : list colstats) (table : mat R) (feat : mat Z) : option (list (mat XR)) :=
    let off := emb_offset stats in
    if rect (length off) feat then
      mapM (fun row => mapM (fun p => embedding_lookup table (emb_index (fst p) (snd p))) (combine row off)) feat
    else None.

  (* ------------------------------------ MultiCategoricalEmbeddingEncoder *)
  Inductive bag_mode := BagSum | BagMean | BagMax.

  Definition vadd (a b : list XR) : list XR := zipWith xadd a b.
  Definition vmax (a b : list XR) : list XR := zipWith xmax a b.

  (* torch.nn.EmbeddingBag(n, ch, padding_idx=0, mode) on one bag of already shifted indices:
     entries equal to padding_idx do not take part; an empty reduction gives zeros *)
  Definition embedding_bag (mode : bag_mode) (ch : nat) (table : mat R) (bag : list Z) : option (list XR) :=
    rows <- mapM (embedding_lookup table) (filter (fun i => negb (i =? 0)%Z) bag) ;;
    match rows with
    | [] => Some (repeat x0 ch)
    | r0 :: rest =>
        match mode with
        | BagSum => Some (fold_left vadd rest r0)
        | BagMean => Some (map (fun v => xdiv v (xofZ (Z.of_nat (length rows)))) (fold_left vadd rest r0))
        | BagMax => Some (fold_left vmax rest r0)
        end
    end.

  (* init_modules: EmbeddingBag(max(num_categories, 1) + 1, out_channels, padding_idx=0): a column
     without any category still gets one row, so that the index ZEROS imputes stays inside *)
  Definition bag_table_rows (ncat : nat) : nat := Nat.max ncat 1 + 1.

  Definition encode_bags (mode : bag_mode) (ch : nat) (tables : list (mat R)) (feat : mat (list Z))
    : option (list (mat XR)) :=
    let c := length tables in
    if rect c feat then
      (* for i, emb in enumerate(self.embs): col_feat = feat[:, i]; emb(col_feat.values + 1, offsets) *)
      xs <- mapM (fun i => mapM (fun row => embedding_bag mode ch (nth i tables [])
                                                        (map (fun z => (z + 1)%Z) (nth i row [])))
                               feat) (seq 0 c) ;;
      (* torch.stack(xs, dim=1) *)
      stack1 (length feat) xs
    else None.

  (* -------------------------------------------------- LinearEmbeddingEncoder *)
  (* the start_idx / end_idx walk over emb_dim_list *)
  Fixpoint emb_walk (start : nat) (dims : list nat) : list (nat * nat) :=
    match dims with
    | [] => []
    | d :: r => (start, start + d) :: emb_walk (start + d) r
    end.

  Definition encode_linemb (stats : list colstats) (ch : nat) (ws : list (mat R)) (b : mat R) (values : mat XR)
    : option (list (mat XR)) :=
    let dims := map cs_emb_dim stats in
    if rect (sum dims) values then
      (* x_lin = feat.values[:, start_idx:end_idx] @ self.weight_list[idx] *)
      let x_lins := map (fun p => map (fun row => vecmat ch (tslice row (fst (fst p)) (snd (fst p))) (snd p)) values)
                        (combine (emb_walk 0 dims) ws) in
      x <- stack1 (length values) x_lins ;;
      Some (add_bias x b)
    else None.

  (* the cells of a MultiEmbeddingTensor whose column widths are dims *)
  Definition emb_cells (dims : list nat) (values : mat XR) : mat (list XR) :=
    map (fun row => map (fun p => tslice row (fst p) (snd p)) (emb_walk 0 dims)) values.

  (* -------------------------------------------------------- TimestampEncoder *)
  (* PositionalEncoding.forward: assert all(input >= 0) *)
  Definition positional_ok (year_offsets : mat Z) : bool :=
    forallb (forallb (fun y => (0 <=? y)%Z)) year_offsets.
  (* CyclicEncoding.forward: assert all(0 <= input <= 1), input = component / constant (constant > 0) *)
  Definition unit_ok (comp const : Z) : bool := (0 <? const)%Z && (0 <=? comp)%Z && (comp <=? const)%Z.
  Definition cyclic_ok (rest : mat (list Z)) (consts : list Z) : bool :=
    forallb (forallb (fun cell => (length cell =? length consts) &&
                                  forallb (fun p => unit_ok (fst p) (snd p)) (combine cell consts))) rest.

  Definition positional (mult : list R) (y : XR) : list XR :=
    let m := map (fun t => xmul y (XFin t)) mult in
    map (xl1 (sc_sin S)) m ++ map (xl1 (sc_cos S)) m.
  Definition cyclic (half : nat) (v : XR) : list XR :=
    let m := map (fun k => xmul v (xofZ (Z.of_nat k))) (seq 1 half) in
    map (fun t => xl1 (sc_sin S) (xmul t (XFin (sc_pi S)))) m ++
    map (fun t => xl1 (sc_cos S) (xmul (xmul t (xofZ 2)) (XFin (sc_pi S)))) m.

  (* einsum('ijkl,jklm->ijm') for one (i, j): sum over k, l *)
  Definition contract_kl (ch : nat) (x : mat XR) (w : list (mat R)) : list XR :=
    map (fun m => xsum (zipWith (fun xrow wk => xsum (zipWith (fun xv wrow => xmul xv (XFin (nth m wrow (sc_0 S))))
                                                             xrow wk)) x w)) (seq 0 ch).

  Definition encode_timestamp (stats : list colstats) (ch half : nat) (pe_mult : list R)
             (w : list (list (mat R))) (b : mat R) (consts : list Z) (feat : mat (list Z))
    : option (list (mat XR)) :=
    if rect (length stats) feat then
      let min_year := map cs_year_min stats in
      (* feat_year = feat[..., :1] - min_year.view(1, -1, 1) *)
      let feat_year := map (fun row => zipWith (fun cell my => (hd 0%Z cell - my)%Z) row min_year) feat in
      (* feat_rest = feat[..., 1:] / max_values.view(1, 1, -1) *)
      let rest := map (map (@tl Z)) feat in
      if forallb (forallb (fun cell => negb (length cell =? 0))) feat
         && positional_ok feat_year && cyclic_ok rest consts then
        let x := zipWith (zipWith (fun y cell =>
                            positional pe_mult (xofZ y)
                            :: map (fun p => cyclic half (xdiv (xofZ (fst p)) (xofZ (snd p)))) (combine cell consts)))
                         feat_year rest in
        let x_lin := map (fun row => zipWith (contract_kl ch) row w) x in
        Some (add_bias x_lin b)
      else None
    else None.

  (* --------------------------------------------- StypeEncoder.forward pipeline *)
  (* x = nan_to_num(x); return post_forward(x): post is an arbitrary per-cell map *)
  Definition finish (post : list XR -> list XR) (x : list (mat XR)) : list (mat XR) :=
    map (map (fun v => post (map nan_to_num v))) x.

  (* col_names given: number of columns must match *)
  Definition check_cols {A} (ncols : option nat) (feat : mat A) : bool :=
    match ncols with None => true | Some n => rect n feat end.
End Enc.

Arguments cs_mean {S}. Arguments cs_std {S}. Arguments cs_quant {S}. Arguments cs_ncat {S}.
Arguments cs_year_min {S}. Arguments cs_oldest {S}. Arguments cs_newest {S}. Arguments cs_median {S}.
Arguments cs_emb_dim {S}.

(* --------------------------------------------------------------------------
   One inductive of configured encoders (what init_modules leaves behind) and
   the forward function of each. *)
Section Forward.
  Variable S : Scalar.
  Notation R := (car S).
  Notation XR := (X (car S)).

  Inductive input :=
  | InNum (m : mat XR)                  (* numerical: [B, C] floats *)
  | InIdx (m : mat Z)                   (* categorical: [B, C] indices, -1 missing *)
  | InBag (m : mat (list Z))            (* multicategorical cells, [-1] missing *)
  | InTime (m : mat (list Z))           (* timestamp: [B, C, 7] *)
  | InEmb (m : mat XR).                 (* embedding: values [B, sum dims] *)

  Inductive encoder :=
  | ELinear (w b : mat R)
  | EStack
  | EExcel (w1 b1 w2 b2 : mat R)
  | EPeriodic (lin_in : mat R) (lin_out : list (mat R))
  | EBucket (w : list (mat R)) (b : mat R)
  | EEmbedding (table : mat R)
  | EBags (mode : bag_mode) (tables : list (mat R))
  | ELinEmb (ws : list (mat R)) (b : mat R)
  | ETimestamp (half : nat) (pe_mult : list R) (w : list (list (mat R))) (b : mat R).

  Definition encoder_stype (e : encoder) : stype :=
    match e with
    | ELinear _ _ | EStack | EExcel _ _ _ _ | EPeriodic _ _ | EBucket _ _ => st_numerical
    | EEmbedding _ => st_categorical
    | EBags _ _ => st_multicategorical
    | ELinEmb _ _ => st_embedding
    | ETimestamp _ _ _ _ => st_timestamp
    end.

  Record config := {
    cf_enc : encoder;
    cf_stats : list (colstats S);
    cf_channels : nat;
    cf_na : option na_strategy;
    cf_post : list XR -> list XR
  }.

  (* construction: init_modules raises for an inadmissible strategy *)
  Definition construct_ok (c : config) : bool := strategy_ok (encoder_stype (cf_enc c)) (cf_na c).

  (* encode_forward after na_forward; None = an exception *)
  Definition encode (c : config) (x : input) : option (list (mat XR)) :=
    let st := cf_stats c in
    let ch := cf_channels c in
    match cf_enc c, x with
    | ELinear w b, InNum m => f <- na_forward_num S (cf_na c) st m ;; encode_linear S st w b f
    | EStack, InNum m => f <- na_forward_num S (cf_na c) st m ;; encode_stack S st ch f
    | EExcel w1 b1 w2 b2, InNum m => f <- na_forward_num S (cf_na c) st m ;; encode_excel S st w1 b1 w2 b2 f
    | EPeriodic li lo, InNum m => f <- na_forward_num S (cf_na c) st m ;; encode_periodic S st ch li lo f
    | EBucket w b, InNum m => f <- na_forward_num S (cf_na c) st m ;; encode_bucket S st ch w b f
    | EEmbedding t, InIdx m => f <- na_forward_idx S (cf_na c) st m ;; encode_embedding S st t f
    | EBags mode ts, InBag m => f <- na_forward_bag S (cf_na c) st m ;; encode_bags S mode ch ts f
    | ELinEmb ws b, InEmb m => encode_linemb S st ch ws b m   (* only na_strategy None passes construction *)
    | ETimestamp half pm w b, InTime m =>
        f <- na_forward_time S (cf_na c) st m ;; encode_timestamp S st ch half pm w b cyclic_norm_constants f
    | _, _ => None
    end.

  (* the value entering the post-module *)
  Definition pre_post (c : config) (x : input) : option (list (mat XR)) :=
    if construct_ok c then option_map (finish S (fun v => v)) (encode c x) else None.

  Definition forward (c : config) (x : input) : option (list (mat XR)) :=
    if construct_ok c then option_map (finish S (cf_post c)) (encode c x) else None.
End Forward.


(* --------------------------------------------------------------------------
   The per-cell reading of the pipeline (used in the statements of C13): what
   na_forward, encode_forward, nan_to_num and the post-module do to ONE cell of
   column j, reading only column j's statistics and column j's parameters. *)
Section Cells.
  Variable S : Scalar.
  Notation R := (car S).
  Notation XR := (X (car S)).

  Inductive cellv :=
  | CNum (x : XR) | CIdx (z : Z) | CBag (l : list Z) | CTime (l : list Z) | CEmb (v : list XR).

  Definition cells (stats : list (colstats S)) (x : input S) : mat cellv :=
    match x with
    | InNum _ m => map (map CNum) m
    | InIdx _ m => map (map CIdx) m
    | InBag _ m => map (map CBag) m
    | InTime _ m => map (map CTime) m
    | InEmb _ m => map (map CEmb) (emb_cells S (map cs_emb_dim stats) m)
    end.

  (* replacement values, total versions (exact whenever the strategy passed construction) *)
  Definition num_fill (s : na_strategy) (cs : colstats S) : XR :=
    match fill_value S s cs with FInt _ z => xofZ S z | FNum _ x => x | FTime _ _ => XNaN end.
  Definition idx_fill (s : na_strategy) (cs : colstats S) : Z :=
    match fill_value S s cs with FInt _ z => z | _ => 0%Z end.
  Definition time_fill (s : na_strategy) (cs : colstats S) : list Z :=
    match fill_value S s cs with FTime _ t => t | _ => [] end.

  (* na_forward on one cell: the replacement is taken from THAT column's statistics *)
  Definition na_cell (na : option na_strategy) (cs : colstats S) (v : cellv) : cellv :=
    match na with
    | None => v
    | Some s =>
        match v with
        | CNum x => CNum (if xnan S x then num_fill s cs else x)
        | CIdx z => CIdx (if (z =? -1)%Z then idx_fill s cs else z)
        | CBag l => CBag (map (fun z => if (z =? -1)%Z then idx_fill s cs else z) l)
        | CTime l => CTime (if existsb (fun z => (z =? -1)%Z) l then time_fill s cs else l)
        | CEmb v => CEmb v
        end
    end.

  Definition norm_cell (cs : colstats S) (x : XR) : XR :=
    xdiv S (xsub S x (cs_mean cs)) (xadd S (cs_std cs) (XFin (sc_eps6 S))).

  Definition affine_cell (w b : list R) (f : XR) : list XR :=
    zipWith (fun wv bv => xadd S (xmul S (XFin wv) f) (XFin bv)) w b.

  Definition time_cell (cs : colstats S) (ch half : nat) (pm : list R) (wj : list (mat R)) (bj : list R)
             (consts : list Z) (cell : list Z) : option (list XR) :=
    match cell with
    | [] => None
    | y :: rest =>
        let yo := (y - cs_year_min cs)%Z in
        if (0 <=? yo)%Z && ((length rest =? length consts)
                            && forallb (fun p => unit_ok (fst p) (snd p)) (combine rest consts))
        then Some (zipWith (xadd S)
                     (contract_kl S ch (positional S pm (xofZ S yo)
                                        :: map (fun p => cyclic S half (xdiv S (xofZ S (fst p)) (xofZ S (snd p))))
                                               (combine rest consts)) wj)
                     (fins S bj))
        else None
    end.

  (* encode_forward on one cell of column j *)
  Definition enc_cell (e : encoder S) (stats : list (colstats S)) (ch : nat) (j : nat) (v : cellv)
    : option (list XR) :=
    let cs := nth j stats (dstats S) in
    match e, v with
    | ELinear _ w b, CNum x =>
        Some (zipWith (xadd S) (map (fun wv => xmul S (norm_cell cs x) (XFin wv)) (nth j w [])) (fins S (nth j b [])))
    | EStack _, CNum x => Some (repeat (norm_cell cs x) ch)
    | EExcel _ w1 b1 w2 b2, CNum x =>
        let f := norm_cell cs x in
        Some (zipWith (fun a c => xmul S (xl1 S (sc_tanh S) a) c)
                      (affine_cell (nth j w1 []) (nth j b1 []) f) (affine_cell (nth j w2 []) (nth j b2 []) f))
    | EPeriodic _ li lo, CNum x =>
        let two_pi := sc_mul S (sc_ofZ S 2) (sc_pi S) in
        let vs := map (fun lv => xmul S (XFin (sc_mul S two_pi lv)) (norm_cell cs x)) (nth j li []) in
        Some (vecmat S ch (map (xl1 S (sc_sin S)) vs ++ map (xl1 S (sc_cos S)) vs) (nth j lo []))
    | EBucket _ w b, CNum x =>
        Some (zipWith (xadd S) (vecmat S ch (bucket_cell S (cs_quant cs) x) (nth j w [])) (fins S (nth j b [])))
    | EEmbedding _ t, CIdx z => embedding_lookup S t (emb_index z (nth j (emb_offset S stats) 0))
    | EBags _ mode ts, CBag l => embedding_bag S mode ch (nth j ts []) (map (fun z => (z + 1)%Z) l)
    | ELinEmb _ ws b, CEmb v => Some (zipWith (xadd S) (vecmat S ch v (nth j ws [])) (fins S (nth j b [])))
    | ETimestamp _ half pm w b, CTime l =>
        time_cell cs ch half pm (nth j w []) (nth j b []) cyclic_norm_constants l
    | _, _ => None
    end.

  (* the whole pipeline on one cell; `post` is the post-module *)
  Definition cell_fn (c : config S) (post : list XR -> list XR) (j : nat) (v : cellv) : option (list XR) :=
    option_map (fun o => post (map (nan_to_num S) o))
               (enc_cell (cf_enc S c) (cf_stats S c) (cf_channels S c) j
                         (na_cell (cf_na S c) (nth j (cf_stats S c) (dstats S)) v)).

  Definition ncols (c : config S) : nat := length (cf_stats S c).

  (* parameter shapes as init_modules creates them: one block per column *)
  Definition wf_config (c : config S) : Prop :=
    let n := ncols c in
    match cf_enc S c with
    | ELinear _ w b => length w = n /\ length b = n
    | EStack _ => True
    | EExcel _ w1 b1 w2 b2 => length w1 = n /\ length b1 = n /\ length w2 = n /\ length b2 = n
    | EPeriodic _ li lo => length li = n /\ length lo = n
    | EBucket _ w b => length w = n /\ length b = n
    | EEmbedding _ _ => True
    | EBags _ _ ts => length ts = n
    | ELinEmb _ ws b => length ws = n /\ length b = n
    | ETimestamp _ _ _ w b => length w = n /\ length b = n
    end.

  (* the input is of the encoder's stype; an embedding container is as wide as EMB_DIM says *)
  Definition input_ok (c : config S) (x : input S) : Prop :=
    match cf_enc S c, x with
    | ELinear _ _ _, InNum _ _ | EStack _, InNum _ _ | EExcel _ _ _ _ _, InNum _ _
    | EPeriodic _ _ _, InNum _ _ | EBucket _ _ _, InNum _ _ => True
    | EEmbedding _ _, InIdx _ _ => True
    | EBags _ _ _, InBag _ _ => True
    | ETimestamp _ _ _ _ _, InTime _ _ => True
    | ELinEmb _ _ _, InEmb _ m => rect (sum (map cs_emb_dim (cf_stats S c))) m = true
    | _, _ => False
    end.

  (* PARAMETER LOCALITY: two encoders agree on column j's parameter block.  For the per-column
     parameter tensors ([C, ...] tensors, ParameterList / ModuleList entries) the block is entry j;
     for EmbeddingEncoder's shared table it is the padding row and the rows the column's
     categories address, offset(j) + 1 .. offset(j) + ncat(j). *)
  Definition enc_agree_at (stats : list (colstats S)) (j : nat) (e e' : encoder S) : Prop :=
    match e, e' with
    | ELinear _ w b, ELinear _ w' b' => nth j w [] = nth j w' [] /\ nth j b [] = nth j b' []
    | EStack _, EStack _ => True
    | EExcel _ w1 b1 w2 b2, EExcel _ w1' b1' w2' b2' =>
        nth j w1 [] = nth j w1' [] /\ nth j b1 [] = nth j b1' [] /\ nth j w2 [] = nth j w2' [] /\ nth j b2 [] = nth j b2' []
    | EPeriodic _ li lo, EPeriodic _ li' lo' => nth j li [] = nth j li' [] /\ nth j lo [] = nth j lo' []
    | EBucket _ w b, EBucket _ w' b' => nth j w [] = nth j w' [] /\ nth j b [] = nth j b' []
    | EEmbedding _ t, EEmbedding _ t' =>
        nth_error t 0 = nth_error t' 0 /\
        forall x, (0 <= x < Z.of_nat (cs_ncat (nth j stats (dstats S))))%Z ->
                  nth_error t (Z.to_nat (emb_index x (nth j (emb_offset S stats) 0)))
                  = nth_error t' (Z.to_nat (emb_index x (nth j (emb_offset S stats) 0)))
    | EBags _ m ts, EBags _ m' ts' => m = m' /\ nth j ts [] = nth j ts' []
    | ELinEmb _ ws b, ELinEmb _ ws' b' => nth j ws [] = nth j ws' [] /\ nth j b [] = nth j b' []
    | ETimestamp _ h pm w b, ETimestamp _ h' pm' w' b' =>
        h = h' /\ pm = pm' /\ nth j w [] = nth j w' [] /\ nth j b [] = nth j b' []
    | _, _ => False
    end.

  (* the cell (after na_forward) addresses the column's own block: a categorical index is -1 or a
     category of the column *)
  Definition cell_in_block (stats : list (colstats S)) (j : nat) (v : cellv) : Prop :=
    match v with
    | CIdx z => (-1 <= z < Z.of_nat (cs_ncat (nth j stats (dstats S))))%Z
    | _ => True
    end.

  (* the configuration with the NA strategy removed *)
  Definition set_na_none (c : config S) : config S :=
    {| cf_enc := cf_enc S c; cf_stats := cf_stats S c; cf_channels := cf_channels S c; cf_na := None;
       cf_post := cf_post S c |}.

  (* every missing cell replaced by the strategy's value for ITS column *)
  Definition impute_cells (c : config S) (m : mat cellv) : mat cellv :=
    map (fun row => map (fun p => na_cell (cf_na S c) (nth (fst p) (cf_stats S c) (dstats S)) (snd p))
                        (combine (seq 0 (ncols c)) row)) m.

  (* widths of column j's parameter block (out_channels etc.), as init_modules allocates them,
     and the cell being of the encoder's kind *)
  Definition cell_shape_ok (c : config S) (j : nat) (v : cellv) : Prop :=
    let ch := cf_channels S c in
    let cs := nth j (cf_stats S c) (dstats S) in
    match cf_enc S c, v with
    | ELinear _ w b, CNum _ => length (nth j w []) = ch /\ length (nth j b []) = ch
    | EStack _, CNum _ => True
    | EExcel _ w1 b1 w2 b2, CNum _ =>
        length (nth j w1 []) = ch /\ length (nth j b1 []) = ch /\ length (nth j w2 []) = ch /\ length (nth j b2 []) = ch
    | EPeriodic _ _ _, CNum _ => True
    | EBucket _ w b, CNum _ =>
        2 <= length (cs_quant cs) /\ length (nth j w []) = length (cs_quant cs) - 1 /\ length (nth j b []) = ch
    | EEmbedding _ t, CIdx _ => nth_error t 0 = Some (repeat (sc_0 S) ch)       (* torch keeps the padding row zero *)
    | EBags _ _ _, CBag _ => True
    | ELinEmb _ ws b, CEmb x => length (nth j ws []) = length x /\ length (nth j b []) = ch
    | _, _ => False
    end.

  (* out_channels: every parameter block that carries the channel axis is `cf_channels` wide
     (init_modules allocates them so) *)
  Definition channels_ok (c : config S) : Prop :=
    let wide := fun (r : list R) => length r = cf_channels S c in
    match cf_enc S c with
    | ELinear _ w b => Forall wide w /\ Forall wide b
    | EStack _ => True
    | EExcel _ w1 b1 w2 b2 => Forall wide w1 /\ Forall wide b1 /\ Forall wide w2 /\ Forall wide b2
    | EPeriodic _ _ _ => True
    | EBucket _ _ b => Forall wide b
    | EEmbedding _ t => Forall wide t
    | EBags _ _ ts => Forall (Forall wide) ts
    | ELinEmb _ _ b => Forall wide b
    | ETimestamp _ _ _ _ b => Forall wide b
    end.

  (* batch size of an encoder input *)
  Definition input_rows (x : input S) : nat :=
    match x with
    | InNum _ m => length m | InIdx _ m => length m | InBag _ m => length m
    | InTime _ m => length m | InEmb _ m => length m
    end.

  (* a tensor of shape [b, n, ch] *)
  Definition shape_is {A} (b n ch : nat) (o : list (mat A)) : Prop :=
    length o = b /\ Forall (fun row => length row = n /\ Forall (fun v => length v = ch) row) o.
  Definition shape_isb {A} (b n ch : nat) (o : list (mat A)) : bool :=
    (length o =? b) && forallb (fun row => (length row =? n) && forallb (fun v => length v =? ch) row) o.

  Definition select_rows (x : input S) (idx : list nat) : option (input S) :=
    match x with
    | InNum _ m => option_map (InNum S) (tgather m idx)
    | InIdx _ m => option_map (InIdx S) (tgather m idx)
    | InBag _ m => option_map (InBag S) (tgather m idx)
    | InTime _ m => option_map (InTime S) (tgather m idx)
    | InEmb _ m => option_map (InEmb S) (tgather m idx)
    end.

  (* a cell the mappers mark as missing *)
  Definition missing_cell (v : cellv) : bool :=
    match v with
    | CNum x => xnan S x
    | CIdx z => (z =? -1)%Z
    | CBag l => match l with [z] => (z =? -1)%Z | _ => false end
    | CTime l => existsb (fun z => (z =? -1)%Z) l
    | CEmb v => existsb (xnan S) v
    end.
End Cells.

(* --------------------------------------------------------------------------
   The C12 domain contract, as executable checks on what the mappers emitted. *)
(* every categorical index is -1 or below the column's number of categories *)
Definition cat_in_domain (ncats : list nat) (feat : mat Z) : bool :=
  rect (length ncats) feat &&
  forallb (fun row => forallb (fun p => (-1 <=? fst p)%Z && (fst p <? Z.of_nat (snd p))%Z) (combine row ncats)) feat.
Definition bag_in_domain (ncats : list nat) (feat : mat (list Z)) : bool :=
  rect (length ncats) feat &&
  forallb (fun row => forallb (fun p => forallb (fun z => (-1 <=? z)%Z && (z <? Z.of_nat (snd p))%Z) (fst p))
                              (combine row ncats)) feat.
(* year - min_year >= 0 and every cyclic component / constant in [0, 1] *)
Definition time_cell_in_domain (min_year : Z) (cell : list Z) : bool :=
  match cell with
  | y :: rest => (min_year <=? y)%Z && (length rest =? length cyclic_norm_constants)
                 && forallb (fun p => unit_ok (fst p) (snd p)) (combine rest cyclic_norm_constants)
  | [] => false
  end.
Definition time_in_domain (min_years : list Z) (feat : mat (list Z)) : bool :=
  rect (length min_years) feat &&
  forallb (fun row => forallb (fun p => time_cell_in_domain (snd p) (fst p)) (combine row min_years)) feat.
(* YEAR_RANGE of stats.py: [min(years), max(years)] *)
Definition year_range (ys : list Z) : option (Z * Z) :=
  match ys with
  | [] => None
  | y :: r => Some (fold_left Z.min r y, fold_left Z.max r y)
  end.
(* the documented ranges of the calendar components the mapper emits (month-1, day-1, weekday, h, m, s) *)
Definition calendar_bounds : list (String.string * Z) :=
  [("MONTH"%string, 11%Z); ("DAY"%string, 30%Z); ("DAYOFWEEK"%string, 6%Z); ("HOUR"%string, 23%Z);
   ("MINUTE"%string, 59%Z); ("SECOND"%string, 59%Z)].
Fixpoint assoc_str {B} (d : list (String.string * B)) (k : String.string) : option B :=
  match d with
  | [] => None
  | (k', b) :: r => if String.eqb k k' then Some b else assoc_str r k
  end.
(* what TimestampTensorMapper.to_tensor emits for a parsed instant of s epoch seconds
   (pandas' .dt fields are modelled by Lib/Calendar.v): year, month-1, day-1, weekday, h, m, s *)
Definition calendar_cell (s : Z) : list Z :=
  let d := days_of_secs s in
  [year_of_days d; (month_of_days d - 1)%Z; (day_of_days d - 1)%Z; weekday_of_days d;
   hour_of_secs s; minute_of_secs s; second_of_secs s].
(* normalisation constant that the encoder applies to the component called `name`:
   feat[..., 1:] / max_values pairs component index i with constant i - 1 *)
Definition norm_constant_of (name : String.string) : option Z :=
  match assoc_str time_to_index name with
  | Some (Datatypes.S i) => nth_error cyclic_norm_constants i
  | _ => None
  end.

(* --------------------------------------------------------------------------
   Executable instance for the correspondence: exact rationals, with arbitrary
   injective-looking stand-ins for the uninterpreted functions (footprints and
   NaN patterns do not depend on them). *)
Definition QS : Scalar := {|
  car := Q;
  sc_0 := 0%Q; sc_1 := 1%Q;
  sc_add := fun a b => Qred (a + b)%Q; sc_sub := fun a b => Qred (a - b)%Q;
  sc_mul := fun a b => Qred (a * b)%Q; sc_div := fun a b => Qred (a / b)%Q;
  sc_max := fun a b => if Qle_bool a b then b else a;
  sc_le := Qle_bool;
  sc_sin := fun a => Qred (a * (3 # 7) + (1 # 5))%Q;
  sc_cos := fun a => Qred (a * (5 # 11) - (2 # 3))%Q;
  sc_tanh := fun a => Qred (a * (7 # 13) + (1 # 9))%Q;
  sc_ofZ := inject_Z;
  sc_eps6 := (1 # 1000000)%Q; sc_eps8 := (1 # 100000000)%Q; sc_pi := (22 # 7)%Q
|}.

(* generic model-side parameters: pairwise distinct non-zero rationals *)
Definition gq (a b c d : nat) : Q :=
  Qred ((Z.of_nat (1 + 7 * a + 13 * b + 29 * c + 53 * d)) # (Pos.of_nat (3 + a + 2 * b + 5 * c + 11 * d))).
Definition gvec (a b c n : nat) : list Q := map (fun d => gq a b c d) (seq 0 n).
Definition gmat (a b r n : nat) : mat Q := map (fun c => gvec a b c n) (seq 0 r).
(* embedding table: row 0 is the padding row (zeros) *)
Definition gtable (a rows ch : nat) : mat Q :=
  map (fun r => if r =? 0 then repeat 0%Q ch else gvec a 1 r ch) (seq 0 rows).

Definition qzero_vec (v : list (X Q)) : bool :=
  forallb (fun x => match x with XFin q => Qeq_bool q 0 | XNaN => false end) v.
Definition xq_eqb (a b : X Q) : bool :=
  match a, b with XFin p, XFin q => Qeq_bool p q | XNaN, XNaN => true | _, _ => false end.
Fixpoint list_eqb {A} (eqb : A -> A -> bool) (a b : list A) : bool :=
  match a, b with
  | [], [] => true
  | x :: r, y :: s => eqb x y && list_eqb eqb r s
  | _, _ => false
  end.
Definition out_eqb (a b : list (mat (X Q))) : bool := list_eqb (list_eqb (list_eqb xq_eqb)) a b.

(* the list of cells (r, c) at which two outputs of the same shape differ *)
Definition diff_cells (a b : list (mat (X Q))) : list (nat * nat) :=
  concat (mapi (fun r p => concat (mapi (fun c q => if list_eqb xq_eqb (fst q) (snd q) then [] else [(r, c)])
                                       (combine (fst p) (snd p)))) (combine a b)).
Definition pair_in (p : nat * nat) (l : list (nat * nat)) : bool :=
  existsb (fun q => (fst p =? fst q) && (snd p =? snd q)) l.
Definition subset_cells (a b : list (nat * nat)) : bool := forallb (fun p => pair_in p b) a.
Definition zero_pattern (o : list (mat (X Q))) : mat bool := map (map qzero_vec) o.
Definition bmat_eqb (a b : mat bool) : bool := list_eqb (list_eqb Bool.eqb) a b.

(* constructors specialised to the rational instance (for the generated case files) *)
Definition qcs (mean std : X Q) (quant : list (X Q)) (ncat : nat) (ymin : Z) (old new med : list Z) (dim : nat)
  : colstats QS := Build_colstats QS mean std quant ncat ymin old new med dim.
Definition qconfig (e : encoder QS) (st : list (colstats QS)) (ch : nat) (na : option na_strategy) : config QS :=
  Build_config QS e st ch na (fun v => v).

(* --------------------------------------------------------------------------
   Correspondence checks evaluated on the generated case files (C13).
   The implementation's observations: did it raise; which cells' pre-post-module
   embeddings are exactly zero; for every single-cell perturbation the set of output
   cells that changed (must lie inside the model's footprint); the input with every
   missing cell replaced by the documented replacement (must encode identically). *)
(* cells at which two bag inputs differ *)
Definition bag_input_diff (x x' : input QS) : list (nat * nat) :=
  match x, x' with
  | InBag _ m, InBag _ m' =>
      concat (mapi (fun r p => concat (mapi (fun c q => if list_eqb Z.eqb (fst q) (snd q) then [] else [(r, c)])
                                           (combine (fst p) (snd p)))) (combine m m'))
  | _, _ => []
  end.

(* The footprint the model allows for a perturbed input: the cells whose model output
   changes.  Bags are the exception: whether a changed bag changes its maximum depends on the
   parameter values (the model's differ from the implementation's), and a bag with repeated
   entries has the same exact mean but not the same rounded mean, so the allowed set is the
   set of cells whose input changed. *)
Definition allowed_cells (c : config QS) (x x' : input QS) (o o' : list (mat (X Q))) : list (nat * nat) :=
  match cf_enc QS c with
  | EBags _ _ _ => bag_input_diff x x'
  | _ => diff_cells o o'
  end.

(* zero patterns: equal when the implementation's parameters are generic (seeded noise on every
   parameter); with reset_parameters() alone the library's biases are exactly zero, so a cell at its
   column mean is a zero vector there but not in the model's generic parameters: then only
   "zero in the model => zero in the implementation" (NaN absorption, padding rows) is compared *)
Definition zeros_ok (strict : bool) (zm zi : mat bool) : bool :=
  if strict then bmat_eqb zm zi
  else list_eqb (list_eqb (fun a b => implb a b)) zm zi.

Definition check_enc (strict : bool) (c : config QS) (x : input QS) (raised : bool) (shape : nat * nat * nat)
           (zeros : mat bool) (perts : list (input QS * list (nat * nat))) (imputed : option (input QS)) : bool :=
  match pre_post QS c x with
  | None => raised
  | Some o =>
      negb raised &&
      (* the implementation's output shape [B, C, channels] is the model's *)
      shape_isb (fst (fst shape)) (snd (fst shape)) (snd shape) o &&
      zeros_ok strict (zero_pattern o) zeros &&
      forallb (fun p => match pre_post QS c (fst p) with
                        | Some o' => subset_cells (snd p) (allowed_cells c x (fst p) o o')
                        | None => false
                        end) perts &&
      match imputed with
      | None => true
      | Some x' => match pre_post QS (set_na_none QS c) x' with Some o' => out_eqb o o' | None => false end
      end
  end.

(* construction-time rejection of a strategy / stype pair *)
Definition check_reject (st : stype) (na : option na_strategy) (raised : bool) : bool :=
  Bool.eqb (strategy_ok st na) (negb raised).

(* --------------------------------------------------------------------------
   Correspondence checks evaluated on the generated case files (C12). *)
Definition pair_eqb {A B} (ea : A -> A -> bool) (eb : B -> B -> bool) (p q : A * B) : bool :=
  ea (fst p) (fst q) && eb (snd p) (snd q).
Definition opt_eqb {A} (e : A -> A -> bool) (a b : option A) : bool :=
  match a, b with Some x, Some y => e x y | None, None => true | _, _ => false end.

(* column order: the model's concatenation (canonical stype order, names as listed per stype)
   equals the returned names, and every input column whose perturbation moved an output
   column sits at the position the model predicts *)
Definition check_order (cnd : list (stype * list String.string)) (fd : list (stype * nat))
           (obs_names : list String.string) (moved : list (String.string * nat)) : bool :=
  match stypewise_forward String.string cnd fd (fun _ names => Some names) with
  | Some (cols, names) =>
      list_eqb String.eqb names obs_names && list_eqb String.eqb cols obs_names &&
      forallb (fun p => match nth_error names (snd p) with Some n => String.eqb n (fst p) | None => false end) moved
  | None => false
  end.

(* timestamps: after na_forward every cell passes the positional / cyclic assertions iff the call did not raise *)
Definition check_time (na : option na_strategy) (stats : list (colstats QS)) (feat : mat (list Z)) (raised : bool)
  : bool :=
  Bool.eqb (match na_forward_time QS na stats feat with
            | Some f => time_in_domain (map cs_year_min stats) f
            | None => false
            end) (negb raised).

(* LinearEmbeddingEncoder's walk covers the observed width of the value matrix, slice by slice *)
Definition check_emb (dims : list nat) (width : nat) : bool :=
  (sum dims =? width) && list_eqb Nat.eqb (map (fun p => snd p - fst p) (emb_walk 0 dims)) dims.

(* lazily configured module: after the constructor and after every assignment:
   ((is_fully_specified, the validate() guard lets a use through, the statement raised),
    the configurations init_modules was called with).  init_modules of the probe raises iff
    some constructor parameter holds the designated bad value. *)
Definition probe_init_ok (bad : option nat) (snap : list (String.string * option nat)) : bool :=
  match bad with
  | None => true
  | Some b => negb (existsb (fun kv => opt_eqb Nat.eqb (snd kv) (Some b)) snap)
  end.
Definition lazy_obs (o : outcome nat) : bool * bool * bool * list (list (String.string * option nat)) :=
  let s := state_of o in
  (match missing s with [] => true | _ => false end,
   match use nat s with Some _ => true | None => false end, is_raised o, fired s).
Fixpoint lazy_trace_from (params : list String.string) (bad : option nat) (s : mstate nat)
         (ops : list (String.string * option nat)) :=
  match ops with
  | [] => []
  | (k, v) :: r =>
      let o := setattr nat params (probe_init_ok bad) s k v in
      lazy_obs o :: lazy_trace_from params bad (state_of o) r
  end.
(* a constructor that raises leaves no object to assign to *)
Definition lazy_trace (params lazy : list String.string) (bad : option nat) (args : list (option nat))
           (ops : list (String.string * option nat)) :=
  let o := construct nat params lazy (probe_init_ok bad) args in
  lazy_obs o :: (if is_raised o then [] else lazy_trace_from params bad (state_of o) ops).
Definition lazy_trace_eqb :=
  list_eqb (pair_eqb (pair_eqb (pair_eqb Bool.eqb Bool.eqb) Bool.eqb)
                     (list_eqb (list_eqb (pair_eqb String.eqb (opt_eqb Nat.eqb))))).
(* for a real encoder a use succeeds iff the guard passes and init_modules completed;
   observed: (fully specified, a call works, the statement raised, number of init_modules calls) *)
Definition lazy_enc_obs (bad : option nat) (t : bool * bool * bool * list (list (String.string * option nat)))
  : bool * bool * bool * nat :=
  match t with
  | (full, guard, raised, calls) =>
      (full, guard && negb (match filter (probe_init_ok bad) calls with [] => true | _ => false end), raised,
       List.length calls)
  end.
Definition lazy_enc_trace_eqb :=
  list_eqb (pair_eqb (pair_eqb (pair_eqb Bool.eqb Bool.eqb) Bool.eqb) Nat.eqb).

(* StypeWiseFeatureEncoder.__init__ over the generated supported_stypes *)
Definition check_init (keys : list stype) (d : list (stype * encoder_class)) (raised : bool) (wired : list stype)
  : bool :=
  match stypewise_init encoder_class encoder_supported keys d with
  | None => raised
  | Some w => negb raised && list_eqb stype_eqb (map fst w) wired
  end.

(* which cells of a categorical batch share an embedding: cells are grouped by the table row
   the model addresses (per-column offset, +1 shift, padding row for missing) and the grouping
   is compared with the groups of bit-identical embeddings the implementation produced *)
Fixpoint first_index {A} (eqb : A -> A -> bool) (x : A) (l : list A) (k : nat) : nat :=
  match l with
  | [] => k
  | y :: r => if eqb x y then k else first_index eqb x r (Datatypes.S k)
  end.
Definition classes_of {A} (eqb : A -> A -> bool) (l : list A) : list nat :=
  map (fun x => first_index eqb x l 0) l.
Definition check_cat_rows (ncats : list nat) (cells : mat Z) (classes : list nat) : bool :=
  let stats := map (fun n => qcs XNaN XNaN [] n 0%Z [] [] [] 0) ncats in
  let off := emb_offset QS stats in
  list_eqb Nat.eqb (classes_of Z.eqb (concat (map (fun row => zipWith emb_index row off) cells))) classes.

(* --------------------------------------------------------------------------
   END TO END (C12 domain contract): a feature matrix as the C01 mapper model produces it,
   column by column, with the statistics the C03 model computes from the same column. *)
Require PF.Model.Mapper PF.Model.MapperSpec PF.Model.Stats.

(* the integer entries of an encoded cell tf[i, j] *)
Definition ecell_ints (e : Mapper.ecell) : list Z :=
  flat_map (fun s => match s with Mapper.SInt z => [z] | Mapper.SNum _ => [] end) e.
Definition ecell_int (e : Mapper.ecell) : Z := hd (-1)%Z (ecell_ints e).

(* n-row columns side by side (torch.cat of n x 1 tensors / column-wise container cat) *)
Definition frame_of_columns {A} (n : nat) (cols : list (list A)) : option (mat A) := stack1 n cols.

(* statistics records carrying only what one encoder reads *)
Definition ncat_stats (S : Scalar) (n : nat) : colstats S :=
  Build_colstats S XNaN XNaN [] n 0%Z [] [] [] 0.
Definition time_colstats (S : Scalar) (t : Stats.time_stats) : colstats S :=
  Build_colstats S XNaN XNaN [] 0 (hd 0%Z (Stats.t_year_range t)) (Stats.t_oldest t) (Stats.t_newest t)
                 (Stats.t_median t) 0.

(* COUNT / MULTI_COUNT as C03 specifies value_counts: the category list `cats` is, under an
   injective naming of the values by integers, the key list of a valid count table of the
   column's non-missing values (C03 abstracts category values as integers) *)
Definition counted_categories (cats : list Mapper.pval) : Prop :=
  exists (code : Mapper.pval -> Z) (o : list (Z * nat)) (col : list Z),
    (forall a b, In a cats -> In b cats -> code a = code b -> a = b) /\
    map code cats = map fst o /\ Stats.valid_count_order o col = true.

(* a timestamp column: parsed instants (epoch seconds; None = NaT) as the statistics see them *)
Definition time_stat_cells (col : list (option Z)) : list (option (Z * list Z)) :=
  map (option_map (fun s => (s, calendar_cell s))) col.

(* the feature matrix columns and the per-column statistics records of the end-to-end theorems *)
Definition cat_columns {L : Type} (cols : list (list Mapper.pval * @Mapper.series L (option Mapper.pval)))
  : list (list Z) := map (fun p => map ecell_int (Mapper.categorical_encode (fst p) (snd p))) cols.
Definition cat_col_stats (S : Scalar) {L : Type}
           (cols : list (list Mapper.pval * @Mapper.series L (option Mapper.pval))) : list (colstats S) :=
  map (fun p => ncat_stats S (length (fst p))) cols.
(* a multicategorical column: category list (a count statistic, never containing the mapper's
   own missing marker -1), separator, cells whose tokens are not that marker *)
Definition mc_ok {L : Type} (p : list Mapper.pval * option Mapper.str * @Mapper.series L Mapper.mc_cell) : Prop :=
  counted_categories (fst (fst p)) /\ ~ In (Mapper.VInt (-1)) (fst (fst p)) /\
  Forall (MapperSpec.tokens_ok (snd (fst p))) (Mapper.ser_values (snd p)).
Definition mc_stats (S : Scalar) {L : Type}
           (cols : list (list Mapper.pval * option Mapper.str * @Mapper.series L Mapper.mc_cell)) : list (colstats S) :=
  map (fun p => ncat_stats S (length (fst (fst p)))) cols.

(* --------------------------------------------------------------------------
   C13, numeric agreement for the affine encoders: the model evaluated on the module's REAL
   parameters and statistics (float64 values as exact rationals) against the implementation's
   output before the post-module, entry by entry within 1e-9 (relative to 1 + |a| + |b|). *)
Fixpoint list_all2 {A B} (r : A -> B -> bool) (a : list A) (b : list B) : bool :=
  match a, b with
  | [], [] => true
  | x :: a', y :: b' => r x y && list_all2 r a' b'
  | _, _ => false
  end.
Definition qabs (a : Q) : Q := if Qle_bool 0 a then a else Qopp a.
Definition q_close (a b : Q) : bool :=
  Qle_bool (qabs (a - b)%Q) ((1 # 1000000000) * (1 + qabs a + qabs b))%Q.
Definition x_close (a : X Q) (b : Q) : bool := match a with XFin q => q_close q b | XNaN => false end.
Definition check_num (c : config QS) (x : input QS) (obs : list (mat Q)) : bool :=
  match pre_post QS c x with
  | Some o => list_all2 (list_all2 (list_all2 x_close)) o obs
  | None => false
  end.

(* --------------------------------------------------------------------------
   C13, parameter locality on the generated cases: every parameter block except column j's is
   changed (one added to every entry); column j of the output must not move.  The implementation
   is measured by gradients: the parameters that out[:, j] depends on, for different j, are disjoint. *)
Definition bump_rows (keep : nat -> bool) (m : mat Q) : mat Q :=
  mapi (fun r row => if keep r then row else map (fun q => Qred (q + 1)) row) m.
Definition bump_mats (j : nat) (ms : list (mat Q)) : list (mat Q) :=
  mapi (fun c m => if c =? j then m else map (map (fun q => Qred (q + 1))) m) ms.
Definition reblock (stats : list (colstats QS)) (j : nat) (e : encoder QS) : encoder QS :=
  let kj := fun r => r =? j in
  match e with
  | ELinear _ w b => ELinear QS (bump_rows kj w) (bump_rows kj b)
  | EStack _ => EStack QS
  | EExcel _ w1 b1 w2 b2 => EExcel QS (bump_rows kj w1) (bump_rows kj b1) (bump_rows kj w2) (bump_rows kj b2)
  | EPeriodic _ li lo => EPeriodic QS (bump_rows kj li) (bump_mats j lo)
  | EBucket _ w b => EBucket QS (bump_mats j w) (bump_rows kj b)
  | EEmbedding _ t =>
      let off := nth j (emb_offset QS stats) 0 in
      let n := cs_ncat (nth j stats (dstats QS)) in
      EEmbedding QS (bump_rows (fun r => (r =? 0) || ((off + 1 <=? r) && (r <=? off + n))) t)
  | EBags _ m ts => EBags QS m (bump_mats j ts)
  | ELinEmb _ ws b => ELinEmb QS (bump_mats j ws) (bump_rows kj b)
  | ETimestamp _ h pm w b =>
      ETimestamp QS h pm (mapi (fun c wc => if c =? j then wc else bump_mats (List.length wc) wc) w) (bump_rows kj b)
  end.
Definition col_of (j : nat) (o : list (mat (X Q))) : list (option (list (X Q))) := map (fun row => nth_error row j) o.
Definition check_param_local (c : config QS) (x : input QS) (observed_disjoint : bool) : bool :=
  match pre_post QS c x with
  | None => true
  | Some o =>
      Bool.eqb observed_disjoint
        (forallb (fun j =>
           match pre_post QS (Build_config QS (reblock (cf_stats QS c) j (cf_enc QS c)) (cf_stats QS c)
                                          (cf_channels QS c) (cf_na QS c) (cf_post QS c)) x with
           | Some o' => list_eqb (opt_eqb (list_eqb xq_eqb)) (col_of j o) (col_of j o')
           | None => false
           end) (seq 0 (List.length (cf_stats QS c))))
  end.

(* --------------------------------------------------------------------------
   C12, column association.  StypeWiseFeatureEncoder.forward: x = torch.cat(xs, dim=1) of the
   per-stype outputs (all with b rows): row r of the result is the concatenation of the parts'
   rows r.  Column k of part p sits at position width(part 0) + ... + width(part p-1) + k. *)
Definition hcat {A} (b : nat) (xs : list (mat A)) : option (mat A) :=
  if forallb (fun x => List.length x =? b) xs
  then Some (map (fun r => concat (map (fun x => nth r x []) xs)) (seq 0 b))
  else None.                                           (* sizes of tensors must match except in dimension 1 *)
Definition col_offset (widths : list nat) (p : nat) : nat := sum (firstn p widths).
(* position of column k of stype s in the output, from the canonical stype order and the per-stype
   column counts of the frame *)
Fixpoint stype_index (s : stype) (l : list stype) : option nat :=
  match l with
  | [] => None
  | x :: r => if stype_eqb s x then Some 0 else option_map Datatypes.S (stype_index s r)
  end.
Definition col_position (fd : list (stype * nat)) (s : stype) (k : nat) : option nat :=
  let present := tf_stypes fd in
  match stype_index s present with
  | Some p => Some (col_offset (map (fun t => match assoc_stype fd t with Some n => n | None => 0 end) present) p + k)
  | None => None
  end.
(* the output column that moved when input column k of stype s was perturbed is where the model puts it *)
Definition check_position (fd : list (stype * nat)) (moved : list (stype * nat * nat)) : bool :=
  forallb (fun m => match col_position fd (fst (fst m)) (snd (fst m)) with
                    | Some q => q =? snd m
                    | None => false
                    end) moved.
