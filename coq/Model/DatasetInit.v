(* Implementation-level model of torch_frame/data/dataset.py: canonicalize_col_to_pattern,
   Dataset.canonicalize_and_validate_col_to_pattern, Dataset.__init__ (argument validation) and the
   requires_post_materialization gate.  The pattern tables (which stype a pattern configures, whether None is
   accepted) come from Gen/Tables.v.  A raise is None (the exception type is not modelled).  Definitions only. *)
From Coq Require Import ZArith List Bool Arith String.
From PF Require Import Gen.Tables Lib.ListX Model.Mapper Model.Converter.
Import ListNotations.
Local Open Scope nat_scope.

(* a configured value: of the required type / None / anything else *)
Inductive pat (V : Type) := PVal (v : V) | PNone | PBad.
Arguments PVal {V}. Arguments PNone {V}. Arguments PBad {V}.
(* the user's argument: one object for all columns, or a dict *)
Inductive pattern_arg (V : Type) := ASingle (p : pat V) | ADict (d : list (name * pat V)).
Arguments ASingle {V}. Arguments ADict {V}.

Definition name_mem (c : name) (l : list name) : bool := existsb (str_eqb c) l.

(* canonicalize_col_to_pattern: a non-dict is given to every column; a dict keeps its entries (also for other
   keys) and, if requires_all_inclusive is off, gets None for the columns it does not mention *)
Definition canonicalize_col_to_pattern {V} (requires_all : bool) (arg : pattern_arg V) (columns : list name)
  : option (list (name * pat V)) :=
  match arg with
  | ASingle p => Some (map (fun c => (c, p)) columns)
  | ADict d =>
      let missing := filter (fun c => negb (name_mem c (map fst d))) columns in
      match missing with
      | [] => Some d
      | _ => if requires_all then None                                          (* ValueError *)
             else Some (d ++ map (fun c => (c, PNone)) missing)
      end
  end.

(* the type validation loop: every value is of the required type, or None where None is allowed *)
Definition pat_ok {V} (allow_none : bool) (p : pat V) : bool :=
  match p with PVal _ => true | PNone => allow_none | PBad => false end.

Definition columns_of (st : stype) (col_to_stype : list (name * stype)) : list name :=
  map fst (filter (fun e => stype_eqb (snd e) st) col_to_stype).

Definition canonicalize_and_validate {V} (pn : pattern_name) (arg : pattern_arg V) (col_to_stype : list (name * stype))
  : option (list (name * pat V)) :=
  d <- canonicalize_col_to_pattern (negb (pattern_allow_none pn)) arg (columns_of (pattern_stype pn) col_to_stype) ;;
  if forallb (fun e => pat_ok (pattern_allow_none pn) (snd e)) d then Some d else None.     (* TypeError *)

Fixpoint pat_lookup {V} (c : name) (d : list (name * pat V)) : option (pat V) :=
  match d with
  | [] => None
  | (k, v) :: r => if str_eqb c k then Some v else pat_lookup c r
  end.

Record ds_args := MkArgs {
  d_columns : list name;                       (* df.columns *)
  d_stypes : list (name * stype);              (* col_to_stype, in order *)
  d_target : option name;
  d_split : option name;
  d_split_vals : list Z;                       (* the values of df[split_col] when that column exists *)
  d_sep : pattern_arg str;
  d_fmt : pattern_arg str;
  d_text : pattern_arg unit;
  d_image : pattern_arg unit;
  d_tok : pattern_arg unit }.

Record ds_config := MkCfg {
  c_sep : list (name * pat str); c_fmt : list (name * pat str);
  c_text : list (name * pat unit); c_image : list (name * pat unit); c_tok : list (name * pat unit) }.

Fixpoint stype_lookup (c : name) (d : list (name * stype)) : option stype :=
  match d with
  | [] => None
  | (k, v) :: r => if str_eqb c k then Some v else stype_lookup c r
  end.

(* Dataset.__init__: the checks in the order of the code *)
Definition dataset_init (a : ds_args) : option ds_config :=
  let keys := map fst (d_stypes a) in
  (* split_col: in df.columns, not in col_to_stype, values within SPLIT_TO_NUM.values() *)
  _ <- match d_split a with
       | None => Some tt
       | Some s =>
           if negb (name_mem s (d_columns a)) then None
           else if name_mem s keys then None
           else if forallb (fun v => existsb (Z.eqb v) (map snd split_to_num)) (d_split_vals a) then Some tt else None
       end ;;
  (* feat_cols: list(col_to_stype.keys()).remove(target_col) raises if the target has no stype *)
  _ <- match d_target a with
       | Some t => if name_mem t keys then Some tt else None
       | None => Some tt
       end ;;
  (* every listed column exists in the frame *)
  _ <- (if forallb (fun c => name_mem c (d_columns a)) keys then Some tt else None) ;;
  (* multilabel targets are not supported *)
  _ <- match d_target a with
       | Some t => match stype_lookup t (d_stypes a) with
                   | Some st_multicategorical => None
                   | _ => Some tt
                   end
       | None => Some tt
       end ;;
  sep <- canonicalize_and_validate pn_col_to_sep (d_sep a) (d_stypes a) ;;
  fmt <- canonicalize_and_validate pn_col_to_time_format (d_fmt a) (d_stypes a) ;;
  te <- canonicalize_and_validate pn_col_to_text_embedder_cfg (d_text a) (d_stypes a) ;;
  ie <- canonicalize_and_validate pn_col_to_image_embedder_cfg (d_image a) (d_stypes a) ;;
  tt_ <- canonicalize_and_validate pn_col_to_text_tokenizer_cfg (d_tok a) (d_stypes a) ;;
  Some (MkCfg sep fmt te ie tt_).

(* @requires_post_materialization: tensor_frame / col_stats / num_classes before materialize() raise *)
Definition requires_post_materialization {A} (is_materialized : bool) (v : A) : option A :=
  if is_materialized then Some v else None.

(* ---- the acceptance conditions, as a specification (Props/C02.v dataset_init_decision_table) ---- *)
Definition pattern_accepted {V} (pn : pattern_name) (arg : pattern_arg V) (col_to_stype : list (name * stype)) : Prop :=
  let cols := columns_of (pattern_stype pn) col_to_stype in
  let allow := pattern_allow_none pn in
  match arg with
  | ASingle p => cols = [] \/ pat_ok allow p = true
  | ADict d =>
      (allow = true \/ forall c, In c cols -> name_mem c (map fst d) = true) /\
      (forall e, In e d -> pat_ok allow (snd e) = true)
  end.

Definition init_accepted (a : ds_args) : Prop :=
  let keys := map fst (d_stypes a) in
  (forall s, d_split a = Some s ->
     name_mem s (d_columns a) = true /\ name_mem s keys = false /\
     forall v, In v (d_split_vals a) -> In v (map snd split_to_num)) /\
  (forall t, d_target a = Some t -> name_mem t keys = true /\ stype_lookup t (d_stypes a) <> Some st_multicategorical) /\
  (forall c, In c keys -> name_mem c (d_columns a) = true) /\
  pattern_accepted pn_col_to_sep (d_sep a) (d_stypes a) /\
  pattern_accepted pn_col_to_time_format (d_fmt a) (d_stypes a) /\
  pattern_accepted pn_col_to_text_embedder_cfg (d_text a) (d_stypes a) /\
  pattern_accepted pn_col_to_image_embedder_cfg (d_image a) (d_stypes a) /\
  pattern_accepted pn_col_to_text_tokenizer_cfg (d_tok a) (d_stypes a).
