(* Model of torch_frame/utils/infer_stype.py (infer_series_stype, infer_df_stype,
   _is_timestamp, _lst_is_all_type, _lst_is_free_of_nan_and_inf, _min_count) and of
   MultiCategoricalTensorMapper.split_by_sep (data/mapper.py), string branch.

   Definitions only.  Lemmas: Proofs/InferProofs.v.  Statements: Props/C18.v.

   A column is the list of its cells IN ROW ORDER.  Index labels are not part of
   the model: the code only uses positional access (ser.iloc[0], iteration,
   value_counts, dropna); harness/c18.py validates on every run that relabelling
   the index never changes the result.

   Modelled primitives (pandas behaviour the model assumes; each is compared with
   the real library on every correspondence case):
   - the dtype pandas gives a column built from homogeneous Python cells
     ([dtype_of]) and the answers of is_numeric_dtype / is_bool_dtype /
     is_float_dtype / is_string_dtype on it;
   - isna / dropna ([Missing] = None or NaN);
   - value_counts().min() ([min_count]);
   - pd.to_datetime(ser, format=f): with an explicit format it accepts the column
     iff every cell is written in that format; with format=None pandas GUESSES the
     format from the first element and then demands it of every cell.  Which formats
     a date string is accepted under, and which one pandas guesses from it, are
     input classifications carried by [DateStr] (the harness compares the guess with
     pandas.guess_datetime_format on every date cell); date RECOGNITION is pandas';
   - str.split(sep) for a one-character sep, str.strip() on ASCII white space,
     set() as duplicate removal, Series.explode (empty set -> NaN, not counted).

   - pandas.api.types.infer_dtype(ser, skipna=True) == 'boolean' on a homogeneous
     column: all cells are bools ([infers_boolean]).

   Domain on which the model is validated (correspondence): homogeneous columns
   (all non-missing cells of one kind; Int cells with Missing are held by pandas as
   float64; Bool cells with Missing as object), including date columns in formats
   pandas must guess and in mixed formats, and integral floats with NaN.  Mixed-kind
   object columns (lists with strings, lists with mixed elements, dates with
   non-dates) are run by the harness but are NOT part of the correspondence: the
   model's answers there are not validated. *)
From Coq Require Import List ZArith QArith Bool String Ascii Arith.
From PF Require Import Gen.Tables.
Import ListNotations.
Open Scope bool_scope.

(* an element of a list-valued cell *)
Inductive elem :=
| EInt (z : Z)          (* Python int *)
| EFloat (q : Q)        (* finite Python float *)
| ENan                  (* float('nan') *)
| EInf                  (* +-float('inf') *)
| EStr (s : string).

Inductive cell :=
| Float (q : Q)         (* finite Python float (-0.0 is Float 0: equal to 0.0 for pandas) *)
| FloatInf (neg : bool) (* +inf / -inf in a float column: inf % 1 is NaN, so never "whole" *)
| Int (z : Z)
| Bool (b : bool)
| Str (s : string)      (* a string pandas does not parse as a date *)
| DateStr (guess : string) (accepts : list string) (s : string)
                        (* a date string: the strftime format pandas guesses from it, and
                           the formats under which it parses *)
| LList (l : list elem)
| Missing.              (* None / NaN *)

(* what infer_series_stype is observed to do: it returns Optional[stype], or raises.
   The model never produces [Raises]: on the validated domain the code does not
   raise, and an observed exception is a correspondence mismatch. *)
Inductive outcome :=
| Inferred (r : option stype)
| Raises.

(* ---------------------------------------------------------------- pandas dtypes *)
Inductive dtype := DFloat | DInt | DBool | DString | DObject.

Definition is_missing (c : cell) : bool := match c with Missing => true | _ => false end.
Definition is_list (c : cell) : bool := match c with LList _ => true | _ => false end.
Definition is_strlike (c : cell) : bool := match c with Str _ | DateStr _ _ _ => true | _ => false end.
Definition is_datestr (c : cell) : bool := match c with DateStr _ _ _ => true | _ => false end.
Definition is_bool_cell (c : cell) : bool := match c with Bool _ => true | _ => false end.
Definition is_int_cell (c : cell) : bool := match c with Int _ => true | _ => false end.
Definition is_num_cell (c : cell) : bool := match c with Int _ | Float _ | FloatInf _ => true | _ => false end.

(* ser.isna().any() ; ser.dropna() *)
Definition has_nan (col : list cell) : bool := existsb is_missing col.
Definition dropna (col : list cell) : list cell := filter (fun c => negb (is_missing c)) col.

(* dtype of pd.Series(cells) (strings: object or str, both "string-like").
   dropna keeps the dtype, so it is computed from the column as constructed.
   For a column without non-missing cells the dtype is never consulted. *)
Definition dtype_of (col : list cell) : dtype :=
  let ser := dropna col in
  if forallb is_strlike ser then DString
  else if forallb is_bool_cell ser then (if has_nan col then DObject else DBool)
  else if forallb is_int_cell ser then (if has_nan col then DFloat else DInt)
  else if forallb is_num_cell ser then DFloat
  else DObject.

Definition is_numeric_dtype (d : dtype) : bool :=
  match d with DFloat | DInt | DBool => true | _ => false end.
Definition is_bool_dtype (d : dtype) : bool := match d with DBool => true | _ => false end.
Definition is_float_dtype (d : dtype) : bool := match d with DFloat => true | _ => false end.
Definition is_string_dtype (d : dtype) : bool := match d with DString => true | _ => false end.

(* ---------------------------------------------------------------- value_counts *)
(* equality of two cells as value_counts sees it (an Int in a float64 column is
   the float of the same value; both string dtypes compare by content) *)
Definition cell_eqb (a b : cell) : bool :=
  match a, b with
  | Float p, Float q => Qeq_bool p q
  | Float p, Int z => Qeq_bool p (inject_Z z)
  | Int z, Float p => Qeq_bool (inject_Z z) p
  | FloatInf a, FloatInf b => Bool.eqb a b
  | Int x, Int y => Z.eqb x y
  | Bool x, Bool y => Bool.eqb x y
  | Str s, Str t => String.eqb s t
  | Str s, DateStr _ _ t => String.eqb s t
  | DateStr _ _ s, Str t => String.eqb s t
  | DateStr _ _ s, DateStr _ _ t => String.eqb s t
  | _, _ => false
  end.

Definition count_by {A} (eqb : A -> A -> bool) (x : A) (l : list A) : nat :=
  List.length (filter (eqb x) l).

Fixpoint list_min (l : list nat) : nat :=
  match l with
  | [] => 0
  | [x] => x
  | x :: r => Nat.min x (list_min r)
  end.

(* ser.value_counts().min(): the smallest multiplicity of a value.
   On an empty series pandas returns NaN, and NaN > thresh is False; 0 stands for
   that NaN (0 > thresh is false as well for every thresh >= 0). *)
Definition min_count_by {A} (eqb : A -> A -> bool) (l : list A) : nat :=
  list_min (map (fun x => count_by eqb x l) l).

Definition min_count (ser : list cell) : nat := min_count_by cell_eqb ser.

Definition above_thresh (n : nat) : bool := (Z.of_nat n >? cat_min_count_thresh)%Z.

(* ---------------------------------------------------------------- split_by_sep *)
Definition is_space (a : ascii) : bool :=
  let n := nat_of_ascii a in
  ((9 <=? n) && (n <=? 13)) || ((28 <=? n) && (n <=? 32)).

Fixpoint lstrip (s : string) : string :=
  match s with
  | String a r => if is_space a then lstrip r else s
  | EmptyString => EmptyString
  end.

Fixpoint rstrip (s : string) : string :=
  match s with
  | EmptyString => EmptyString
  | String a r =>
      match rstrip r with
      | EmptyString => if is_space a then EmptyString else String a EmptyString
      | r' => String a r'
      end
  end.

Definition strip (s : string) : string := rstrip (lstrip s).

(* row.split(sep) for a one-character separator *)
Fixpoint split_char (c : ascii) (s : string) : list string :=
  match s with
  | EmptyString => [EmptyString]
  | String a r =>
      if Ascii.eqb a c then EmptyString :: split_char c r
      else match split_char c r with
           | h :: t => String a h :: t
           | [] => [String a EmptyString]
           end
  end.

(* the separator as one character.  None: not one character (Python raises
   ValueError for the empty separator, which the caller catches and skips; longer
   separators are rejected by gen_tables.py, fail-closed). *)
Definition sep_char (sep : string) : option ascii :=
  match sep with String c EmptyString => Some c | _ => None end.

(* split_by_sep(row, sep) for a str row: set() if blank, else the set of the
   stripped pieces *)
Definition row_tokens (c : ascii) (row : string) : list string :=
  if String.eqb (strip row) EmptyString then []
  else nodup string_dec (map strip (split_char c row)).

Definition split_by_sep (row : string) (sep : string) : option (list string) :=
  match sep_char sep with Some c => Some (row_tokens c row) | None => None end.

Definition cell_string (c : cell) : string :=
  match c with Str s | DateStr _ _ s => s | _ => EmptyString end.

(* _min_count(ser.apply(split_by_sep(., sep)).explode()) ; None = exception, skipped.
   explode turns every set into one row per member (an empty set into a NaN row,
   which value_counts does not count). *)
Definition sep_min_count (ser : list cell) (sep : string) : option nat :=
  match sep_char sep with
  | Some c => Some (min_count_by String.eqb (flat_map (fun x => row_tokens c (cell_string x)) ser))
  | None => None
  end.

Fixpoint list_max (l : list nat) : nat :=
  match l with [] => 0 | x :: r => Nat.max x (list_max r) end.

(* max(min_count_list or [0]) over POSSIBLE_SEPS *)
Definition max_min_count (ser : list cell) : nat :=
  list_max (flat_map (fun sep => match sep_min_count ser sep with Some n => [n] | None => [] end)
                     possible_seps).

(* ---- the multicategorical test, read without value_counts (specification level;
        Props/C18.v proves it equal to above_thresh (max_min_count ser)) *)
(* number of rows whose token set contains tok *)
Definition rows_with_token (c : ascii) (tok : string) (ser : list cell) : nat :=
  List.length (filter (fun x => existsb (String.eqb tok) (row_tokens c (cell_string x))) ser).

(* there is at least one token and every token occurs in more than thresh rows *)
Definition tokens_repeated (c : ascii) (ser : list cell) : bool :=
  let toks := flat_map (fun x => row_tokens c (cell_string x)) ser in
  match toks with
  | [] => false
  | _ => forallb (fun tok => above_thresh (rows_with_token c tok ser)) toks
  end.

Definition multicat_spec (ser : list cell) : bool :=
  existsb (fun sep => match sep_char sep with Some c => tokens_repeated c ser | None => false end)
          possible_seps.

(* the string rows of the decision table at specification level (for the correspondence) *)
Definition string_table_spec (ser : list cell) : stype :=
  if above_thresh (min_count ser) then st_categorical
  else if multicat_spec ser then st_multicategorical
  else st_text_embedded.

(* ---------------------------------------------------------------- list branch *)
Definition is_num_elem (e : elem) : bool := match e with EStr _ => false | _ => true end.   (* isinstance(x, (int, float)) *)
Definition is_float_elem (e : elem) : bool :=
  match e with EFloat _ | ENan | EInf => true | _ => false end.                            (* isinstance(x, float) *)
Definition is_str_elem (e : elem) : bool := match e with EStr _ => true | _ => false end.
Definition is_finite_elem (e : elem) : bool := match e with ENan | EInf => false | _ => true end.

(* the loop `for lst in ser` with its three flags, as written *)
Fixpoint infer_list_loop (len0 : nat) (ser : list cell)
         (is_all_numerical is_all_string is_embedding : bool) : outcome :=
  match ser with
  | [] =>
      if is_all_numerical then
        (if is_embedding then Inferred (Some st_embedding) else Inferred (Some st_sequence_numerical))
      else if is_all_string then Inferred (Some st_multicategorical)
      else Inferred None
  | LList lst :: r =>
      let allnum := forallb is_num_elem lst in
      let emb_ok := (len0 =? List.length lst) && forallb is_float_elem lst && forallb is_finite_elem lst in
      infer_list_loop len0 r
        (if allnum then is_all_numerical else false)
        (if forallb is_str_elem lst then is_all_string else false)
        (if allnum then (if emb_ok then is_embedding else false) else is_embedding)
  | _ :: _ => Inferred None          (* if not isinstance(lst, list): return None *)
  end.

(* ---------------------------------------------------------------- scalar branch *)
Definition is_integral (c : cell) : bool :=
  match c with
  | Float q => (Z.rem (Qnum q) (Zpos (Qden q)) =? 0)%Z
  | Int _ => true
  | _ => false
  end.

(* pd.to_datetime(ser, format=f) does not raise *)
Definition cell_accepts (f : string) (c : cell) : bool :=
  match c with DateStr _ a _ => existsb (String.eqb f) a | _ => false end.
Definition parses_with (f : string) (ser : list cell) : bool := forallb (cell_accepts f) ser.
(* format=None: the format is guessed from the first element *)
Definition parses_guessing (ser : list cell) : bool :=
  match ser with DateStr g _ _ :: _ => parses_with g ser | _ => false end.

(* _is_timestamp: some candidate of POSSIBLE_TIME_FORMATS parses the whole column *)
Definition is_timestamp (ser : list cell) : bool :=
  existsb (fun fo => match fo with Some f => parses_with f ser | None => parses_guessing ser end)
          possible_time_formats.

(* infer_dtype(ser, skipna=True) == 'boolean' *)
Definition infers_boolean (ser : list cell) : bool :=
  match ser with [] => false | _ => forallb is_bool_cell ser end.

Definition infer_scalar_branch (hasnan : bool) (d : dtype) (ser : list cell) : outcome :=
  if is_numeric_dtype d then
    if is_bool_dtype d then Inferred (Some st_categorical)
    else if is_float_dtype d && negb (hasnan && forallb is_integral ser) then Inferred (Some st_numerical)
    else if above_thresh (min_count ser) then Inferred (Some st_categorical)
    else Inferred (Some st_numerical)
  else
    if is_timestamp ser then Inferred (Some st_timestamp)
    else if above_thresh (min_count ser) || is_bool_dtype d || infers_boolean ser
    then Inferred (Some st_categorical)
    else if negb (is_string_dtype d) then
      (if above_thresh (min_count ser) then Inferred (Some st_multicategorical)
       else Inferred (Some st_embedding))
    else
      (* ser.iloc[0] is a str here: the list / ndarray alternative of the code is
         unreachable in this branch (a leading list goes to the list branch) *)
      if above_thresh (max_min_count ser) then Inferred (Some st_multicategorical)
      else Inferred (Some st_text_embedded).

Definition infer_series_stype (col : list cell) : outcome :=
  let hasnan := has_nan col in
  let ser := dropna col in
  match ser with
  | [] => Inferred None                                (* len(ser) == 0 *)
  | c :: _ =>
      match c with                                     (* isinstance(ser.iloc[0], list) *)
      | LList first => infer_list_loop (List.length first) ser true true true
      | _ => infer_scalar_branch hasnan (dtype_of col) ser
      end
  end.

(* infer_df_stype: columns in order; a column without a type is skipped; an
   exception in one column propagates (None) *)
Fixpoint infer_df_stype (df : list (string * list cell)) : option (list (string * stype)) :=
  match df with
  | [] => Some []
  | (name, col) :: r =>
      match infer_series_stype col with
      | Raises => None
      | Inferred o =>
          match infer_df_stype r with
          | None => None
          | Some rest => Some (match o with Some s => (name, s) :: rest | None => rest end)
          end
      end
  end.

(* ---------------------------------------------------------------- magnitude / representation *)
(* every numeric value of the column multiplied by the integer k (the missing cells, and
   every non-numeric cell, stay) *)
Definition scale_cell (k : Z) (c : cell) : cell :=
  match c with
  | Float q => Float (q * inject_Z k)
  | Int z => Int (z * k)
  | c => c
  end.

(* ser.astype('int64') of a whole float, as numpy does it: values outside the int64
   range become INT64_MIN.  NOT what infer_series_stype does -- the variant of the code
   that counts whole floats after such a cast is refuted in Props/C18.v. *)
Definition int64_min : Z := (- 2 ^ 63)%Z.
Definition cast_int64 (c : cell) : cell :=
  match c with
  | Float q =>
      let z := (Qnum q / Zpos (Qden q))%Z in
      if ((int64_min <=? z) && (z <? 2 ^ 63))%Z then Int z else Int int64_min
  | c => c
  end.
Definition infer_after_int64_cast (col : list cell) : outcome :=
  if has_nan col && forallb is_integral (dropna col) && forallb is_num_cell (dropna col)
  then infer_series_stype (map cast_int64 col)
  else infer_series_stype col.

(* the string part of the decision table with its priorities made explicit *)
Definition string_column_decision (ser : list cell) : stype :=
  if is_timestamp ser then st_timestamp else string_table_spec ser.

(* ---------------------------------------------------------------- for the correspondence *)
Definition ostype_eqb (a b : option stype) : bool :=
  match a, b with
  | Some x, Some y => stype_eqb x y
  | None, None => true
  | _, _ => false
  end.

Definition outcome_eqb (a b : outcome) : bool :=
  match a, b with
  | Inferred x, Inferred y => ostype_eqb x y
  | Raises, Raises => true
  | _, _ => false
  end.

(* observed answers of the four pandas predicates on the series after dropna *)
Definition dtype_preds (col : list cell) : list bool :=
  let d := dtype_of col in
  [is_numeric_dtype d; is_bool_dtype d; is_float_dtype d; is_string_dtype d].

Fixpoint bools_eqb (a b : list bool) : bool :=
  match a, b with
  | [], [] => true
  | x :: r, y :: s => Bool.eqb x y && bools_eqb r s
  | _, _ => false
  end.

Fixpoint named_eqb (a b : list (string * stype)) : bool :=
  match a, b with
  | [], [] => true
  | (n, s) :: r, (m, t) :: q => String.eqb n m && stype_eqb s t && named_eqb r q
  | _, _ => false
  end.

Definition df_eqb (a b : option (list (string * stype))) : bool :=
  match a, b with
  | Some x, Some y => named_eqb x y
  | None, None => true
  | _, _ => false
  end.
