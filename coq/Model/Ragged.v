(* Implementation-level model of torch_frame/data/multi_tensor.py,
   multi_nested_tensor.py and multi_embedding_tensor.py, one definition per
   Python method, mirroring the code as written (after the fix: commits for
   _slice, MultiEmbeddingTensor._empty and zero-row column narrowing).
   A raised exception is None.  Definitions only. *)
From Coq Require Import ZArith List Bool Arith Lia.
From PF Require Import Lib.ListX Lib.PySlice.
Import ListNotations.

Section Ragged.
  Variable A : Type.

  (* ------------------------------------------------------------------ *)
  (* MultiNestedTensor: (num_rows, num_cols, values[numel], offset[nr*nc+1]) *)
  Record mnt := MkMnt { nr : nat; nc : nat; vals : list A; offs : list nat }.

  (* __init__ + validate():  offset[0]==0, offset[-1]==len(values),
     len(offset)==num_rows*num_cols+1 *)
  Definition mk_mnt (r c : nat) (v : list A) (o : list nat) : option mnt :=
    match o with
    | [] => None
    | o0 :: _ =>
        if (o0 =? 0) && (last o 0 =? length v) && (length o =? r * c + 1)
        then Some (MkMnt r c v o) else None
    end.

  (* from_tensor_mat: >=1 row, all rows of the length of row 0; torch.cat of an
     empty list raises, so >=1 column too *)
  Definition mnt_from_mat (m : list (list (list A))) : option mnt :=
    match m with
    | [] => None
    | r0 :: _ =>
        let c := length r0 in
        if forallb (fun r => length r =? c) m then
          if c =? 0 then None
          else
            let flat := concat m in
            mk_mnt (length m) c (concat flat) (0 :: cumsum (map (@length A) flat))
        else None
    end.

  Definition mnt_empty (t : mnt) (dim : nat) : option mnt :=
    mk_mnt (if dim =? 0 then 0 else nr t) (if dim =? 1 then 0 else nc t) [] [0].

  (* _get_value(i, j) with i, j already normalised *)
  Definition mnt_get_value (t : mnt) (i j : nat) : option (list A) :=
    let idx := i * nc t + j in
    s <- tget (offs t) idx ;;
    e <- tget (offs t) (idx + 1) ;;
    Some (tslice (vals t) s e).

  Definition mnt_row_narrow (t : mnt) (start len : nat) : option mnt :=
    let e := start + len in
    let off := tslice (offs t) (start * nc t) (e * nc t + 1) in
    o0 <- hd_error off ;;
    ol <- last_error off ;;
    mk_mnt (e - start) (nc t) (tslice (vals t) o0 ol) (map (fun o => o - o0) off).

  Definition mnt_col_narrow (t : mnt) (start len : nat) : option mnt :=
    let e := start + len in
    mat <- (if start =? 0
            then (if e <? nc t
                  then option_map (map (fun r => tslice r start (e + 1))) (reshape (nr t) (nc t) (removelast (offs t)))
                  else None)
            else option_map (map (fun r => tslice r (start - 1) e)) (reshape (nr t) (nc t) (tl (offs t)))) ;;
    offset_start <- mapM (@hd_error nat) mat ;;
    lasts <- mapM (@last_error nat) mat ;;
    let count := sub2 lasts offset_start in
    vidx <- batch_index offset_start (batched_arange count) ;;
    values <- tgather (vals t) vidx ;;
    let zero_start := map (fun p => map (fun o => o - snd p) (fst p)) (combine mat offset_start) in
    zlast <- mapM (@last_error nat) zero_start ;;
    let accum := cumsum zlast in
    (* offset_mat_zero_start[1:] += accum[:-1].view(-1, 1) *)
    let shifted := map (fun p => map (fun o => o + snd p) (fst p)) (combine zero_start (0 :: removelast accum)) in
    let ncols := e - start in
    let body := concat (map (@removelast nat) shifted) in
    if length body =? nr t * ncols
    then mk_mnt (nr t) ncols values (body ++ [sum count])
    else None.

  Definition mnt_row_index_select (t : mnt) (index : list nat) : option mnt :=
    match index with
    | [] => mnt_empty t 0
    | _ =>
        let index_right := map (fun i => (i + 1) * nc t) index in
        let index_left := map (fun i => i * nc t) index in
        o_r <- tgather (offs t) index_right ;;
        o_l <- tgather (offs t) index_left ;;
        let diff := sub2 o_r o_l in
        vidx <- batch_index o_l (batched_arange diff) ;;
        values <- tgather (vals t) vidx ;;
        (* offsets *)
        let count := repeat (nc t) (length index - 1) ++ [nc t + 1] in
        let ba := batched_arange count in
        idx <- batch_index index_left ba ;;
        o_idx <- tgather (offs t) idx ;;
        o_lb <- tgather o_l (fst ba) ;;
        let off0 := sub2 o_idx o_lb in
        let diff_cumsum := 0 :: removelast (cumsum diff) in
        dcb <- tgather diff_cumsum (fst ba) ;;
        mk_mnt (length index) (nc t) values (add2 off0 dcb)
    end.

  Definition mnt_col_index_select (t : mnt) (index : list nat) : option mnt :=
    match index with
    | [] => mnt_empty t 1
    | _ =>
        let start_idx := flat_map (fun r => map (fun i => i + r * nc t) index) (seq 0 (nr t)) in
        offset_start <- tgather (offs t) start_idx ;;
        offset_end <- tgather (offs t) (map S start_idx) ;;
        let count := sub2 offset_end offset_start in
        vidx <- batch_index offset_start (batched_arange count) ;;
        values <- tgather (vals t) vidx ;;
        mk_mnt (nr t) (length index) values (0 :: cumsum count)
    end.

  (* _single_index_select with the index already normalised *)
  Definition mnt_single_index_select (t : mnt) (i : nat) (dim : nat) : option mnt :=
    if dim =? 0 then
      let off := tslice (offs t) (i * nc t) ((i + 1) * nc t + 1) in
      o0 <- hd_error off ;;
      ol <- last_error off ;;
      mk_mnt 1 (nc t) (tslice (vals t) o0 ol) (map (fun o => o - o0) off)
    else
      let start_idx := map (fun r => r * nc t + i) (seq 0 (nr t)) in
      o_s <- tgather (offs t) start_idx ;;
      o_e <- tgather (offs t) (map S start_idx) ;;
      let diff := sub2 o_e o_s in
      vidx <- batch_index o_s (batched_arange diff) ;;
      values <- tgather (vals t) vidx ;;
      mk_mnt (nr t) 1 values (0 :: cumsum diff).

  (* ------------------------------------------------------------------ *)
  (* MultiEmbeddingTensor: values is a 2-D tensor [num_rows, width]; a 2-D
     tensor is its rows plus its width (the width survives zero rows). *)
  Record t2 := MkT2 { t2rows : list (list A); t2w : nat }.
  Record met := MkMet { er : nat; ec : nat; evals : t2; eoffs : list nat }.

  (* validate(): offset[0]==0, len(offset)==num_cols+1 *)
  Definition mk_met (r c : nat) (v : t2) (o : list nat) : option met :=
    match o with
    | [] => None
    | o0 :: _ => if (o0 =? 0) && (length o =? c + 1) then Some (MkMet r c v o) else None
    end.

  Definition t2_row_slice (v : t2) (a b : nat) : t2 := MkT2 (tslice (t2rows v) a b) (t2w v).
  Definition t2_col_slice (v : t2) (a b : nat) : t2 :=
    MkT2 (map (fun r => tslice r a b) (t2rows v)) (Nat.min b (t2w v) - a).
  Definition t2_row_gather (v : t2) (idx : list nat) : option t2 :=
    option_map (fun rs => MkT2 rs (t2w v)) (tgather (t2rows v) idx).
  Definition t2_col_gather (v : t2) (idx : list nat) : option t2 :=
    if forallb (fun i => i <? t2w v) idx
    then option_map (fun rs => MkT2 rs (length idx)) (mapM (fun r => tgather r idx) (t2rows v))
    else None.

  (* from_tensor_list: >=1 column tensor, all with the same number of rows *)
  Definition met_from_cells (m : list (list (list A))) : option met :=
    match m with
    | [] => None
    | r0 :: _ =>
        let widths := map (@length A) r0 in
        if (length r0 =? 0) then None
        else if forallb (fun r => forallb (fun p => length (fst p) =? snd p) (combine r widths)
                                    && (length r =? length r0)) m
        then mk_met (length m) (length r0) (MkT2 (map (@concat A) m) (sum widths)) (0 :: cumsum widths)
        else None
    end.

  Definition met_empty (t : met) (dim : nat) : option met :=
    let r := if dim =? 0 then 0 else er t in
    let w := if dim =? 1 then 0 else last (eoffs t) 0 in
    mk_met r (if dim =? 1 then 0 else ec t) (MkT2 (repeat [] r) w)
           (if dim =? 1 then [0] else eoffs t).

  Definition met_get_value (t : met) (i j : nat) : option (list A) :=
    row <- tget (t2rows (evals t)) i ;;
    s <- tget (eoffs t) j ;;
    e <- tget (eoffs t) (j + 1) ;;
    Some (tslice row s e).

  Definition met_row_narrow (t : met) (start len : nat) : option met :=
    mk_met len (ec t) (t2_row_slice (evals t) start (start + len)) (eoffs t).

  Definition met_col_narrow (t : met) (start len : nat) : option met :=
    o_s <- tget (eoffs t) start ;;
    o_e <- tget (eoffs t) (start + len) ;;
    mk_met (er t) len (t2_col_slice (evals t) o_s o_e)
           (map (fun o => o - o_s) (tslice (eoffs t) start (start + len + 1))).

  Definition met_row_index_select (t : met) (index : list nat) : option met :=
    v <- t2_row_gather (evals t) index ;;
    mk_met (length index) (ec t) v (eoffs t).

  Definition met_col_index_select (t : met) (index : list nat) : option met :=
    match index with
    | [] => met_empty t 1
    | _ =>
        let col_dims := sub2 (tl (eoffs t)) (removelast (eoffs t)) in
        new_col_dims <- tgather col_dims index ;;
        o_i <- tgather (eoffs t) index ;;
        value_index <- batch_index o_i (batched_arange new_col_dims) ;;
        v <- t2_col_gather (evals t) value_index ;;
        mk_met (er t) (length index) v (0 :: cumsum new_col_dims)
    end.

  Definition met_single_index_select (t : met) (i : nat) (dim : nat) : option met :=
    if dim =? 0 then
      row <- tget (t2rows (evals t)) i ;;
      mk_met 1 (ec t) (MkT2 [row] (length row)) (eoffs t)
    else
      o_s <- tget (eoffs t) i ;;
      o_e <- tget (eoffs t) (i + 1) ;;
      o_0 <- tget (eoffs t) 0 ;;
      mk_met (er t) 1 (t2_col_slice (evals t) o_s o_e) [o_0 - o_0; o_e - o_s].

  (* ------------------------------------------------------------------ *)
  (* _MultiTensor: the dispatch shared by both containers *)
  Record kernels (T : Type) := {
    k_rows : T -> nat;
    k_cols : T -> nat;
    k_get_value : T -> nat -> nat -> option (list A);
    k_row_narrow : T -> nat -> nat -> option T;
    k_col_narrow : T -> nat -> nat -> option T;
    k_row_index_select : T -> list nat -> option T;
    k_col_index_select : T -> list nat -> option T;
    k_single_index_select : T -> nat -> nat -> option T;
    k_empty : T -> nat -> option T;
  }.

  Definition mnt_kernels : kernels mnt :=
    {| k_rows := nr; k_cols := nc; k_get_value := mnt_get_value;
       k_row_narrow := mnt_row_narrow; k_col_narrow := mnt_col_narrow;
       k_row_index_select := mnt_row_index_select; k_col_index_select := mnt_col_index_select;
       k_single_index_select := mnt_single_index_select; k_empty := mnt_empty |}.

  Definition met_kernels : kernels met :=
    {| k_rows := er; k_cols := ec; k_get_value := met_get_value;
       k_row_narrow := met_row_narrow; k_col_narrow := met_col_narrow;
       k_row_index_select := met_row_index_select; k_col_index_select := met_col_index_select;
       k_single_index_select := met_single_index_select; k_empty := met_empty |}.

  Section Dispatch.
    Variable T : Type.
    Variable K : kernels T.

    Definition size (t : T) (dim : nat) : nat := if dim =? 0 then k_rows T K t else k_cols T K t.

    (* _normalize_index, tensor branch (check_out_of_bounds=True) *)
    Definition normalize_tensor (n : nat) (l : list Z) : option (list nat) := mapM (norm_index n) l.

    (* index_select(index, dim) on an integer tensor *)
    Definition index_select (t : T) (idx : list nat) (dim : nat) : option T :=
      if dim =? 0 then k_row_index_select T K t idx else k_col_index_select T K t idx.

    (* narrow(dim, start, length); assert start >= 0 is met by nat *)
    Definition narrow (t : T) (dim start : nat) (len : Z) : option T :=
      let n := size t dim in
      if (start =? 0) && (Z.of_nat n <=? Z.of_nat start + len)%Z then Some t
      else if (len <=? 0)%Z then k_empty T K t dim
      else if dim =? 0 then k_row_narrow T K t start (Z.to_nat len)
      else k_col_narrow T K t start (Z.to_nat len).

    (* _slice(index, dim) *)
    Definition slice_ (t : T) (a b s : option Z) (dim : nat) : option T :=
      let n := size t dim in
      let st := match s with None => 1%Z | Some v => v end in
      if (st <=? 0)%Z then None
      else
        let '(lo, hi) := slice_indices n a b in
        if (1 <? st)%Z then index_select t (range_up lo hi (Z.to_nat st)) dim
        else narrow t dim lo (Z.of_nat hi - Z.of_nat lo).

    (* select(index, dim), dim already normalised *)
    Definition select (t : T) (ix : index) (dim : nat) : option T :=
      let n := size t dim in
      match ix with
      | IInt i => k <- norm_index n i ;; k_single_index_select T K t k dim
      | ISlice a b s => slice_ t a b s dim
      | IList l | ITensor l => idx <- normalize_tensor n l ;; index_select t idx dim
      | IRange a b s => l <- py_range a b s ;; idx <- normalize_tensor n l ;; index_select t idx dim
      | IMask m => if length m =? n then index_select t (nonzero m) dim else None
      end.

    (* __getitem__((i, j)) *)
    Inductive item := ItemValue (v : list A) | ItemTensor (t : T).
    Definition getitem_pair (t : T) (i j : index) : option item :=
      match i, j with
      | IInt a, IInt b =>
          a' <- norm_index (k_rows T K t) a ;;
          b' <- norm_index (k_cols T K t) b ;;
          option_map ItemValue (k_get_value T K t a' b')
      | _, _ => t1 <- select t i 0 ;; t2 <- select t1 j 1 ;; Some (ItemTensor t2)
      end.
  End Dispatch.
End Ragged.

Arguments MkMnt {A}. Arguments nr {A}. Arguments nc {A}. Arguments vals {A}. Arguments offs {A}.
Arguments MkMet {A}. Arguments er {A}. Arguments ec {A}. Arguments evals {A}. Arguments eoffs {A}.
Arguments MkT2 {A}. Arguments t2rows {A}. Arguments t2w {A}.
