(* Executable model of torch_frame/transforms/cat_to_num_transform.py (CatToNumTransform._fit / ._forward, as
   repaired: the output width follows the fitted num_classes), fittable_base_transform.py (fit, forward, __call__,
   _replace_nans, is_fitted, state_dict / load_state_dict) and base_transform.py (transformed_stats).
   Definitions only; lemmas live in Proofs/CatToNumProofs.v.  A raise is None.  Arithmetic is over Q.

   A TensorFrame is modelled with the two stypes the transform touches.  A tensor [N, C] is kept COLUMN-major
   (list of C columns of N cells) because the code works column by column (tensor[:, i]). *)
From Coq Require Import String Ascii DecimalString.
From Coq Require Import List ZArith QArith Bool Arith.
From PF Require Import Lib.ListX.
Import ListNotations.
Open Scope Q_scope.

(* ---------------------------------------------------------------- frames *)
Definition ncell := option Q.                              (* numerical cell; None = NaN *)
Record block (A : Type) := mkblock { b_names : list string;     (* col_names_dict[stype] *)
                                     b_cols : list (list A) }.  (* feat_dict[stype], column-major *)
Arguments mkblock {A}. Arguments b_names {A}. Arguments b_cols {A}.

Inductive target := YFloat (ys : list (option Q))          (* floating-point y; None = NaN *)
                  | YInt (ys : list Z).                    (* integer y *)
Definition target_len (y : target) : nat := match y with YFloat l => length l | YInt l => length l end.

Record tframe := mkframe { tf_num : option (block ncell);      (* stype.numerical present in the dicts? *)
                           tf_cat : option (block Z);          (* stype.categorical; -1 (any negative) = missing *)
                           tf_y : option target }.

Definition block_rows {A} (b : block A) : nat := match b_cols b with c :: _ => length c | [] => 0%nat end.
(* TensorFrame.num_rows: length of the first feature tensor *)
Definition num_rows (tf : tframe) : nat :=
  match tf_num tf, tf_cat tf with
  | Some b, _ => block_rows b
  | None, Some b => block_rows b
  | None, None => 0%nat
  end.

(* TensorFrame.validate: names/width agree, no empty stype, all tensors and y have num_rows rows *)
Definition block_ok {A} (n : nat) (ob : option (block A)) : bool :=
  match ob with
  | None => true
  | Some b => (length (b_names b) =? length (b_cols b))%nat && negb (length (b_names b) =? 0)%nat
              && forallb (fun c => length c =? n)%nat (b_cols b)
  end.
Definition y_ok (n : nat) (oy : option target) : bool :=
  match oy with None => true | Some y => (target_len y =? n)%nat end.
Definition validate (tf : tframe) : option tframe :=
  let n := num_rows tf in
  if block_ok n (tf_num tf) && block_ok n (tf_cat tf) && y_ok n (tf_y tf) then Some tf else None.

(* ---------------------------------------------------------------- fitted state *)
(* col_stats: column name -> StatType.COUNT[1] (count per category index, most frequent first).  Numerical columns
   have an entry too (their statistics are copied, not read; the list is then ignored). *)
Definition col_stats := list (string * list Z).
Fixpoint assoc (name : string) (cs : col_stats) : option (list Z) :=      (* col_stats[name]; KeyError = None *)
  match cs with
  | [] => None
  | (n, v) :: r => if String.eqb n name then Some v else assoc name r
  end.

Record fitted := mkfitted { f_stats : col_stats;           (* self.col_stats *)
                            f_size : nat;                  (* self.data_size *)
                            f_classes : nat;               (* self.num_classes *)
                            f_prior : list Q;              (* self.target_mean: [num_classes - 1] (a scalar = 1 entry) *)
                            f_new_columns : list string }. (* self.new_columns *)
Record transform := mktransform { t_is_fitted : bool;                 (* self._is_fitted *)
                                  t_state : option fitted;            (* attributes set by _fit, if ever *)
                                  t_stats_keys : option (list string) }.  (* keys of self._transformed_stats *)
Definition fresh : transform := mktransform false None None.           (* CatToNumTransform() *)

(* BaseTransform.transformed_stats (keys): ValueError when not computed yet *)
Definition transformed_stats_keys (t : transform) : option (list string) := t_stats_keys t.

(* ---------------------------------------------------------------- helpers *)
Definition qsum (l : list Q) : Q := fold_right Qplus 0 l.
Definition qnat (n : nat) : Q := inject_Z (Z.of_nat n).
Definition qmean (l : list Q) : Q := qsum l / qnat (length l).

(* f"{col_name}_{i}" *)
Definition gen_name (col : string) (k : nat) : string :=
  (col ++ "_" ++ NilEmpty.string_of_uint (Nat.to_uint k))%string.
Definition gen_names (cols : list string) (width : nat) : list string :=
  flat_map (fun c => map (gen_name c) (seq 0 width)) cols.

(* keys of a dict filled by successive d[k] = ... : first occurrence order, no duplicates *)
Fixpoint dict_keys (l : list string) : list string :=
  match l with
  | [] => []
  | x :: r => x :: filter (fun y => negb (String.eqb x y)) (dict_keys r)
  end.

(* len(set(names)) == len(names) *)
Fixpoint nodupb (l : list string) : bool :=
  match l with
  | [] => true
  | x :: r => negb (existsb (String.eqb x) r) && nodupb r
  end.

(* FittableBaseTransform._replace_nans(x, MOST_FREQUENT), one categorical column:
   nan_mask = col < 0; all missing (also: no rows) -> ValueError; missing -> 0, the most frequent category *)
Definition replace_nans_col (col : list Z) : option (list Z) :=
  if forallb (fun c => c <? 0)%Z col then None
  else Some (map (fun c => if (c <? 0)%Z then 0%Z else c) col).
Definition replace_nans (cols : list (list Z)) : option (list (list Z)) := mapM replace_nans_col cols.

Definition zmax (l : list Z) : option Z :=
  match l with [] => None | x :: r => Some (fold_left Z.max r x) end.

(* the class decision and the prior of _fit:
     integer y with max > 1  -> multiclass: num_classes = max + 1, prior = mean of one_hot(y)[:, :-1] per class
     otherwise               -> num_classes = 2, prior = mean of the non-NaN targets (a scalar)                 *)
Definition target_prior (y : target) : option (nat * list Q) :=
  match y with
  | YInt ys =>
      m <- zmax ys ;;                                         (* y.max() of an empty tensor raises *)
      if (1 <? m)%Z then
        if existsb (fun v => v <? 0)%Z ys then None else      (* F.one_hot rejects negative labels *)
        let k := (Z.to_nat m + 1)%nat in
        Some (k, map (fun c => qmean (map (fun v => if (v =? Z.of_nat c)%Z then 1 else 0) ys)) (seq 0 (k - 1)))
      else Some (2%nat, [qmean (map inject_Z ys)])
  | YFloat ys =>
      let vals := flat_map (fun v => match v with Some q => [q] | None => [] end) ys in
      match vals with
      | [] => None                                            (* "Target value contains only nans." / mean of nothing *)
      | _ => Some (2%nat, [qmean vals])
      end
  end.

(* (v + target_mean) / (data_size + 1) for one category index of one generated column;
   the index is >= 0 after _replace_nans and < len(count) by the preceding check *)
Definition cell_value (count : list Z) (size : nat) (pk : Q) (c : Z) : Q :=
  (inject_Z (nth (Z.to_nat c) count 0%Z) + pk) / qnat (size + 1).

(* the per-column body of the loops in _fit / _forward: count lookup by column name, range check, one generated
   column per entry of target_mean (= per non-reference class) *)
Definition encode_col (cs : col_stats) (size : nat) (prior : list Q) (name : string) (col : list Z)
  : option (list (list ncell)) :=
  count <- assoc name cs ;;                                                   (* KeyError *)
  if existsb (fun c => (Z.of_nat (length count) <=? c)%Z) col then None       (* new category / index_select range *)
  else Some (map (fun pk => map (fun c => Some (cell_value count size pk c)) col) prior).

Fixpoint encode_cols (cs : col_stats) (size : nat) (prior : list Q) (names : list string) (cols : list (list Z))
  : option (list (list ncell)) :=
  match names, cols with
  | n :: nr, c :: cr =>
      g <- encode_col cs size prior n c ;;
      rest <- encode_cols cs size prior nr cr ;;
      Some (g ++ rest)
  | [], _ => Some []                       (* for i in range(len(col_names_dict[categorical])) *)
  | _ :: _, [] => None                     (* tensor[:, i] out of range *)
  end.

(* ---------------------------------------------------------------- _fit / fit *)
Definition fit (t : transform) (tf_train : tframe) (cs : col_stats) : option transform :=
  match tf_y tf_train with
  | None => None                                                             (* RuntimeError: target is None *)
  | Some y =>
      match tf_cat tf_train with
      | None =>                                                              (* nothing to fit *)
          Some (mktransform true (t_state t) (Some (dict_keys (map fst cs))))
      | Some cb =>
          tensor <- replace_nans (b_cols cb) ;;
          let size := block_rows cb in                                       (* tensor.size(0) *)
          kp <- target_prior y ;;
          let '(k, prior) := kp in
          _ <- encode_cols cs size prior (b_names cb) tensor ;;              (* transformed_tensor (for the stats) *)
          let new_columns := gen_names (b_names cb) (k - 1) in
          let num_names := match tf_num tf_train with Some nb => b_names nb | None => [] end in
          (* ValueError: generated names clash with each other or with the numerical columns *)
          if negb (nodupb (num_names ++ new_columns)) then None else
          _ <- mapM (fun n => assoc n cs) num_names ;;                       (* copy.copy(col_stats[col]) *)
          Some (mktransform true
                            (Some (mkfitted cs size k prior new_columns))
                            (Some (dict_keys (num_names ++ new_columns))))
      end
  end.

(* ---------------------------------------------------------------- _forward / forward / __call__ *)
Definition _forward (t : transform) (tf : tframe) : option tframe :=
  match tf_cat tf with
  | None => Some tf                                                          (* no categorical columns *)
  | Some cb =>
      st <- t_state t ;;                                                     (* AttributeError if _fit never set it *)
      tensor <- replace_nans (b_cols cb) ;;
      gen <- encode_cols (f_stats st) (f_size st) (f_prior st) (b_names cb) tensor ;;
      let nb := match tf_num tf with
                | Some nb => mkblock (b_names nb ++ f_new_columns st) (b_cols nb ++ gen)    (* torch.cat(dim=1) *)
                | None => mkblock (f_new_columns st) gen
                end in
      Some (mkframe (Some nb) None (tf_y tf))                                (* pop the categorical entries *)
  end.

Definition forward (t : transform) (tf : tframe) : option tframe :=
  if negb (t_is_fitted t) then None                                          (* ValueError: not yet fitted *)
  else out <- _forward t tf ;; validate out.

(* __call__ = forward(copy.copy(tf)).  The shallow copy owns fresh dicts, _forward only rebinds / pops dict
   entries of that copy and never writes into a tensor, so in this pure model the copy is the identity and the
   caller's frame is untouched by construction (the harness checks this on the real objects). *)
Definition call (t : transform) (tf : tframe) : option tframe := forward t tf.

(* state_dict returns __dict__; load_state_dict updates __dict__ with it (all three attributes are overwritten) *)
Definition state_dict (t : transform) : transform := t.
Definition load_state_dict (t : transform) (sd : transform) : transform := sd.

(* ---------------------------------------------------------------- frame operations used in statements *)
Definition set_y (tf : tframe) (y : option target) : tframe := mkframe (tf_num tf) (tf_cat tf) y.

Definition select_block {A} (idx : list nat) (b : block A) : option (block A) :=
  cols <- mapM (fun c => tgather c idx) (b_cols b) ;; Some (mkblock (b_names b) cols).
Definition select_oblock {A} (idx : list nat) (ob : option (block A)) : option (option (block A)) :=
  match ob with None => Some None | Some b => b' <- select_block idx b ;; Some (Some b') end.
Definition select_target (idx : list nat) (oy : option target) : option (option target) :=
  match oy with
  | None => Some None
  | Some (YFloat l) => l' <- tgather l idx ;; Some (Some (YFloat l'))
  | Some (YInt l) => l' <- tgather l idx ;; Some (Some (YInt l'))
  end.
(* tf[idx] for an index tensor of in-range non-negative positions *)
Definition select_rows (idx : list nat) (tf : tframe) : option tframe :=
  n <- select_oblock idx (tf_num tf) ;; c <- select_oblock idx (tf_cat tf) ;; y <- select_target idx (tf_y tf) ;;
  Some (mkframe n c y).

(* ---------------------------------------------------------------- the documented formula (specification level) *)
(* a missing category is treated as category 0, the most frequent one *)
Definition imputed (c : Z) : nat := if (c <? 0)%Z then 0%nat else Z.to_nat c.
(* (category count + prior) / (training rows + 1) *)
Definition estimate (count : list Z) (n_train : nat) (prior : Q) (c : Z) : Q :=
  (inject_Z (nth (imputed c) count 0%Z) + prior) / qnat (n_train + 1).
(* the generated columns of one categorical column: one per prior entry (non-reference class) *)
Definition estimate_cols (count : list Z) (n_train : nat) (prior : list Q) (col : list Z) : list (list ncell) :=
  map (fun pk => map (fun c => Some (estimate count n_train pk c)) col) prior.

Definition num_names (tf : tframe) : list string := match tf_num tf with Some nb => b_names nb | None => [] end.
Definition num_cols (tf : tframe) : list (list ncell) := match tf_num tf with Some nb => b_cols nb | None => [] end.
(* all generated columns: categorical column by categorical column, class by class *)
Definition spec_cols (counts : list (list Z)) (n_train : nat) (prior : list Q) (cols : list (list Z))
  : list (list ncell) :=
  flat_map (fun cc => estimate_cols (fst cc) n_train prior (snd cc)) (combine counts cols).
(* the documented result: original numerical columns, then the generated ones; no categorical block; y untouched *)
Definition transform_spec (counts : list (list Z)) (n_train k : nat) (prior : list Q) (tf : tframe) : tframe :=
  match tf_cat tf with
  | None => tf
  | Some cb => mkframe (Some (mkblock (num_names tf ++ gen_names (b_names cb) (k - 1))
                                      (num_cols tf ++ spec_cols counts n_train prior (b_cols cb))))
                       None (tf_y tf)
  end.
(* a categorical column within the property's domain *)
Definition has_nonmissing (col : list Z) : Prop := exists c, In c col /\ (0 <= c)%Z.
Definition all_seen (count : list Z) (col : list Z) : Prop := Forall (fun c => (imputed c < length count)%nat) col.

(* ---------------------------------------------------------------- histories, for the correspondence check *)
Inductive step := SFit (tf : tframe) (cs : col_stats) | SCall (tf : tframe) | SRoundTrip | SKeys.
Inductive obs := OErr | ODone | OKeys (k : list string)
               | OFrame (names : list string) (cols : list (list ncell)) (has_cat : bool).

Definition observe (o : option tframe) : obs :=
  match o with
  | None => OErr
  | Some f => match tf_num f with
              | Some nb => OFrame (b_names nb) (b_cols nb) (match tf_cat f with Some _ => true | None => false end)
              | None => OFrame [] [] (match tf_cat f with Some _ => true | None => false end)
              end
  end.

Fixpoint run_history (t : transform) (p : list step) : list obs :=
  match p with
  | [] => []
  | SFit tf cs :: r => match fit t tf cs with
                       | Some t' => ODone :: run_history t' r
                       | None => [OErr]                                      (* the history ends at a failed fit *)
                       end
  | SCall tf :: r => observe (call t tf) :: run_history t r
  | SRoundTrip :: r => ODone :: run_history (load_state_dict fresh (state_dict t)) r
  | SKeys :: r => match transformed_stats_keys t with
                  | Some k => OKeys k :: run_history t r
                  | None => OErr :: run_history t r
                  end
  end.

(* comparison with the implementation's observation: names exactly, original numerical cells exactly (NaN = NaN),
   generated cells within tol (the implementation computes in float32) *)
Fixpoint list_eqb {X} (e : X -> X -> bool) (a b : list X) : bool :=
  match a, b with
  | [], [] => true
  | x :: a', y :: b' => e x y && list_eqb e a' b'
  | _, _ => false
  end.
Definition cell_close (tol : Q) (a b : ncell) : bool :=
  match a, b with
  | None, None => true
  | Some x, Some y => Qle_bool (x - y) tol && Qle_bool (y - x) tol
  | _, _ => false
  end.
Definition obs_close (tol : Q) (a b : obs) : bool :=
  match a, b with
  | OErr, OErr => true
  | ODone, ODone => true
  | OKeys k, OKeys k' => list_eqb String.eqb k k'
  | OFrame n c h, OFrame n' c' h' => list_eqb String.eqb n n' && list_eqb (list_eqb (cell_close tol)) c c' && Bool.eqb h h'
  | _, _ => false
  end.
Definition history_agrees (tol : Q) (p : list step) (o : list obs) : bool :=
  list_eqb (obs_close tol) (run_history fresh p) o.

(* ---------------------------------------------------------------- object store: state_dict / load_state_dict as written
   fittable_base_transform.py:  state_dict() returns self.__dict__  -- the LIVE attribute dict, no copy;
                                load_state_dict(sd) does self.__dict__.update(sd) and returns self.
   A transform object is an entry of a heap: object id -> attribute dict (association list in insertion order).  A
   state dict handed around is either a REFERENCE to an object's live dict (state_dict() itself) or a detached COPY
   (copy.deepcopy / torch.save + torch.load).  The fitted attributes col_stats, data_size, num_classes, target_mean,
   new_columns are set and read together; they are kept as ONE attribute "fit_attrs". *)
Inductive aval := ANone | ABool (b : bool) | AKeys (k : list string) | AState (s : fitted).
Definition adict := list (string * aval).

Fixpoint dget (k : string) (d : adict) : option aval :=
  match d with
  | [] => None
  | (k', v) :: r => if String.eqb k' k then Some v else dget k r
  end.
(* d[k] = v : an existing key keeps its position *)
Fixpoint dset (k : string) (v : aval) (d : adict) : adict :=
  match d with
  | [] => [(k, v)]
  | (k', v') :: r => if String.eqb k' k then (k', v) :: r else (k', v') :: dset k v r
  end.
(* d.update(s) *)
Definition dupdate (d s : adict) : adict := fold_left (fun acc kv => dset (fst kv) (snd kv) acc) s d.

(* the attribute dict of a transform value, and back (None: an attribute every use needs is missing -> AttributeError) *)
Definition to_dict (t : transform) : adict :=
  [("_transformed_stats"%string, match t_stats_keys t with Some k => AKeys k | None => ANone end);
   ("_is_fitted"%string, ABool (t_is_fitted t))]
  ++ match t_state t with Some s => [("fit_attrs"%string, AState s)] | None => [] end.
Definition of_dict (d : adict) : option transform :=
  match dget "_is_fitted" d, dget "_transformed_stats" d with
  | Some (ABool b), Some ts =>
      let keys := match ts with AKeys k => Some k | _ => None end in
      let st := match dget "fit_attrs" d with Some (AState s) => Some s | _ => None end in
      Some (mktransform b st keys)
  | _, _ => None
  end.

Definition heap := list (nat * adict).
Fixpoint hget (o : nat) (h : heap) : option adict :=
  match h with [] => None | (o', d) :: r => if (o' =? o)%nat then Some d else hget o r end.
Fixpoint hset (o : nat) (d : adict) (h : heap) : heap :=
  match h with
  | [] => [(o, d)]
  | (o', d') :: r => if (o' =? o)%nat then (o', d) :: r else (o', d') :: hset o d r
  end.

Inductive sref := RLive (o : nat) | RCopy (d : adict).
(* sd = obj.state_dict()  /  copy.deepcopy(obj.state_dict()) *)
Definition st_state_dict (h : heap) (o : nat) (copy : bool) : option sref :=
  d <- hget o h ;; Some (if copy then RCopy d else RLive o).
Definition deref (h : heap) (r : sref) : option adict :=
  match r with RLive o => hget o h | RCopy d => Some d end.
(* dst.load_state_dict(sd) *)
Definition st_load (h : heap) (dst : nat) (r : sref) : option heap :=
  dd <- hget dst h ;; s <- deref h r ;; Some (hset dst (dupdate dd s) h).
(* the seeded variant C17_10: self.__dict__.clear() before the update -- the source is read AFTER the clear *)
Definition st_load_clear (h : heap) (dst : nat) (r : sref) : option heap :=
  _ <- hget dst h ;;
  let h1 := hset dst [] h in
  s <- deref h1 r ;; Some (hset dst (dupdate [] s) h1).
(* CatToNumTransform() *)
Definition st_new (h : heap) : nat * heap := let o := length h in (o, h ++ [(o, to_dict fresh)]).
(* obj.fit(tf, cs): _fit assigns the attributes, fit sets _is_fitted *)
Definition st_fit (h : heap) (o : nat) (tf : tframe) (cs : col_stats) : option heap :=
  d <- hget o h ;; t <- of_dict d ;; t' <- fit t tf cs ;; Some (hset o (dupdate d (to_dict t')) h).
Definition st_call (h : heap) (o : nat) (tf : tframe) : option tframe :=
  d <- hget o h ;; t <- of_dict d ;; call t tf.
Definition st_keys (h : heap) (o : nat) : option (list string) :=
  d <- hget o h ;; t <- of_dict d ;; transformed_stats_keys t.

(* histories over several transform objects, as the harness drives them: slot i holds the object currently bound to
   the harness variable t_i; a round trip into a fresh instance rebinds the slot *)
Inductive rt_kind := RtFresh (copy : bool) | RtSelf | RtSelf2.
Inductive mstep :=
  | MFit (i : nat) (tf : tframe) (cs : col_stats) | MCall (i : nat) (tf : tframe) | MKeys (i : nat)
  | MRound (i : nat) (k : rt_kind)            (* t_i = New().load_state_dict(sd(t_i)) / t_i.load_state_dict(t_i.state_dict()) *)
  | MSave (i : nat) (copy : bool)             (* s_i = t_i.state_dict()  (live)  /  a detached copy of it *)
  | MLoad (i : nat) (into_self : bool).       (* t_i = New().load_state_dict(s_i)  /  t_i.load_state_dict(s_i) *)

Record world := mkworld { w_heap : heap; w_slot : list (nat * nat); w_saved : list (nat * sref) }.
Fixpoint nget {A} (i : nat) (l : list (nat * A)) : option A :=
  match l with [] => None | (j, a) :: r => if (j =? i)%nat then Some a else nget i r end.
Definition nset {A} (i : nat) (a : A) (l : list (nat * A)) : list (nat * A) := (i, a) :: l.

(* the object bound to slot i; a slot is created (CatToNumTransform()) at its first use *)
Definition slot_obj (w : world) (i : nat) : nat * world :=
  match nget i (w_slot w) with
  | Some o => (o, w)
  | None => let '(o, h) := st_new (w_heap w) in (o, mkworld h (nset i o (w_slot w)) (w_saved w))
  end.

Definition load_fresh (w : world) (i : nat) (r : sref) : option world :=
  let '(o', h) := st_new (w_heap w) in
  h' <- st_load h o' r ;; Some (mkworld h' (nset i o' (w_slot w)) (w_saved w)).

Fixpoint run_store (w : world) (p : list mstep) : list obs :=
  match p with
  | [] => []
  | MFit i tf cs :: r =>
      let '(o, w1) := slot_obj w i in
      match st_fit (w_heap w1) o tf cs with
      | Some h => ODone :: run_store (mkworld h (w_slot w1) (w_saved w1)) r
      | None => [OErr]
      end
  | MCall i tf :: r => let '(o, w1) := slot_obj w i in observe (st_call (w_heap w1) o tf) :: run_store w1 r
  | MKeys i :: r =>
      let '(o, w1) := slot_obj w i in
      (match st_keys (w_heap w1) o with Some k => OKeys k | None => OErr end) :: run_store w1 r
  | MRound i k :: r =>
      let '(o, w1) := slot_obj w i in
      let res := match k with
                 | RtFresh copy => sd <- st_state_dict (w_heap w1) o copy ;; load_fresh w1 i sd
                 | RtSelf => h <- st_load (w_heap w1) o (RLive o) ;; Some (mkworld h (w_slot w1) (w_saved w1))
                 | RtSelf2 => h <- st_load (w_heap w1) o (RLive o) ;; h2 <- st_load h o (RLive o) ;;
                              Some (mkworld h2 (w_slot w1) (w_saved w1))
                 end in
      match res with Some w2 => ODone :: run_store w2 r | None => OErr :: run_store w1 r end
  | MSave i copy :: r =>
      let '(o, w1) := slot_obj w i in
      match st_state_dict (w_heap w1) o copy with
      | Some sd => ODone :: run_store (mkworld (w_heap w1) (w_slot w1) (nset i sd (w_saved w1))) r
      | None => OErr :: run_store w1 r
      end
  | MLoad i into_self :: r =>
      let '(o, w1) := slot_obj w i in
      let res := sd <- nget i (w_saved w1) ;;
                 if into_self then h <- st_load (w_heap w1) o sd ;; Some (mkworld h (w_slot w1) (w_saved w1))
                 else load_fresh w1 i sd in
      match res with Some w2 => ODone :: run_store w2 r | None => OErr :: run_store w1 r end
  end.

Definition store_history_agrees (tol : Q) (p : list mstep) (o : list obs) : bool :=
  list_eqb (obs_close tol) (run_store (mkworld [] [] []) p) o.
