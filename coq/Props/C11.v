(* C11 -- save/load and the materialisation cache round-trip losslessly.
   Statements only; every proof is a one- or two-line application of a lemma of
   Proofs/IOProofs.v.

   Reading guide.  The model (Model/IO.v) mirrors utils/io.py, _MultiTensor.to_dict,
   the keyword constructors, TensorFrame.validate and Dataset.materialize(path).
   The bytes torch.save writes and torch.load reads are torch's, not the
   repository's: they enter ONLY as the opaque pair enc/dec and the two
   hypotheses below.  Every theorem of the Section is therefore conditional on
     H_dec_enc            torch.load returns what torch.save was given, and
     H_load_prefix_fails  torch.load rejects every strict prefix of a file
                          torch.save wrote,
   and the harness (harness/c11.py) validates both against the real torch on
   every run (round trips of library-produced frames; every truncation point
   of written cache files in the thorough tier, a stratified subset in quick). *)
From Coq Require Import List Arith Bool String ZArith Lia.
From PF Require Import Lib.ListX Gen.Tables Model.IO Model.IORun Model.IOSup Model.IOSupRun Proofs.IOProofs Proofs.IOSupProofs.
Import ListNotations.

(* Finite-domain facts about the GENERATED storage-flag tables (proved by case
   analysis over the generated enum; re-proved whenever /repo's _stype.py changes
   Gen/Tables.v): the flag serialize_feat_dict branches on is the disjunction of
   the two deserialize_feat_dict branches on, and no stype claims two storage kinds. *)
Theorem storage_flag_of_serialize_agrees : forall st,
  use_multi_tensor st = use_multi_nested st || use_multi_embedding st.
Proof. exact use_multi_tensor_spec. Qed.

Theorem storage_kinds_exclusive : forall st,
  (use_multi_nested st = true -> use_multi_embedding st = false /\ use_dict_nested st = false) /\
  (use_multi_embedding st = true -> use_multi_nested st = false /\ use_dict_nested st = false) /\
  (use_dict_nested st = true -> use_multi_nested st = false /\ use_multi_embedding st = false).
Proof. exact flags_exclusive. Qed.

Section C11.
  Variable tensor : Type.                         (* dense tensors are moved, never computed on *)
  Variable tdim : tensor -> nat.
  Variable tsize : tensor -> nat -> nat.
  Variable valid_nested valid_embed : nat -> nat -> tensor -> tensor -> bool.
  Variable stats : Type.                          (* col_stats: any picklable value *)

  (* For EVERY stype of the generated enum and every storage class legal under
     its flags: deserialize (serialize feat) = feat.  An stype whose flags do not
     select exactly the branch pair of io.py (a new storage kind, two kinds at
     once) makes this stop proving. *)
  Theorem feat_roundtrip_every_stype : forall (st : stype) (f : feat tensor),
    feat_wf valid_nested valid_embed st f ->
    exists s, serialize_feat st f = Some s /\
              deserialize_feat valid_nested valid_embed st s = Some f.
  Proof. exact (feat_roundtrip tensor valid_nested valid_embed). Qed.

  Theorem feat_dict_roundtrip : forall fd : list (stype * feat tensor),
    feat_dict_wf valid_nested valid_embed fd ->
    exists sd, serialize_feat_dict fd = Some sd /\
               deserialize_feat_dict valid_nested valid_embed sd = Some fd /\
               map fst sd = map fst fd.
  Proof. exact (IOProofs.feat_dict_roundtrip tensor valid_nested valid_embed). Qed.

  (* the decision procedure the harness evaluates on real frames is sound for
     the hypothesis of the theorems below *)
  Theorem tframe_wfb_sound : forall t : tframe tensor,
    tframe_wfb tdim tsize valid_nested valid_embed t = true ->
    tframe_wf tdim tsize valid_nested valid_embed t.
  Proof. exact (IOProofs.tframe_wfb_sound tensor tdim tsize valid_nested valid_embed). Qed.

  Variable byte : Type.
  Variable enc : payload tensor stats -> list byte.          (* torch.save *)
  Variable dec : list byte -> option (payload tensor stats). (* torch.load; None = raises *)
  Hypothesis H_dec_enc : forall x, dec (enc x) = Some x.
  Hypothesis H_load_prefix_fails : forall x k, k < List.length (enc x) -> dec (firstn k (enc x)) = None.

  (* load (save tf stats) = (tf, stats): every frame that exists at run time
     (views, zero-row frames, frames without target, frames without features
     that carry an explicit num_rows are all instances of tframe_wf). *)
  Theorem save_load_roundtrip : forall (t : tframe tensor) (cs : stats),
    tframe_wf tdim tsize valid_nested valid_embed t ->
    exists b, save enc t cs = Some b /\
              load tdim tsize valid_nested valid_embed dec b = Some (t, cs).
  Proof. intros t cs. eapply IOProofs.save_load_roundtrip; eassumption. Qed.

  (* a file cut short at any point raises: load adds no fallback of its own *)
  Theorem truncated_file_never_loads : forall (t : tframe tensor) (cs : stats) b k,
    save enc t cs = Some b -> k < List.length b ->
    load tdim tsize valid_nested valid_embed dec (firstn k b) = None.
  Proof. intros t cs b k. eapply truncated_never_loads; eassumption. Qed.

  (* Soundness of load, for ANY byte string (a file torch_frame.save never wrote,
     a payload crafted with torch.save, an older layout ...): whatever load
     returns went through deserialize_feat_dict's class dispatch, the keyword
     constructors' validate() and TensorFrame.validate(), hence is a well-formed
     frame -- load either raises or hands back a frame consistent with itself,
     never an inconsistent one.  (No hypothesis about the codec is used.) *)
  Theorem load_returns_only_wellformed_frames : forall b (t : tframe tensor) (cs : stats),
    load tdim tsize valid_nested valid_embed dec b = Some (t, cs) ->
    tframe_wf tdim tsize valid_nested valid_embed t.
  Proof. eapply load_sound. Qed.

  (* ... and such a frame, saved again, loads to itself: a second generation
     from any file whatsoever. *)
  Theorem loaded_frame_saves_and_loads_to_itself : forall b (t : tframe tensor) (cs : stats),
    load tdim tsize valid_nested valid_embed dec b = Some (t, cs) ->
    exists b', save enc t cs = Some b' /\
               load tdim tsize valid_nested valid_embed dec b' = Some (t, cs).
  Proof. eapply loaded_frame_roundtrips; eassumption. Qed.

  (* ---- the cache, over all event histories ------------------------- *)
  Variable rows cout : Type.
  Variable conv : stats -> rows -> option cout.   (* the converter, as a function of the statistics it holds *)
  Variable ft : tframe tensor.                    (* the fresh computation of materialize: frame *)
  Variable fcs : stats.                           (*                                     ... statistics *)
  Hypothesis H_fresh_wf : tframe_wf tdim tsize valid_nested valid_embed ft.
  Variable B : list byte.                         (* the bytes a complete save of it writes *)
  Hypothesis H_B : save enc ft fcs = Some B.

  Local Notation step := (IO.step tdim tsize valid_nested valid_embed enc dec conv (ft, fcs)).
  Local Notation run := (IO.run tdim tsize valid_nested valid_embed enc dec conv (ft, fcs)).
  Local Notation init := (IO.init tensor stats byte).

  (* Every history of materialize(path) / materialize() / new Dataset +
     materialize / crash k bytes into a save (ANY k) / convert: each materialize
     raises or returns EXACTLY the fresh frame and statistics, each convert
     raises or returns exactly what the fresh statistics' converter returns.
     Never a partial frame. *)
  Theorem history_never_partial : forall h : list (event rows),
    Forall2 (complete_or_raise conv (ft, fcs)) h (snd (run init h)).
  Proof. intros h. eapply run_never_partial; eassumption. Qed.

  (* Without crashes nothing ever raises: every materialize, with or without
     the path, by the old or a new Dataset object, after any history, returns
     exactly what a fresh computation returns. *)
  Theorem crash_free_history_returns_fresh : forall h : list (event rows),
    crash_free h ->
    Forall2 (fun e o => is_materialize e = true -> o = OMat cout ft fcs) h (snd (run init h)).
  Proof.
    intros h Hcf. eapply run_crash_free; try eassumption. apply init_inv_cf.
  Qed.

  (* Materializing with a path writes the complete file (object fresh or already
     materialized without a path), and that file loads to the fresh computation.
     Premise carried by the model, not by the code: the writing object is a
     Dataset over the SAME table the later readers use -- the model's live object
     only ever holds the fresh frame `ft` of that one table.  An object
     materialized by inheritance over OTHER rows (d = ds[1:3]; d.materialize(path=p)
     with no file yet) writes its row subset plus the parent's statistics; that
     path is then a foreign/stale cache, outside C11's quantifier ("a later
     materialization with that path" of the data the cache was written from), and
     this theorem says nothing about it. *)
  Theorem materialize_writes_cache : forall h : list (event rows),
    let w := fst (run init h) in
    fs w = None ->
    fs (fst (step w (Materialize rows true))) = Some B /\
    fs (fst (step w (NewDatasetMaterialize rows true))) = Some B /\
    load tdim tsize valid_nested valid_embed dec B = Some (ft, fcs).
  Proof.
    intros h w Hf. eapply materialize_writes_file; try eassumption.
    eapply run_inv; try eassumption. apply inv_cf_inv, init_inv_cf.
  Qed.

  (* A Dataset restored from the cache (after ANY history, crashes included, as
     long as the restoring call did not raise) holds a converter built around
     exactly the statistics the original converter was built around, and
     converts every new DataFrame like the original. *)
  Theorem restored_converter_is_original : forall (h : list (event rows)) (p : bool),
    let s := step (fst (run init h)) (NewDatasetMaterialize rows p) in
    snd s <> ORaise tensor stats cout ->
    ds_conv (cur (fst s)) = ds_conv (cur (fst (step init (Materialize rows false)))) /\
    forall r, snd (step (fst s) (Convert r)) = conv_obs tensor conv fcs r.
  Proof.
    intros h p. eapply restored_converter; try eassumption.
    eapply run_inv; try eassumption. apply inv_cf_inv, init_inv_cf.
  Qed.

  (* The crash, exactly: the process dies k bytes into the first save; the next
     process's materialize(path) raises iff the file is a strict prefix, and
     returns the complete fresh data otherwise; without the path it recomputes. *)
  Theorem crash_then_materialize : forall k p,
    snd (run init [CrashDuringSave rows k; NewDatasetMaterialize rows p]) =
      [OCrash tensor stats cout;
       if p then (if k <? List.length B then ORaise tensor stats cout else OMat cout ft fcs)
       else OMat cout ft fcs].
  Proof. intros k p. eapply IOProofs.crash_then_materialize; eassumption. Qed.
End C11.

Print Assumptions storage_flag_of_serialize_agrees.
Print Assumptions storage_kinds_exclusive.
Print Assumptions feat_roundtrip_every_stype.
Print Assumptions feat_dict_roundtrip.
Print Assumptions tframe_wfb_sound.
Print Assumptions save_load_roundtrip.
Print Assumptions truncated_file_never_loads.
Print Assumptions load_returns_only_wellformed_frames.
Print Assumptions loaded_frame_saves_and_loads_to_itself.
Print Assumptions history_never_partial.
Print Assumptions crash_free_history_returns_fresh.
Print Assumptions materialize_writes_cache.
Print Assumptions restored_converter_is_original.
Print Assumptions crash_then_materialize.

(* ================================================================== *)
(* Statistics SUPPLIED to materialize (col_stats=...), derived datasets, and
   generations (Model/IOSup.v).  `compute sup` is what steps 1-4 of materialize
   produce under the statistics argument `sup`; as in dataset.py it is consulted
   only in the compute branch. *)
Section C11_supplied.
  Variable tensor : Type.
  Variable tdim : tensor -> nat.
  Variable tsize : tensor -> nat -> nat.
  Variable valid_nested valid_embed : nat -> nat -> tensor -> tensor -> bool.
  Variable stats : Type.
  Variable byte : Type.
  Variable enc : payload tensor stats -> list byte.
  Variable dec : list byte -> option (payload tensor stats).
  Hypothesis H_dec_enc : forall x, dec (enc x) = Some x.
  Hypothesis H_load_prefix_fails : forall x k, k < List.length (enc x) -> dec (firstn k (enc x)) = None.
  Variable rows cout : Type.
  Variable conv : stats -> rows -> option cout.
  Variable compute : option stats -> tframe tensor * stats.
  Hypothesis H_wf : forall s, tframe_wf tdim tsize valid_nested valid_embed (fst (compute s)).

  Local Notation stepS := (IOSup.stepS tdim tsize valid_nested valid_embed enc dec conv compute).
  Local Notation runS := (IOSup.runS tdim tsize valid_nested valid_embed enc dec conv compute).
  Local Notation guarded := (IOSup.guarded tdim tsize valid_nested valid_embed enc dec conv compute).
  Local Notation file_of := (IOSupProofs.file_of tensor stats byte enc compute).
  Local Notation mat_of := (IOSupProofs.mat_of tensor stats).
  Local Notation init := (IO.init tensor stats byte).

  (* No call of any object -- live, new, derived, crashing, with any path /
     col_stats combination -- ever rewrites a cache file that exists, complete
     or cut short. *)
  Theorem cache_file_never_rewritten : forall (w : world tensor stats byte) (e : eventS tensor stats rows) b,
    fs w = Some b -> fs (fst (stepS w e)) = Some b.
  Proof. eapply file_never_rewritten. Qed.

  (* With a file present, materialize(path) on a DERIVED dataset is a no-op. *)
  Theorem derived_materialize_is_noop : forall (w : world tensor stats byte) sel p sup,
    isfile w = true -> fst (stepS w (DerivedMat sel p sup)) = w.
  Proof. eapply derived_noop_when_file_exists. Qed.

  (* materialize(path=p, col_stats=s) with no file writes the file of exactly
     that computation (TensorFrame converted with s, the statistics s) ... *)
  Theorem supplied_statistics_are_cached : forall (w : world tensor stats byte) s b,
    file_of s b -> fs w = None ->
    stepS w (EvS s (NewDatasetMaterialize rows true)) =
      (MkW (Some b) (mat_of (compute s)), OS (OMat cout (fst (compute s)) (snd (compute s)))).
  Proof. eapply supplied_write. Qed.

  (* ... and every later new Dataset.materialize(path, col_stats = ANYTHING)
     restores exactly it: no recomputation, whatever statistics it is handed. *)
  Theorem restore_ignores_statistics_argument : forall (w : world tensor stats byte) s0 b s',
    file_of s0 b -> fs w = Some b ->
    stepS w (EvS s' (NewDatasetMaterialize rows true)) =
      (MkW (Some b) (mat_of (compute s0)), OS (OMat cout (fst (compute s0)) (snd (compute s0)))).
  Proof. eapply restore_ignores_supplied; eassumption. Qed.

  (* All histories in which the statistics argument varies freely from call to
     call and derived datasets call materialize(path) only while a file exists
     (`guarded`: the path is never written from other rows): whatever a
     materialize returns is the COMPLETE computation under one of the statistics
     arguments that occur in the history -- never partial, never mixed. *)
  Theorem supplied_history_never_partial : forall h : list (eventS tensor stats rows),
    guarded init h ->
    Forall (goodS tensor stats cout compute (sups h)) (snd (runS init h)).
  Proof. intros h. eapply historyS_never_partial; eassumption. Qed.

  (* Generations: select, save, load, select, save, load ... equals selecting
     alone; saving and loading any number of times is invisible (in particular
     no row count or other attribute of a LOADED frame survives a later
     selection differently from the original's). *)
  Theorem generations_are_transparent : forall (sels : list (tframe tensor -> tframe tensor)) t cs,
    (forall f u, In f sels -> tframe_wf tdim tsize valid_nested valid_embed u ->
                 tframe_wf tdim tsize valid_nested valid_embed (f u)) ->
    tframe_wf tdim tsize valid_nested valid_embed t ->
    generations tdim tsize valid_nested valid_embed enc dec sels t cs = Some (fold_left (fun a f => f a) sels t).
  Proof. intros sels t cs. eapply generations_transparent; eassumption. Qed.
  (* Path reuse (utils/io.py save -> torch.save(obj, path), which opens the path
     truncating): after any number of saves onto ONE path -- over a longer file,
     a shorter one, a cut one, anything -- load returns exactly the LAST frame
     and statistics saved. *)
  Theorem path_reuse_returns_last_saved : forall (l : list (tframe tensor * stats)) f t cs,
    Forall (fun p => tframe_wf tdim tsize valid_nested valid_embed (fst p)) l ->
    tframe_wf tdim tsize valid_nested valid_embed t ->
    reuse_then_load tdim tsize valid_nested valid_embed enc dec OTrunc f (l ++ [(t, cs)]) = Some (t, cs).
  Proof. intros l f t cs. eapply path_reuse_returns_last; eassumption. Qed.

  (* The truncation is what carries it: opened without truncation, the file is
     the new bytes followed by the tail of the old file (see the Example below
     for what load then does). *)
  Theorem no_truncation_keeps_the_old_tail : forall old t cs b,
    save enc t cs = Some b ->
    save_to enc ONoTrunc (Some old) t cs = Some (Some (b ++ skipn (List.length b) old)).
  Proof. eapply notrunc_keeps_tail. Qed.
End C11_supplied.

Print Assumptions cache_file_never_rewritten.
Print Assumptions derived_materialize_is_noop.
Print Assumptions supplied_statistics_are_cached.
Print Assumptions restore_ignores_statistics_argument.
Print Assumptions supplied_history_never_partial.
Print Assumptions generations_are_transparent.
Print Assumptions path_reuse_returns_last_saved.
Print Assumptions no_truncation_keeps_the_old_tail.

(* ------------------------------------------------------------------ *)
(* The hypotheses are satisfiable together, on a non-trivial state: the toy
   codec of Model/IORun.v satisfies H_dec_enc and H_load_prefix_fails, and the
   frame below -- a ragged column that is a two-row VIEW (its offsets were
   re-based, its values are a window), a text_tokenized dict, an embedding, a
   dense column and a target -- is well-formed. *)
Example ex_codec_dec_enc : forall x, cdec (cenc x) = Some x.
Proof. reflexivity. Qed.

Example ex_codec_prefix_fails : forall x k, k < List.length (cenc x) -> cdec (firstn k (cenc x)) = None.
Proof. intros x k H. cbn in H. destruct k as [|[|k]]; [reflexivity|reflexivity|exfalso; lia]. Qed.

Definition ex_i64 (l : list Z) : ctensor := CT 3 [List.length l] l.
Definition ex_frame : tframe ctensor :=
  MkTF [(st_multicategorical, FNested (MkMulti 2 2 (ex_i64 [5; 6; 7]%Z) (ex_i64 [0; 1; 1; 3; 3]%Z)));
        (st_text_tokenized, FDict [("input_ids"%string, MkMulti 2 1 (ex_i64 [11; 12; 13]%Z) (ex_i64 [0; 2; 3]%Z));
                                   ("attention_mask"%string, MkMulti 2 1 (ex_i64 [1; 1; 1]%Z) (ex_i64 [0; 2; 3]%Z))]);
        (st_embedding, FEmbed (MkMulti 2 2 (CT 1 [2; 3] [1; 2; 3; 4; 5; 6]%Z) (ex_i64 [0; 1; 3]%Z)));
        (st_numerical, FTensor (CT 1 [2; 1] [40; 41]%Z))]
       [(st_multicategorical, ["a"%string; "b"%string]); (st_text_tokenized, ["t"%string]);
        (st_embedding, ["e"%string; "f"%string]); (st_numerical, ["n"%string])]
       (Some (ex_i64 [0; 1]%Z)) None.

Example ex_frame_wf : tframe_wf ct_dim ct_size c_valid_nested c_valid_embed ex_frame.
Proof. apply tframe_wfb_sound. vm_compute. reflexivity. Qed.

(* ... and on it the model runs a history with a crash in the middle: the crash
   leaves half a file, the next process raises, a process that does not use the
   path recomputes, and the survivor converts. *)
Example ex_history :
  c_run (ex_frame, 77%Z)
        [CrashDuringSave crows 1; NewDatasetMaterialize crows true; NewDatasetMaterialize crows false; Convert 5] =
  [OCrash _ _ _; ORaise _ _ _; OMat ccout ex_frame 77%Z; OConv _ _ (77%Z, 5)].
Proof. vm_compute. reflexivity. Qed.

(* a frame without features keeps its explicitly given number of rows (and y) *)
Example ex_featureless_roundtrip :
  let t := MkTF [] [] (Some (ex_i64 [0; 1; 2; 3; 4]%Z)) (Some 5) in
  c_tframe_wfb t = true /\ c_save_load t 0%Z = OMat ccout t 0%Z.
Proof. vm_compute. split; reflexivity. Qed.

(* statistics supplied at the first materialize are cached; the next process is
   handed other statistics and still restores the cached ones *)
Example ex_supplied_then_restore :
  snd (runS ct_dim ct_size c_valid_nested c_valid_embed cenc cdec cconv
         (fun s => (ex_frame, match s with Some d => d | None => 0%Z end))
         (init ctensor cstats cbyte)
         [EvS (Some 5%Z) (NewDatasetMaterialize crows true); EvS (Some 9%Z) (NewDatasetMaterialize crows true);
          EvS None (NewDatasetMaterialize crows true)]) =
  [OS (OMat ccout ex_frame 5%Z); OS (OMat ccout ex_frame 5%Z); OS (OMat ccout ex_frame 5%Z)].
Proof. vm_compute. reflexivity. Qed.

(* Outside the quantifier (`guarded` fails): with NO file yet a derived dataset
   writes ITS frame with the parent's statistics; the next full-table
   materialize(path) restores that foreign cache.  (The reviewer's witness:
   len(ds) = 4, tensor_frame.num_rows = 2.) *)
Definition ex_sel (t : tframe ctensor) : tframe ctensor := MkTF [] [] None (Some 2).
Example ex_foreign_cache_of_a_derived_dataset :
  snd (runS ct_dim ct_size c_valid_nested c_valid_embed cenc cdec cconv (fun _ => (ex_frame, 77%Z))
         (init ctensor cstats cbyte)
         [EvS None (Materialize crows false); DerivedMat ex_sel true None; EvS None (NewDatasetMaterialize crows true)]) =
  [OS (OMat ccout ex_frame 77%Z); ODerived false; OS (OMat ccout (MkTF [] [] None (Some 2)) 77%Z)].
Proof. vm_compute. reflexivity. Qed.

(* three generations through the toy codec *)
Example ex_generations :
  c_generations [(fun t => t); ex_sel; (fun t => t)] ex_frame 3%Z = Some (MkTF [] [] None (Some 2)).
Proof. vm_compute. reflexivity. Qed.

(* load of a crafted payload: an embedding stype handed a MultiNestedTensor-shaped
   dict is refused by MultiEmbeddingTensor.validate (offset length), a payload
   whose col_names_dict lacks a key by TensorFrame.validate; the well-formed
   payload (without num_rows, as older files) loads. *)
Definition ex_payload (names : list (stype * list string)) (e : ser ctensor) : payload ctensor cstats :=
  (MkTD None names [(st_embedding, e)] None, 0%Z).
Definition ex_met_ser : ser ctensor :=
  to_dict (MkMulti 2 2 (CT 1 [2; 3] [1; 2; 3; 4; 5; 6]%Z) (ex_i64 [0; 1; 3]%Z)).
Definition ex_mnt_ser : ser ctensor :=
  to_dict (MkMulti 2 2 (ex_i64 [5; 6; 7]%Z) (ex_i64 [0; 1; 1; 3; 3]%Z)).
Example ex_crafted_payloads :
  (exists t, c_load (cenc (ex_payload [(st_embedding, ["e"; "f"]%string)] ex_met_ser)) = Some (t, 0%Z)) /\
  c_load (cenc (ex_payload [(st_embedding, ["e"; "f"]%string)] ex_mnt_ser)) = None /\
  c_load (cenc (ex_payload [] ex_met_ser)) = None.
Proof. split; [eexists; vm_compute; reflexivity|split; vm_compute; reflexivity]. Qed.

(* path reuse on the toy codec: with the truncating open the last save wins;
   opened WITHOUT truncation over a longer file, the old tail stays behind the
   new bytes and the file no longer loads (the witness of seeded change C11_5,
   here with "longer file" = a complete file followed by three stale bytes) *)
Example ex_path_reuse :
  let stale := Some (cenc (ex_payload [(st_embedding, ["e"; "f"]%string)] ex_met_ser) ++ [BEnd; BEnd; BEnd]) in
  c_reuse_then_load OTrunc stale [(ex_frame, 1%Z); (MkTF [] [] None (Some 2), 2%Z)] = Some (MkTF [] [] None (Some 2), 2%Z) /\
  c_reuse_then_load ONoTrunc stale [(ex_frame, 1%Z)] = None.
Proof. split; vm_compute; reflexivity. Qed.
