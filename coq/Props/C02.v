(* C02 -- Materialization is positional and produces a canonical schema.
   Statements only; proofs live in Proofs/ConverterProofs.v (and MapperProofs.v).

   Reading guide.  A DataFrame is `frame L`: an index (list of labels of an
   ARBITRARY type L -- offset, shuffled, strings, duplicates are all just lists
   of labels) and the columns in col_to_stype order, each column carrying its
   cells plus what the converter knows about it (Model/Converter.v).
   `convert target df` is the model of DataFrameToTensorFrameConverter(...)(df):
   __init__ (group by stype, sort, skip target), the per-column mappers,
   per-stype assembly, TensorFrame validation, _merge_feat over the stype
   tables of Gen/Tables.v (regenerated from /repo on every run).  Dictionaries
   are association lists; `sd_get d k` is d.get(k).  The model is tied to /repo
   on every run by harness/c02.py. *)
From Coq Require Import ZArith List Permutation Sorting.Sorted.
From PF Require Import Gen.Tables Lib.ListX Model.Ragged Model.Mapper Model.MapperSpec Model.Converter
  Model.ConverterSpec Model.ConverterRun Model.DatasetInit Proofs.MapperProofs Proofs.ConverterProofs
  Proofs.DatasetInitProofs Legacy.MapperLegacy.
Import ListNotations.

(* ---- index labels do not matter ------------------------------------------ *)
(* Labels are values of a type L with an equality test `leqb` that the model's
   keyed pandas operations use (Model/Mapper.v, Section Keyed: ser[label],
   boolean-mask alignment, value_counts().reindex, the index of a merge result).
   So a definition in this framework CAN depend on labels -- the pre-fix code
   does, see the two `legacy_*` theorems -- and the theorem below is about the
   pipelines as written today: the sequence mapper's boolean mask carries the
   series' own index (so it is applied positionally), the categorical and
   multicategorical mappers reset the index before their keyed bookkeeping.
   Same columns (cells AND the statistics / configuration the converter was
   given -- that the statistics themselves do not depend on labels is observed by
   harness/c02.py, not proved here), index of the same length, labels of any two
   types with reflexive equality tests: identical result (TensorFrame or raise).
   Offsets, shuffled labels, strings, duplicated labels are all just label lists. *)
Theorem relabel_invariant : forall (L L' : Type) (leqb : L -> L -> bool) (leqb' : L' -> L' -> bool) target
  (df : frame L) (df' : frame L'),
  leqb_refl leqb -> leqb_refl leqb' ->
  f_cols df = f_cols df' -> length (f_index df) = length (f_index df') ->
  convert leqb target df = convert leqb' target df'.
Proof. intros. apply convert_relabel; assumption. Qed.
Print Assumptions relabel_invariant.

(* per column: the mapper output is a function of the cell values alone *)
Theorem column_encoding_ignores_labels : forall (L L' : Type) (leqb : L -> L -> bool) (leqb' : L' -> L' -> bool)
  (idx : list L) (idx' : list L') c,
  leqb_refl leqb -> leqb_refl leqb' ->
  length idx = length idx' -> encode_col leqb idx c = encode_col leqb' idx' c.
Proof. intros. apply encode_col_relabel; assumption. Qed.
Print Assumptions column_encoding_ignores_labels.

(* the one place where the caller's labels reach a keyed operation today: the
   boolean mask of the sequence mapper.  Its closed form, for any reflexive leqb *)
Theorem sequence_mask_is_positional : forall (L : Type) (leqb : L -> L -> bool) (s : @series L seq_cell),
  leqb_refl leqb ->
  sequence_forward leqb s =
  (lens <- mapM get_sequence_length (ser_values s) ;;
   mk_mnt num (length (ser_values s)) 1 (concat (map seq_list (ser_values s))) (cumsum (0 :: lens))).
Proof. intros. apply sequence_forward_values. assumption. Qed.
Print Assumptions sequence_mask_is_positional.

(* The label-keyed versions of the code this replaced, in the same framework
   (Legacy/MapperLegacy.v, repaired defects D2 / D3), are NOT invariant: computed
   witnesses with a duplicated label / an offset index without label 0. *)
Theorem legacy_label_keyed_offsets_refuted :
  multicategorical_encode true [VStr [97%Z]] None dup_series = Some [[SInt 0]; [SInt 0]] /\
  multicategorical_forward_legacy Nat.eqb [VStr [97%Z]] None dup_series = None.
Proof. exact multicat_dup_labels_refuted. Qed.
Print Assumptions legacy_label_keyed_offsets_refuted.

Theorem legacy_pipeline_not_relabel_invariant :
  ser_values dup_series = ser_values range_series /\
  multicategorical_forward_legacy Nat.eqb [VStr [97%Z]] None dup_series
    <> multicategorical_forward_legacy Nat.eqb [VStr [97%Z]] None range_series.
Proof. exact multicat_legacy_not_relabel_invariant. Qed.
Print Assumptions legacy_pipeline_not_relabel_invariant.

Theorem legacy_emb_dim_by_label_refuted :
  let s := [(100, [NFin 1; NFin 2]); (101, [NFin 3; NFin 4])] in
  emb_dim_positional s = Some 2 /\ emb_dim_legacy Nat.eqb 0 s = None.
Proof. exact emb_dim_label_refuted. Qed.
Print Assumptions legacy_emb_dim_by_label_refuted.

(* ---- positional: cell (i, j) of every group is the canonical encoding of the
        i-th raw cell of the column named names[j]; every column has len(df) rows *)
Theorem positional_cells : forall (L : Type) (leqb : L -> L -> bool) target (df : frame L) t k names fc,
  leqb_refl leqb -> frame_wf df -> convert leqb target df = Some t ->
  sd_get (tf_names t) k = Some names -> sd_get (tf_feats t) k = Some (FCols fc) ->
  Forall2 (fun nm col => exists c, get_col (f_cols df) nm = Some c /\ canonical_col c col /\
                                   length col = length (f_index df)) names fc.
Proof. intros. eapply convert_positional; eassumption. Qed.
Print Assumptions positional_cells.

(* names and feature columns are aligned in every group, also after merging *)
Theorem names_and_features_aligned : forall (L : Type) (leqb : L -> L -> bool) target (df : frame L) t,
  convert leqb target df = Some t -> aligned (encode_col leqb (f_index df)) (f_cols df) t.
Proof. intros L leqb target df t H. exact (convert_aligned _ _ _ _ H). Qed.
Print Assumptions names_and_features_aligned.

(* ---- canonical schema ------------------------------------------------------ *)
(* the constructor's col_names_dict: for every stype the sorted list of the
   non-target columns of that stype (absent if there is none) *)
Theorem constructor_groups_and_sorts : forall cts target st,
  sd_get (col_names_dict_init cts target) st =
  match group_of cts target st with [] => None | g => Some (sort_names g) end.
Proof. exact init_get. Qed.
Print Assumptions constructor_groups_and_sorts.

Theorem sort_names_is_sorted_permutation : forall l,
  Permutation l (sort_names l) /\ StronglySorted name_le (sort_names l).
Proof. intro l. split; [apply sort_names_perm | apply sort_names_sorted]. Qed.
Print Assumptions sort_names_is_sorted_permutation.

(* sorted + Permutation => equal *)
Theorem sorted_permutation_unique : forall l1 l2,
  StronglySorted name_le l1 -> StronglySorted name_le l2 -> Permutation l1 l2 -> l1 = l2.
Proof. exact sorted_names_unique. Qed.
Print Assumptions sorted_permutation_unique.

(* the schema of the converted frame, over the stype tables of /repo
   (finite-domain part by computation on Gen/Tables.v): text_embedded and
   image_embedded are gone, embedding holds its own columns followed by the
   text-embedded and then the image-embedded ones, every other group is the
   constructor's; y is the target column's encoding (None without target) *)
Theorem schema : forall (L : Type) (leqb : L -> L -> bool) target (df : frame L) t,
  convert leqb target df = Some t ->
  let N := init_names (f_cols df) target in
  sd_get (tf_names t) st_text_embedded = None /\
  sd_get (tf_names t) st_image_embedded = None /\
  sd_get (tf_names t) st_embedding = merged_embedding_names N /\
  (forall k, k <> st_embedding -> k <> st_text_embedded -> k <> st_image_embedded ->
             sd_get (tf_names t) k = sd_get N k) /\
  target_y (encode_col leqb (f_index df)) (f_cols df) target = Some (tf_y t).
Proof. intros L leqb target df t H. exact (convert_schema _ _ _ _ H). Qed.
Print Assumptions schema.

(* grouped by (parent) stype, complete, and the target never among the features:
   nm is listed under group k  <=>  nm is a non-target column whose stype's parent is k *)
Theorem grouped_by_stype_target_absent : forall (L : Type) (leqb : L -> L -> bool) target (df : frame L) t k nm,
  convert leqb target df = Some t ->
  (In nm (dflt (sd_get (tf_names t) k)) <->
   exists st, In (nm, st) (col_to_stype_of (f_cols df)) /\ is_target target nm = false /\ stype_parent st = k).
Proof. intros L leqb target df t k nm H. exact (convert_names_grouped _ _ _ _ k nm H). Qed.
Print Assumptions grouped_by_stype_target_absent.

Theorem names_sorted_within_group : forall (L : Type) (leqb : L -> L -> bool) target (df : frame L) t k l,
  convert leqb target df = Some t -> k <> st_embedding -> sd_get (tf_names t) k = Some l -> StronglySorted name_le l.
Proof. intros L leqb target df t k l H. exact (convert_names_sorted _ _ _ _ k l H). Qed.
Print Assumptions names_sorted_within_group.

Theorem embedding_group_is_three_sorted_runs : forall (L : Type) (leqb : L -> L -> bool) target (df : frame L) t l,
  convert leqb target df = Some t -> sd_get (tf_names t) st_embedding = Some l ->
  exists e te ie, l = e ++ te ++ ie /\
    StronglySorted name_le e /\ StronglySorted name_le te /\ StronglySorted name_le ie /\
    e = dflt (sd_get (init_names (f_cols df) target) st_embedding) /\
    te = dflt (sd_get (init_names (f_cols df) target) st_text_embedded) /\
    ie = dflt (sd_get (init_names (f_cols df) target) st_image_embedded).
Proof. intros L leqb target df t l H. exact (convert_embedding_runs _ _ _ _ l H). Qed.
Print Assumptions embedding_group_is_three_sorted_runs.

Theorem no_target_no_y : forall (L : Type) (leqb : L -> L -> bool) (df : frame L) t,
  convert leqb None df = Some t -> tf_y t = None.
Proof. intros L leqb df t H. exact (convert_no_target leqb df t H). Qed.
Print Assumptions no_target_no_y.

(* ---- column order ----------------------------------------------------------- *)
(* the canonical col_names_dict does not depend on the order of the columns *)
Theorem schema_column_perm_invariant : forall cols cols' target st,
  Permutation cols cols' -> sd_get (init_names cols target) st = sd_get (init_names cols' target) st.
Proof. intros. apply init_names_perm. assumption. Qed.
Print Assumptions schema_column_perm_invariant.

(* Full statement wanted:
     forall idx target cols cols', NoDup (map fst cols) -> Permutation cols cols' ->
       match convert target (MkFrame idx cols), convert target (MkFrame idx cols') with
       | Some t, Some t' => tf_equiv t t' | None, None => True | _, _ => False end.
   Proved: the Some/Some case (equal y, equal names and equal feature data for
   every stype), and unconditionally that the canonical col_names_dict is the
   same (schema_column_perm_invariant).  Missing: that a permuted column list
   cannot turn a raise into a success or vice versa.  (It can, in one corner of
   both code and model: TensorFrame.num_rows reads the FIRST feature tensor, so
   a tokenizer returning a dict without keys raises only if text_tokenized
   comes first.)  Success transfer is observed by the oracle and the
   correspondence of harness/c02.py on every generated frame. *)
Theorem column_perm_invariant_partial : forall (L : Type) (leqb : L -> L -> bool) (idx : list L) target cols cols' t t',
  NoDup (map fst cols) -> Permutation cols cols' ->
  convert leqb target (MkFrame idx cols) = Some t -> convert leqb target (MkFrame idx cols') = Some t' ->
  tf_equiv t t'.
Proof. intros L leqb idx target cols cols' t t' ND P H H'. exact (convert_column_perm _ _ _ _ _ _ ND P H H'). Qed.
Print Assumptions column_perm_invariant_partial.

(* The missing half is FALSE, of the faithful model and of the code alike (harness/c02.py runs this witness against
   /repo on every run): a tokenizer that returns dictionaries without keys gives a text_tokenized block without
   tensors; TensorFrame.num_rows reads the FIRST block, so the conversion raises when that block comes first and
   succeeds when a numerical column comes first. *)
Theorem column_perm_success_transfer_refuted :
  Permutation keyless_cols (rev keyless_cols) /\ NoDup (map fst keyless_cols) /\
  convert Nat.eqb None (MkFrame [0; 1] keyless_cols) = None /\
  exists t, convert Nat.eqb None (MkFrame [0; 1] (rev keyless_cols)) = Some t.
Proof.
  split; [apply Permutation_rev|]. split; [repeat constructor; simpl; intuition discriminate|].
  split; [vm_compute; reflexivity | eexists; vm_compute; reflexivity].
Qed.
Print Assumptions column_perm_success_transfer_refuted.

(* ---- the converter is an object: later calls ---------------------------------- *)
(* The frame a call returns shares the converter's _col_names_dict and _merge_feat rewrites it in place
   (converter_call: the state after a call is the merged dict).  Full statement wanted: every later call on the
   same frame succeeds and returns a frame equal to the first.  Proved: whenever the later call succeeds it returns
   exactly the same col_names_dict (same keys, same order), the same y and the same data in every column group --
   a later call that iterates the merged dict in any other order than it labels it cannot satisfy this.  Missing:
   that the later call cannot raise, and the dictionary-valued text_tokenized block; both observed by
   harness/c02.py (later conversions are compared with the materialized frame and evaluated in the model). *)
Theorem later_call_equal_partial : forall (L : Type) (leqb : L -> L -> bool) target (df : frame L) t t',
  convert leqb target df = Some t ->
  convert_from (encode_col leqb (f_index df)) target (f_cols df) (tf_names t) = Some t' ->
  tf_names t' = tf_names t /\ tf_y t' = tf_y t /\
  forall k fc fc', sd_get (tf_feats t) k = Some (FCols fc) -> sd_get (tf_feats t') k = Some (FCols fc') -> fc = fc'.
Proof. intros L leqb target df t t' H H'. exact (second_call_equal _ _ _ _ _ H H'). Qed.
Print Assumptions later_call_equal_partial.

(* after the first call the converter's state is a fixed point: each of any number of later calls starts from and
   leaves the first call's merged dict, i.e. is the same computation as the second call *)
Theorem converter_state_is_fixed_point : forall (L : Type) (leqb : L -> L -> bool) target (df : frame L) t k frames,
  convert leqb target df = Some t ->
  converter_calls (encode_col leqb (f_index df)) target (f_cols df) k (tf_names t) = Some frames ->
  forall t', In t' frames ->
    convert_from (encode_col leqb (f_index df)) target (f_cols df) (tf_names t) = Some t' /\ tf_names t' = tf_names t.
Proof. intros L leqb target df t k frames H Hc. exact (later_calls_identical _ _ _ _ _ _ H Hc). Qed.
Print Assumptions converter_state_is_fixed_point.

(* ---- Dataset(...): which argument combinations are accepted ------------------- *)
(* Model/DatasetInit.v mirrors Dataset.__init__ and canonicalize(_and_validate)_col_to_pattern of dataset.py check
   by check (a raise is None); the pattern tables come from Gen/Tables.v.  The constructor accepts exactly the
   arguments described by init_accepted: a split column that exists, has no stype and holds only SPLIT_TO_NUM
   values; a target that has a stype other than multicategorical; every column with a stype present in the frame;
   and, per configuration argument, either one object for all columns of its stype (of the required type, or None
   where None is allowed, or anything if there is no such column) or a dict all of whose values -- also under keys
   that are not columns of that stype -- are well-typed and which, where None is not allowed, mentions every column.
   C02 itself demands no raise: harness/c02.py compares this table with /repo on the guard scenarios only where the
   implementation raised, and on every generated frame (accepted, with the canonical dictionaries compared). *)
Theorem dataset_init_decision_table : forall a, (exists c, dataset_init a = Some c) <-> init_accepted a.
Proof. exact dataset_init_decision. Qed.
Print Assumptions dataset_init_decision_table.

Theorem pattern_argument_decision_table : forall (V : Type) pn (arg : pattern_arg V) cts,
  (exists d, canonicalize_and_validate pn arg cts = Some d) <-> pattern_accepted pn arg cts.
Proof. intros. apply pattern_decision. Qed.
Print Assumptions pattern_argument_decision_table.

(* one object configures every column of the stype; a dict keeps what it says *)
Theorem canonical_config_single : forall (V : Type) pn (p : pat V) cts d c,
  canonicalize_and_validate pn (ASingle p) cts = Some d -> In c (columns_of (pattern_stype pn) cts) ->
  pat_lookup c d = Some p.
Proof. intros. eapply canonical_single; eassumption. Qed.
Print Assumptions canonical_config_single.

Theorem canonical_config_dict : forall (V : Type) pn (d0 : list (name * pat V)) cts d c v,
  canonicalize_and_validate pn (ADict d0) cts = Some d -> pat_lookup c d0 = Some v -> pat_lookup c d = Some v.
Proof. intros. eapply canonical_dict_given; eassumption. Qed.
Print Assumptions canonical_config_dict.

(* ---- task type and class count ---------------------------------------------- *)
(* numerical target -> regression; categorical with exactly 2 listed classes ->
   binary, with more -> multiclass, with fewer -> the assertion fails; any other
   target stype -> ValueError *)
Theorem task_type_table : forall target,
  task_type_of target =
  match target with
  | RNum _ => Some task_REGRESSION
  | RCat cats _ =>
      if Nat.ltb (length cats) 2 then None
      else if Nat.eqb (length cats) 2 then Some task_BINARY_CLASSIFICATION else Some task_MULTICLASS_CLASSIFICATION
  | _ => None
  end.
Proof. exact ConverterProofs.task_type_table. Qed.
Print Assumptions task_type_table.

(* the class count is the number of distinct target values: whichever duplicate-
   free list of the column's non-missing values the statistics hold *)
Theorem class_count_is_number_of_distinct_values : forall cats cells distinct,
  lists_distinct_values cats cells -> lists_distinct_values distinct cells ->
  2 <= length distinct -> num_classes (RCat cats cells) = Some (length distinct).
Proof. exact num_classes_distinct. Qed.
Print Assumptions class_count_is_number_of_distinct_values.

(* ------------------------------------------------------------------------- *)
(* Non-vacuity: a concrete frame with duplicated string/int labels, all three
   embedding-family stypes, a target, columns out of order. *)
Local Open Scope Z_scope.
Definition nm (s : list Z) : name := s.
Definition ex_cols : list (name * rawcol) :=
  [ (nm [122], RTextEmb [[NFin 1]; [NFin 2]]);                                (* "z" text_embedded *)
    (nm [98], RNum [Some (NFin 8); None]);                                    (* "b" numerical *)
    (nm [121], RCat [VStr [117]; VStr [118]] [Some (VStr [118]); Some (VStr [117])]);   (* "y" target *)
    (nm [101], REmb [[NFin 3; NFin 4]; [NFin 5; NFin 6]]);                    (* "e" embedding *)
    (nm [97], RNum [Some NPosInf; Some (NFin (-8))]);                         (* "a" numerical *)
    (nm [105], RImageEmb [[NFin 7]; [NFin 9]]);                               (* "i" image_embedded *)
    (nm [100], REmb [[NFin 0]; [NFin 1]]) ].                                  (* "d" embedding *)
Definition ex_df : frame pval := MkFrame [VStr [114]; VStr [114]] ex_cols.    (* labels "r", "r" *)

Example convert_example :
  frame_wf ex_df /\ NoDup (map fst ex_cols) /\ leqb_refl pval_eqb /\
  exists t, convert pval_eqb (Some (nm [121])) ex_df = Some t /\
    tf_names t = [ (st_numerical, [nm [97]; nm [98]]);
                   (st_embedding, [nm [100]; nm [101]; nm [122]; nm [105]]) ] /\
    tf_y t = Some (ECol [[SInt 1]; [SInt 0]]) /\
    sd_get (tf_feats t) st_numerical = Some (FCols [[[SNum NPosInf]; [SNum (NFin (-8))]]; [[SNum (NFin 8)]; [SNum NNaN]]]) /\
    task_type_of (RCat [VStr [117]; VStr [118]] [Some (VStr [118]); Some (VStr [117])]) = Some task_BINARY_CLASSIFICATION.
Proof.
  split; [|split; [|split]].
  - unfold frame_wf, ex_df, ex_cols. cbn [f_cols f_index snd].
    repeat (apply Forall_cons; [split; [reflexivity|]|]); try apply Forall_nil; cbn [rawcol_ok snd]; try exact I.
    all: try (exists 1%nat; repeat constructor; fail).
    all: try (exists 2%nat; repeat constructor; fail).
    all: repeat constructor; simpl; intuition discriminate.
  - repeat constructor; simpl; intuition discriminate.
  - exact pval_eqb_refl.
  - eexists. split; [vm_compute; reflexivity|]. repeat split; vm_compute; reflexivity.
Qed.

Example column_perm_example :
  Permutation ex_cols (rev ex_cols) /\
  exists t t', convert pval_eqb (Some (nm [121])) ex_df = Some t /\
               convert pval_eqb (Some (nm [121])) (MkFrame [VInt 5; VInt 6] (rev ex_cols)) = Some t' /\
               tf_names t <> tf_names t' /\ tf_equiv t t'.
Proof.
  split; [apply Permutation_rev|]. eexists. eexists. split; [vm_compute; reflexivity|].
  split; [vm_compute; reflexivity|]. split; [discriminate|].
  split; [reflexivity|]. split; intro k; destruct k; reflexivity.
Qed.

Example later_calls_example :
  match convert pval_eqb (Some (nm [121])) ex_df with
  | Some t => converter_calls (encode_col pval_eqb (f_index ex_df)) (Some (nm [121])) ex_cols 3 (tf_names t) = Some [t; t; t]
  | None => False
  end.
Proof. vm_compute. reflexivity. Qed.

Example dataset_init_example :
  let a := MkArgs [nm [120]; nm [109]; nm [116]; nm [115]]
                  [(nm [109], st_multicategorical); (nm [120], st_numerical); (nm [116], st_timestamp)]
                  (Some (nm [120])) (Some (nm [115])) [0; 2; 1]
                  (ASingle (PVal [124])) (ADict []) (ASingle PNone) (ASingle PNone) (ADict []) in
  init_accepted a /\
  option_map (fun c => (c_sep c, c_fmt c)) (dataset_init a) = Some ([(nm [109], PVal [124])], [(nm [116], PNone)]) /\
  dataset_init (MkArgs [nm [120]] [(nm [120], st_multicategorical)] (Some (nm [120])) None []
                       (ASingle PNone) (ASingle PNone) (ASingle PNone) (ASingle PNone) (ASingle PNone)) = None.
Proof.
  cbv zeta. split; [apply dataset_init_decision; eexists; vm_compute; reflexivity|]. split; vm_compute; reflexivity.
Qed.
