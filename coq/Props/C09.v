(* C09 - Dataset row subsets and train/val/test splits select exactly the
   requested rows; the random split generator labels floor(n * ratio) rows and
   arranges them by the seed alone.

   Statements only; every proof is `exact <lemma of Proofs/...>`.
   Objects: Model/Dataset.v (dataset.py: __getitem__, index_select, shuffle,
   col_select, get_split, split, the two decorators, tensor_frame, col_stats,
   materialize), Model/DatasetRun.v (tree-shaped histories), Model/Split.v
   (generate_random_split); spec notions in Model/DatasetSpec.v.  `aligned d` : the TensorFrame's rows are the
   DataFrame's rows, in order;  `inv d` : aligned whenever materialized.
   Theorems that mention float slice bounds or ratios list Coq's primitive
   float / int operations under Print Assumptions (kernel primitives, no axiom
   of this development). *)
From Coq Require Import ZArith List Bool String Arith Permutation FloatOps SpecFloat.
From Coq Require PrimFloat.   (* not imported: Print Assumptions then prints the primitives qualified *)
From PF Require Import Lib.ListX Lib.PySlice Lib.FloatInt Gen.Tables.
From PF Require Import Model.Dataset Model.DatasetSpec Model.DatasetRun Model.DatasetHeap Model.Split Model.NpShuffle Legacy.DatasetLegacy.
From PF Require Import Proofs.FloatIntFacts Proofs.DatasetProofs Proofs.DatasetHeapProofs Proofs.SplitProofs Proofs.NpShuffleProofs Proofs.MaskFacts Proofs.MaskDataset.
Import ListNotations.
Local Notation length := List.length (only parsing).

(* ================================================================== *)
(* 1. DataFrame and TensorFrame stay row-aligned over every history    *)

(* any finite sequence of operations (row selections of every kind, shuffles,
   split lookups, column selections, materialize), from any dataset that
   satisfies the invariant - in particular from any fresh dataset - with any
   index labels *)
Theorem aligned_after_any_history : forall (d0 : ds) (ops : list op) (d : ds),
  inv d0 -> run d0 ops = Some d -> inv d.
Proof. exact (fun d0 ops d => run_inv ops d0 d). Qed.
Print Assumptions aligned_after_any_history.

Theorem fresh_dataset_satisfies_inv : forall rows dfc sc t s, inv (fresh rows dfc sc t s).
Proof. exact fresh_inv_proof. Qed.
Print Assumptions fresh_dataset_satisfies_inv.

(* materialize() of an unmaterialized dataset, when it succeeds, yields the same
   rows and columns, materialized and aligned; in this model it succeeds exactly
   when every col_to_stype column names one column of the frame (it can name two
   after col_select with a repeated name: the real code raises there too).
   Other reasons for materialization to fail are C01's subject, not modelled. *)
Theorem materialize_aligns : forall d d', materialized d = false -> materialize d = Some d' ->
  materialized d' = true /\ aligned d' /\ df d' = df d /\
  df_cols d' = df_cols d /\ stype_cols d' = stype_cols d.
Proof. exact materialize_aligned_proof. Qed.
Print Assumptions materialize_aligns.

Theorem materialize_defined : forall d, columns_unique d -> exists d', materialize d = Some d'.
Proof. exact materialize_defined_proof. Qed.
Print Assumptions materialize_defined.

(* "materialize, then any finite sequence ...": everything reachable from a
   materialized dataset is materialized and aligned *)
Theorem aligned_after_any_history_materialized : forall (d0 : ds) (ops : list op) (d : ds),
  materialized d0 = true -> aligned d0 -> run d0 ops = Some d ->
  materialized d = true /\ aligned d.
Proof. exact run_aligned_proof. Qed.
Print Assumptions aligned_after_any_history_materialized.

(* the DataFrame's index labels are never consulted: relabelling the rows by
   any function commutes with every history (so the selected row ids and split
   values cannot depend on the labels).  NOTE: no function of Model/Dataset.v
   reads `label`, so this holds of the model by construction; that the real
   code behaves like the model under every labelling (RangeIndex, offset,
   permuted, string, duplicated, sparse, negative) is what the correspondence
   and the oracle OBSERVE on every run. *)
Theorem labels_never_consulted : forall (f : lbl -> lbl) (ops : list op) (d : ds),
  run (relabel f d) ops = option_map (relabel f) (run d ops).
Proof. exact run_relabel. Qed.
Print Assumptions labels_never_consulted.

(* ================================================================== *)
(* 2. each operation returns exactly the requested rows                 *)

(* index_select / dataset[...] with int, list, range, slice (int or float
   bounds), long tensor, bool tensor: the same selection as on a Python list of
   the rows (py_select), applied to DataFrame and TensorFrame alike; a raise
   exactly where the list selection is an error *)
Theorem select_exact : forall (d : ds) (i : dindex),
  materialized d = true -> aligned d ->
  index_select d i =
    (ix <- spec_index (len d) i ;;
     rows <- py_select ix (df d) ;;
     Some (with_rows d rows (map rid rows))).
Proof. exact select_exact_proof. Qed.
Print Assumptions select_exact.

(* ... and for a boolean mask that selection is, in plain terms, exactly the rows whose entry is True, each once, in
   their original order (`keep_true` = a filter; Proofs/MaskFacts.v), a mask of another length being rejected *)
Theorem select_by_mask_keeps_true_rows : forall (d : ds) (mk : list bool),
  materialized d = true -> aligned d ->
  index_select d (DIdx (IMask mk)) =
    if (length mk =? len d)%nat
    then Some (with_rows d (keep_true mk (df d)) (map rid (keep_true mk (df d))))
    else None.
Proof. exact select_mask_proof. Qed.
Print Assumptions select_by_mask_keeps_true_rows.

(* shuffle: with perm the value of torch.randperm(len) (a permutation of
   0..len-1), the result's row i is the parent's row perm[i], it is a
   rearrangement of the parent's rows, and perm is what return_perm reports *)
Theorem shuffle_is_reported_perm : forall (d : ds) (perm : list nat),
  materialized d = true -> aligned d -> Permutation perm (seq 0 (len d)) ->
  exists rows, tgather (df d) perm = Some rows /\ Permutation rows (df d) /\
    shuffle d perm = Some (with_rows d rows (map rid rows), perm).
Proof. exact shuffle_spec. Qed.
Print Assumptions shuffle_is_reported_perm.

(* a fractional slice bound f is replaced by round(f * len), computed as CPython
   does: IEEE double product, then round-half-even of its exact value *)
Theorem float_slice_cut : forall (d : ds) (a b : option bound) (s : option Z),
  index_select d (DSlice a b s) =
    (a' <- float_cut (len d) a ;; b' <- float_cut (len d) b ;; index_select d (DIdx (ISlice a' b' s)))
  /\ forall f, float_cut (len d) (Some (BFloat f)) =
               option_map Some (py_round (PrimFloat.mul f (float_of_nat (len d)))).
Proof. exact (fun d a b s => conj (float_slice_resolve d a b s) (fun f => eq_refl)). Qed.
Print Assumptions float_slice_cut.

(* ... so dataset[a:b] is the rows from the cut of a up to the cut of b *)
Theorem float_slice_rows : forall (d : ds) (a b : option bound) (a' b' : option Z) (d' : ds),
  materialized d = true -> aligned d ->
  float_cut (len d) a = Some a' -> float_cut (len d) b = Some b' ->
  index_select d (DSlice a b None) = Some d' ->
  df d' = tslice (df d) (clamp_bound (len d) 0 a') (clamp_bound (len d) (len d) b') /\ aligned d'.
Proof. exact float_slice_rows_proof. Qed.
Print Assumptions float_slice_rows.

Theorem float_slice_defined : forall (d : ds) (a b : option bound) (a' b' : option Z),
  materialized d = true -> aligned d ->
  float_cut (len d) a = Some a' -> float_cut (len d) b = Some b' ->
  exists d', index_select d (DSlice a b None) = Some d'.
Proof. exact float_slice_defined_proof. Qed.
Print Assumptions float_slice_defined.

(* round(x) on a finite double x = (-1)^s * m * 2^e : a nearest integer, the even
   one on a tie *)
Theorem py_round_is_half_even : forall f s m e z,
  Prim2SF f = S754_finite s m e -> py_round f = Some z ->
  let a := Z.abs z in
  (z = (if s then - a else a))%Z /\
  ((0 <= e)%Z -> a = (Z.pos m * 2 ^ e)%Z) /\
  ((e < 0)%Z -> (2 * Z.abs (a * 2 ^ (- e) - Z.pos m) <= 2 ^ (- e))%Z /\
                ((2 * Z.abs (a * 2 ^ (- e) - Z.pos m) = 2 ^ (- e))%Z -> Z.even a = true)).
Proof. exact py_round_finite. Qed.
Print Assumptions py_round_is_half_even.

(* get_split / split: exactly the rows whose split value is 0 / 1 / 2, in
   order, DataFrame and TensorFrame alike ... *)
Theorem get_split_exact : forall (d : ds) (name : string) (k : Z),
  materialized d = true -> aligned d -> has_split_col d = true ->
  In (name, k) [("train", 0); ("val", 1); ("test", 2)]%string%Z ->
  exists d', get_split d name = Some d' /\
    df d' = filter (fun r => Z.eqb (split r) k) (df d) /\
    materialized d' = true /\ aligned d'.
Proof. exact get_split_exact_proof. Qed.
Print Assumptions get_split_exact.

(* ... regardless of earlier shuffles or selections (and, by
   labels_never_consulted, of the index labels) *)
Theorem get_split_exact_after_any_history : forall (d0 : ds) (ops : list op) (d : ds) (name : string) (k : Z),
  materialized d0 = true -> aligned d0 -> has_split_col d0 = true ->
  run d0 ops = Some d ->
  In (name, k) [("train", 0); ("val", 1); ("test", 2)]%string%Z ->
  exists d', get_split d name = Some d' /\
    df d' = filter (fun r => Z.eqb (split r) k) (df d) /\
    materialized d' = true /\ aligned d'.
Proof. exact get_split_after_history_proof. Qed.
Print Assumptions get_split_exact_after_any_history.

Theorem split_exact : forall (d : ds),
  materialized d = true -> aligned d -> has_split_col d = true ->
  exists a b c, split3 d = Some (a, b, c) /\
    df a = filter (fun r => Z.eqb (split r) 0) (df d) /\
    df b = filter (fun r => Z.eqb (split r) 1) (df d) /\
    df c = filter (fun r => Z.eqb (split r) 2) (df d) /\
    aligned a /\ aligned b /\ aligned c.
Proof. exact split3_exact_proof. Qed.
Print Assumptions split_exact.

(* the pre-fix get_split (labels used as positions, repaired by 965832b) is
   refuted: on a RangeIndex frame, after a shuffle, its 'train' subset contains
   a row of another split, where the repaired code returns the right rows.
   Finite witness, proved by vm_compute (Legacy/DatasetLegacy.v). *)
Theorem get_split_legacy_refuted :
  exists (labels : list lbl) (splits : list Z) (perm : list nat) (name : string) (k : Z),
    let d0 := dataset_of labels splits in
    labels = map (fun i => LInt (Z.of_nat i)) (seq 0 (length labels)) /\
    Permutation perm (seq 0 (len d0)) /\
    In (name, k) [("train", 0); ("val", 1); ("test", 2)]%string%Z /\
    exists d1 d2,
      step d0 (OShuffle perm) = Some d1 /\
      get_split_legacy d1 name = Some d2 /\
      existsb (fun r => negb (Z.eqb (split r) k)) (df d2) = true /\
      option_map df (get_split d1 name) = Some (filter (fun r => Z.eqb (split r) k) (df d1)).
Proof. exact get_split_legacy_wrong_rows. Qed.
Print Assumptions get_split_legacy_refuted.

(* ================================================================== *)
(* 3. derived datasets never alter the dataset they came from          *)

(* Operations applied as a tree to any earlier dataset of the store: every
   older entry is unchanged, except that `materialize` (which mutates its
   receiver in the Python) replaces its target by its materialized self; and
   every dataset in the store satisfies the invariant.
   NOTE: the model is purely functional - nothing that copy.copy shares between
   the Python objects (frame buffers, the `_col_stats` dict) is represented - so
   "unchanged" is true of the model by construction.  For the REAL objects this
   clause is OBSERVED, not proved: harness/c09.py snapshots every existing
   dataset (index labels, every DataFrame id column, split values, columns,
   col_to_stype keys, target_col / split_col / is_materialized / len, every
   TensorFrame column and y, col_stats keys) before and after EVERY operation
   of every history and reports `source-modified:*` on any difference. *)
Theorem derived_never_alter_their_source : forall (prog : list tstep) (store : list (option ds)),
  Forall oinv store ->
  Forall oinv (fst (tree_run store prog)) /\
  Forall2 same_or_materialized store (firstn (length store) (fst (tree_run store prog))).
Proof. exact tree_unchanged_proof. Qed.
Print Assumptions derived_never_alter_their_source.

(* ------------------------------------------------------------------ *)
(* 3b. the same clause over a heap with the aliasing copy.copy creates  *)

(* Model/DatasetHeap.v keeps the one Python object that the anchored code both
   shares between copies and mutates in place - the statistics dict
   `_col_stats` - as a heap cell; every Dataset object is its functional view
   plus the address of its dict.  This model is compared with the real objects
   on every run: after EVERY step the correspondence checks
   list(obj.col_stats.keys()) of EVERY existing dataset (heap_case). *)

(* the heap refines the functional store: projected to the functional views it
   IS tree_run, step by step and observation by observation - so every theorem
   above holds of the heap's objects *)
Theorem heap_refines_functional_store : forall (prog : list hstep) (h : heap),
  project (fst (heap_run h prog)) = fst (tree_run (project h) (map erase prog)) /\
  map fst (snd (heap_run h prog)) = snd (tree_run (project h) (map erase prog)).
Proof. exact heap_run_refines. Qed.
Print Assumptions heap_refines_functional_store.

(* dict addresses are always allocated (the `nth ... []` default in the model is never used) *)
Theorem heap_stays_well_formed : forall (d0 : ds) (prog : list hstep), wf_heap (fst (heap_run (heap0 d0) prog)).
Proof. exact wf_heap_run0. Qed.
Print Assumptions heap_stays_well_formed.

(* every operation other than materialize() - every row selection, shuffle,
   split lookup, column selection, read - leaves every existing object (rows,
   TensorFrame, columns, flags, dict address) and every statistics dict exactly
   as it was, for one step and for whole histories *)
Theorem derived_never_alter_their_source_heap : forall (h : heap) (s : hstep),
  is_materialize s = false ->
  firstn (length (objs h)) (objs (heap_step h s)) = objs h /\
  firstn (length (objs h)) (heap_views (heap_step h s)) = heap_views h.
Proof. exact non_materialize_step_views. Qed.
Print Assumptions derived_never_alter_their_source_heap.

Theorem derived_never_alter_their_source_heap_histories : forall (prog : list hstep) (h : heap),
  forallb (fun s => negb (is_materialize s)) prog = true ->
  exists new, objs (fst (heap_run h prog)) = objs h ++ new /\ dicts (fst (heap_run h prog)) = dicts h.
Proof. exact non_materialize_run_preserves. Qed.
Print Assumptions derived_never_alter_their_source_heap_histories.

(* materialize(): its exact footprint.  No object other than the receiver
   changes.  With re-bound statistics (col_stats=..., cache load) no existing
   dict changes.  With statistics computed in place only the receiver's dict
   changes, and it only gains keys at the end: exactly the receiver's copy.copy
   relatives (same dict address) see more statistics keys, nobody loses one. *)
Theorem materialize_footprint : forall (h : heap) (p : nat) (m : mat_mode),
  wf_heap h ->
  let h' := heap_step h (HOp p OMaterialize m) in
  length (objs h') = length (objs h) /\
  (forall q, q <> p -> nth_error (objs h') q = nth_error (objs h) q) /\
  (forall a, a < length (dicts h) ->
     (forall ob, hlookup h p = Some ob -> a <> stats_at ob) -> nth a (dicts h') [] = nth a (dicts h) []) /\
  (forall a, a < length (dicts h) -> exists extra, nth a (dicts h') [] = nth a (dicts h) [] ++ extra) /\
  (m = Rebind -> forall a, a < length (dicts h) -> nth a (dicts h') [] = nth a (dicts h) []).
Proof. exact materialize_step_footprint. Qed.
Print Assumptions materialize_footprint.

(* ================================================================== *)
(* 4. the gates                                                        *)

(* TensorFrame, statistics and every row selection only after materialization *)
Theorem reads_before_materialization_raise : forall d, materialized d = false ->
  tensor_frame d = None /\ col_stats d = None.
Proof. exact reads_gate_proof. Qed.
Print Assumptions reads_before_materialization_raise.

Theorem row_selection_before_materialization_raises : forall d o, materialized d = false ->
  match o with
  | OGetItem (KRows _) | OGetItem (KStrs []) | OIndexSelect _ | OShuffle _ | OGetSplit _ => step d o = None
  | _ => True
  end.
Proof. exact row_ops_gate. Qed.
Print Assumptions row_selection_before_materialization_raises.

Theorem split_before_materialization_raises : forall d, materialized d = false -> split3 d = None.
Proof. exact split3_gate. Qed.
Print Assumptions split_before_materialization_raises.

(* (only the gate of col_stats is modelled, not the statistics) *)
Theorem reads_after_materialization : forall d, materialized d = true -> aligned d ->
  tensor_frame d = Some (map rid (df d)) /\ col_stats d = Some tt.
Proof. exact tensor_frame_after_proof. Qed.
Print Assumptions reads_after_materialization.

(* column selection only before materialization (method or dataset["c"] / dataset[["c", ...]]) *)
Theorem col_select_after_materialization_raises : forall d, materialized d = true ->
  (forall cols, col_select d cols = None) /\
  (forall c, getitem d (KStr c) = None) /\
  (forall c cs, getitem d (KStrs (c :: cs)) = None).
Proof. exact col_select_getitem_gate_proof. Qed.
Print Assumptions col_select_after_materialization_raises.

(* ... and always keeps the target: the result has the same rows, the requested
   columns plus the target and nothing else, all of them existing columns *)
Theorem col_select_keeps_target : forall d cols d',
  col_select d cols = Some d' ->
  df d' = df d /\ target_col d' = target_col d /\
  (forall c, In c cols -> In c (df_cols d')) /\
  (forall c, In c (df_cols d') -> In c (df_cols d) /\ In c (stype_cols d)) /\
  (forall t, target_col d = Some t -> In t (df_cols d')) /\
  (forall c, In c (df_cols d') -> In c cols \/ target_col d = Some c).
Proof. exact col_select_keeps. Qed.
Print Assumptions col_select_keeps_target.

(* col_to_stype of the result names the same columns as its frame (a repeated
   request keeps the repetition in the frame only) *)
Theorem col_select_stype_keys : forall d cols d', col_select d cols = Some d' ->
  forall c, In c (stype_cols d') <-> In c (df_cols d').
Proof. exact col_select_stype_keys_proof. Qed.
Print Assumptions col_select_stype_keys.

(* ================================================================== *)
(* 5. generate_random_split                                            *)

(* int(x) on a finite double x = (-1)^s * m * 2^e is the integer part of its
   exact value (the floor, for the non-negative products used here) *)
Theorem py_int_is_floor : forall f s m e z,
  Prim2SF f = S754_finite s m e -> py_int f = Some z ->
  let a := Z.abs z in
  (z = (if s then - a else a))%Z /\
  ((0 <= e)%Z -> a = (Z.pos m * 2 ^ e)%Z) /\
  ((e < 0)%Z -> (a * 2 ^ (- e) <= Z.pos m < (a + 1) * 2 ^ (- e))%Z).
Proof. exact py_int_finite. Qed.
Print Assumptions py_int_is_floor.

Section SplitGenerator.
  (* numpy's arrangement for np.random.seed(seed); np.random.shuffle(a), len(a) = n *)
  Variable np_perm : Z -> nat -> list nat.

  (* rejection of ratios that are not positive (this includes NaN) ... *)
  Theorem split_rejects_nonpositive_ratios : forall n seed tr vr it,
    PrimFloat.ltb PrimFloat.zero tr = false \/ PrimFloat.ltb PrimFloat.zero vr = false ->
    generate_random_split np_perm n seed tr vr it = None.
  Proof.
    exact (fun n seed tr vr it H => match H with
           | or_introl H1 => rejects_train_not_positive np_perm n seed tr vr it H1
           | or_intror H2 => rejects_val_not_positive np_perm n seed tr vr it H2 end).
  Qed.

  (* ... that leave no room for a test split ... *)
  Theorem split_rejects_no_room_for_test : forall n seed tr vr,
    PrimFloat.ltb (PrimFloat.add tr vr) PrimFloat.one = false -> generate_random_split np_perm n seed tr vr true = None.
  Proof. exact (rejects_no_room np_perm). Qed.

  (* ... or, without a test split, do not exactly fill the whole (double equality) *)
  Theorem split_rejects_not_exactly_filling : forall n seed tr vr,
    PrimFloat.eqb (PrimFloat.add tr vr) PrimFloat.one = false -> generate_random_split np_perm n seed tr vr false = None.
  Proof. exact (rejects_not_filling np_perm). Qed.

  (* every accepted call returns numpy's arrangement (for this seed and length)
     of the block array: floor(n*tr) train labels, floor(n*vr) val labels, the
     remainder test *)
  Theorem split_blocks_with_test : forall n seed tr vr arr,
    generate_random_split np_perm n seed tr vr true = Some arr ->
    PrimFloat.ltb PrimFloat.zero tr = true /\ PrimFloat.ltb PrimFloat.zero vr = true /\ PrimFloat.ltb (PrimFloat.add tr vr) PrimFloat.one = true /\
    exists tn vn,
      py_int (PrimFloat.mul (float_of_nat n) tr) = Some (Z.of_nat tn) /\
      py_int (PrimFloat.mul (float_of_nat n) vr) = Some (Z.of_nat vn) /\
      tn + vn <= n /\
      apply_perm (np_perm seed n) (blocks tn vn (n - tn - vn)) = Some arr.
  Proof. exact (success_with_test np_perm). Qed.

  (* without a test split the remainder is validation *)
  Theorem split_blocks_without_test : forall n seed tr vr arr,
    generate_random_split np_perm n seed tr vr false = Some arr ->
    PrimFloat.ltb PrimFloat.zero tr = true /\ PrimFloat.ltb PrimFloat.zero vr = true /\ PrimFloat.eqb (PrimFloat.add tr vr) PrimFloat.one = true /\
    exists tn,
      py_int (PrimFloat.mul (float_of_nat n) tr) = Some (Z.of_nat tn) /\
      tn <= n /\
      apply_perm (np_perm seed n) (blocks tn (n - tn) 0) = Some arr.
  Proof. exact (success_without_test np_perm). Qed.

  (* conversely, valid ratios whose counts fit are accepted *)
  Theorem split_accepts_valid_ratios : forall n seed tr vr tn vn,
    PrimFloat.ltb PrimFloat.zero tr = true -> PrimFloat.ltb PrimFloat.zero vr = true -> PrimFloat.ltb (PrimFloat.add tr vr) PrimFloat.one = true ->
    py_int (PrimFloat.mul (float_of_nat n) tr) = Some (Z.of_nat tn) ->
    py_int (PrimFloat.mul (float_of_nat n) vr) = Some (Z.of_nat vn) ->
    tn + vn <= n ->
    generate_random_split np_perm n seed tr vr true =
      apply_perm (np_perm seed n) (blocks tn vn (n - tn - vn)).
  Proof. exact (accepts_with_test np_perm). Qed.

  (* H_shuffle_perm (numpy; validated by the harness on every case): the seeded
     shuffle applies a permutation *)
  Hypothesis H_shuffle_perm : forall seed n, Permutation (np_perm seed n) (seq 0 n).

  (* then: length n, labels in {0,1,2}, exactly a / b / c rows of each label, a
     rearrangement of the blocks - and the arrangement is `np_perm seed n`, a
     function of the seed (and length) alone.  NOTE: that numpy's arrangement
     depends on (seed, length) only - not on the prior global RNG state nor on
     the array's values - is carried by the TYPE of np_perm, i.e. it is an
     assumption next to H_shuffle_perm, validated by the harness on every case
     (two prior states; the arrangement measured on arange(n)) *)
  Theorem split_counts_labels_length : forall seed n a b c (arr : list Z),
    a + b + c = n -> apply_perm (np_perm seed n) (blocks a b c) = Some arr ->
    length arr = n /\
    Forall (fun x => x = 0 \/ x = 1 \/ x = 2)%Z arr /\
    count_occ Z.eq_dec arr 0%Z = a /\ count_occ Z.eq_dec arr 1%Z = b /\ count_occ Z.eq_dec arr 2%Z = c /\
    Permutation arr (blocks a b c).
  Proof. exact (result_facts np_perm H_shuffle_perm). Qed.

  Theorem split_arrangement_defined : forall seed n (l : list Z),
    length l = n -> exists arr, apply_perm (np_perm seed n) l = Some arr.
  Proof. exact (arrangement_defined np_perm H_shuffle_perm). Qed.
End SplitGenerator.
Print Assumptions split_rejects_nonpositive_ratios.
Print Assumptions split_rejects_no_room_for_test.
Print Assumptions split_rejects_not_exactly_filling.
Print Assumptions split_blocks_with_test.
Print Assumptions split_blocks_without_test.
Print Assumptions split_accepts_valid_ratios.
Print Assumptions split_counts_labels_length.
Print Assumptions split_arrangement_defined.

(* ------------------------------------------------------------------ *)
(* 5b. H_shuffle_perm proved: numpy's shuffle as an algorithm            *)

(* Model/NpShuffle.v is np.random.shuffle as numpy's legacy generator runs it
   after np.random.seed(seed): the Fisher-Yates loop `for i in reversed(range(1,
   n)): j = random_interval(i); swap x[i], x[j]` with random_interval's mask and
   rejection rule, over the raw next_uint32() word stream (the only black box
   left).  The correspondence recomputes generate_random_split's output from
   the word stream on every run (split_case_fy). *)

(* the shuffle returns a permutation of its argument - for EVERY word stream,
   i.e. whatever the generator draws *)
Theorem np_shuffle_is_a_permutation : forall (A : Type) (stream : list Z) (l r : list A),
  np_shuffle stream l = Some r -> Permutation r l.
Proof. exact (@np_shuffle_perm). Qed.
Print Assumptions np_shuffle_is_a_permutation.

(* the arrangement is a function of the word stream (i.e. of the seed) and the
   LENGTH only, not of the values: shuffling x is gathering x by the shuffle of
   arange(len(x)) *)
Theorem np_shuffle_arrangement_ignores_values : forall (A : Type) (stream : list Z) (l : list A),
  np_shuffle stream l = (p <- np_shuffle stream (seq 0 (length l)) ;; tgather l p).
Proof. exact (@np_shuffle_by_positions). Qed.
Print Assumptions np_shuffle_arrangement_ignores_values.

(* random_interval(max) draws within [.., max] *)
Theorem random_interval_in_range : forall mx stream v r, (0 <= mx)%Z ->
  random_interval mx stream = Some (v, r) -> (v <= mx)%Z.
Proof. exact random_interval_range. Qed.
Print Assumptions random_interval_in_range.

(* hence the hypothesis of section SplitGenerator holds of the modelled numpy,
   for every word stream, seed and length ... *)
Theorem H_shuffle_perm_proved : forall (mt : Z -> list Z) (seed : Z) (n : nat),
  Permutation (np_perm_fy mt seed n) (seq 0 n).
Proof. exact np_perm_fy_perm. Qed.
Print Assumptions H_shuffle_perm_proved.

(* ... the split generator's counts / labels / length theorem needs no
   hypothesis any more ... *)
Theorem split_counts_labels_length_unconditional : forall (mt : Z -> list Z) seed n a b c (arr : list Z),
  a + b + c = n -> apply_perm (np_perm_fy mt seed n) (blocks a b c) = Some arr ->
  length arr = n /\
  Forall (fun x => x = 0 \/ x = 1 \/ x = 2)%Z arr /\
  count_occ Z.eq_dec arr 0%Z = a /\ count_occ Z.eq_dec arr 1%Z = b /\ count_occ Z.eq_dec arr 2%Z = c /\
  Permutation arr (blocks a b c).
Proof. exact (fun mt => split_counts_labels_length (np_perm_fy mt) (np_perm_fy_perm mt)). Qed.
Print Assumptions split_counts_labels_length_unconditional.

(* ... and the gather the Split model applies is the code's in-place
   `np.random.shuffle(arr)` of the block array *)
Theorem split_generator_shuffles_blocks_in_place : forall (mt : Z -> list Z) seed (arr : list Z),
  np_shuffle (mt seed) (seq 0 (length arr)) <> None ->
  apply_perm (np_perm_fy mt seed (length arr)) arr = np_shuffle (mt seed) arr.
Proof. exact apply_perm_is_np_shuffle. Qed.
Print Assumptions split_generator_shuffles_blocks_in_place.

(* ================================================================== *)
(* Examples: the hypotheses are satisfiable on concrete non-trivial states *)

(* five rows, permuted labels, splits 0 1 2 0 1 *)
Definition ex_ds : ds :=
  dataset_of [LInt 3; LInt 0; LInt 4; LInt 1; LInt 2]%Z [0; 1; 2; 0; 1]%Z.

Example ex_ds_materialized_aligned : materialized ex_ds = true /\ aligned ex_ds /\ has_split_col ex_ds = true.
Proof. repeat split. Qed.

(* a history: shuffle, a list selection with a repeated row, a fractional
   slice ds[0.25:] (cut at round(1.5) = 2), then the 'val' subset - reachable, so every theorem above
   applies to the result *)
Definition ex_half : PrimFloat.float := mk_float false 4503599627370496 (-54).   (* 0.25 *)
Definition ex_history : list op :=
  [OShuffle [2; 0; 4; 1; 3]; OGetItem (KRows (DIdx (IList [4; 0; 0; -1; 2; 3]%Z)));
   OGetItem (KRows (DSlice (Some (BFloat ex_half)) None None)); OGetSplit "val"].
Example ex_history_runs :
  option_map (fun d => (map rid (df d), tf d)) (run ex_ds ex_history) = Some ([4; 1], Some [4; 1]).
Proof. vm_compute. reflexivity. Qed.

Example ex_shuffle_hypothesis : Permutation [2; 0; 4; 1; 3] (seq 0 (len ex_ds)).
Proof.
  apply Permutation_sym. simpl.
  apply (Permutation_cons_app [2] [4; 1; 3] 0). apply (Permutation_cons_app [2; 4] [3] 1).
  apply (Permutation_cons_app [] [4; 3] 2). apply (Permutation_cons_app [4] [] 3). apply Permutation_refl.
Qed.

(* round(0.3 * 5) = round(1.5) = 2 and round(0.5 * 5) = round(2.5) = 2 (ties to
   even), whereas int() would give 1 and 2; int(100 * 0.29) = 28, not 29 *)
Example ex_round_cuts :
  float_cut 5 (Some (BFloat (mk_float false 5404319552844595 (-54)))) = Some (Some 2%Z) /\
  float_cut 5 (Some (BFloat (mk_float false 4503599627370496 (-53)))) = Some (Some 2%Z) /\
  py_int (PrimFloat.mul (mk_float false 5404319552844595 (-54)) (float_of_nat 5)) = Some 1%Z /\
  py_int (PrimFloat.mul (float_of_nat 100) (mk_float false 5224175567749775 (-54))) = Some 28%Z.
Proof. vm_compute. repeat split. Qed.

(* an unmaterialized dataset: the gates' hypotheses, and col_select *)
Definition ex_fresh : ds :=
  fresh [mkRow (LStr "a") 0 0; mkRow (LStr "b") 1 2] ["rid"; "f2"; "y"; "s"]%string ["rid"; "f2"; "y"]%string
        (Some "y"%string) (Some "s"%string).
Example ex_col_select :
  option_map df_cols (col_select ex_fresh ["f2"]%string) = Some ["f2"; "y"]%string /\
  option_map df_cols (run ex_fresh [OColSelect ["f2"]%string; OMaterialize; OShuffle [1; 0]]) = Some ["f2"; "y"]%string /\
  run ex_fresh [OMaterialize; OColSelect ["f2"]%string] = None /\
  run ex_fresh [OShuffle [1; 0]] = None.
Proof. vm_compute. repeat split. Qed.

(* the split generator with a concrete arrangement that satisfies H_shuffle_perm
   (reversal): 10 rows, ratios 0.7 / 0.1 *)
Example ex_shuffle_perm_instance : forall (seed : Z) n, Permutation ((fun _ n => rev (seq 0 n)) seed n) (seq 0 n).
Proof. intros. apply Permutation_sym. apply Permutation_rev. Qed.
Example ex_generate :
  generate_random_split (fun _ n => rev (seq 0 n)) 10 42
     (mk_float false 6305039478318694 (-53)) (mk_float false 7205759403792794 (-56)) true
  = Some [2; 2; 1; 0; 0; 0; 0; 0; 0; 0]%Z.
Proof. vm_compute. reflexivity. Qed.

(* the heap: a col_select child materialized before its source; materializing
   the source afterwards adds the key "f2" to the child's statistics (shared
   dict), while with re-bound statistics it does not *)
Example ex_heap_aliasing :
  map snd (snd (heap_run (heap0 ex_fresh)
     [HOp 0 (OColSelect ["rid"]%string) InPlace; HOp 1 OMaterialize InPlace; HOp 0 OMaterialize InPlace]))
  = [[None; None]; [None; Some ["rid"; "y"]%string]; [Some ["rid"; "y"; "f2"]%string; Some ["rid"; "y"; "f2"]%string]]
  /\
  map snd (snd (heap_run (heap0 ex_fresh)
     [HOp 0 (OColSelect ["rid"]%string) InPlace; HOp 1 OMaterialize InPlace; HOp 0 OMaterialize Rebind]))
  = [[None; None]; [None; Some ["rid"; "y"]%string]; [Some ["rid"; "f2"; "y"]%string; Some ["rid"; "y"]%string]].
Proof. vm_compute. split; reflexivity. Qed.

(* numpy's shuffle on a concrete word stream: masks 3, 3, 1; draws j = 2 at i = 3,
   the word 7 rejected at i = 2 (7 land 3 = 3 > 2) then j = 1, and j = 0 at i = 1 *)
Example ex_np_shuffle :
  np_shuffle [6; 7; 5; 2]%Z [10; 11; 12; 13]%Z = Some [13; 10; 11; 12]%Z /\
  np_perm_fy (fun _ => [6; 7; 5; 2]%Z) 0 4 = [3; 0; 1; 2] /\
  np_shuffle [6; 7]%Z [10; 11; 12; 13]%Z = None.
Proof. vm_compute. repeat split. Qed.
