(* C19 — feature mixup swaps whole features with one partner row, mixes targets convexly.
   Statements only; proofs live in Proofs/MixupProofs.v.  The model (Model/Mixup.v) mirrors
   excelformer.py:feature_mixup with its three random draws (rates, perm, unif : draws) as explicit inputs, so every
   theorem below holds FOR EVERY value of the draws (all seeds), every batch shape [B>=1, F>=1, D], every target,
   every beta (beta only shapes the distribution of `rates`) and every mutual-information vector.

   IEEE level (section 7 below, Lib/FloatSelect.v, Flocq): the id model treats "mask * x + ~mask * x[perm]" as a
   selection.  Theorems mixup_entry_ieee_exact / mixup_entry_never_reads_other lift the clause "each entry is taken
   UNCHANGED from the row itself or its partner" to IEEE binary32 (round to nearest even) for all FINITE entries:
   the formula returns the selected entry bit for bit; the one thing not preserved is the SIGN OF A ZERO entry
   (-0.0 + 0.0 = +0.0; the harness identifies +-0).  inf / nan entries are outside (0 * inf = nan).
   rewritten_select_refuted: the "one multiplication less" form x + ~mask * (x[perm] - x) is NOT a selection
   (binary32 witness own = 1e8, partner = 1.0 gives +0.0).  These three theorems -- and only these -- depend on the
   standard library's real-number / classical axioms that Flocq imports (named in the trusted base); every other
   theorem of this file is closed under the global context.

   Reading aid:  ent t i j k = Some v   entry (i,j,k) of a rank-3 tensor exists and is v
                 perm dr                  shuffled_idx: row i's partner is  nth_error (perm dr) i
                 draw_mask (rates dr) (unif dr)   the hard mask  rand < shuffle_rates   ([B,F] or [B,D])
                 mixup_lams mt mi dr      lam per row as computed in mode mt
                 cvx lam a b = lam * a + (1 - lam) * b                                                       *)
From Coq Require Import List ZArith QArith Bool Arith.
From PF Require Import Lib.ListX Model.Mixup Proofs.MixupProofs.
Import ListNotations.
Open Scope Q_scope.

(* 1. Every entry of a mixed row is the entry at the same position (j,k) of the row itself or of its ONE partner
      row perm[i], a row of the batch. *)
Theorem mixed_entry_is_own_or_partner :
  forall x y nc mt mi dr xm ym,
    feature_mixup x y nc mt mi dr = Some (xm, ym) ->
    forall i j k v, ent xm i j k = Some v ->
    exists p, nth_error (perm dr) i = Some p /\ (p < length x)%nat /\
              (ent x i j k = Some v \/ ent x p j k = Some v).
Proof. exact mixup_entry_own_or_partner. Qed.
Print Assumptions mixed_entry_is_own_or_partner.

(* 1b. ... and which of the two is decided by the mask entry of the mode: (row, column) in feature mode,
       (row, channel) in hidden mode, constant "own" when off.  true = keep the own entry. *)
Theorem mixed_entry_follows_mask :
  forall x y nc mt mi dr xm ym,
    feature_mixup x y nc mt mi dr = Some (xm, ym) ->
    forall i j k v, ent xm i j k = Some v ->
    exists p m, nth_error (perm dr) i = Some p /\ (p < length x)%nat /\
                mask_at mt dr i j k = Some m /\ ent x (if m then i else p) j k = Some v.
Proof. exact mixup_entry. Qed.
Print Assumptions mixed_entry_follows_mask.

(* 1c. The mixed tensor has exactly the shape (index domain) of the input. *)
Theorem mixed_tensor_same_shape :
  forall x y nc mt mi dr xm ym,
    feature_mixup x y nc mt mi dr = Some (xm, ym) ->
    forall i j k, ent xm i j k <> None <-> ent x i j k <> None.
Proof. exact mixup_same_shape. Qed.
Print Assumptions mixed_tensor_same_shape.

(* 2. Granularity.  Feature mode: the whole embedding of column j of row i comes from one source row (the row
      itself or its partner).  Hidden mode: the whole channel k of row i (across all columns) does. *)
Theorem feature_mode_swaps_whole_columns :
  forall x y nc mi dr xm ym,
    feature_mixup x y nc MixFeature mi dr = Some (xm, ym) ->
    forall i j, exists src, (src = i \/ nth_error (perm dr) i = Some src) /\
      forall k v, ent xm i j k = Some v -> ent x src j k = Some v.
Proof. exact mixup_feature_whole_column. Qed.
Print Assumptions feature_mode_swaps_whole_columns.

Theorem hidden_mode_swaps_whole_channels :
  forall x y nc mi dr xm ym,
    feature_mixup x y nc MixHidden mi dr = Some (xm, ym) ->
    forall i k, exists src, (src = i \/ nth_error (perm dr) i = Some src) /\
      forall j v, ent xm i j k = Some v -> ent x src j k = Some v.
Proof. exact mixup_hidden_whole_channel. Qed.
Print Assumptions hidden_mode_swaps_whole_channels.

(* 3. The returned target is all-nan (no raise) exactly for mutual-information scores with a ZERO sum in feature
      mode -- outside the property's quantifier (scores >= 0, positive sum), stated so that the hypothesis
      `ym <> YMNaN` of the next two theorems is seen to cost nothing inside it. *)
Theorem nan_target_iff_zero_sum_mi :
  forall x y nc mt mi dr xm ym,
    feature_mixup x y nc mt mi dr = Some (xm, ym) ->
    (ym = YMNaN <-> mt = MixFeature /\ exists m, mi = Some m /\ qsum m == 0).
Proof. exact mixup_nan_iff. Qed.
Print Assumptions nan_target_iff_zero_sum_mi.

(* 3a. Class targets (num_classes > 1): row i of the returned target is
        lam_i * onehot(y_i) + (1 - lam_i) * onehot(y_p)      with the SAME partner p = perm[i] as the features. *)
Theorem class_target_is_convex_mix_with_same_partner :
  forall x y nc mt mi dr xm ym,
    feature_mixup x y nc mt mi dr = Some (xm, ym) -> nc <> 1%nat -> ym <> YMNaN ->
    exists ys rows, y = YIdx ys /\ ym = YMClass rows /\ length rows = length x /\
      forall i row, nth_error rows i = Some row ->
        exists lam p yi yp,
          nth_error (mixup_lams mt mi dr) i = Some lam /\ nth_error (perm dr) i = Some p /\
          nth_error ys i = Some yi /\ nth_error ys p = Some yp /\ (yi < nc)%nat /\ (yp < nc)%nat /\
          row = map2 (cvx lam) (onehot_row nc yi) (onehot_row nc yp).
Proof. exact mixup_class_target. Qed.
Print Assumptions class_target_is_convex_mix_with_same_partner.

(* 3b. Scalar targets (num_classes = 1): lam_i * y_i + (1 - lam_i) * y_p, same partner. *)
Theorem scalar_target_is_convex_mix_with_same_partner :
  forall x y mt mi dr xm ym,
    feature_mixup x y 1 mt mi dr = Some (xm, ym) -> ym <> YMNaN ->
    exists vals, ym = YMScalar vals /\ length vals = length x /\
      forall i v, nth_error vals i = Some v ->
        exists lam p yi yp,
          nth_error (mixup_lams mt mi dr) i = Some lam /\ nth_error (perm dr) i = Some p /\
          nth_error (scalar_values y) i = Some yi /\ nth_error (scalar_values y) p = Some yp /\
          v = cvx lam yi yp.
Proof. exact mixup_scalar_target. Qed.
Print Assumptions scalar_target_is_convex_mix_with_same_partner.

(* 4. lam is in [0,1] in every mode (beta rates in [0,1]; MI scores non-negative with POSITIVE SUM: an explicit
      hypothesis) ... *)
Theorem lambda_in_unit_interval :
  forall mt mi dr,
    Forall (fun r => 0 <= r <= 1) (rates dr) ->
    (mt = MixFeature -> exists m, mi = Some m /\ Forall (fun v => 0 <= v) m /\ 0 < qsum m) ->
    Forall (fun lam => 0 <= lam <= 1) (mixup_lams mt mi dr).
Proof. exact mixup_lams_unit. Qed.
Print Assumptions lambda_in_unit_interval.

(* ... hence class targets are non-negative and sum to one, *)
Theorem class_targets_are_distributions :
  forall x y nc mt mi dr xm rows,
    feature_mixup x y nc mt mi dr = Some (xm, YMClass rows) -> nc <> 1%nat ->
    Forall (fun r => 0 <= r <= 1) (rates dr) ->
    (mt = MixFeature -> exists m, mi = Some m /\ Forall (fun v => 0 <= v) m /\ 0 < qsum m) ->
    forall row, In row rows -> Forall (fun v => 0 <= v) row /\ qsum row == 1.
Proof. exact mixup_class_distribution. Qed.
Print Assumptions class_targets_are_distributions.

(* ... and a scalar target lies between the own and the partner's value. *)
Theorem convex_mix_between :
  forall lam a b, 0 <= lam <= 1 ->
    (a <= b -> a <= cvx lam a b <= b) /\ (b <= a -> b <= cvx lam a b <= a).
Proof. intros lam a b H. split; [apply cvx_between|apply cvx_between']; exact H. Qed.
Print Assumptions convex_mix_between.

(* 5. Feature mode, scores with a positive sum: lam_i = (mutual-information mass of the columns row i keeps) /
      (total mass); mrow is row i of the very mask that decides the feature swaps (mask_at). *)
Theorem feature_mode_lambda_is_mi_share :
  forall mi dr,
    0 < qsum mi ->
    forall i lam, nth_error (mixup_lams MixFeature (Some mi) dr) i = Some lam ->
      exists mrow, nth_error (draw_mask (rates dr) (unif dr)) i = Some mrow /\
                   lam == kept_mass mi mrow / qsum mi.
Proof. exact mixup_feature_lambda. Qed.
Print Assumptions feature_mode_lambda_is_mi_share.

(* 5b. The L1 normalisation at full strength: for EVERY non-negative score vector with positive sum (mass 1, 1 +- 1e-5,
       10, ...) and EVERY mask row, lambda is the share of the kept mass and lies in [0,1]; all columns kept <-> 1,
       none kept <-> 0; with a single column (F = 1) lambda is 1 or 0 exactly as the row keeps or swaps its column. *)
Theorem lambda_is_share_and_in_unit_interval :
  forall mi mrow, Forall (fun v => 0 <= v) mi -> 0 < qsum mi ->
    lam_feature mi mrow == kept_mass mi mrow / qsum mi /\ 0 <= lam_feature mi mrow <= 1.
Proof. exact lam_feature_share_unit. Qed.
Print Assumptions lambda_is_share_and_in_unit_interval.

Theorem lambda_of_all_kept_and_none_kept :
  forall mi, 0 < qsum mi ->
    lam_feature mi (repeat true (length mi)) == 1 /\ lam_feature mi (repeat false (length mi)) == 0.
Proof. intros mi H. split; [apply lam_feature_all_kept|apply lam_feature_none_kept]; exact H. Qed.
Print Assumptions lambda_of_all_kept_and_none_kept.

Theorem single_column_lambda_is_zero_or_one :
  forall m b, 0 < m -> lam_feature [m] [b] == bq b.
Proof. exact lam_feature_single_column. Qed.
Print Assumptions single_column_lambda_is_zero_or_one.

(* two rewrites of this block that look harmless are REFUTED (computed witnesses; both are replayed against /repo on
   every run: the generator draws the witness vector and one-column batches, share_agrees checks lambda = share):
   - "skip the normalisation when the mass is within 1e-3 of one": [0.5008; 0.3; 0.2], all columns kept -> 1.0008 > 1;
   - "fall back to hidden mode when F = 1": lambda becomes the beta rate instead of the share. *)
Theorem skip_normalisation_when_close_to_one_refuted :
  exists mi mrow,
    Forall (fun v => 0 <= v) mi /\ 0 < qsum mi /\
    ~ (lam_feature_skip_close mi mrow <= 1) /\ ~ (lam_feature_skip_close mi mrow == kept_mass mi mrow / qsum mi) /\
    lam_feature mi mrow == 1.
Proof. exact skip_close_refuted. Qed.
Print Assumptions skip_normalisation_when_close_to_one_refuted.

Theorem single_column_hidden_fallback_refuted :
  exists mi (dr : draws),
    0 < qsum mi /\
    mixup_lams MixFeature (Some mi) dr = map (lam_feature mi) (draw_mask (rates dr) (unif dr)) /\
    ~ Forall2 Qeq (mixup_lams MixHidden (Some mi) dr) (mixup_lams MixFeature (Some mi) dr).
Proof. exact single_column_fallback_refuted. Qed.
Print Assumptions single_column_hidden_fallback_refuted.

Example share_agrees_example :
  share_agrees 0 [5008 # 10000; 3 # 10; 2 # 10] [([true; true; true], 1); ([true; false; false], 5008 # 10008)] = true.
Proof. vm_compute. reflexivity. Qed.

(* 6. Mixup off: features unchanged, plain one-hot labels / plain scalars. *)
Theorem off_features_unchanged :
  forall x y nc mi dr xm ym, feature_mixup x y nc MixNone mi dr = Some (xm, ym) -> xm = x.
Proof. exact mixup_off_features. Qed.
Print Assumptions off_features_unchanged.

Theorem off_class_targets_are_one_hot :
  forall x y nc mi dr xm ym,
    feature_mixup x y nc MixNone mi dr = Some (xm, ym) -> nc <> 1%nat ->
    exists ys rows, y = YIdx ys /\ ym = YMClass rows /\ length rows = length x /\
      forall i row, nth_error rows i = Some row ->
        exists yi, nth_error ys i = Some yi /\ (yi < nc)%nat /\ Forall2 Qeq row (onehot_row nc yi).
Proof. exact mixup_off_class_target. Qed.
Print Assumptions off_class_targets_are_one_hot.

Theorem off_scalar_targets_unchanged :
  forall x y mi dr xm ym,
    feature_mixup x y 1 MixNone mi dr = Some (xm, ym) ->
    exists vals, ym = YMScalar vals /\ length vals = length x /\
      forall i v, nth_error vals i = Some v ->
        exists yi, nth_error (scalar_values y) i = Some yi /\ v == yi.
Proof. exact mixup_off_scalar_target. Qed.
Print Assumptions off_scalar_targets_unchanged.

(* ---------------------------------------------------------------------------------------------------------
   The hypotheses are satisfiable: concrete non-trivial runs (B=2, F=2, D=2), evaluated by vm_compute.
   Feature mode, MI = [1;3], row 0 keeps column 0 only (lam = 1/4), row 1 keeps column 1 only (lam = 3/4). *)
Definition ex_x : list (list (list Z)) := [[[1;2];[3;4]]; [[5;6];[7;8]]]%Z.
Definition ex_dr : draws :=
  {| rates := [1#2; 1#2]; perm := [1%nat; 0%nat]; unif := [[0; 1]; [1; 0]] |}.

Example feature_mode_example :
  mixup_agrees ex_x (YIdx [0%nat; 2%nat]) 3 MixFeature (Some [1; 3]) ex_dr 0
    [[[1;2];[7;8]]; [[1;2];[7;8]]]%Z
    (YMClass [[1#4; 0; 3#4]; [1#4; 0; 3#4]]) = true.
Proof. vm_compute. reflexivity. Qed.

(* hidden mode: row 0 keeps channel 0 and takes channel 1 from row 1; lam = rate *)
Example hidden_mode_example :
  mixup_agrees ex_x (YVal [2; -4]) 1 MixHidden None
    {| rates := [1#4; 1#2]; perm := [1%nat; 0%nat]; unif := [[0; 1]; [1; 1]] |} 0
    [[[1;6];[3;8]]; [[1;2];[3;4]]]%Z
    (YMScalar [-5#2; -1]) = true.
Proof. vm_compute. reflexivity. Qed.

Example off_example :
  mixup_agrees ex_x (YIdx [0%nat; 2%nat]) 3 MixNone None ex_dr 0 ex_x
    (YMClass [[1; 0; 0]; [0; 0; 1]]) = true.
Proof. vm_compute. reflexivity. Qed.

(* a raise: class index outside [0, num_classes) *)
Example out_of_range_class_raises :
  feature_mixup ex_x (YIdx [0%nat; 3%nat]) 3 MixNone None ex_dr = None.
Proof. vm_compute. reflexivity. Qed.

(* zero-sum scores: features are mixed as usual, the target is all-nan, nothing raises *)
Example zero_sum_mi_gives_nan_target :
  mixup_agrees ex_x (YIdx [0%nat; 2%nat]) 3 MixFeature (Some [0; 0]) ex_dr 0
    [[[1;2];[7;8]]; [[1;2];[7;8]]]%Z YMNaN = true.
Proof. vm_compute. reflexivity. Qed.

(* ---------------------------------------------------------------------------------------------------------
   7. IEEE binary32 level of clause 1 (Lib/FloatSelect.v).  mask_select b x y is what torch computes for ONE entry of
      mixup_mask * x + ~mixup_mask * x[shuffled_idx]: own entry x, partner entry y, mask bit b (true = keep own). *)
Close Scope Q_scope.
From Flocq Require Import Core BinarySingleNaN.
From PF Require Import Lib.FloatSelect.

(* for finite own / partner entries the result IS the selected entry: identical as a float when it is non-zero, a zero
   (of either sign) when it is a zero, always the same real value, always finite *)
Theorem mixup_entry_ieee_exact :
  forall (b : bool) (x y : b32),
    is_finite x = true -> is_finite y = true ->
    let w := if b then x else y in
    let z := mask_select prec32 emax32 Hprec32 Hemax32 b x y in
    (is_finite_strict w = true -> z = w) /\
    (forall s, w = B754_zero s -> exists u, z = B754_zero u) /\
    B2R z = B2R w /\ is_finite z = true.
Proof. exact (mask_select_exact prec32 emax32 Hprec32 Hemax32). Qed.
Print Assumptions mixup_entry_ieee_exact.

(* the entry that is NOT selected (the partner's when the mask keeps the own one, and vice versa) has no influence *)
Theorem mixup_entry_never_reads_other :
  forall (b : bool) (x y x' y' : b32),
    is_finite x = true -> is_finite y = true -> is_finite x' = true -> is_finite y' = true ->
    (if b then x = x' else y = y') ->
    B2R (mask_select prec32 emax32 Hprec32 Hemax32 b x y) = B2R (mask_select prec32 emax32 Hprec32 Hemax32 b x' y').
Proof. exact (mask_select_ignores_other prec32 emax32 Hprec32 Hemax32). Qed.
Print Assumptions mixup_entry_never_reads_other.

(* the rewritten formula x + ~mask * (x[perm] - x) is refuted: own = 1e8, partner = 1.0, mask bit false gives +0.0
   where the library's formula gives the partner entry 1.0 *)
Theorem rewritten_select_is_refuted :
  exists x y : b32,
    is_finite x = true /\ is_finite y = true /\
    B2SF (rewritten_select prec32 emax32 Hprec32 Hemax32 false x y) = SpecFloat.S754_zero false /\
    B2SF (mask_select prec32 emax32 Hprec32 Hemax32 false x y) = B2SF y.
Proof. exact rewritten_select_refuted. Qed.
Print Assumptions rewritten_select_is_refuted.

(* the executable form used by the correspondence: 0.1f (13421773 * 2^-27) kept against 1e8, and a subnormal taken
   from the partner *)
Example select32_example :
  select32 true (false, 13421773, -27)%Z (false, 12500000, 3)%Z = Some (false, 13421773, -27)%Z /\
  select32 false (true, 12500000, 3)%Z (false, 1, -149)%Z = Some (false, 1, -149)%Z /\
  select32 true (true, 0, 0)%Z (false, 8388608, -23)%Z = Some (false, 0, 0)%Z.
Proof. vm_compute. repeat split; reflexivity. Qed.
