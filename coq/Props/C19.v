(* C19 - stub, replaced below *)
From PF Require Import Model.Mixup.
