(* C10 — a data-loader epoch is an exact partition of the rows.
   Statements only; proofs live in Proofs/LoaderProofs.v (and Proofs/ChunksFacts.v).

   Model: Model/Loader.v (torch_frame/data/loader.py as written; torch's
   samplers and BatchSampler are modelled primitives).  Rows are abstract (type
   R): what a row of a TensorFrame is, and that tensor_frame[index] selects the
   same rows of every column, is property C07. *)
From Coq Require Import String.
From Coq Require Import List Arith Permutation.
From Coq Require Import ZArith.
From PF Require Import Lib.ListX Lib.Chunks Model.Loader Proofs.LoaderProofs Model.LoaderCall Proofs.LoaderCallProofs
                       Model.LoaderFetch Proofs.LoaderFetchProofs.
Import ListNotations.

Section C10.
  Context {R DF : Type}.
  Variable convert : DF -> list R.       (* the DataFrame -> TensorFrame converter (C01) *)
  Variable df_len : DF -> nat.           (* len(df) *)

  (* torch's RandomSampler: the order drawn for n rows from RNG state `seed`.
     H_shuffle_perm is validated by harness/c10.py on every shuffled epoch of every run. *)
  Variable random_order : nat -> nat -> list nat.
  Hypothesis H_shuffle_perm : forall n seed, Permutation (random_order n seed) (seq 0 n).

  (* --- the index batches (BatchSampler over any order: sequential, shuffled, user sampler) --- *)

  (* without drop_last the batches, concatenated, are exactly the sampler's order *)
  Theorem c10_batches_concat : forall n bs order, 0 < bs ->
    concat (loader_batches n bs order false) = order.
  Proof. exact batches_concat_keep. Qed.

  (* with drop_last they are its longest prefix of whole batches: fewer than bs rows are lost *)
  Theorem c10_batches_concat_drop_last : forall n bs order, 0 < bs ->
    exists tail, order = concat (loader_batches n bs order true) ++ tail /\ length tail < bs.
  Proof. exact batches_concat_drop. Qed.

  (* every batch has the configured size except possibly a smaller, non-empty last one *)
  Theorem c10_batch_sizes : forall n bs order bats b, 0 < bs ->
    loader_batches n bs order false = bats ++ [b] ->
    Forall (fun b' => length b' = bs) bats /\ 0 < length b <= bs.
  Proof. exact batches_all_but_last_full. Qed.

  Theorem c10_batch_sizes_bound : forall n bs order, 0 < bs ->
    Forall (fun b => 0 < length b <= bs) (loader_batches n bs order false).
  Proof. exact batches_sizes_keep. Qed.

  (* ... and with drop_last every batch has exactly the configured size *)
  Theorem c10_batch_sizes_drop_last : forall n bs order,
    Forall (fun b => length b = bs) (loader_batches n bs order true).
  Proof. exact batches_sizes_drop. Qed.

  (* number of batches: ceil(len/bs), floor(len/bs) with drop_last *)
  Theorem c10_batch_count : forall n bs order, 0 < bs ->
    length (loader_batches n bs order false) = (length order + bs - 1) / bs /\
    length (loader_batches n bs order true) = length order / bs.
  Proof. intros; split; [apply batches_count_keep | apply batches_count_drop]; assumption. Qed.

  (* no shuffling: every row position exactly once, in order *)
  Theorem c10_sequential_partition : forall n bs, 0 < bs ->
    concat (loader_batches n bs (seq 0 n) false) = seq 0 n.
  Proof. intros; apply batches_concat_keep; assumption. Qed.

  (* shuffling: every row position exactly once, as a permutation *)
  Theorem c10_shuffle_partition : forall n bs seed, 0 < bs ->
    let bats := loader_batches n bs (random_order n seed) false in
    Permutation (concat bats) (seq 0 n) /\ NoDup (concat bats) /\ (forall i, In i (concat bats) <-> i < n).
  Proof.
    intros n bs seed Hbs bats. split; [apply batches_partition; auto|].
    apply batches_exactly_once; auto.
  Qed.

  (* shuffling with drop_last: no row twice, only existing rows, n mod bs rows lost *)
  Theorem c10_shuffle_drop_last : forall n bs seed, 0 < bs ->
    let bats := loader_batches n bs (random_order n seed) true in
    NoDup (concat bats) /\ (forall i, In i (concat bats) -> i < n) /\ length (concat bats) = n - n mod bs.
  Proof. intros n bs seed Hbs. apply batches_drop_at_most_once; auto. Qed.

  (* --- the batches themselves --- *)

  (* each batch equals selecting its rows from the source frame; the epoch as a
     whole delivers the rows selected by the sampler's order, with the batch sizes above.
     NOTE: the first conjunct restates the definition of loader_epoch (collate_fn(index) =
     tensor_frame[index] as written); that the real batches are these selections is OBSERVED
     (oracle key batch-content:*, cell-by-cell against independently known rows) and checked
     by the correspondence on every batch of every run. *)
  Theorem c10_batches_are_row_selections : forall (ld : loader R) bats,
    loader_epoch ld = Some bats ->
    Forall2 (fun idx b => tgather (ld_tensor_frame ld) idx = Some b) (loader_index_batches ld) bats /\
    tgather (ld_tensor_frame ld) (concat (loader_index_batches ld)) = Some (concat bats) /\
    map (@length R) bats = map (@length nat) (loader_index_batches ld).
  Proof.
    intros ld bats H. split; [apply epoch_batches_are_selections; exact H | apply epoch_rows; exact H].
  Qed.

  (* an epoch over in-range indices never raises *)
  Theorem c10_epoch_total : forall (ld : loader R),
    Forall (fun i => i < length (ld_tensor_frame ld)) (concat (loader_index_batches ld)) ->
    exists bats, loader_epoch ld = Some bats.
  Proof. exact epoch_total. Qed.

  (* end to end, no shuffle / no drop: the epoch is the frame cut into consecutive
     batches of the configured size (0 rows: zero batches) *)
  Theorem c10_sequential_epoch : forall tf kw,
    kw_sampling kw = Sequential -> kw_drop_last kw = false -> 0 < kw_batch_size kw ->
    exists bats, run_loader convert df_len (SrcFrame tf) kw = Some bats /\
                 concat bats = tf /\ bats = chunks (kw_batch_size kw) tf.
  Proof. exact (sequential_epoch convert df_len). Qed.

  (* end to end, shuffle / no drop: the epoch delivers a permutation of the frame's
     rows in batches of the same sizes (also for 0 rows) *)
  Theorem c10_shuffled_epoch : forall tf kw seed,
    kw_sampling kw = Shuffled (random_order (length tf) seed) ->
    kw_drop_last kw = false -> 0 < kw_batch_size kw ->
    exists bats, run_loader convert df_len (SrcFrame tf) kw = Some bats /\
                 Permutation (concat bats) tf /\
                 map (@length R) bats = map (@length R) (chunks (kw_batch_size kw) tf).
  Proof. intros tf kw seed Hs. eapply (shuffled_epoch convert df_len); eauto. Qed.

  (* len(loader) is the number of batches of an epoch *)
  Theorem c10_len : forall (ld : loader R), 0 < ld_batch_size ld ->
    loader_len ld = length (loader_index_batches ld).
  Proof. exact len_is_batch_count. Qed.

  (* --- sources and the user's collate function --- *)

  (* an unmaterialized dataset serves the same rows as materializing it first ... *)
  Theorem c10_unmaterialized_same : forall (ds : dataset R DF) kw,
    run_loader convert df_len (SrcDataset (ds_materialize convert ds)) kw =
    run_loader convert df_len (SrcDataset ds) kw.
  Proof. intros. unfold run_loader. rewrite init_dataset_materialized. reflexivity. Qed.

  (* ... namely the rows of the TensorFrame it materializes to *)
  Theorem c10_dataset_as_frame : forall df kw,
    df_len df = length (convert df) ->
    run_loader convert df_len (SrcDataset {| ds_df := df; ds_tf := None |}) kw =
    run_loader convert df_len (SrcFrame (convert df)) kw.
  Proof. intros. unfold run_loader. rewrite init_dataset_as_frame by assumption. reflexivity. Qed.

  (* a user-supplied collate function cannot replace the row-selection collation.
     NOTE: this holds of the model by construction (no model function reads kw_collate_fn,
     mirroring `kwargs.pop('collate_fn', None)`), so it is a statement about the model, not a
     theorem about loader.py.  For the real class the clause is OBSERVED on every run by
     harness/c10.py: a recording collate_fn is passed to ~30 % of the generated loaders and
     must never be called (oracle keys collate-called / collate-replaced), and the model's
     batches are compared with the real ones by the correspondence. *)
  Theorem c10_user_collate_ignored : forall src bs s d (c1 c2 : option (collate R)),
    run_loader convert df_len src {| kw_batch_size := bs; kw_sampling := s; kw_drop_last := d; kw_collate_fn := c1 |} =
    run_loader convert df_len src {| kw_batch_size := bs; kw_sampling := s; kw_drop_last := d; kw_collate_fn := c2 |}.
  Proof. reflexivity. Qed.
  (* --- the same two clauses on the CALL-level model (Model/LoaderCall.v): Python positional
     arguments and keyword dictionaries as written (kwargs.pop / kwargs.get / args rewrite /
     explicit collate_fn=self.collate_fn plus **kwargs, duplicate keyword = TypeError).  In this
     model a user collate_fn COULD take effect (call_epoch runs the function whose tag torch
     received), so the statement is not true by construction. --- *)

  (* whatever keyword dictionary the caller passes -- a collate_fn in particular -- and with up
     to five positional arguments (batch_size, shuffle, sampler, batch_sampler, num_workers), a
     successfully constructed loader collates with its own row selection (tag 0), and its epoch
     is loader_epoch *)
  Theorem c10_call_user_collate_ignored : forall src args kwargs order ld tag user,
    length args <= 5 ->
    loader_init_call convert df_len src args kwargs order = Some (ld, tag) ->
    tag = 0 /\ call_epoch user ld tag = loader_epoch ld.
  Proof.
    intros src args kwargs order ld tag user Hl H.
    assert (tag = 0) as -> by (eapply (call_collate_is_own convert df_len); eauto).
    split; reflexivity.
  Qed.

  (* shuffle over an empty frame, requested positionally or by keyword: no error, zero batches *)
  Theorem c10_call_empty_shuffle : forall bs order, 0 < bs ->
    (exists ld, loader_init_call convert df_len (SrcFrame []) [PNat bs; PBool true] [] order = Some (ld, 0) /\
                ld_sampling ld = Sequential /\ loader_epoch ld = Some []) /\
    (exists ld, loader_init_call convert df_len (SrcFrame [])
                  [] [("batch_size"%string, PNat bs); ("shuffle"%string, PBool true)] order = Some (ld, 0) /\
                ld_sampling ld = Sequential /\ loader_epoch ld = Some []).
  Proof. exact (call_empty_shuffle convert df_len). Qed.
End C10.

Print Assumptions c10_call_user_collate_ignored.
Print Assumptions c10_call_empty_shuffle.
Print Assumptions c10_batches_concat.
Print Assumptions c10_batches_concat_drop_last.
Print Assumptions c10_batch_sizes.
Print Assumptions c10_batch_sizes_bound.
Print Assumptions c10_batch_sizes_drop_last.
Print Assumptions c10_batch_count.
Print Assumptions c10_sequential_partition.
Print Assumptions c10_shuffle_partition.
Print Assumptions c10_shuffle_drop_last.
Print Assumptions c10_batches_are_row_selections.
Print Assumptions c10_epoch_total.
Print Assumptions c10_sequential_epoch.
Print Assumptions c10_shuffled_epoch.
Print Assumptions c10_len.
Print Assumptions c10_unmaterialized_same.
Print Assumptions c10_dataset_as_frame.
Print Assumptions c10_user_collate_ignored.

(* The hypotheses are satisfiable on concrete non-trivial states. *)

(* H_shuffle_perm holds for a concrete shuffling function (rotation by the seed) *)
Example c10_ex_shuffle_perm_satisfiable :
  let ro := fun n seed => skipn (seed mod (n + 1)) (seq 0 n) ++ firstn (seed mod (n + 1)) (seq 0 n) in
  forall n seed, Permutation (ro n seed) (seq 0 n).
Proof.
  intros ro n seed. unfold ro.
  rewrite <- (firstn_skipn (seed mod (n + 1)) (seq 0 n)) at 3. apply Permutation_app_comm.
Qed.

(* 7 rows, batch size 3, shuffled order, drop_last off/on; a user sampler with repeats *)
Example c10_ex_batches :
  loader_batches 7 3 [4; 0; 6; 2; 5; 1; 3] false = [[4; 0; 6]; [2; 5; 1]; [3]] /\
  loader_batches 7 3 [4; 0; 6; 2; 5; 1; 3] true = [[4; 0; 6]; [2; 5; 1]] /\
  loader_batches 3 2 [2; 2; 0; 1; 2] false = [[2; 2]; [0; 1]; [2]].
Proof. vm_compute. auto. Qed.

(* an unmaterialized 5-row dataset, shuffled, with a user collate_fn that would return garbage *)
Example c10_ex_epoch :
  run_loader (fun df : list nat => map (fun x => x * 10) df) (@length nat)
    (SrcDataset {| ds_df := [1; 2; 3; 4; 5]; ds_tf := None |})
    {| kw_batch_size := 2; kw_sampling := Shuffled [3; 1; 4; 0; 2]; kw_drop_last := false;
       kw_collate_fn := Some (fun _ => Some [777]) |}
  = Some [[40; 20]; [50; 10]; [30]].
Proof. vm_compute. reflexivity. Qed.

(* zero rows: zero batches, shuffled or not; an out-of-range sampler index raises *)
Example c10_ex_empty_and_error :
  run_loader (fun df : list nat => df) (@length nat) (SrcFrame [])
    {| kw_batch_size := 2; kw_sampling := Shuffled []; kw_drop_last := false; kw_collate_fn := None |} = Some [] /\
  run_loader (fun df : list nat => df) (@length nat) (SrcFrame [10; 11])
    {| kw_batch_size := 2; kw_sampling := Sampler [0; 1; 2]; kw_drop_last := false; kw_collate_fn := None |} = None.
Proof. vm_compute. auto. Qed.

(* call level: a user collate_fn passed by keyword next to a positional batch_size and shuffle is
   dropped; WITHOUT the pop the explicit collate_fn=self.collate_fn would collide with it (TypeError) *)
Example c10_ex_call_level :
  c10_call_run (SrcFrame [10; 11; 12]) [PNat 2; PBool false]
    [("collate_fn"%string, PCollate 7); ("drop_last"%string, PBool false)] [] = Some ([[10; 11]; [12]], 2) /\
  py_call torch_params torch_kwonly [PNat 2]
    [("collate_fn"%string, PCollate 0); ("collate_fn"%string, PCollate 7)] = None /\
  (* torch alone rejects shuffle over an empty source; the loader's rewrite is what makes it work *)
  torch_loader_init (@nil nat) 0 [("shuffle"%string, PBool true); ("collate_fn"%string, PCollate 0)] [] = None.
Proof. vm_compute. auto. Qed.

(* --- the FETCH step (Model/LoaderFetch.v): torch's _MapDatasetFetcher looks every sampled index up in
   the loader's dataset `range(len(source))` before DataLoader.collate_fn sees it.  Sampler indices are
   integers; what reaches tensor_frame[...] are positions. --- *)

(* range(n)[i]: 0 <= i < n is position i, -n <= i < 0 is position i + n, everything else raises *)
Theorem c10_fetch_range_getitem : forall n i,
  (forall p, range_getitem n i = Some p <->
     ((0 <= i < Z.of_nat n)%Z /\ p = Z.to_nat i) \/ ((- Z.of_nat n <= i < 0)%Z /\ p = Z.to_nat (i + Z.of_nat n))) /\
  (range_getitem n i = None <-> (Z.of_nat n <= i)%Z \/ (i < - Z.of_nat n)%Z).
Proof. intros n i. split; [intro p; apply range_getitem_some | apply range_getitem_none]. Qed.

(* a row index outside [-n, n) anywhere in the epoch raises: it is never wrapped around or clamped
   (whatever the sampling, batch size, drop_last) *)
Theorem c10_fetch_out_of_range_raises : forall {R} (tf : list R) n bs s drop b i,
  In b (z_index_batches n bs s drop) -> In i b ->
  (Z.of_nat n <= i \/ i < - Z.of_nat n)%Z ->
  fetch_epoch tf n bs s drop = None.
Proof. intros R. exact (@fetch_out_of_range R). Qed.

(* all indices in range: the epoch never raises and every batch is exactly the selection of the rows
   its indices denote (negative ones counted from the end), in the order given *)
Theorem c10_fetch_in_range_selects : forall {R} (tf : list R) d bs s drop,
  Forall (Forall (fun i => (- Z.of_nat (length tf) <= i < Z.of_nat (length tf))%Z))
         (z_index_batches (length tf) bs s drop) ->
  fetch_epoch tf (length tf) bs s drop =
  Some (map (map (zrow tf d)) (z_index_batches (length tf) bs s drop)).
Proof. intros R. exact (@fetch_epoch_in_range R). Qed.

(* for the non-negative indices of Model/Loader.v the fetch step is invisible: the epoch with the fetch
   step IS loader_epoch, so every theorem above about loader_epoch holds with the fetch step in place *)
Theorem c10_fetch_agrees_with_row_selection : forall {R} (ld : loader R),
  ld_n ld = length (ld_tensor_frame ld) ->
  fetch_epoch (ld_tensor_frame ld) (ld_n ld) (ld_batch_size ld) (lift_sampling (ld_sampling ld)) (ld_drop_last ld)
  = loader_epoch ld.
Proof. intros R. exact (@fetch_epoch_nat R). Qed.

Print Assumptions c10_fetch_range_getitem.
Print Assumptions c10_fetch_out_of_range_raises.
Print Assumptions c10_fetch_in_range_selects.
Print Assumptions c10_fetch_agrees_with_row_selection.

Example c10_ex_fetch :
  c10_fetch_run [10; 11; 12] 2 (ZSampler [(-1)%Z; 0%Z; (-3)%Z]) false = Some [[12; 10]; [10]] /\
  c10_fetch_run [10; 11; 12] 2 (ZSampler [0%Z; 3%Z]) false = None /\
  c10_fetch_run [10; 11; 12] 2 (ZSampler [0%Z; (-4)%Z]) false = None /\
  c10_fetch_run [10; 11; 12] 2 (ZSampler [0%Z; 1%Z; 3%Z]) true = Some [[10; 11]].
Proof. vm_compute. auto. Qed.
