(* C08 -- TensorFrame concatenation, equality and column lookup laws.
   Statements only; every proof is `exact <lemma of Proofs/FrameProofs.v>`.

   Reading guide (see also Props/C07.v).  `frame_of vs nm y ov` is the
   implementation-level TensorFrame storing the views vs (one cell matrix per
   stype, in dense / MultiNestedTensor / MultiEmbeddingTensor / dict storage).
   `frame_wf n ...`: every feature and the target have n rows.  `names_ok vs nm`:
   feat_dict and col_names_dict are dicts over the same stypes with one
   (non-empty list of) name(s) per column.  `sel_frame pos ...` = the rows at
   positions pos of every feature and of the target (C07: it is tf[ix] for any
   index expression ix that picks pos).  `tf_cat`, `tf_eq`, `tf_get_col_feat`,
   `tf_validate` are the models of torch_frame.cat, TensorFrame.__eq__,
   get_col_feat and validate() as written; a raise is None.

   `close` is torch.allclose on one pair of finite scalars (a parameter with
   close_refl where needed: on the harness grid it is equality); a missing value
   (None) is close only to a missing value and only under equal_nan.

   The ragged containers' own cat is a parameter (mnt_cat / met_cat) with the
   C06 law "cells of the cat = concatenation of the cells" as section
   hypotheses H_*_cat_*; every instance met by the harness is evaluated on the
   model of Model/RaggedCat.v on every run. *)
From Coq Require Import String ZArith List Bool Arith.
From PF Require Import Lib.ListX Lib.PySlice Model.Ragged Model.RaggedSpec Model.RaggedRun Model.Frame Model.FrameSpec
     Gen.Tables.
From PF Require Import Proofs.FrameProofs.
Import ListNotations.

(* ================================================================== *)
(* Equality *)

(* Branch structure of __eq__ on arbitrary model frames (tf_equiv still mentions the loop body feat_eq; its meaning
   is feat_eq_views below, and the two are combined in tf_eq_iff_views).
   __eq__ answers True exactly when: same length; same target (every pair of
   entries close -- equal_nan is NOT set for the target); same col_names_dict
   (as dicts); and every feature has a close feature of the same storage under
   the same stype (missing matching missing).  Branch order as written. *)
Theorem tf_eq_iff : forall close a b, tf_eq close a b = Some true <-> tf_equiv close a b.
Proof. exact tf_eq_iff_proof. Qed.
Print Assumptions tf_eq_iff.

(* HEADLINE.  For frames of n and n' rows stored from views, `a == b` is True exactly when `frames_equal` holds -- a
   statement on the views alone (Model/FrameSpec.v: same row count; target entries pairwise close, a missing target
   entry never close; the same names per stype; for every stype a view of the same storage kind and shape whose cells
   are all close, missing matching missing).  The implementation side compares flattened values and offsets; the
   two definitions share nothing but `pclose`. *)
Theorem tf_eq_iff_views : forall close n n' vs vs' nm nm' yy yy' ov ov',
  frame_wf n vs yy ov -> frame_wf n' vs' yy' ov' -> NoDup (map fst vs') ->
  (tf_eq close (frame_of vs nm yy ov) (frame_of vs' nm' yy' ov') = Some true
   <-> frames_equal close n vs nm yy n' vs' nm' yy').
Proof. exact tf_eq_iff_views_proof. Qed.
Print Assumptions tf_eq_iff_views.

(* On stored views, the per-stype comparison of __eq__ is closeness of the data
   cell by cell, for every storage kind (flattened values + offsets on the
   implementation side, rows x columns x cells on the spec side). *)
Theorem feat_eq_views : forall close n n' v v',
  view_wf n v -> view_wf n' v' ->
  (feat_eq close (feat_of_view v) (feat_of_view v') = true <-> view_close close v v').
Proof. exact feat_eq_views_proof. Qed.
Print Assumptions feat_eq_views.

(* A difference beyond tolerance in any single scalar (row i, column j, position
   k) of any feature of any storage kind (key = dict entry, if any) makes the
   frames unequal -- and the comparison does not raise. *)
Theorem single_cell_perturbation_detected :
  forall close n n' vs vs' nm nm' yy yy' ov ov' s v v' key m m' i j k,
    frame_wf n vs yy ov -> frame_wf n' vs' yy' ov' ->
    NoDup (map fst vs') -> (forall s, In s (map fst vs) -> In s (map fst vs')) ->
    In (s, v) vs -> In (s, v') vs' ->
    view_comp key v = Some m -> view_comp key v' = Some m' ->
    i < length m -> j < length (nth i m []) -> k < length (nth j (nth i m []) []) ->
    pclose close true (scalar_at m i j k) (scalar_at m' i j k) = false ->
    tf_eq close (frame_of vs nm yy ov) (frame_of vs' nm' yy' ov') = Some false.
Proof. exact cell_perturbation_detected_proof. Qed.
Print Assumptions single_cell_perturbation_detected.

(* ... in any target value (a missing target entry is never close) ... *)
Theorem target_perturbation_detected : forall close a b u v i,
  (exists r, tf_eq close a b = Some r) ->
  y a = Some u -> y b = Some v -> i < length v ->
  pclose close false (nth i v None) (nth i u None) = false ->
  tf_eq close a b = Some false.
Proof. exact target_perturbation_detected_proof. Qed.
Print Assumptions target_perturbation_detected.

Theorem target_presence_detected : forall close a b,
  (exists r, tf_eq close a b = Some r) -> (y a = None <-> y b <> None) -> tf_eq close a b = Some false.
Proof. exact target_presence_detected_proof. Qed.
Print Assumptions target_presence_detected.

(* ... or in any column name. *)
Theorem name_perturbation_detected : forall close a b s cn,
  (exists r, tf_eq close a b = Some r) ->
  In (s, cn) (names a) -> alookup stype_eqb s (names b) <> Some cn ->
  tf_eq close a b = Some false.
Proof. exact name_perturbation_detected_proof. Qed.
Print Assumptions name_perturbation_detected.

(* the comparison of two well-formed frames over the same stypes never raises *)
Theorem tf_eq_total : forall close n n' vs vs' nm nm' yy yy' ov ov',
  frame_wf n vs yy ov -> frame_wf n' vs' yy' ov' ->
  (forall s, In s (map fst vs) -> In s (map fst vs')) ->
  exists r, tf_eq close (frame_of vs nm yy ov) (frame_of vs' nm' yy' ov') = Some r.
Proof. exact frames_eq_total. Qed.
Print Assumptions tf_eq_total.

(* ================================================================== *)
(* Construction: validate() *)

Theorem validate_accepts : forall n vs nm yy ov,
  frame_wf n vs yy ov -> names_ok vs nm -> tf_validate (frame_of vs nm yy ov) = true.
Proof. exact frame_of_validates. Qed.
Print Assumptions validate_accepts.

(* construction rejects frames whose parts disagree on the number of rows ... *)
Theorem validate_rejects_rows : forall f n s x r c,
  tf_num_rows f = Some n -> In (s, x) (feats f) -> In (r, c) (feat_shapes x) -> r <> n -> tf_validate f = false.
Proof. exact FrameProofs.validate_rejects_rows. Qed.
Print Assumptions validate_rejects_rows.

Theorem validate_rejects_target : forall f n v,
  tf_num_rows f = Some n -> y f = Some v -> length v <> n -> tf_validate f = false.
Proof. exact validate_rejects_y. Qed.
Print Assumptions validate_rejects_target.

(* ... or of columns (names vs data), or on the stypes *)
Theorem validate_rejects_cols : forall f s x r c cn,
  In (s, x) (feats f) -> In (r, c) (feat_shapes x) -> alookup stype_eqb s (names f) = Some cn -> c <> length cn ->
  tf_validate f = false.
Proof. exact FrameProofs.validate_rejects_cols. Qed.
Print Assumptions validate_rejects_cols.

Theorem validate_rejects_keys : forall f s,
  In s (map fst (feats f)) -> ~ In s (map fst (names f)) -> tf_validate f = false.
Proof. exact FrameProofs.validate_rejects_keys. Qed.
Print Assumptions validate_rejects_keys.

(* ================================================================== *)
(* Column lookup *)

(* get_col_feat(name) returns the data of exactly that column, for every storage
   kind, with its stype: name is the j-th name of stype s. *)
Theorem get_col_feat_spec : forall n vs nm yy ov s v cn j name,
  frame_wf n vs yy ov -> names_ok vs nm -> NoDup (flat_map snd nm) ->
  In (s, v) vs -> alookup stype_eqb s nm = Some cn -> nth_error cn j = Some name ->
  tf_get_col_feat (frame_of vs nm yy ov) name = Some (feat_of_view (vcol j v), s).
Proof. exact get_col_feat_spec_proof. Qed.
Print Assumptions get_col_feat_spec.

Theorem get_col_feat_missing : forall f name,
  ~ In name (flat_map snd (names f)) -> tf_get_col_feat f name = None.
Proof. exact get_col_feat_missing_proof. Qed.
Print Assumptions get_col_feat_missing.

(* ================================================================== *)
(* Concatenation *)
Section C08_cat.
  Variable mnt_cat : list (mnt payload) -> nat -> option (mnt payload).
  Variable met_cat : list (met payload) -> nat -> option (met payload).

  (* rejections: they hold whatever the ragged containers' cat does *)
  Theorem cat_empty_rejected : forall dim, tf_cat mnt_cat met_cat [] dim = None.
  Proof. exact (cat_empty_rejected_proof mnt_cat met_cat). Qed.

  Theorem cat_rows_names_mismatch_rejected : forall t0 rest t,
    In t rest -> names_eqb (names t) (names t0) = false -> tf_cat mnt_cat met_cat (t0 :: rest) 0 = None.
  Proof. exact (cat_rows_names_mismatch_proof mnt_cat met_cat). Qed.

  Theorem cat_rows_mixed_targets_rejected : forall tfs t1 t2,
    In t1 tfs -> In t2 tfs -> y t1 = None -> y t2 <> None -> tf_cat mnt_cat met_cat tfs 0 = None.
  Proof. exact (cat_rows_mixed_targets_proof mnt_cat met_cat). Qed.

  Theorem cat_cols_two_targets_rejected : forall tfs,
    2 <= length (flat_map (fun t => match y t with Some v => [v] | None => [] end) tfs) ->
    tf_cat mnt_cat met_cat tfs 1 = None.
  Proof. exact (cat_cols_two_targets_proof mnt_cat met_cat). Qed.

  (* a column name occurring twice among all the names of all the parts -- within one stype or across stypes *)
  Theorem cat_cols_duplicate_names_rejected : forall tfs,
    ~ NoDup (flat_map snd (flat_map names tfs)) -> tf_cat mnt_cat met_cat tfs 1 = None.
  Proof. exact (cat_cols_duplicate_names_proof mnt_cat met_cat). Qed.

  Theorem cat_cols_row_counts_rejected : forall tfs t1 t2 a b,
    In t1 tfs -> In t2 tfs -> tf_num_rows t1 = Some a -> tf_num_rows t2 = Some b -> a <> b ->
    tf_cat mnt_cat met_cat tfs 1 = None.
  Proof. exact (cat_cols_row_counts_proof mnt_cat met_cat). Qed.

  (* ---- along rows ---- *)
  Hypothesis H_mnt_cat_rows : forall c (ms : list (cellmat payload)),
    ms <> [] -> Forall (rect c) ms -> mnt_cat (map (mnt_of_cells c) ms) 0 = Some (mnt_of_cells c (concat ms)).
  Hypothesis H_met_cat_rows : forall ws (ms : list (cellmat payload)),
    ms <> [] -> Forall (rect_w ws) ms -> met_cat (map (met_of_cells ws) ms) 0 = Some (met_of_cells ws (concat ms)).

  (* Concatenating along rows yields the rows of the parts in order, targets
     included: for parts that are selections of one frame, the result holds, for
     every stype, exactly the rows at the concatenated positions (a dict of
     features: NoDup keys + membership), the names of the parts, and -- without
     features -- the summed row count. *)
  Theorem cat_rows_of_selections : forall n vs nm yy ov poss,
    frame_wf n vs yy ov -> names_ok vs nm -> poss <> [] -> Forall (Forall (fun i => i < n)) poss ->
    exists fs',
      tf_cat mnt_cat met_cat (map (fun pos => sel_frame pos vs nm yy ov) poss) 0
      = Some (MkTF fs' nm (option_map (ysel (concat poss)) yy)
                   (match vs with [] => Some (length (concat poss)) | _ => None end))
      /\ NoDup (map fst fs')
      /\ (forall s x, In (s, x) fs' <-> exists v, In (s, v) vs /\ x = feat_of_view (vsel (concat poss) v)).
  Proof. exact (cat_rows_selections_proof mnt_cat met_cat H_mnt_cat_rows H_met_cat_rows). Qed.

  (* Any row partition -- any list of selections whose positions concatenate to
     0..n-1, zero-length parts allowed -- concatenates back to a frame equal to
     the original, in both operand orders (targets without missing values). *)
  Theorem row_partition_roundtrip : forall close, (forall z, close z z = true) ->
    forall n vs nm yy ov poss,
    frame_wf n vs yy ov -> names_ok vs nm -> poss <> [] -> concat poss = seq 0 n ->
    match yy with Some v => Forall (fun p => p <> None) v | None => True end ->
    exists F', tf_cat mnt_cat met_cat (map (fun pos => sel_frame pos vs nm yy ov) poss) 0 = Some F'
               /\ tf_eq close F' (frame_of vs nm yy ov) = Some true
               /\ tf_eq close (frame_of vs nm yy ov) F' = Some true.
  Proof.
    intros close Hrefl. exact (row_partition_roundtrip_proof close Hrefl mnt_cat met_cat H_mnt_cat_rows H_met_cat_rows).
  Qed.
  (* ---- along columns ---- *)
  Hypothesis H_mnt_cat_cols : forall n (ps : list (nat * cellmat payload)), ps <> [] ->
    Forall (fun p => rect (fst p) (snd p) /\ length (snd p) = n) ps ->
    mnt_cat (map (fun p => mnt_of_cells (fst p) (snd p)) ps) 1
    = Some (mnt_of_cells (sum (map fst ps)) (zip_rows n (map snd ps))).
  Hypothesis H_met_cat_cols : forall n (ps : list (list nat * cellmat payload)), ps <> [] ->
    Forall (fun p => length (snd p) = n) ps ->
    met_cat (map (fun p => met_of_cells (fst p) (snd p)) ps) 1
    = Some (met_of_cells (concat (map fst ps)) (zip_rows n (map snd ps))).

  (* Any per-stype column partition into k >= 1 parts concatenates back to a
     frame equal to the original (both operand orders): for every stype s the
     columns are cut at cut 0 s = 0 <= cut 1 s <= ... <= cut k s = #columns; part
     j holds, for every stype with at least one column in it, the columns
     cut j s .. cut (j+1) s - 1 with their names (col_part); the target goes to
     part jy; a part without any column carries the row count explicitly.  The
     union of the columns is rebuilt with names and data still paired, in
     whatever order the stypes first appear among the parts. *)
  Theorem col_partition_roundtrip : forall close, (forall z, close z z = true) ->
    forall n vs nm yy ov k cut jy pov,
    frame_wf n vs yy ov -> names_ok vs nm -> NoDup (flat_map snd nm) ->
    jy < k ->
    (forall s v, In (s, v) vs -> cut 0 s = 0 /\ cut k s = vncols v) ->
    (forall s j, cut j s <= cut (S j) s) ->
    (forall j, j < k -> match pov j with
                        | Some m => m = n
                        | None => col_part_views (cut j) (cut (S j)) vs <> [] \/ n = 0
                        end) ->
    match yy with Some v => Forall (fun p => p <> None) v | None => True end ->
    exists F',
      tf_cat mnt_cat met_cat (map (col_part cut vs nm (fun j => if j =? jy then yy else None) pov) (seq 0 k)) 1 = Some F'
      /\ tf_eq close F' (frame_of vs nm yy ov) = Some true
      /\ tf_eq close (frame_of vs nm yy ov) F' = Some true.
  Proof.
    intros close Hrefl. exact (col_partition_roundtrip_proof close Hrefl mnt_cat met_cat H_mnt_cat_cols H_met_cat_cols).
  Qed.
End C08_cat.
Print Assumptions cat_empty_rejected.
Print Assumptions cat_rows_names_mismatch_rejected.
Print Assumptions cat_rows_mixed_targets_rejected.
Print Assumptions cat_cols_two_targets_rejected.
Print Assumptions cat_cols_duplicate_names_rejected.
Print Assumptions cat_cols_row_counts_rejected.
Print Assumptions cat_rows_of_selections.
Print Assumptions row_partition_roundtrip.
Print Assumptions col_partition_roundtrip.

(* ================================================================== *)
(* The comparison tolerance itself (Model/Allclose.v): torch.allclose on one pair of scalars with torch's defaults,
   |input - other| <= atol + rtol*|other| over the rationals, rtol = 1e-5, atol = 1e-8.  __eq__ calls it as
   allclose(self_feat, other_feat, equal_nan=True) on features and allclose(other.y, self.y) on targets; missing
   entries are handled by pclose (FrameSpec), finite ones by this function. *)
From Coq Require Import QArith Qabs.
From PF Require Import Model.Allclose Proofs.AllcloseProofs.
Close Scope Q_scope.

Theorem allclose_spec : forall a b : Q,
  allclose_q a b = true <-> (Qabs (a - b) <= allclose_atol + allclose_rtol * Qabs b)%Q.
Proof. exact allclose_q_spec. Qed.
Print Assumptions allclose_spec.

(* exactly AT the tolerance the pair is close, any amount beyond it is not (both signs of the difference) *)
Theorem allclose_boundary : forall b d : Q, (0 <= d)%Q ->
  (allclose_q (b + d) b = true <-> (d <= allclose_atol + allclose_rtol * Qabs b)%Q)
  /\ (allclose_q (b - d) b = true <-> (d <= allclose_atol + allclose_rtol * Qabs b)%Q).
Proof. intros b d H. split; [exact (allclose_q_boundary b d H)|exact (allclose_q_boundary_neg b d H)]. Qed.
Print Assumptions allclose_boundary.

(* the tolerance scales with the SECOND operand only: the relation is not symmetric *)
Example allclose_asymmetric :
  allclose_q (10000100001 # 10000000)%Q 1000%Q = false /\ allclose_q 1000%Q (10000100001 # 10000000)%Q = true.
Proof. vm_compute. split; reflexivity. Qed.

(* On the harness grid (scalars k/8 with |x| < 1000, shipped as the integer 8x) the tolerance separates exactly the
   equal values: this is why the correspondence may compare grid scalars, and why every grid perturbation (>= 1/8)
   is 'beyond tolerance' -- now a theorem about torch's formula instead of an assumption of the harness. *)
Theorem grid_tolerance_is_equality : forall z1 z2 : Z, (Z.abs z2 < 8000)%Z -> close_grid z1 z2 = Z.eqb z1 z2.
Proof. exact close_grid_eqb. Qed.
Print Assumptions grid_tolerance_is_equality.

Theorem grid_difference_detected : forall z1 z2 : Z,
  z1 <> z2 -> (1000 * Z.abs z2 < 100000000 * Z.abs (z1 - z2) - 8)%Z -> close_grid z1 z2 = false.
Proof. exact close_grid_detects. Qed.
Print Assumptions grid_difference_detected.

(* the perturbation theorem against torch's own tolerance: two different grid values in one cell (the right operand's
   below 1000 in absolute value), or a missing entry against a value, make the frames unequal *)
Theorem single_cell_perturbation_detected_allclose :
  forall n n' vs vs' nm nm' yy yy' ov ov' s v v' key m m' i j k,
    frame_wf n vs yy ov -> frame_wf n' vs' yy' ov' ->
    NoDup (map fst vs') -> (forall s, In s (map fst vs) -> In s (map fst vs')) ->
    In (s, v) vs -> In (s, v') vs' ->
    view_comp key v = Some m -> view_comp key v' = Some m' ->
    i < length m -> j < length (nth i m []) -> k < length (nth j (nth i m []) []) ->
    match scalar_at m i j k, scalar_at m' i j k with
    | Some u, Some w => u <> w /\ (Z.abs w < 8000)%Z
    | None, None => False
    | _, _ => True
    end ->
    tf_eq close_grid (frame_of vs nm yy ov) (frame_of vs' nm' yy' ov') = Some false.
Proof.
  intros n n' vs vs' nm nm' yy yy' ov ov' s v v' key m m' i j k Hw Hw' Hnd Hk Hin Hin' Ec Ec' Hi Hj Hkk Hd.
  apply (cell_perturbation_detected_proof close_grid n n' vs vs' nm nm' yy yy' ov ov' s v v' key m m' i j k); try assumption.
  destruct (scalar_at m i j k) as [u|], (scalar_at m' i j k) as [w|]; cbn [pclose]; try reflexivity; [|contradiction].
  destruct Hd as [Hne Hb]. rewrite (close_grid_eqb u w Hb). apply Z.eqb_neq. exact Hne.
Qed.
Print Assumptions single_cell_perturbation_detected_allclose.

(* ================================================================== *)
(* Inputs unchanged, as a theorem over a store model (Model/FrameStore.v): _cat_col builds the result's name lists
   with defaultdict(list) + list.extend -- the only in-place writes of torch_frame.cat.  With the parts' name lists as
   heap objects (parts = dicts of ADDRESSES into the heap h): every write goes to a list allocated by the call, every
   list that existed before the call holds what it held, the result's lists are fresh objects (no aliasing with any
   input), and what they hold is exactly the pure model's group_names used by every theorem above. *)
From PF Require Import Model.FrameStore Proofs.FrameStoreProofs.

Theorem cat_col_names_inputs_unchanged : forall (h : nheap) (parts : list ndict) (tfs : list tframe),
  Forall (Forall (fun sa => snd sa < length h)) parts ->
  map names tfs = map (read_ndict h) parts ->
  let st := cat_col_names_store h parts in
  Forall (fun a => length h <= a) (snd st)
  /\ (forall b, b < length h -> hget [] (fst (fst st)) b = hget [] h b)
  /\ Forall (fun sa => length h <= snd sa) (snd (fst st))
  /\ read_ndict (fst (fst st)) (snd (fst st)) = group_names tfs.
Proof. exact cat_col_names_store_proof. Qed.
Print Assumptions cat_col_names_inputs_unchanged.

Example ex_store_cat_col :
  let h := [["a"]; ["m"]; ["b"]]%string in
  let parts := [[(st_numerical, 0); (st_multicategorical, 1)]; [(st_numerical, 2)]] in
  let st := cat_col_names_store h parts in
  read_ndict (fst (fst st)) (snd (fst st)) = [(st_numerical, ["a"; "b"]); (st_multicategorical, ["m"])]%string
  /\ firstn 3 (fst (fst st)) = h /\ snd st = [3; 4; 3].
Proof. vm_compute. repeat split. Qed.

(* ================================================================== *)
(* The same laws for the ragged cat of Model/RaggedCat.v (the model of
   MultiNestedTensor.cat / MultiEmbeddingTensor.cat as written, used by the
   correspondence check): the section hypotheses are the C06 theorems
   mnt_cat_rows / met_cat_rows / mnt_cat_cols / met_cat_cols of Props/C06.v. *)
From PF Require Import Model.RaggedCat Model.FrameRun Props.C06.

Theorem row_partition_roundtrip_model : forall close, (forall z, close z z = true) ->
  forall n vs nm yy ov poss,
  frame_wf n vs yy ov -> names_ok vs nm -> poss <> [] -> concat poss = seq 0 n ->
  match yy with Some v => Forall (fun p => p <> None) v | None => True end ->
  exists F', tf_cat mnt_cat_run met_cat_run (map (fun pos => sel_frame pos vs nm yy ov) poss) 0 = Some F'
             /\ tf_eq close F' (frame_of vs nm yy ov) = Some true
             /\ tf_eq close (frame_of vs nm yy ov) F' = Some true.
Proof.
  intros close Hc. apply (row_partition_roundtrip mnt_cat_run met_cat_run); [| |exact Hc].
  - intros c ms Hne Hr. exact (C06.mnt_cat_rows payload _ _ c ms Hr Hne).
  - intros ws ms Hne _. exact (C06.met_cat_rows payload ws ms Hne).
Qed.
Print Assumptions row_partition_roundtrip_model.

Theorem col_partition_roundtrip_model : forall close, (forall z, close z z = true) ->
  forall n vs nm yy ov k cut jy pov,
  frame_wf n vs yy ov -> names_ok vs nm -> NoDup (flat_map snd nm) ->
  jy < k ->
  (forall s v, In (s, v) vs -> cut 0 s = 0 /\ cut k s = vncols v) ->
  (forall s j, cut j s <= cut (S j) s) ->
  (forall j, j < k -> match pov j with
                      | Some m => m = n
                      | None => col_part_views (cut j) (cut (S j)) vs <> [] \/ n = 0
                      end) ->
  match yy with Some v => Forall (fun p => p <> None) v | None => True end ->
  exists F',
    tf_cat mnt_cat_run met_cat_run (map (col_part cut vs nm (fun j => if j =? jy then yy else None) pov) (seq 0 k)) 1 = Some F'
    /\ tf_eq close F' (frame_of vs nm yy ov) = Some true
    /\ tf_eq close (frame_of vs nm yy ov) F' = Some true.
Proof.
  intros close Hc. apply (col_partition_roundtrip mnt_cat_run met_cat_run); [| |exact Hc].
  - intros n ps Hne H. exact (C06.mnt_cat_cols payload _ _ n ps Hne H).
  - intros n ps Hne H. exact (C06.met_cat_cols payload n ps Hne H).
Qed.
Print Assumptions col_partition_roundtrip_model.

(* and the partition round trips hold for torch's tolerance (reflexive), on the model of Model/RaggedCat.v *)
Theorem row_partition_roundtrip_allclose : forall n vs nm yy ov poss,
  frame_wf n vs yy ov -> names_ok vs nm -> poss <> [] -> concat poss = seq 0 n ->
  match yy with Some v => Forall (fun p => p <> None) v | None => True end ->
  exists F', tf_cat mnt_cat_run met_cat_run (map (fun pos => sel_frame pos vs nm yy ov) poss) 0 = Some F'
             /\ tf_eq close_grid F' (frame_of vs nm yy ov) = Some true
             /\ tf_eq close_grid (frame_of vs nm yy ov) F' = Some true.
Proof. exact (row_partition_roundtrip_model close_grid close_grid_refl). Qed.
Print Assumptions row_partition_roundtrip_allclose.

Theorem col_partition_roundtrip_allclose : forall n vs nm yy ov k cut jy pov,
  frame_wf n vs yy ov -> names_ok vs nm -> NoDup (flat_map snd nm) ->
  jy < k ->
  (forall s v, In (s, v) vs -> cut 0 s = 0 /\ cut k s = vncols v) ->
  (forall s j, cut j s <= cut (S j) s) ->
  (forall j, j < k -> match pov j with
                      | Some m => m = n
                      | None => col_part_views (cut j) (cut (S j)) vs <> [] \/ n = 0
                      end) ->
  match yy with Some v => Forall (fun p => p <> None) v | None => True end ->
  exists F',
    tf_cat mnt_cat_run met_cat_run (map (col_part cut vs nm (fun j => if j =? jy then yy else None) pov) (seq 0 k)) 1 = Some F'
    /\ tf_eq close_grid F' (frame_of vs nm yy ov) = Some true
    /\ tf_eq close_grid (frame_of vs nm yy ov) F' = Some true.
Proof. exact (col_partition_roundtrip_model close_grid close_grid_refl). Qed.
Print Assumptions col_partition_roundtrip_allclose.


(* ================================================================== *)
(* Non-vacuity: the frame of Props/C07.v satisfies every hypothesis; its two-way
   row split and a two-part column split reassemble (computed on the model). *)
Definition ex_vs : list (stype * fview) :=
  [ (st_numerical, VDense 2 1 [[[Some 1%Z]; [Some 2%Z]]; [[None]; [Some 4%Z]]; [[Some 5%Z]; [Some 6%Z]]]);
    (st_multicategorical, VNested 1 [[[Some 7%Z; Some 8%Z]]; [[]]; [[Some 9%Z]]]);
    (st_embedding, VEmb [2; 0] [[[Some 10%Z; Some 11%Z]; []]; [[Some 12%Z; None]; []]; [[Some 14%Z; Some 15%Z]; []]]);
    (st_text_tokenized, VDict [("input_ids"%string, (1, [[[Some 16%Z]]; [[]]; [[Some 17%Z; Some 18%Z]]]));
                               ("attention_mask"%string, (1, [[[Some 1%Z]]; [[]]; [[Some 1%Z; Some 1%Z]]]))]) ].
Definition ex_names : list (stype * list string) :=
  [ (st_numerical, ["a"; "b"]%string); (st_multicategorical, ["m"]%string); (st_embedding, ["e"; "f"]%string);
    (st_text_tokenized, ["t"]%string) ].
Definition ex_y : option (list payload) := Some [Some 100%Z; Some 200%Z; Some 300%Z].

Example ex_names_ok : names_ok ex_vs ex_names.
Proof.
  unfold names_ok, ex_vs, ex_names. cbn [map fst]. repeat split.
  - repeat constructor; cbn; intuition discriminate.
  - repeat constructor; cbn; intuition discriminate.
  - intros s Hs. exact Hs.
  - cbn in H. repeat (destruct H as [H|H]; [injection H as <- <-; cbn; try exact I;
      try (split; [repeat constructor; cbn; intuition discriminate|repeat constructor])|]). contradiction.
  - cbn in H. repeat (destruct H as [H|H]; [injection H as <- <-; eexists; cbn; repeat split; discriminate|]). contradiction.
Qed.

Example ex_names_distinct : NoDup (flat_map snd ex_names).
Proof. cbn. repeat constructor; cbn; intuition discriminate. Qed.

Example ex_row_split :
  match tf_cat mnt_cat_run met_cat_run [sel_frame [0; 1] ex_vs ex_names ex_y None; sel_frame [2] ex_vs ex_names ex_y None] 0 with
  | Some F' => tf_eq Z.eqb F' (frame_of ex_vs ex_names ex_y None)
  | None => None
  end = Some true.
Proof. vm_compute. reflexivity. Qed.

Example ex_col_split :
  let cut := fun (j : nat) (s : stype) => match j with 0 => 0 | 1 => match s with st_numerical => 1 | st_embedding => 2 | _ => 0 end
                                              | _ => match s with st_numerical | st_embedding => 2 | _ => 1 end end in
  match tf_cat mnt_cat_run met_cat_run
               (map (col_part cut ex_vs ex_names (fun j => if j =? 1 then ex_y else None) (fun _ => Some 3)) (seq 0 2)) 1 with
  | Some F' => tf_eq Z.eqb F' (frame_of ex_vs ex_names ex_y None)
  | None => None
  end = Some true.
Proof. vm_compute. reflexivity. Qed.

Example ex_perturbed_cell_unequal :
  tf_eq Z.eqb (frame_of ex_vs ex_names ex_y None)
        (frame_of ((st_numerical, VDense 2 1 [[[Some 1%Z]; [Some 2%Z]]; [[None]; [Some 4%Z]]; [[Some 5%Z]; [Some 7%Z]]]) :: tl ex_vs)
                  ex_names ex_y None) = Some false.
Proof. vm_compute. reflexivity. Qed.

Example ex_perturbed_cell_unequal_allclose :
  tf_eq close_grid (frame_of ex_vs ex_names ex_y None)
        (frame_of ((st_numerical, VDense 2 1 [[[Some 1%Z]; [Some 2%Z]]; [[None]; [Some 4%Z]]; [[Some 5%Z]; [Some 7%Z]]]) :: tl ex_vs)
                  ex_names ex_y None) = Some false
  /\ tf_eq close_grid (frame_of ex_vs ex_names ex_y None) (frame_of ex_vs ex_names ex_y None) = Some true.
Proof. vm_compute. split; reflexivity. Qed.

Example ex_lookup : option_map snd (tf_get_col_feat (frame_of ex_vs ex_names ex_y None) "f"%string) = Some st_embedding.
Proof. vm_compute. reflexivity. Qed.
