(* C15 — Table convolutions and decoders keep their structural contracts.

   PROVED (exact arithmetic over an abstract scalar structure `O : Ops R`; non-linearities
   uninterpreted; torch's nn.Linear / LayerNorm / GroupNorm / nn.TransformerEncoder enter through
   explicit hypotheses saying on which axis they act):

     * every layer and decoder, AS WRITTEN at batch level (head reshape to B*heads and back,
       einsum contractions, softmax axis, `repeat(batch_size, ...)`, CLS prepend / split), acts on
       each row of the batch separately;
     * TabTransformerConv commutes with every permutation of the columns
       (needs only: + commutative and associative);
     * FTTransformerConvs: CLS slot fixed, the other tokens permuted -- the column outputs are
       permuted the same way and the CLS output is unchanged, given that torch's
       TransformerEncoder is permutation-equivariant over tokens (hypothesis; shown satisfiable by
       the TabTransformer layer);
     * ExcelFormerConv is causal UNDER BOUNDED SCORES: output column i equals an expression in the
       first i+1 input columns only.  Needs: 0 neutral for +, absorbing for * and /, and
       H_mask_kills restricted to a set `bounded` of scores: a bounded score with the additive -1e5
       mask has softmax numerator exactly 0 -- together with the premise that every q.k score of the
       layer is bounded.  The mask is ADDITIVE: in IEEE arithmetic a score gap of ~1e5 defeats it
       (ExcelFormerConv with attention parameters ~N(0, 50^2) is observably not causal); the
       theorem does not cover that regime, the harness asserts and records the bound it works in;  that the footprint is exactly
       lower-triangular (column i DOES depend on every column <= i) is a finite-domain statement
       checked by computation in the provenance instance, cols <= 4, heads <= 2;
     * TromptConv keeps the prompt shape [P, C] and rejects mismatched shapes (the source's
       asserts); the decoders give [B, out] for every B >= 0; TromptDecoder rejects a mismatch.

   NOT PROVED, OBSERVED by harness/c15.py on the real modules: floating point (float addition is
   not associative: equivariance holds to round-off, checked to 1e-9), that exp(-1e5/sqrt(d) + s)
   underflows to exactly 0.0 (H_mask_kills; checked as exact zero influence), that torch's blocks
   satisfy the axis hypotheses, evaluation mode. *)
From Coq Require Import List Arith Bool ZArith Permutation Lia.
From PF Require Import Lib.Chunks Lib.Tensor Model.Layers Model.LayersRun Proofs.LayersProofs.
Import ListNotations.

Section C15.
  Context {R : Type} (O : Ops R).
  Notation vec := (list R).
  Notation mat := (list (list R)).
  Notation t3 := (list (list (list R))).

  (* ---------------- the head reshape ---------------- *)
  (* `_reshape` followed by its inverse is the identity on per-row head lists: chunking the
     B*heads axis by H recovers the rows.  (The index-level content of both reshapes is in
     heads_split / heads_merge, Lib/Tensor.v.) *)
  Theorem reshape_heads_roundtrip : forall {A B} H (g : A -> list B) (X : list A), 0 < H ->
    (forall x, length (g x) = H) -> chunks H (flat_map g X) = map g X.
  Proof. exact (@chunks_flat_map_uniform). Qed.

  (* multi-head attention as written (both TabTransformerConv.SelfAttention and ExcelFormer's DiaM) *)
  Theorem multi_head_attention_rowwise : forall H d post LinQ lq LinK lk LinV lv, 0 < H ->
    acts_lastaxis LinQ lq -> acts_lastaxis LinK lk -> acts_lastaxis LinV lv ->
    forall X, mha O H d post LinQ LinK LinV X = map (mha_row O H d post lq lk lv) X.
  Proof. exact (mha_rowwise O). Qed.

  (* ---------------- TabTransformerConv ---------------- *)
  Theorem tab_conv_is_rowwise : forall H d Norm1 norm1 LinQ lq LinK lk LinV lv LinOut lout Lin1 lin1 Lin2 lin2, 0 < H ->
    acts_lastaxis Norm1 norm1 -> acts_lastaxis LinQ lq -> acts_lastaxis LinK lk -> acts_lastaxis LinV lv ->
    acts_lastaxis LinOut lout -> acts_lastaxis Lin1 lin1 -> acts_lastaxis Lin2 lin2 ->
    forall X, tab_conv O H d Norm1 LinQ LinK LinV LinOut Lin1 Lin2 X =
              map (tab_conv_row O H d norm1 lq lk lv lout lin1 lin2) X.
  Proof. exact (tab_conv_rowwise O). Qed.

  (* conv(x[:, perm]) = conv(x)[:, perm] *)
  Theorem tab_conv_column_equivariant : forall H d Norm1 norm1 LinQ lq LinK lk LinV lv LinOut lout Lin1 lin1 Lin2 lin2,
    (forall a b, oadd O a b = oadd O b a) -> (forall a b c, oadd O a (oadd O b c) = oadd O (oadd O a b) c) ->
    0 < H ->
    acts_lastaxis Norm1 norm1 -> acts_lastaxis LinQ lq -> acts_lastaxis LinK lk -> acts_lastaxis LinV lv ->
    acts_lastaxis LinOut lout -> acts_lastaxis Lin1 lin1 -> acts_lastaxis Lin2 lin2 ->
    forall n p (X : t3), Forall (fun row => length row = n) X -> is_perm p n ->
      tab_conv O H d Norm1 LinQ LinK LinV LinOut Lin1 Lin2 (map (take_cols p) X) =
      map (take_cols p) (tab_conv O H d Norm1 LinQ LinK LinV LinOut Lin1 Lin2 X).
  Proof. exact (tab_conv_equivariant O). Qed.

  (* ---------------- FTTransformerConvs ---------------- *)
  Theorem ft_convs_is_rowwise : forall (cls : vec) (TE : t3 -> t3) te_r, acts_rowwise TE te_r ->
    forall X, ft_convs cls TE X =
              option_map (fun l => (map fst l, map snd l)) (opt_all (map (ft_convs_row cls te_r) X)).
  Proof. exact (@ft_convs_rowwise R). Qed.

  (* H_torch_encoder_rowwise_equivariant: te_r keeps the token count and commutes with token
     permutations.  Then permuting the columns permutes the column outputs and leaves CLS alone. *)
  Theorem ft_convs_cls_invariant_columns_equivariant : forall (cls : vec) (te_r : mat -> mat),
    (forall toks, length (te_r toks) = length toks) ->
    (forall q toks, is_perm q (length toks) -> te_r (take_cols q toks) = take_cols q (te_r toks)) ->
    forall p (row y : mat) c, is_perm p (length row) ->
      ft_convs_row cls te_r row = Some (y, c) ->
      ft_convs_row cls te_r (take_cols p row) = Some (take_cols p y, c).
  Proof. exact (@ft_convs_row_equivariant R). Qed.

  Theorem ft_convs_never_fails : forall (cls : vec) (te_r : mat -> mat) row,
    (forall toks, length (te_r toks) = length toks) -> exists y c, ft_convs_row cls te_r row = Some (y, c).
  Proof. exact (@ft_convs_row_total R). Qed.

  (* ---------------- ExcelFormerConv ---------------- *)
  (* 1 < n: the configuration num_cols = 1 is excluded from the model (the code then accepts inputs
     with any number of columns, unmasked; Model/Layers.v says None) *)
  Theorem excel_conv_is_rowwise : forall n H d Norm1 norm1 LinQ lq LinK lk LinV lv LinOut lout Norm2 norm2 A1 a1 A2 a2,
    1 < n -> 0 < H -> acts_lastaxis Norm1 norm1 -> acts_lastaxis LinQ lq -> acts_lastaxis LinK lk -> acts_lastaxis LinV lv ->
    opt_lastaxis LinOut lout -> acts_lastaxis Norm2 norm2 -> acts_lastaxis A1 a1 -> acts_lastaxis A2 a2 ->
    forall X, excel_conv O n H d Norm1 LinQ LinK LinV LinOut Norm2 A1 A2 X =
              opt_all (map (excel_conv_row O n H d norm1 lq lk lv lout norm2 a1 a2) X).
  Proof. intros until 1. apply excel_conv_rowwise. Qed.

  (* causality, strong form: output column i is THE FUNCTION excel_col_prefix of the first i+1
     input columns (an attention over the prefix, with no mask) *)
  Theorem excel_conv_output_from_prefix : forall n H d norm1 lq lk lv lout norm2 a1 a2 (row : mat) i,
    (forall x, oadd O (o0 O) x = x) -> (forall x, omul O (o0 O) x = o0 O) -> (forall x, odiv O (o0 O) x = o0 O) ->
    forall bounded : R -> Prop,
    (forall s, bounded s -> ofn O FExp (ofn O FScale (oadd O s (onegbig O))) = o0 O) ->   (* H_mask_kills *)
    0 < H -> (forall x, length (lv x) = H * d) ->
    (forall h x y, bounded (dot O (head_slice d h (lq x)) (head_slice d h (lk y)))) ->    (* scores bounded *)
    length row = n -> i < n ->
    nth_error (excel_conv_core_row O n H d norm1 lq lk lv lout norm2 a1 a2 row) i =
    excel_col_prefix O H d norm1 lq lk lv lout norm2 a1 a2 (firstn (S i) row) i.
  Proof. intros; eapply excel_conv_causal; eassumption. Qed.

  (* causality as the property states it: columns after i do not influence output column i *)
  Theorem excel_conv_unaffected_by_later_columns : forall n H d norm1 lq lk lv lout norm2 a1 a2 (row row' : mat) i,
    (forall x, oadd O (o0 O) x = x) -> (forall x, omul O (o0 O) x = o0 O) -> (forall x, odiv O (o0 O) x = o0 O) ->
    forall bounded : R -> Prop,
    (forall s, bounded s -> ofn O FExp (ofn O FScale (oadd O s (onegbig O))) = o0 O) ->   (* H_mask_kills *)
    0 < H -> (forall x, length (lv x) = H * d) ->
    (forall h x y, bounded (dot O (head_slice d h (lq x)) (head_slice d h (lk y)))) ->    (* scores bounded *)
    length row = n -> length row' = n -> i < n ->
    firstn (S i) row = firstn (S i) row' ->
    nth_error (excel_conv_core_row O n H d norm1 lq lk lv lout norm2 a1 a2 row) i =
    nth_error (excel_conv_core_row O n H d norm1 lq lk lv lout norm2 a1 a2 row') i.
  Proof. intros; eapply excel_conv_suffix_independent; eassumption. Qed.

  (* the mask is the comparison `seq_ids[key] <= seq_ids[query]` of Model/Layers.v's diam_mask_row *)
  Theorem diam_mask_is_the_integer_comparison : forall n j l, j < n -> l < n ->
    nth_error (diam_mask_row O n j) l = Some (if mask_allowed (ids_int64 n) j l then o0 O else onegbig O).
  Proof. exact (diam_mask_row_is_integer_comparison O). Qed.

  (* ---------------- TromptConv ---------------- *)
  Theorem trompt_conv_is_rowwise : forall n C P (ep ec : mat) (w : vec) Lin lin (GN : list t3 -> list t3) gn_r,
    acts_lastaxis Lin lin -> acts_rowwise GN gn_r ->
    forall X Xp, trompt_conv O n C P ep ec w Lin GN X Xp =
                 if length Xp =? length X then opt_all (zipw (trompt_conv_row O n C P ep ec w lin gn_r) X Xp) else None.
  Proof. exact (trompt_conv_rowwise O). Qed.

  (* prompts in, prompts of the same shape out *)
  Theorem trompt_conv_keeps_prompt_shape : forall n C P (ep ec : mat) (w : vec) lin gn_r (x xp y : mat),
    length ep = P -> length w = P ->
    (forall z, length (gn_r z) = length z) ->
    (forall z, Forall (fun zk => Forall (fun v => length v = C) zk) z ->
               Forall (fun zk => Forall (fun v => length v = C) zk) (gn_r z)) ->
    trompt_conv_row O n C P ep ec w lin gn_r x xp = Some y ->
    length y = P /\ Forall (fun v => length v = C) y.
  Proof. exact (trompt_conv_row_shape O). Qed.

  (* the asserts: no broadcasting of a wrong shape *)
  Theorem trompt_conv_rejects_mismatch : forall n C P ep ec w Lin GN (X Xp : t3),
    shape3_ok n C X = false \/ length Xp <> length X \/ shape3_ok P C Xp = false ->
    trompt_conv O n C P ep ec w Lin GN X Xp = None.
  Proof. exact (trompt_conv_rejects O). Qed.

  (* ---------------- decoders ---------------- *)
  Theorem trompt_decoder_is_rowwise : forall P C LinAttn lin_attn Mlp mlp,
    acts_lastaxis LinAttn lin_attn -> acts_rowwise Mlp mlp ->
    forall X, trompt_decoder O P C LinAttn Mlp X = opt_all (map (trompt_decoder_row O P C lin_attn mlp) X).
  Proof. exact (trompt_decoder_rowwise O). Qed.

  Theorem trompt_decoder_reduces_to_B_out : forall P C out LinAttn lin_attn Mlp mlp (X : t3) Y,
    acts_lastaxis LinAttn lin_attn -> acts_rowwise Mlp mlp -> (forall v, length (mlp v) = out) ->
    trompt_decoder O P C LinAttn Mlp X = Some Y ->
    length Y = length X /\ Forall (fun r => length r = out) Y.
  Proof. exact (trompt_decoder_shape O). Qed.

  Theorem trompt_decoder_rejects_mismatch : forall P C LinAttn Mlp (X : t3),
    shape3_ok P C X = false -> trompt_decoder O P C LinAttn Mlp X = None.
  Proof. exact (trompt_decoder_rejects O). Qed.

  Theorem excel_decoder_is_rowwise : forall Cin Cout LinF lin_f LinD lin_d,
    acts_lastaxis LinF lin_f -> acts_lastaxis LinD lin_d ->
    forall X, excel_decoder O Cin Cout LinF LinD X = map (excel_decoder_row O Cin Cout lin_f lin_d) X.
  Proof. exact (excel_decoder_rowwise O). Qed.

  Theorem excel_decoder_reduces_to_B_out : forall Cin Cout LinF lin_f LinD lin_d (X : t3),
    acts_lastaxis LinF lin_f -> acts_lastaxis LinD lin_d ->
    (forall v, length (lin_f v) = Cout) -> (forall v, length (lin_d v) = 1) ->
    length (excel_decoder O Cin Cout LinF LinD X) = length X /\
    Forall (fun r => length r = Cout) (excel_decoder O Cin Cout LinF LinD X).
  Proof. exact (excel_decoder_shape O). Qed.
End C15.

(* ---------------- the causal mask over INTEGER column ids, for every width ---------------- *)
(* excelformer_conv.py DiaM: `register_buffer('seq_ids', torch.arange(num_cols))` and get_attention_mask's
   `seq_ids[None, None, :] <= seq_ids[None, :, None]`.  With the int64 ids of torch.arange the comparison is
   "key column <= query column" for EVERY number of columns ... *)
Theorem mask_allowed_int64 : forall n j l, j < n -> l < n -> mask_allowed (ids_int64 n) j l = (l <=? j).
Proof. exact mask_allowed_int64_lemma. Qed.

(* ... an 8-bit signed buffer would still be right up to 128 columns ... *)
Theorem mask_allowed_int8_upto_128 : forall n j l, n <= 128 -> j < n -> l < n ->
  mask_allowed (ids_int8 n) j l = (l <=? j).
Proof. exact mask_allowed_int8_upto_128_lemma. Qed.

(* ... and is REFUTED from 129 columns on (witness: 129 columns, query 0, key 128: id 128 wraps to -128 <= 0, so
   column 0 would attend to the later column 128).  The check replays the witness on every run: at widths >= 129
   the footprint measured on the real layer must equal the int64 prediction and differ from the int8 prediction. *)
Theorem mask_int8_refuted : exists n j l, j < n /\ l < n /\ j < l /\ mask_allowed (ids_int8 n) j l = true.
Proof. exact mask_int8_refuted_lemma. Qed.

Print Assumptions mask_allowed_int64.
Print Assumptions mask_allowed_int8_upto_128.
Print Assumptions mask_int8_refuted.
Print Assumptions diam_mask_is_the_integer_comparison.
Print Assumptions reshape_heads_roundtrip.
Print Assumptions multi_head_attention_rowwise.
Print Assumptions tab_conv_is_rowwise.
Print Assumptions tab_conv_column_equivariant.
Print Assumptions ft_convs_is_rowwise.
Print Assumptions ft_convs_cls_invariant_columns_equivariant.
Print Assumptions ft_convs_never_fails.
Print Assumptions excel_conv_is_rowwise.
Print Assumptions excel_conv_output_from_prefix.
Print Assumptions excel_conv_unaffected_by_later_columns.
Print Assumptions trompt_conv_is_rowwise.
Print Assumptions trompt_conv_keeps_prompt_shape.
Print Assumptions trompt_conv_rejects_mismatch.
Print Assumptions trompt_decoder_is_rowwise.
Print Assumptions trompt_decoder_reduces_to_B_out.
Print Assumptions trompt_decoder_rejects_mismatch.
Print Assumptions excel_decoder_is_rowwise.
Print Assumptions excel_decoder_reduces_to_B_out.

(* ---------------- footprints in the provenance instance (finite-domain, by computation) -------- *)
(* ExcelFormerConv: input column c influences output column c' IFF c <= c' -- in particular output
   column i does depend on EVERY column <= i -- for 1..4 columns, 1 or 2 heads, batch of 2;
   TabTransformerConv and FTTransformerConvs: every column influences every column (and CLS);
   rows never mix. *)
Theorem excel_conv_footprint_lower_triangular_bounded :
  forallb (fun cols => forallb (fun H =>
    layer_fp_ok cols cols (p_excel_conv cols H 2 (pin 2 cols 2)) 2 (identity_rows 2) (lower_triangular cols))
    [1; 2]) [1; 2; 3; 4] = true.
Proof. vm_compute. reflexivity. Qed.
Print Assumptions excel_conv_footprint_lower_triangular_bounded.

Theorem tab_conv_footprint_full_bounded :
  forallb (fun cols => forallb (fun H =>
    layer_fp_ok cols cols (Some (p_tab_conv H 2 (pin 2 cols 2))) 2 (identity_rows 2) (repeat (repeat true cols) cols))
    [1; 2]) [1; 2; 3; 4] = true.
Proof. vm_compute. reflexivity. Qed.
Print Assumptions tab_conv_footprint_full_bounded.

(* ---------------- the algebraic hypotheses are satisfiable ---------------- *)
(* commutative / associative addition: the integers *)
Example laws_hold_in_Z :
  (forall a b, oadd z_ops a b = oadd z_ops b a) /\
  (forall a b c, oadd z_ops a (oadd z_ops b c) = oadd z_ops (oadd z_ops a b) c).
Proof. cbn. split; intros; ring. Qed.

(* the causality hypotheses, all together, in the integers with a bottom element (and also in the
   provenance scalars used by the correspondence) *)
Example causality_hypotheses_hold_in_extended_Z :
  (forall x, oadd ez_ops (o0 ez_ops) x = x) /\ (forall x, omul ez_ops (o0 ez_ops) x = o0 ez_ops) /\
  (forall x, odiv ez_ops (o0 ez_ops) x = o0 ez_ops) /\
  (forall s, True -> ofn ez_ops FExp (ofn ez_ops FScale (oadd ez_ops s (onegbig ez_ops))) = o0 ez_ops).
Proof.
  cbn. repeat split; intros x; destruct x as [[| |]|]; reflexivity.
Qed.

(* ... and in the plain integers with an underflowing exp (exp x = 0 for x <= -50000, mask -100000):
   every score with |s| <= 40000 is killed, a score of 200000 is NOT -- the boundedness premise is
   necessary, as it is for IEEE floats. *)
Example causality_hypotheses_hold_for_bounded_scores_only :
  (forall x, oadd zb_ops (o0 zb_ops) x = x) /\ (forall x, omul zb_ops (o0 zb_ops) x = o0 zb_ops) /\
  (forall x, odiv zb_ops (o0 zb_ops) x = o0 zb_ops) /\
  (forall s, zb_bounded s -> ofn zb_ops FExp (ofn zb_ops FScale (oadd zb_ops s (onegbig zb_ops))) = o0 zb_ops) /\
  ofn zb_ops FExp (ofn zb_ops FScale (oadd zb_ops 200000%Z (onegbig zb_ops))) <> o0 zb_ops.
Proof.
  unfold zb_bounded. cbn. split; [|split; [|split; [|split]]].
  - intros x. reflexivity.
  - intros x. reflexivity.
  - intros x. reflexivity.
  - intros s Hs. destruct (Z.leb_spec (s + -100000) (-50000)); [reflexivity | lia].
  - discriminate.
Qed.

Example causality_hypotheses_hold_in_provenance :
  (forall x, oadd prov_ops (o0 prov_ops) x = x) /\ (forall x, omul prov_ops (o0 prov_ops) x = o0 prov_ops) /\
  (forall x, odiv prov_ops (o0 prov_ops) x = o0 prov_ops) /\
  (forall s, True -> ofn prov_ops FExp (ofn prov_ops FScale (oadd prov_ops s (onegbig prov_ops))) = o0 prov_ops).
Proof.
  cbn. repeat split; intros x; destruct x; reflexivity.
Qed.

(* a concrete causal layer over the extended integers: 3 columns, 1 head, d = 2, identity
   projections; changing the LAST column leaves output columns 0 and 1 untouched and changes
   column 2 (so the theorem is not vacuous and the layer is not constant) *)
Example excel_conv_concrete :
  let idv := fun v : list (option Z) => v in
  let f := excel_conv_core_row ez_ops 3 1 2 idv idv idv idv None idv idv idv in
  let r1 := [[Some 1; Some 2]; [Some 3; Some 1]; [Some 2; Some 2]]%Z in
  let r2 := [[Some 1; Some 2]; [Some 3; Some 1]; [Some 5; Some 7]]%Z in
  firstn 2 (f r1) = firstn 2 (f r2) /\ nth_error (f r1) 2 <> nth_error (f r2) 2.
Proof. vm_compute. split; [reflexivity | discriminate]. Qed.

(* H_torch_encoder_rowwise_equivariant is satisfiable by a genuine attention layer: the
   TabTransformer layer keeps the token count and is permutation-equivariant *)
Example ft_encoder_hypotheses_satisfiable :
  let idv := fun v : list Z => v in
  let te_r := tab_conv_row z_ops 1 2 idv idv idv idv idv idv idv in
  (forall toks, length (te_r toks) = length toks) /\
  (forall q toks, is_perm q (length toks) -> te_r (take_cols q toks) = take_cols q (te_r toks)).
Proof.
  cbv zeta. split.
  - intros. apply tab_conv_row_length. auto.
  - intros. apply tab_conv_row_equivariant; auto; cbn; intros; ring.
Qed.

(* a concrete permutation on a concrete row: columns (0 1 2) -> (2 0 1) *)
Example tab_conv_concrete_permutation :
  let idv := fun v : list Z => v in
  let f := tab_conv_row z_ops 2 1 idv idv idv idv idv (fun v => v ++ v) idv in
  let row := [[1; 2]; [3; 5]; [7; 4]]%Z in
  f (take_cols [2; 0; 1] row) = take_cols [2; 0; 1] (f row) /\ f row <> f (take_cols [2; 0; 1] row).
Proof. vm_compute. split; [reflexivity | discriminate]. Qed.
