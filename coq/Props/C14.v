(* C14 — Model inference is row-independent, deterministic, finite, uses every column.

   WHAT IS PROVED HERE (exact arithmetic over an ABSTRACT scalar structure `O : Ops R` -- any
   type, any +, *, /, any pointwise non-linearities -- so for every parameter value and every
   input value):

     for each of the seven models, the repository's own glue AS WRITTEN at batch level
     (mean over columns, view(B,-1), CLS read-out, prompt loop, `repeat(batch_size, ...)`,
     eval-mode batch norm, GhostBatchNorm1d's chunking, GLU blocks, TabNet's attentive loop and
     `sum(outs)`, torch.cat of the per-stype parts) computes   forward X = map forward_row X
     for EVERY batch X of EVERY size (0, 1, > 512, ...), given that each torch-internal block
     (nn.Linear, LayerNorm, the feature encoder, nn.TransformerEncoder, GroupNorm) acts on the
     rows of the batch separately -- the explicit `acts_rowwise` / `acts_lastaxis` hypotheses.

   Hence (generic corollaries at the end): subsets / permutations / duplicates / singletons /
   the empty batch commute with the model, the output has one entry per input row, and changing
   one row changes only that row's output.

   WHAT IS NOT PROVED, ONLY OBSERVED by harness/c14.py on the real modules (float64):
   IEEE round-off (cross-batch agreement is checked to 1e-9, same-batch footprints bit-exactly),
   determinism of the kernels, finiteness of the outputs with missing values, that torch's
   modules are in evaluation mode and satisfy the `acts_rowwise` hypotheses, and that every
   column reaches the output on the real parameters (here: only in the provenance instance, for
   bounded shapes, by computation).  This is the thinnest proof of the development. *)
From Coq Require Import List Arith Bool ZArith.
From PF Require Import Lib.Chunks Lib.Tensor Model.Layers Model.LayersRun Proofs.LayersProofs.
Import ListNotations.

Section C14.
  Context {R : Type} (O : Ops R).
  Notation vec := (list R).
  Notation mat := (list (list R)).
  Notation t3 := (list (list (list R))).

  (* ---------------- normalisation ---------------- *)
  (* eval-mode BatchNorm1d, written as torch computes it on the [B, F] matrix (running statistics and
     affine parameters broadcast over the batch axis), is a per-row map.  That torch's BatchNorm1d in
     eval mode IS this computation is a modelling assumption, validated every run by perturbing a
     real BatchNorm1d (harness/c14.py `extra`). *)
  Theorem batch_norm_eval_rowwise : forall mean var w b,
    acts_rowwise (bn_eval O mean var w b) (bn_eval_row O mean var w b).
  Proof. exact (bn_eval_rowwise O). Qed.

  (* GhostBatchNorm1d (tabnet.py) around any row-wise bn: chunking by ceil(len / 512) pieces and
     concatenating is invisible, for every batch size including 0 and > 512 and every virtual
     batch size >= 1 *)
  Theorem ghost_batch_norm_rowwise : forall (Bn : mat -> mat) bn vbs,
    0 < vbs -> acts_rowwise Bn bn -> acts_rowwise (ghost_bn Bn vbs) bn.
  Proof. exact ghost_bn_rowwise. Qed.

  (* the chunk arithmetic itself (tabnet.py GhostBatchNorm1d.forward: math.ceil(len(x) / virtual_batch_size) and
     torch.chunk, whose piece size is ceil(n / chunks)), for EVERY batch size n >= 1 and every virtual batch size
     v >= 1: the pieces self.bn is called with partition the batch IN ORDER, each has between 1 and v rows, all but
     the last have exactly ceil(n / ceil(n / v)) rows, and there are at most ceil(n / v) of them.  The row counts
     `ghost_call_sizes v n` are compared on every TabNet case with the sizes observed by a forward hook on the
     real inner BatchNorm1d in TRAINING mode (where the ghost batches are semantics; in evaluation mode an
     implementation may skip the chunking, which is invisible by ghost_batch_norm_rowwise). *)
  Theorem ghost_chunks_partition_the_batch : forall {A} v (X : list A), 0 < v -> 0 < length X ->
    let k := cdiv (length X) (cdiv (length X) v) in
    let cs := torch_chunk (cdiv (length X) v) X in
    concat cs = X /\
    Forall (fun c => 0 < length c <= v) cs /\
    (forall pre last, cs = pre ++ [last] -> Forall (fun c => length c = k) pre) /\
    length cs <= cdiv (length X) v.
  Proof. exact (@ghost_chunks_partition_lemma). Qed.

  (* ---------------- MLP ---------------- *)
  Theorem mlp_model_rowwise : forall {A} C (Enc : list A -> t3) enc_r Mlp mlp_r,
    acts_rowwise Enc enc_r -> acts_rowwise Mlp mlp_r ->
    forall X, mlp_forward O C Enc Mlp X = map (mlp_row O C enc_r mlp_r) X.
  Proof. exact (@mlp_rowwise R O). Qed.

  (* nn.Sequential of row-wise blocks is row-wise (self.mlp, self.backbone, self.decoder) *)
  Theorem sequential_blocks_rowwise : forall {T} (Fs : list (list T -> list T)) fs,
    Forall2 acts_rowwise Fs fs -> acts_rowwise (sequential Fs) (sequential fs).
  Proof. exact (@sequential_rowwise). Qed.

  (* ---------------- ResNet ---------------- *)
  Theorem fc_residual_block_is_rowwise : forall Lin1 lin1 Lin2 lin2 N1 n1 N2 n2 Sc sc,
    acts_rowwise Lin1 lin1 -> acts_rowwise Lin2 lin2 ->
    opt_rowwise N1 n1 -> opt_rowwise N2 n2 -> opt_rowwise Sc sc ->
    acts_rowwise (fc_residual_block O Lin1 Lin2 N1 N2 Sc) (fc_residual_block_row O lin1 lin2 n1 n2 sc).
  Proof. exact (fc_residual_block_rowwise O). Qed.

  Theorem resnet_model_rowwise : forall {A} (Enc : list A -> t3) enc_r Backbone backbone_r Dec dec_r,
    acts_rowwise Enc enc_r -> Forall2 acts_rowwise Backbone backbone_r -> acts_rowwise Dec dec_r ->
    forall X, resnet_forward Enc Backbone Dec X = map (resnet_row enc_r backbone_r dec_r) X.
  Proof. exact (@resnet_rowwise R). Qed.

  (* ---------------- TabNet ---------------- *)
  Theorem glu_block_is_rowwise : forall Gs gs nfr, Forall2 acts_rowwise Gs gs ->
    acts_rowwise (glu_block O nfr Gs) (glu_block_row O nfr gs).
  Proof. exact (glu_block_rowwise O). Qed.

  (* the whole forward: feature encoder, view, bn, attentive transformers with ghost batch norm,
     masks, priors, sum(outs), final Linear.  `steps <> []` is num_layers >= 1 (enforced by __init__). *)
  Theorem tabnet_model_rowwise : forall {A} (Enc : list A -> t3) enc_r Bn0 bn0 Ft0 ft0 split vbs Steps steps Lin lin,
    0 < vbs -> steps <> [] -> acts_rowwise Enc enc_r -> acts_rowwise Bn0 bn0 -> acts_rowwise Ft0 ft0 ->
    Forall2 (step_rowwise (R := R)) Steps steps -> acts_rowwise Lin lin ->
    forall X, tabnet_forward O Enc Bn0 Ft0 split vbs Steps Lin X =
              opt_all (map (tabnet_row O enc_r bn0 ft0 split steps lin) X).
  Proof. exact (@tabnet_rowwise_opt R O). Qed.

  (* ---------------- FT-Transformer ---------------- *)
  Theorem ft_model_rowwise : forall {A} (Enc : list A -> t3) enc_r (cls : vec) TE te_r Dec dec_r,
    acts_rowwise Enc enc_r -> acts_rowwise TE te_r -> acts_rowwise Dec dec_r ->
    forall X, ft_forward Enc cls TE Dec X = opt_all (map (ft_row enc_r cls te_r dec_r) X).
  Proof. exact (@ft_rowwise R). Qed.

  (* ---------------- TabTransformer ---------------- *)
  Theorem tabt_model_rowwise : forall {A} has_cat has_num (CatEnc : list A -> t3) cat_enc_r (pad : mat) Convs convs_r
                                      NumEnc num_enc_r NumNorm num_norm_r Dec dec_r,
    has_cat || has_num = true ->
    acts_rowwise CatEnc cat_enc_r -> Forall2 acts_rowwise Convs convs_r ->
    acts_rowwise NumEnc num_enc_r -> acts_rowwise NumNorm num_norm_r -> acts_rowwise Dec dec_r ->
    forall X, tabt_forward has_cat has_num CatEnc pad Convs NumEnc NumNorm Dec X =
              opt_all (map (tabt_row has_cat has_num cat_enc_r pad convs_r num_enc_r num_norm_r dec_r) X).
  Proof. exact (@tabt_rowwise R). Qed.

  (* ---------------- Trompt ---------------- *)
  (* every layer: its own encoder (row-wise) and a conv that zips rows of x with rows of x_prompt
     (proved for TromptConv in Props/C15.v); shared decoder; output [B, layers, out] *)
  Theorem trompt_model_rowwise : forall {A} (prompt : mat) layers layers_r (Dec : t3 -> option mat) dec,
    layers_r <> [] ->
    Forall2 (@trompt_layer_rowwise R A) layers layers_r -> acts_rowwise_opt Dec dec ->
    forall X, trompt_forward prompt layers Dec X = opt_all (map (trompt_row prompt layers_r dec) X).
  Proof. exact (@trompt_rowwise R). Qed.

  (* ---------------- ExcelFormer ---------------- *)
  Theorem excel_model_rowwise : forall {A} (Enc : list A -> t3) enc_r Convs convs_r Dec dec_r,
    acts_rowwise Enc enc_r -> Forall2 acts_rowwise_opt Convs convs_r -> acts_rowwise Dec dec_r ->
    forall X, excel_forward Enc Convs Dec X = opt_all (map (excel_row enc_r convs_r dec_r) X).
  Proof. exact (@excel_rowwise R). Qed.

  (* ---------------- what row-wiseness means for batches ---------------- *)
  (* model(tf[idx]) = model(tf)[idx] for every index list: subsets, permutations, duplicates *)
  Theorem rowwise_commutes_with_selection : forall {U T} (F : list U -> list T) f, acts_rowwise F f ->
    forall idx X, select idx (F X) = option_map F (select idx X).
  Proof. exact (@rowwise_select). Qed.

  (* the batch result is the concatenation of the rows scored alone *)
  Theorem rowwise_scored_alone : forall {U T} (F : list U -> list T) f, acts_rowwise F f ->
    forall X, F X = flat_map (fun x => F [x]) X.
  Proof. exact (@rowwise_alone). Qed.

  (* one output entry per row, for every batch size including the empty batch *)
  Theorem rowwise_batch_shape : forall {U T} (F : list U -> list T) f, acts_rowwise F f ->
    forall X, length (F X) = length X.
  Proof. exact (@rowwise_length). Qed.

  (* changing one row's features changes only that row's prediction *)
  Theorem rowwise_one_row_changes_only_itself : forall {U T} (F : list U -> list T) f, acts_rowwise F f ->
    forall X1 x x' X2,
      F (X1 ++ x' :: X2) =
      firstn (length X1) (F (X1 ++ x :: X2)) ++ f x' :: skipn (S (length X1)) (F (X1 ++ x :: X2)).
  Proof. exact (@rowwise_one_row_changes). Qed.

  (* the same for the models whose forward can raise (shape assertions): an accepted batch stays
     accepted under every selection and the outputs are the selected outputs *)
  Theorem rowwise_opt_commutes_with_selection : forall {U T} (F : list U -> option (list T)) f,
    acts_rowwise_opt F f ->
    forall idx X X' Y, F X = Some Y -> select idx X = Some X' ->
    exists Y', F X' = Some Y' /\ select idx Y = Some Y'.
  Proof. exact (@rowwise_opt_select). Qed.

  Theorem rowwise_opt_batch_shape : forall {U T} (F : list U -> option (list T)) f, acts_rowwise_opt F f ->
    forall X Y, F X = Some Y -> length Y = length X.
  Proof. exact (@rowwise_opt_length). Qed.

  Theorem rowwise_opt_empty_batch : forall {U T} (F : list U -> option (list T)) f, acts_rowwise_opt F f ->
    F [] = Some [].
  Proof. exact (@rowwise_opt_empty). Qed.
End C14.

Print Assumptions batch_norm_eval_rowwise.
Print Assumptions ghost_batch_norm_rowwise.
Print Assumptions ghost_chunks_partition_the_batch.
Print Assumptions mlp_model_rowwise.
Print Assumptions sequential_blocks_rowwise.
Print Assumptions fc_residual_block_is_rowwise.
Print Assumptions resnet_model_rowwise.
Print Assumptions glu_block_is_rowwise.
Print Assumptions tabnet_model_rowwise.
Print Assumptions ft_model_rowwise.
Print Assumptions tabt_model_rowwise.
Print Assumptions trompt_model_rowwise.
Print Assumptions excel_model_rowwise.
Print Assumptions rowwise_commutes_with_selection.
Print Assumptions rowwise_scored_alone.
Print Assumptions rowwise_batch_shape.
Print Assumptions rowwise_one_row_changes_only_itself.
Print Assumptions rowwise_opt_commutes_with_selection.
Print Assumptions rowwise_opt_batch_shape.
Print Assumptions rowwise_opt_empty_batch.

(* ---------------- every column reaches the output (provenance instance) ---------------- *)
(* FINITE-DOMAIN statement proved by computation: in the provenance instance (a scalar is the set
   of input cells it was computed from; every torch block mixes the vector it acts on), for every
   model, every number of columns 1..4 (2..4 where a model needs two stypes), channels 2, one or
   two layers, batch of 3 rows: output row r depends on cell (r, c) for EVERY column c and on no
   cell of another row.  The same evaluators are run by the check on the shapes of each generated
   case and compared with the dependencies measured on the real modules. *)
Definition all_reach (cols : nat) (Ps : option (list (list (list prov)))) : bool :=
  match final_of Ps with
  | Some Y => (length Y =? 3) && rows_ok 0 cols cols Y (identity_rows 3)
              && bvec_eqb (col_reach 0 cols cols Y) (repeat true cols)
  | None => false
  end.

Theorem all_columns_reach_output_bounded :
  forallb (fun cols =>
    forallb (fun layers =>
      all_reach cols (p_mlp 1 layers cols 2 2 (seq 0 3)) &&
      all_reach cols (p_mlp 2 layers cols 2 2 (seq 0 3)) &&
      all_reach cols (p_resnet 0 layers cols 2 2 (seq 0 3)) &&
      all_reach cols (p_resnet 2 layers cols 2 2 (seq 0 3)) &&
      all_reach cols (p_tabnet layers cols 2 2 3 2 2 512 2 (seq 0 3)) &&
      all_reach cols (p_tabnet layers cols 1 2 2 0 1 2 2 (seq 0 3)) &&
      all_reach cols (p_ft cols 2 2 (seq 0 3)) &&
      all_reach cols (p_tabt layers 2 cols 4 2 2 (seq 0 cols) [] (seq 0 3)) &&
      all_reach (cols + 2) (p_tabt layers 2 (cols + 2) 4 2 2 (seq 2 cols) [0; 1] (seq 0 3)) &&
      all_reach cols (p_trompt layers cols 2 2 2 (seq 0 3)) &&
      all_reach cols (p_excel layers 2 cols 2 2 (seq 0 3)) &&
      all_reach cols (p_excel layers 1 cols 2 2 (seq 0 3)))
      [1; 2]) [1; 2; 3; 4] = true.
Proof. vm_compute. reflexivity. Qed.
Print Assumptions all_columns_reach_output_bounded.

(* The glue of each architecture leaves a DIFFERENT trace on its intermediate tensors (again finite-
   domain, by computation, 2..4 columns, 3 channels, batch 2): which input column reaches which
   position of
     ResNet   input of the backbone  [cols*C]         column c -> positions c*C .. c*C+C-1   (view(B,-1))
     FT       input of the encoder   [(cols+1)*C]     column c -> token c+1; the CLS token (first) nothing
     MLP      input of self.mlp      [C]              every column -> every position           (mean)
     TabT     input of the decoder   [ncat*C + nnum]  categorical -> the first ncat*C positions only,
                                                      numerical  -> the last nnum only        (torch.cat)
     TabT     input of the 1st conv  [ncat*C]         column i -> token i, channels < C - pad  (positional pad)
     Excel    input of the decoder   [cols*C]         column c -> tokens c' >= c               (causal convs)
   These are the matrices the check measures on the real models with forward hooks, on the shapes and
   hyper-parameters of every generated case. *)
Theorem model_specific_footprints_bounded :
  forallb (fun cols =>
    let C := 3 in
    obmat_eqb (probe_fp cols 0 (p_resnet 1 2 cols C 2 (seq 0 2))) (fp_matrix cols (cols * C) (fun c k => k / C =? c)) &&
    obmat_eqb (probe_fp cols 0 (p_ft cols C 2 (seq 0 2))) (fp_matrix cols ((cols + 1) * C) (fun c k => k / C =? c + 1)) &&
    obmat_eqb (probe_fp cols 0 (p_mlp 1 2 cols C 2 (seq 0 2))) (fp_matrix cols C (fun _ _ => true)) &&
    obmat_eqb (probe_fp (cols + 2) 1 (p_tabt 1 1 (cols + 2) 4 1 2 (seq 2 cols) [0; 1] (seq 0 2)))
              (fp_matrix (cols + 2) (cols * 4 + 2) (fun c k => if c <? 2 then cols * 4 <=? k else k <? cols * 4)) &&
    obmat_eqb (probe_fp (cols + 2) 0 (p_tabt 1 1 (cols + 2) 4 1 2 (seq 2 cols) [0; 1] (seq 0 2)))
              (fp_matrix (cols + 2) (cols * 4) (fun c k => (2 <=? c) && (k / 4 =? c - 2) && (k mod 4 <? 3))) &&
    obmat_eqb (probe_fp cols 0 (p_excel 2 1 cols C 2 (seq 0 2))) (fp_matrix cols (cols * C) (fun c k => c <=? k / C)))
    [2; 3; 4] = true.
Proof. vm_compute. reflexivity. Qed.
Print Assumptions model_specific_footprints_bounded.

(* ---------------- the hypotheses are satisfiable; the eval-mode hypothesis matters ---------------- *)
(* a concrete MLP over the integers: encoder [a] |-> [[a; 2a]; [3a; a+1]], mlp = reverse *)
Example mlp_concrete :
  let enc_r := fun a : Z => [[a; 2 * a]; [3 * a; a + 1]]%Z in
  mlp_forward z_ops 2 (map enc_r) (map (@rev Z)) [1; 5; 5; -2]%Z =
  map (mlp_row z_ops 2 enc_r (@rev Z)) [1; 5; 5; -2]%Z
  /\ mlp_forward z_ops 2 (map enc_r) (map (@rev Z)) [1; 5; 5; -2]%Z = [[2; 2]; [8; 10]; [8; 10]; [-3; -4]]%Z.
Proof. vm_compute. split; reflexivity. Qed.

(* ghost batch norm with a virtual batch size of 2 on 5 rows really chunks (3 pieces), and with an
   eval-mode bn the result is the plain map *)
Example ghost_bn_concrete :
  torch_chunk (cdiv 5 2) [[1]; [2]; [3]; [4]; [5]]%Z = [[[1]; [2]]; [[3]; [4]]; [[5]]]%Z /\
  ghost_bn (bn_eval z_ops [0] [1] [2] [1])%Z 2 [[1]; [2]; [3]; [4]; [5]]%Z = [[3]; [5]; [7]; [9]; [11]]%Z.
Proof. vm_compute. split; reflexivity. Qed.

(* the chunk sizes at the boundaries of the 512-row ghost batch: 1 / 2 / 3 / 4 / 5 pieces *)
Example ghost_call_sizes_at_the_boundaries :
  ghost_call_sizes 512 512 = [512] /\ ghost_call_sizes 512 513 = [257; 256] /\
  ghost_call_sizes 512 1025 = [342; 342; 341] /\ ghost_call_sizes 512 1537 = [385; 385; 385; 382] /\
  ghost_call_sizes 512 2049 = [410; 410; 410; 410; 409] /\ ghost_call_sizes 512 0 = [0].
Proof. vm_compute. repeat split; reflexivity. Qed.

(* ...whereas a TRAINING-mode batch norm (batch mean) inside the same ghost batch norm is NOT
   row-wise: the first row's output depends on the batch it is scored in.  This is what the
   `acts_rowwise Bn bn` hypothesis (evaluation mode) excludes, and what the harness measures. *)
Example ghost_bn_train_mode_is_not_rowwise :
  firstn 1 (ghost_bn (bn_train z_ops 1) 2 [[1]; [3]; [5]]%Z) <> ghost_bn (bn_train z_ops 1) 2 [[1]]%Z.
Proof. vm_compute. discriminate. Qed.

(* ================================================================================================== *)
(* The feature-encoder hypothesis DISCHARGED for the built-in stype encoders (C13's per-cell theorem)  *)
(* ================================================================================================== *)
(* The theorems above take the feature encoder as an argument Enc with the hypothesis `acts_rowwise Enc enc_r`.
   For the nine built-in stype-encoder classes of stype_encoder.py (LinearEncoder, StackEncoder,
   ExcelFormerEncoder, LinearPeriodicEncoder, LinearBucketEncoder, EmbeddingEncoder,
   MultiCategoricalEmbeddingEncoder, LinearEmbeddingEncoder, TimestampEncoder) that hypothesis is a THEOREM:
   Model/Encoders.v models their forward as written (NA handling, per-column loops, einsum, bucket search and
   fraction, sin/cos features, nan_to_num, post-module) and Proofs/EncodersProofs.v proves it cell-wise.  Below,
   the C14 glue is instantiated over C13's scalars X (car S) (a float or NaN), its own operations O arbitrary, and
   the encoder stage is C13's `forward`: NO hypothesis about the encoder is left.  `None` = the call raises
   (a row of the wrong width or a cell outside an encoder's domain): the batch raises iff some row does. *)
From Coq Require Import QArith.
From PF Require Import Lib.ListX Gen.Tables Model.Encoders Proofs.EncodersProofs Proofs.LayersEncoders.
Local Close Scope Q_scope.
Local Open Scope nat_scope.

(* any single built-in encoder: its forward is the row-by-row evaluation of enc_row *)
Theorem builtin_encoder_is_rowwise : forall (S : Scalar) (c : config S) (x : input S),
  wf_config S c -> input_ok S c x -> construct_ok S c = true ->
  forward S c x = opt_all (map (enc_row S c) (cells S (cf_stats S c) x)).
Proof. exact builtin_encoder_rowwise. Qed.

(* StypeWiseFeatureEncoder on a frame with two stypes (each stype's encoder on its block, torch.cat(dim=1)) *)
Theorem two_stype_feature_encoder_is_rowwise : forall (S : Scalar) c1 x1 c2 x2,
  wf_config S c1 -> input_ok S c1 x1 -> construct_ok S c1 = true ->
  wf_config S c2 -> input_ok S c2 x2 -> construct_ok S c2 = true ->
  length (cells S (cf_stats S c1) x1) = length (cells S (cf_stats S c2) x2) ->
  stypewise2 S c1 x1 c2 x2 =
  opt_all (map (enc_row2 S c1 c2) (combine (cells S (cf_stats S c1) x1) (cells S (cf_stats S c2) x2))).
Proof. exact stypewise2_rowwise. Qed.

(* MLP / ResNet / FT-Transformer / TabNet behind the two-stype feature encoder, ExcelFormer behind its numerical
   encoder: the prediction of the batch is the row-by-row prediction, for ANY of the encoder classes
   (in particular LinearBucketEncoder and LinearPeriodicEncoder), any NA strategy, any batch size. *)
Theorem mlp_with_builtin_encoders_rowwise : forall (S : Scalar) (O : Ops (X (car S))) C Mlp mlp_r c1 x1 c2 x2,
  acts_rowwise Mlp mlp_r -> enc_side S c1 x1 c2 x2 ->
  option_map (mlp_forward O C (fun e => e) Mlp) (stypewise2 S c1 x1 c2 x2) =
  opt_all (map (fun row => option_map (mlp_row O C (fun e => e) mlp_r) (enc_row2 S c1 c2 row))
               (frame_rows S c1 x1 c2 x2)).
Proof. exact mlp_after_encoders. Qed.

Theorem resnet_with_builtin_encoders_rowwise : forall (S : Scalar) Backbone backbone_r Dec dec_r c1 x1 c2 x2,
  Forall2 acts_rowwise Backbone backbone_r -> acts_rowwise Dec dec_r -> enc_side S c1 x1 c2 x2 ->
  option_map (resnet_forward (fun e => e) Backbone Dec) (stypewise2 S c1 x1 c2 x2) =
  opt_all (map (fun row => option_map (resnet_row (fun e => e) backbone_r dec_r) (enc_row2 S c1 c2 row))
               (frame_rows S c1 x1 c2 x2)).
Proof. exact resnet_after_encoders. Qed.

Theorem ft_with_builtin_encoders_rowwise : forall (S : Scalar) (cls : list (X (car S))) TE te_r Dec dec_r c1 x1 c2 x2,
  acts_rowwise TE te_r -> acts_rowwise Dec dec_r -> enc_side S c1 x1 c2 x2 ->
  match stypewise2 S c1 x1 c2 x2 with Some E => ft_forward (fun e => e) cls TE Dec E | None => None end =
  opt_all (map (fun row => match enc_row2 S c1 c2 row with Some E => ft_row (fun e => e) cls te_r dec_r E | None => None end)
               (frame_rows S c1 x1 c2 x2)).
Proof. exact ft_after_encoders. Qed.

Theorem tabnet_with_builtin_encoders_rowwise :
  forall (S : Scalar) (O : Ops (X (car S))) Bn0 bn0 Ft0 ft0 split vbs Steps steps Lin lin c1 x1 c2 x2,
  0 < vbs -> steps <> [] -> acts_rowwise Bn0 bn0 -> acts_rowwise Ft0 ft0 ->
  Forall2 (step_rowwise (R := X (car S))) Steps steps -> acts_rowwise Lin lin -> enc_side S c1 x1 c2 x2 ->
  match stypewise2 S c1 x1 c2 x2 with Some E => tabnet_forward O (fun e => e) Bn0 Ft0 split vbs Steps Lin E | None => None end =
  opt_all (map (fun row => match enc_row2 S c1 c2 row with
                           | Some E => tabnet_row O (fun e => e) bn0 ft0 split steps lin E
                           | None => None
                           end) (frame_rows S c1 x1 c2 x2)).
Proof. exact tabnet_after_encoders. Qed.

Theorem excel_with_builtin_encoder_rowwise : forall (S : Scalar) Convs convs_r Dec dec_r (c : config S) (x : input S),
  Forall2 acts_rowwise_opt Convs convs_r -> acts_rowwise Dec dec_r ->
  wf_config S c -> input_ok S c x -> construct_ok S c = true ->
  match forward S c x with Some E => excel_forward (fun e => e) Convs Dec E | None => None end =
  opt_all (map (fun row => match enc_row S c row with Some E => excel_row (fun e => e) convs_r dec_r E | None => None end)
               (cells S (cf_stats S c) x)).
Proof. exact excel_after_encoder. Qed.

Print Assumptions builtin_encoder_is_rowwise.
Print Assumptions two_stype_feature_encoder_is_rowwise.
Print Assumptions mlp_with_builtin_encoders_rowwise.
Print Assumptions resnet_with_builtin_encoders_rowwise.
Print Assumptions ft_with_builtin_encoders_rowwise.
Print Assumptions tabnet_with_builtin_encoders_rowwise.
Print Assumptions excel_with_builtin_encoder_rowwise.

(* the hypotheses are satisfiable and the statement is not vacuous: a LinearBucketEncoder (a tie-heavy second
   column: all quantiles equal) and a LinearPeriodicEncoder over the rationals, missing cells present, an MLP head
   that reverses the pooled vector; the batch result is computed and equals the row-by-row result *)
Definition xq_ops : Ops (X Q) :=
  mkOps _ (XFin 0%Q) (XFin 1%Q) (xadd QS) (xmul QS) (xdiv QS) (fun _ x => x) (XFin (-100000)%Q).

Example mlp_behind_bucket_and_periodic_encoders :
  let st := [qcs (XFin (3 # 2)%Q) (XFin 2%Q) (map XFin [-3; 0; 1; 2; 8]%Q) 3 1999%Z [] [] [] 2;
             qcs (XFin (-4)%Q) (XFin 0%Q) (map XFin [-4; -4; -4; -4; -4]%Q) 1 1999%Z [] [] [] 1] in
  let feat : mat (X Q) := [[XFin 1; XNaN]; [XNaN; XFin (-4)]; [XFin 100; XFin 2]]%Q in
  let cb := qconfig (EBucket QS [gmat 0 0 4 2; gmat 0 1 4 2] (gmat 1 0 2 2)) st 2 (Some na_MEAN) in
  let cp := qconfig (EPeriodic QS (gmat 0 0 2 1) [gmat 0 0 2 2; gmat 0 1 2 2]) st 2 None in
  enc_side QS cb (InNum QS feat) cp (InNum QS feat) /\
  (exists Y, option_map (mlp_forward xq_ops 2 (fun e => e) (map (@rev (X Q)))) (stypewise2 QS cb (InNum QS feat) cp (InNum QS feat))
             = Some Y /\ length Y = 3) /\
  option_map (mlp_forward xq_ops 2 (fun e => e) (map (@rev (X Q)))) (stypewise2 QS cb (InNum QS feat) cp (InNum QS feat)) =
  opt_all (map (fun row => option_map (mlp_row xq_ops 2 (fun e => e) (@rev (X Q))) (enc_row2 QS cb cp row))
               (frame_rows QS cb (InNum QS feat) cp (InNum QS feat))).
Proof.
  cbv zeta. split; [|split].
  - unfold enc_side. vm_compute. repeat split; reflexivity.
  - eexists. split; vm_compute; reflexivity.
  - vm_compute. reflexivity.
Qed.
