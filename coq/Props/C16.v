(* C16 — user text/image embedders and tokenizers get strings, once per row, in row order.
   Statements only; proofs live in Proofs/EmbeddersProofs.v (and Proofs/ChunksFacts.v).

   Model: Model/Embedders.v (EmbeddingTensorMapper.forward with an embedder, the four
   branches of TextTokenizationTensorMapper.forward, the per-column configuration lookup
   of the converter).  The user callable is a Section variable; where a theorem needs it
   to be row-wise, that is a hypothesis written out in the statement. *)
From Coq Require Import String.
From Coq Require Import List Arith ZArith.
From PF Require Import Lib.ListX Lib.Chunks Model.Embedders Proofs.EmbeddersProofs.
Import ListNotations.

(* --- what the callable receives (for any callable) --- *)

(* the arguments are lists of strings by construction (arg_lists : list (list string));
   a missing cell is passed as its string rendering.
   NOTE: "called only with lists of Python strings, never a float or None" is a TYPING fact of
   the model, not a theorem about mapper.py: a regression such as `ser.astype(str).tolist()`
   (which leaves float NaN in the list under pandas 3) cannot be expressed in Coq.  For the
   real code this clause is OBSERVED on every run by harness/c16.py: the recording stubs keep
   the raw argument objects and the oracle requires `type(args) is list` and
   `type(x) is str` for every element of every call (keys nonlist-arg:STYPE, nonstr-arg:STYPE).
   (The mini-batch loop itself is modelled as written and proved equal to Chunks.chunks below:
   c16_batch_loop_is_chunks.) *)
Theorem c16_missing_is_rendered :
  render CNone = "None"%string /\ render CNaN = "nan"%string /\ render CNA = "<NA>"%string.
Proof. exact render_missing. Qed.

(* the mini-batch loop of both mappers AS WRITTEN
       for i in range(0, len(ser_list), batch_size): f(ser_list[i:i + batch_size])
   (Model/Embedders.v batch_slices: Python range + list slicing) yields exactly the consecutive
   chunks of at most batch_size *)
Theorem c16_batch_loop_is_chunks : forall {A} k (l : list A), 0 < k ->
  batch_slices k l = chunks k l.
Proof. exact @batch_slices_chunks. Qed.

(* the recorded calls are exactly: one call with the whole rendered column when no batch size
   is set, else its consecutive chunks of at most batch_size *)
Theorem c16_embedder_calls : forall {V} (f : list string -> list V) bs cells, valid_bs bs ->
  emb_calls f bs cells =
  match bs with None => [map render cells] | Some k => chunks k (map render cells) end.
Proof.
  intros V f bs cells Hv. rewrite emb_calls_are_arg_lists.
  destruct bs; [apply arg_lists_chunks; exact Hv | reflexivity].
Qed.

Theorem c16_tokenizer_calls : forall {K T} (f : list string -> tok_out K T) bs cells, valid_bs bs ->
  tok_calls f bs cells =
  match bs with None => [map render cells] | Some k => chunks k (map render cells) end.
Proof.
  intros K T f bs cells Hv. rewrite tok_calls_are_arg_lists.
  destruct bs; [apply arg_lists_chunks; exact Hv | reflexivity].
Qed.

(* The two statements above used to be stated without `valid_bs` and were proved by unfolding,
   because arg_lists was DEFINED as chunks.  Of the faithful model (the loop as written) the
   unguarded statement is false at batch_size = 0: the loop makes no call at all (Python raises
   ValueError from range() before any call), whereas `chunks 0` would be a list of empty chunks. *)
Theorem c16_calls_unguarded_refuted :
  exists (f : list string -> list nat) (cells : list cell),
    emb_calls f (Some 0) cells <> chunks 0 (map render cells) /\
    emb_calls f (Some 0) cells = [] /\ emb_forward f (Some 0) cells = None.
Proof.
  exists (fun xs => map String.length xs), [CStr "a"%string; CNone].
  split; [vm_compute; discriminate | split; reflexivity].
Qed.

(* every row exactly once, in row order *)
Theorem c16_calls_cover_rows_in_order : forall bs cells, valid_bs bs ->
  concat (arg_lists bs cells) = map render cells.
Proof. exact arg_lists_concat. Qed.

(* chunk sizes: each non-empty and at most batch_size, all but the last exactly batch_size,
   ceil(n / batch_size) calls *)
Theorem c16_chunk_sizes : forall k cells, 0 < k ->
  Forall (fun a => 0 < length a <= k) (arg_lists (Some k) cells) /\
  (forall cs c, arg_lists (Some k) cells = cs ++ [c] -> Forall (fun a => length a = k) cs) /\
  length (arg_lists (Some k) cells) = (length cells + k - 1) / k.
Proof.
  intros k cells Hk. split; [apply arg_lists_sizes; exact Hk|].
  split; [intros cs c; apply arg_lists_full; exact Hk | apply arg_lists_count; exact Hk].
Qed.

(* --- what is assembled from the outputs (row-wise callables) --- *)

Section C16_embedder.
  Context {V : Type}.
  Variable embedder : list string -> list V.
  Variable emb1 : string -> V.
  (* the callable is row-wise *)
  Hypothesis H_rowwise_app : forall xs ys, embedder (xs ++ ys) = embedder xs ++ embedder ys.
  Hypothesis H_rowwise_one : forall x, embedder [x] = [emb1 x].

  (* row i of the embedding tensor is the callable's output for row i's text, for every batch size *)
  Theorem c16_embedding_rows : forall bs cells, valid_bs bs -> cells <> [] ->
    emb_forward embedder bs cells = Some (length cells, map (fun c => emb1 (render c)) cells).
  Proof. exact (emb_forward_rowwise embedder emb1 H_rowwise_app H_rowwise_one). Qed.

  Theorem c16_embedding_row_i : forall bs cells n vals i, valid_bs bs -> cells <> [] ->
    emb_forward embedder bs cells = Some (n, vals) ->
    n = length cells /\ length vals = length cells /\
    nth_error vals i = option_map (fun c => emb1 (render c)) (nth_error cells i).
  Proof. exact (emb_forward_row embedder emb1 H_rowwise_app H_rowwise_one). Qed.

  (* batched == unbatched (and any two batch sizes agree) *)
  Theorem c16_embedding_batch_independent : forall bs1 bs2 cells, valid_bs bs1 -> valid_bs bs2 -> cells <> [] ->
    emb_forward embedder bs1 cells = emb_forward embedder bs2 cells.
  Proof. exact (emb_forward_batch_independent embedder emb1 H_rowwise_app H_rowwise_one). Qed.
End C16_embedder.

Section C16_tokenizer.
  Context {K T : Type}.
  Variable key_eqb : K -> K -> bool.
  Hypothesis key_eqb_spec : forall a b, key_eqb a b = true <-> a = b.
  Variable keys : list K.                   (* the keys of the per-sentence mapping *)
  Variable tokk : K -> string -> T.         (* key -> sentence -> token tensor *)

  (* a row-wise tokenizer in list-of-per-sentence-mappings format: for every key, row i of the
     token container is the tokenization of row i's text, batched or not *)
  Theorem c16_tokens_list_format : forall (tokenizer : list string -> tok_out K T) bs cells,
    (forall xs, tokenizer xs = OutList (map (fun x => map (fun k => (k, tokk k x)) keys) xs)) ->
    valid_bs bs -> cells <> [] ->
    tok_forward key_eqb tokenizer bs cells =
    Some (map (fun k => (k, map (fun c => tokk k (render c)) cells)) keys).
  Proof. intros tokenizer bs cells H. exact (tok_forward_list_format key_eqb key_eqb_spec tokenizer keys tokk bs cells H). Qed.

  (* ... and in one-mapping-of-2-D-tensors format *)
  Theorem c16_tokens_map_format : forall (tokenizer : list string -> tok_out K T) bs cells,
    (forall xs, tokenizer xs = OutMap (map (fun k => (k, map (tokk k) xs)) keys)) ->
    valid_bs bs -> cells <> [] ->
    tok_forward key_eqb tokenizer bs cells =
    Some (map (fun k => (k, map (fun c => tokk k (render c)) cells)) keys).
  Proof. intros tokenizer bs cells H. exact (tok_forward_map_format key_eqb key_eqb_spec tokenizer keys tokk bs cells H). Qed.

  (* hence: both formats and all batch sizes give the identical result *)
  Theorem c16_tokens_format_and_batch_independent :
    forall (tok_l tok_m : list string -> tok_out K T) bs1 bs2 cells,
    (forall xs, tok_l xs = OutList (map (fun x => map (fun k => (k, tokk k x)) keys) xs)) ->
    (forall xs, tok_m xs = OutMap (map (fun k => (k, map (tokk k) xs)) keys)) ->
    valid_bs bs1 -> valid_bs bs2 -> cells <> [] ->
    tok_forward key_eqb tok_l bs1 cells = tok_forward key_eqb tok_m bs2 cells.
  Proof.
    intros tok_l tok_m bs1 bs2 cells Hl Hm H1 H2 Hc.
    rewrite (c16_tokens_list_format tok_l bs1 cells Hl H1 Hc), (c16_tokens_map_format tok_m bs2 cells Hm H2 Hc).
    reflexivity.
  Qed.
End C16_tokenizer.

(* --- the public ImageEmbedder base class with its default retrieval (config/image_embedder.py
   forward_retrieve / __call__), and a callable that may raise inside EmbeddingTensorMapper.forward --- *)
Section C16_image.
  Context {Img V : Type}.
  Variable open_image : string -> option Img.     (* Image.open(path) ... convert('RGB'); None = raises *)
  Variable forward_embed : list Img -> list V.    (* the user's subclass *)

  (* retrieval hands forward_embed exactly one image per path, in order *)
  Theorem c16_image_retrieve_one_per_path : forall paths imgs,
    forward_retrieve open_image paths = Some imgs ->
    length imgs = length paths /\ Forall2 (fun p im => open_image p = Some im) paths imgs.
  Proof. exact (retrieve_one_per_path open_image). Qed.

  Variable embed1 : Img -> V.
  Hypothesis H_embed_app : forall xs ys, forward_embed (xs ++ ys) = forward_embed xs ++ forward_embed ys.
  Hypothesis H_embed_one : forall x, forward_embed [x] = [embed1 x].

  (* "raise, or one image per row with row i's output in row i" -- both halves, for every batch size:
     a cell that cannot be opened makes the conversion raise (no row is silently dropped or shifted) ... *)
  Theorem c16_image_unopenable_raises : forall bs cells c, valid_bs bs ->
    In c cells -> open_image (render c) = None ->
    emb_forward_raising (image_call open_image forward_embed) bs cells = None.
  Proof. exact (image_forward_raises open_image forward_embed). Qed.

  (* ... and when every cell opens, the result has n rows and row i is forward_embed's output for the
     image row i's path opens to *)
  Theorem c16_image_rows : forall bs cells imgs, valid_bs bs -> cells <> [] ->
    mapM open_image (map render cells) = Some imgs ->
    length imgs = length cells /\
    emb_forward_raising (image_call open_image forward_embed) bs cells = Some (length cells, map embed1 imgs).
  Proof. exact (image_forward_covers open_image forward_embed embed1 H_embed_app H_embed_one). Qed.
End C16_image.

(* --- wiring: each column is served by the callable configured for it --- *)
Theorem c16_wiring_per_column : forall {F} (pre post : list (string * @cfg F)) col x,
  ~ In col (map fst pre) -> cfg_lookup col (pre ++ (col, x) :: post) = Some x.
Proof. exact @cfg_lookup_own. Qed.

Theorem c16_wiring_broadcast : forall {F} (cols : list string) (x : @cfg F) col,
  In col cols -> cfg_lookup col (cfg_broadcast cols x) = Some x.
Proof. exact @cfg_broadcast_lookup. Qed.

Print Assumptions c16_missing_is_rendered.
Print Assumptions c16_batch_loop_is_chunks.
Print Assumptions c16_calls_unguarded_refuted.
Print Assumptions c16_embedder_calls.
Print Assumptions c16_tokenizer_calls.
Print Assumptions c16_calls_cover_rows_in_order.
Print Assumptions c16_chunk_sizes.
Print Assumptions c16_embedding_rows.
Print Assumptions c16_embedding_row_i.
Print Assumptions c16_embedding_batch_independent.
Print Assumptions c16_tokens_list_format.
Print Assumptions c16_tokens_map_format.
Print Assumptions c16_tokens_format_and_batch_independent.
Print Assumptions c16_image_retrieve_one_per_path.
Print Assumptions c16_image_unopenable_raises.
Print Assumptions c16_image_rows.
Print Assumptions c16_wiring_per_column.
Print Assumptions c16_wiring_broadcast.

(* The hypotheses are satisfiable, on a concrete non-trivial state: a 5-row column with
   missing cells of three kinds, batch size 2 (remainder 1). *)
Local Open Scope string_scope.

Definition ex_cells := [CStr "a b"; CNone; CStr ""; CNaN; CNA].
Definition ex_emb (xs : list string) : list nat := map String.length xs.

Example c16_ex_rowwise_embedder :
  (forall xs ys, ex_emb (xs ++ ys)%list = (ex_emb xs ++ ex_emb ys)%list) /\ (forall x, ex_emb [x] = [String.length x]).
Proof. split; intros; unfold ex_emb; [apply map_app | reflexivity]. Qed.

Example c16_ex_calls_and_rows :
  emb_calls ex_emb (Some 2) ex_cells = [["a b"; "None"]; [""; "nan"]; ["<NA>"]] /\
  emb_calls ex_emb None ex_cells = [["a b"; "None"; ""; "nan"; "<NA>"]] /\
  emb_forward ex_emb (Some 2) ex_cells = Some (5, [3; 4; 0; 3; 4]) /\
  emb_forward ex_emb None ex_cells = Some (5, [3; 4; 0; 3; 4]).
Proof. vm_compute. auto. Qed.

(* a tokenizer with two keys in both formats; the list format is ragged, the mapping format is not padded here
   because every row's tensor is a function of its own string *)
Definition ex_keys := ["ids"; "mask"].
Definition ex_tokk (k x : string) : list nat := if String.eqb k "ids" then [String.length x; 7] else [1].
Definition ex_tok_list (xs : list string) : tok_out string (list nat) :=
  OutList (map (fun x => map (fun k => (k, ex_tokk k x)) ex_keys) xs).
Definition ex_tok_map (xs : list string) : tok_out string (list nat) :=
  OutMap (map (fun k => (k, map (ex_tokk k) xs)) ex_keys).

Example c16_ex_tokenizer :
  tok_forward String.eqb ex_tok_list (Some 2) ex_cells =
    Some [("ids", [[3; 7]; [4; 7]; [0; 7]; [3; 7]; [4; 7]]); ("mask", [[1]; [1]; [1]; [1]; [1]])] /\
  tok_forward String.eqb ex_tok_map (Some 3) ex_cells = tok_forward String.eqb ex_tok_list None ex_cells /\
  tok_calls ex_tok_map (Some 3) ex_cells = [["a b"; "None"; ""]; ["nan"; "<NA>"]].
Proof. vm_compute. auto. Qed.

(* pandas' str dtype stores every missing value as NaN: it is rendered 'nan' *)
Example c16_ex_str_dtype :
  map render (series_tolist DStr ex_cells) = ["a b"; "nan"; ""; "nan"; "nan"] /\
  map render (series_tolist DObject ex_cells) = ["a b"; "None"; ""; "nan"; "<NA>"].
Proof. vm_compute. auto. Qed.

(* an empty column raises in every branch (torch.cat([]) / values[0] / from_tensor_mat([])) *)
Example c16_ex_empty_column_raises :
  emb_forward ex_emb None [] = None /\ emb_forward ex_emb (Some 2) [] = None /\
  tok_forward String.eqb ex_tok_list None [] = None /\ tok_forward String.eqb ex_tok_map (Some 2) [] = None.
Proof. vm_compute. auto. Qed.

(* real files: two openable paths and one that is not; batch size 2 over 3 rows *)
Example c16_ex_image_retrieval :
  let files := [("a.png", Some 0); ("b.png", Some 3); ("dir", None)] in
  c16_img_col files 2 1%Z (Some 2) DObject [CStr "b.png"; CStr "a.png"; CStr "b.png"] =
    Some ([["b.png"; "a.png"]; ["b.png"]], Some (3, [[16; 17]; [4; 5]; [16; 17]]%Z)) /\
  c16_img_col files 2 1%Z (Some 2) DObject [CStr "b.png"; CStr "a.png"; CStr "dir"; CStr "a.png"] =
    Some ([["b.png"; "a.png"]; ["dir"; "a.png"]], None) /\
  c16_img_col files 2 1%Z None DObject [CStr "b.png"; CNone] = Some ([["b.png"; "None"]], None).
Proof. vm_compute. auto. Qed.
