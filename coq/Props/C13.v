(* C13 -- stype encoders are per-cell functions with documented missing-value semantics.
   Statements only; every proof is `exact <lemma of Proofs/EncodersProofs.v>`.
   The model (Model/Encoders.v) follows stype_encoder.py as written -- broadcasting,
   einsum patterns, per-column loops + stack -- over an abstract scalar structure S with an
   absorbing NaN; sin/cos/tanh are uninterpreted fields of S and the post-module is an
   arbitrary map on one cell's vector, so every theorem holds for every parameter value,
   every input value and every post-module of that kind.  Non-mutation of the caller's
   tensors is observed by the check (harness/c13.py), not proved. *)
From Coq Require Import String List ZArith QArith Bool Arith.
From PF Require Import Lib.ListX Gen.Tables Model.Encoders Proofs.EncodersProofs.
Import ListNotations.
Local Close Scope Q_scope.
Local Close Scope Z_scope.
Local Open Scope nat_scope.

(* PER CELL.  For every built-in encoder class with parameters of its own (wrapper around
   user models excluded), forward -- na_forward, encode_forward, nan_to_num, post_forward as
   written -- is the cell-by-cell evaluation of cell_fn, and cell_fn c post j reads the
   j-th parameter blocks and the j-th statistics only (see its definition).  Failures
   included: the call raises iff the shape is wrong or some single cell is outside the
   encoder's domain. *)
Theorem per_cell : forall (S : Scalar) (c : config S) (x : input S),
    wf_config S c -> input_ok S c x ->
    forward S c x =
    if construct_ok S c then cw (ncols S c) (cell_fn S c (cf_post S c)) (cells S (cf_stats S c) x) else None.
Proof. exact (fun S c x => forward_with_cellwise S (cf_post S c) c x). Qed.
Print Assumptions per_cell.

(* the same for the value entering the post-module *)
Theorem per_cell_pre_post : forall (S : Scalar) (c : config S) (x : input S),
    wf_config S c -> input_ok S c x ->
    pre_post S c x =
    if construct_ok S c then cw (ncols S c) (cell_fn S c (fun v => v)) (cells S (cf_stats S c) x) else None.
Proof. exact (fun S c x => forward_with_cellwise S (fun v => v) c x). Qed.
Print Assumptions per_cell_pre_post.

(* the embedding of row r, column j is cell_fn of that cell alone *)
Theorem embedding_of_cell : forall (S : Scalar) (c : config S) (x : input S) o r j v,
    wf_config S c -> input_ok S c x -> forward S c x = Some o ->
    get2 (cells S (cf_stats S c) x) r j = Some v ->
    exists y, get2 o r j = Some y /\ cell_fn S c (cf_post S c) j v = Some y.
Proof. exact (fun S c => forward_with_cell S (cf_post S c) c). Qed.
Print Assumptions embedding_of_cell.

(* changing one cell changes only its own embedding *)
Theorem one_cell_local : forall (S : Scalar) (c : config S) (x x' : input S) o o' r j,
    wf_config S c -> input_ok S c x -> input_ok S c x' ->
    forward S c x = Some o -> forward S c x' = Some o' ->
    (forall r' j', (r', j') <> (r, j) ->
                   get2 (cells S (cf_stats S c) x') r' j' = get2 (cells S (cf_stats S c) x) r' j') ->
    forall r' j', (r', j') <> (r, j) -> get2 o' r' j' = get2 o r' j'.
Proof. exact (fun S c => forward_with_local S (cf_post S c) c). Qed.
Print Assumptions one_cell_local.

(* permuting (selecting, duplicating) rows of the input does the same to the output *)
Theorem row_select_commutes : forall (S : Scalar) (c : config S) (x x' : input S) idx o,
    wf_config S c -> input_ok S c x ->
    forward S c x = Some o -> select_rows S x idx = Some x' ->
    forward S c x' = tgather o idx.
Proof. exact (fun S c => forward_with_select S (cf_post S c) c). Qed.
Print Assumptions row_select_commutes.

(* column j's embedding does not read any other column's statistics (for the shared table of
   EmbeddingEncoder: as long as column j's block of the table stays where it is) *)
Theorem cell_fn_stats_local : forall (S : Scalar) post e ch na cpost (st st' : list (colstats S)) j v,
    nth j st (dstats S) = nth j st' (dstats S) ->
    nth j (emb_offset S st) 0 = nth j (emb_offset S st') 0 ->
    cell_fn S (Build_config S e st ch na cpost) post j v = cell_fn S (Build_config S e st' ch na cpost) post j v.
Proof. exact EncodersProofs.cell_fn_stats_local. Qed.
Print Assumptions cell_fn_stats_local.

(* column j's embedding reads column j's PARAMETER BLOCK only: entry j of every per-column parameter
   tensor / list, and for EmbeddingEncoder's shared table the padding row and the rows
   offset(j) + 1 .. offset(j) + ncat(j) its categories address (`enc_agree_at`, Model/Encoders.v).
   Models the einsum / per-column loops of stype_encoder.py: LinearEncoder 'ij,jk->ijk',
   bucket / periodic 'ijk,jkl->ijl', timestamp 'ijkl,jklm->ijm', EmbeddingEncoder feat + offset + 1,
   the per-column EmbeddingBag / weight_list loops. *)
Theorem cell_fn_params_local :
  forall (S : Scalar) (post : list (X (car S)) -> list (X (car S))) (e e' : encoder S) st ch na cpost j v,
    enc_agree_at S st j e e' ->
    cell_in_block S st j (na_cell S na (nth j st (dstats S)) v) ->
    cell_fn S (Build_config S e st ch na cpost) post j v = cell_fn S (Build_config S e' st ch na cpost) post j v.
Proof. exact EncodersProofs.cell_fn_params_local. Qed.
Print Assumptions cell_fn_params_local.

(* hypotheses satisfiable: every block but column 1's is changed, column 1's embedding stays *)
Example params_local_example :
  let st := [qcs (XFin 1%Q) (XFin 2%Q) [] 0 0%Z [] [] [] 0; qcs (XFin 0%Q) (XFin 1%Q) [] 0 0%Z [] [] [] 0] in
  let e := ELinear QS (gmat 0 0 2 2) (gmat 1 0 2 2) in
  enc_agree_at QS st 1 e (reblock st 1 e) /\ reblock st 1 e <> e /\
  check_param_local (qconfig e st 2 None) (InNum QS [[XFin 3%Q; XNaN]; [XFin (1 # 2)%Q; XFin 7%Q]]) true = true.
Proof. repeat split; try (vm_compute; reflexivity). vm_compute. discriminate. Qed.

(* NA = None: a missing cell is embedded as the all-zero vector, before the post-module.
   Every class except TimestampEncoder (see timestamp_none_missing_raises). *)
Theorem na_none_zero : forall (S : Scalar) (c : config S) j v,
    cf_na S c = None -> cell_shape_ok S c j v -> missing_cell S v = true ->
    cell_fn S c (fun o => o) j v = Some (repeat (x0 S) (cf_channels S c)).
Proof. exact EncodersProofs.na_none_zero. Qed.
Print Assumptions na_none_zero.

(* NA strategy: a cell is embedded exactly as its replacement -- taken from THAT column's
   statistic -- would be without a strategy *)
Theorem na_strategy_equiv_cell : forall (S : Scalar) post (c : config S) j v,
    cell_fn S c post j v
    = cell_fn S (set_na_none S c) post j (na_cell S (cf_na S c) (nth j (cf_stats S c) (dstats S)) v).
Proof. exact EncodersProofs.cell_fn_na_equiv. Qed.
Print Assumptions na_strategy_equiv_cell.

Theorem na_strategy_equiv : forall (S : Scalar) (c : config S) (x x' : input S),
    wf_config S c -> input_ok S c x -> input_ok S c x' ->
    construct_ok S c = true ->
    rect (ncols S c) (cells S (cf_stats S c) x) = true ->
    cells S (cf_stats S c) x' = impute_cells S c (cells S (cf_stats S c) x) ->
    forward S c x = forward S (set_na_none S c) x'.
Proof. exact (fun S c => forward_with_na_equiv S (cf_post S c) c). Qed.
Print Assumptions na_strategy_equiv.

(* strategy / stype combinations accepted at construction, over the generated NAStrategy flags
   (finite table: case analysis) *)
Theorem strategy_table : forall S : Scalar,
    (forall s, strategy_ok st_numerical (Some s) = true <-> (s = na_MEAN \/ s = na_ZEROS)) /\
    (forall s, strategy_ok st_categorical (Some s) = true <-> s = na_MOST_FREQUENT) /\
    (forall s, strategy_ok st_multicategorical (Some s) = true <-> s = na_ZEROS) /\
    (forall s, strategy_ok st_timestamp (Some s) = true <->
               (s = na_OLDEST_TIMESTAMP \/ s = na_NEWEST_TIMESTAMP \/ s = na_MEDIAN_TIMESTAMP)) /\
    (forall s, strategy_ok st_embedding (Some s) = false) /\
    (forall st, strategy_ok st None = true).
Proof. exact (fun _ => EncodersProofs.strategy_table). Qed.
Print Assumptions strategy_table.

(* KNOWN FINDING D10, as a theorem about the faithful model: TimestampEncoder without an NA
   strategy raises (PositionalEncoding / CyclicEncoding domain assertion) on a batch that
   contains a missing timestamp; and with any strategy on a year below the fitted minimum *)
Theorem timestamp_none_missing_raises : forall (S : Scalar) half pm w b st ch cpost (m : mat (list Z)) r j,
    let c := Build_config S (ETimestamp S half pm w b) st ch None cpost in
    wf_config S c ->
    get2 m r j = Some (repeat (-1)%Z (length time_to_index)) ->
    forward S c (InTime S m) = None.
Proof. exact (fun S half pm w b st ch cpost => EncodersProofs.timestamp_none_missing_raises S cpost half pm w b st ch cpost). Qed.
Print Assumptions timestamp_none_missing_raises.

Theorem timestamp_year_below_min_raises :
  forall (S : Scalar) half pm w b st ch na cpost (m : mat (list Z)) r j y rest,
    let c := Build_config S (ETimestamp S half pm w b) st ch na cpost in
    wf_config S c ->
    get2 m r j = Some (y :: rest) ->
    existsb (fun z => (z =? -1)%Z) (y :: rest) = false ->
    (y < cs_year_min (nth j st (dstats S)))%Z ->
    forward S c (InTime S m) = None.
Proof. exact (fun S half pm w b st ch na cpost => EncodersProofs.timestamp_year_below_min_raises S cpost half pm w b st ch na cpost). Qed.
Print Assumptions timestamp_year_below_min_raises.

(* ------------------------------------------------------------------------- *)
(* The hypotheses are satisfiable on concrete non-trivial states (exact rationals). *)
(* LinearEncoder with MEAN: missing cells are embedded as their column's mean would be *)
Example linear_mean_example :
  let ex_stats := [qcs (XFin (3 # 2)%Q) (XFin 2%Q) (map XFin [-3; 0; 1; 2; 8]%Q) 3 1999%Z [] [] [] 2;
                   qcs (XFin (-4)%Q) (XFin 0%Q) (map XFin [-4; -4; -4; -4; -4]%Q) 1 1999%Z [] [] [] 1] in
  let ex_feat : mat (X Q) := [[XFin 1; XNaN]; [XNaN; XFin (-4)]; [XFin 100; XFin 2]]%Q in
  let c := qconfig (ELinear QS (gmat 0 0 2 2) (gmat 1 0 2 2)) ex_stats 2 (Some na_MEAN) in
  wf_config QS c /\ input_ok QS c (InNum QS ex_feat) /\ construct_ok QS c = true /\
  forward QS c (InNum QS ex_feat)
  = forward QS (set_na_none QS c) (InNum QS [[XFin 1; XFin (-4)]; [XFin (3 # 2); XFin (-4)]; [XFin 100; XFin 2]]%Q).
Proof. vm_compute. repeat split; reflexivity. Qed.

(* LinearBucketEncoder without a strategy: zero vectors exactly at the missing cells *)
Example bucket_none_example :
  let ex_stats := [qcs (XFin (3 # 2)%Q) (XFin 2%Q) (map XFin [-3; 0; 1; 2; 8]%Q) 3 1999%Z [] [] [] 2;
                   qcs (XFin (-4)%Q) (XFin 0%Q) (map XFin [-4; -4; -4; -4; -4]%Q) 1 1999%Z [] [] [] 1] in
  let ex_feat : mat (X Q) := [[XFin 1; XNaN]; [XNaN; XFin (-4)]; [XFin 100; XFin 2]]%Q in
  let c := qconfig (EBucket QS [gmat 0 0 4 2; gmat 0 1 4 2] (gmat 1 0 2 2)) ex_stats 2 None in
  wf_config QS c /\ cell_shape_ok QS c 0 (CNum QS XNaN) /\
  option_map zero_pattern (pre_post QS c (InNum QS ex_feat))
  = Some [[false; true]; [true; false]; [false; false]].
Proof. vm_compute. repeat split; try reflexivity; repeat constructor. Qed.

(* a missing timestamp under na_strategy=None: the call raises *)
Example timestamp_missing_example :
  let st := [qcs XNaN XNaN [] 0 1999%Z [1999;0;0;4;0;0;0]%Z [2005;11;30;5;23;59;59]%Z [2001;5;14;1;12;30;30]%Z 0] in
  let w := [[gmat 0 0 2 2; gmat 0 1 2 2; gmat 0 2 2 2; gmat 0 3 2 2; gmat 0 4 2 2; gmat 0 5 2 2; gmat 0 6 2 2]] in
  let feat := [[[2000; 1; 27; 2; 3; 4; 5]]; [[-1; -1; -1; -1; -1; -1; -1]]]%Z in
  forward QS (qconfig (ETimestamp QS 1 [1 # 3]%Q w (gmat 1 0 1 2)) st 2 None) (InTime QS feat) = None /\
  (exists o, forward QS (qconfig (ETimestamp QS 1 [1 # 3]%Q w (gmat 1 0 1 2)) st 2 (Some na_MEDIAN_TIMESTAMP))
                     (InTime QS feat) = Some o).
Proof. split; [vm_compute; reflexivity | eexists; vm_compute; reflexivity]. Qed.
