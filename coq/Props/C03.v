(* C03 -- Column statistics equal their definitions and define the category
   index space.  Statements only; proofs are in Lib/QStats.v and
   Proofs/StatsProofs.v.  The model (Model/Stats.v) mirrors stats.py and the
   statistics part of Dataset.materialize; it is tied to /repo by the
   correspondence run of ./check C03.  Values of category columns are integer
   ids, NaN is None, std is kept squared (population variance). *)
From Coq Require Import List Arith ZArith QArith Bool Permutation Sorting.Sorted.
From Coq Require Strings.String.
From PF Require Import Lib.ListX Lib.QStats Gen.Tables Model.Stats Proofs.StatsProofs.
Import ListNotations.

(* ---- numerical and numerical-sequence columns: the statistics are those of the
   non-missing finite values (infinities and NaN never enter), and are the exact
   definitions: mean = sum / n, population variance = sum of squared deviations / n,
   quantiles = linear interpolation between order statistics. *)
Theorem numerical_stats_over_usable_values :
  forall cells, compute_num cells = num_stats_of (map NFin (finite_values cells)).
Proof. exact compute_num_usable. Qed.
Print Assumptions numerical_stats_over_usable_values.

Theorem sequence_stats_over_flattened_values :
  forall cells, compute_seq cells = num_stats_of (flatten (present cells)).
Proof. exact compute_seq_usable. Qed.
Print Assumptions sequence_stats_over_flattened_values.

Theorem stats_equal_definitions :
  forall fl v, finite_values fl = v -> v <> [] ->
  exists m s2,
    s_mean (num_stats_of fl) = Some m /\ (m == qmean v)%Q /\
    s_var (num_stats_of fl) = Some s2 /\ (s2 == qvar v)%Q /\
    s_quant (num_stats_of fl) = map (fun q => Some (Qred q)) (five_quantiles v).
Proof. exact num_stats_of_spec. Qed.
Print Assumptions stats_equal_definitions.

Theorem mean_definition : forall l, l <> [] -> (qmean l * qlen l == qsum l)%Q.
Proof. exact qmean_def. Qed.
Print Assumptions mean_definition.

Theorem variance_definition :
  forall l, l <> [] -> (qvar l * qlen l == qsum (map (fun x => (x - qmean l) * (x - qmean l)) l))%Q.
Proof. exact qvar_def. Qed.
Print Assumptions variance_definition.

Theorem variance_nonneg_and_zero_on_constant :
  forall l, (0 <= qvar l)%Q /\
            forall c, l <> [] -> (forall x, In x l -> x == c)%Q -> (qmean l == c /\ qvar l == 0)%Q.
Proof. intros l. split; [apply qvar_nonneg|intros c; apply qvar_const]. Qed.
Print Assumptions variance_nonneg_and_zero_on_constant.

Theorem mean_between_bounds :
  forall a b l, l <> [] -> (forall x, In x l -> a <= x /\ x <= b)%Q -> (a <= qmean l /\ qmean l <= b)%Q.
Proof. exact qmean_bounds. Qed.
Print Assumptions mean_between_bounds.

(* min <= q25 <= q50 <= q75 <= max; q0 is the minimum, q100 the maximum (both attained) *)
Theorem quantiles_ordered :
  forall l, l <> [] ->
    (quantile l 0 4 <= quantile l 1 4 /\ quantile l 1 4 <= quantile l 2 4 /\
     quantile l 2 4 <= quantile l 3 4 /\ quantile l 3 4 <= quantile l 4 4)%Q.
Proof. exact quantile_order. Qed.
Print Assumptions quantiles_ordered.

Theorem quantile_0_min :
  forall l, l <> [] -> (quantile l 0 4 == qmin_list l 0)%Q /\ (forall x, In x l -> qmin_list l 0 <= x)%Q.
Proof. exact quantile_0_is_min. Qed.
Print Assumptions quantile_0_min.

Theorem quantile_100_max :
  forall l, l <> [] -> (quantile l 4 4 == qmax_list l 0)%Q /\ (forall x, In x l -> x <= qmax_list l 0)%Q.
Proof. exact quantile_100_is_max. Qed.
Print Assumptions quantile_100_max.

Theorem min_max_attained : forall l, l <> [] -> In (qmin_list l 0) l /\ In (qmax_list l 0) l.
Proof. intros l H. split; [now apply qmin_in|now apply qmax_in]. Qed.
Print Assumptions min_max_attained.

Theorem median_odd_even :
  forall s k,
    (length s = S (2 * k) -> quantile_sorted s 2 4 == nth k s 0)%Q /\
    (length s = (2 * S k)%nat -> quantile_sorted s 2 4 == (nth k s 0 + nth (S k) s 0) / 2)%Q.
Proof. intros s k. split; [apply quantile_median_odd|apply quantile_median_even]. Qed.
Print Assumptions median_odd_even.

(* ---- category counts.  BY DESIGN there is no model of pandas' value_counts / StatType.COUNT.compute:
   its tie order is unspecified, so it is not predicted.  `valid_count_order o col` is a CHECKER that
   ./check C03 applies to the statistics `o` the implementation reported for the column `col` of every
   generated case.  The theorem below is about that checker only: it says what an accepted answer
   means -- every distinct non-missing value exactly once, with its exact occurrence count, every
   earlier count >= every later one, whatever tie order pandas picked.  That the CODE returns an
   accepted answer is therefore established per checked case (correspondence + oracle), not for all
   columns; the same holds for `index_space` (about the checker's category list and the small
   `encode_cat`; the real mapper pipeline is C01's) and for the observed half of `binary_target_sorted`.
   Columns of pandas `category` dtype (which list never-occurring categories with count 0) are outside
   the quantifier and are rejected by the checker. *)
Theorem valid_count_order_sound :
  forall o col,
    valid_count_order o col = true <->
    (NoDup (map fst o) /\
     (forall v, In v (map fst o) <-> In v col) /\
     (forall v c, In (v, c) o -> c = count_occ Z.eq_dec col v)) /\
    StronglySorted ge (map snd o).
Proof. exact StatsProofs.valid_count_order_sound. Qed.
Print Assumptions valid_count_order_sound.

(* a multicategorical cell counts each of its distinct tokens once (duplicates and
   missing cells do not count, empty cells contribute nothing) *)
Theorem multicategorical_counts_cells :
  forall cells v,
    count_occ Z.eq_dec (multi_tokens cells) v = length (filter (fun c => memZ v c) (present cells)).
Proof. exact multi_tokens_count. Qed.
Print Assumptions multicategorical_counts_cells.

(* ---- the category index space *)
Theorem index_space :
  forall o col, valid_counts o col = true ->
  (forall i v c, nth_error o i = Some (v, c) -> encode_cat (map fst o) (Some v) = Z.of_nat i) /\
  (forall v, In v col -> exists i, (i < length o)%nat /\ encode_cat (map fst o) (Some v) = Z.of_nat i
                                   /\ nth_error (map fst o) i = Some v) /\
  (forall v, ~ In v col -> encode_cat (map fst o) (Some v) = (-1)%Z) /\
  encode_cat (map fst o) None = (-1)%Z.
Proof. exact StatsProofs.index_space. Qed.
Print Assumptions index_space.

(* ---- two-class target: whatever order value_counts produced, the re-sorted
   statistics list both classes in increasing order, each with its own count *)
Theorem binary_target_sorted :
  forall o col, valid_count_order o col = true -> length o = 2%nat ->
  exists a x b y, target_resort o = [(a, x); (b, y)] /\ (a < b)%Z /\
                  x = count_occ Z.eq_dec col a /\ y = count_occ Z.eq_dec col b /\
                  (forall v, In v col <-> v = a \/ v = b).
Proof. exact StatsProofs.binary_target_sorted. Qed.
Print Assumptions binary_target_sorted.

Theorem target_order_valid :
  forall o col, valid_count_order o col = true -> valid_target_order (target_resort o) col = true.
Proof. exact target_resort_valid. Qed.
Print Assumptions target_order_valid.

(* ---- timestamps: oldest = earliest, newest = latest, median = sorted[n / 2]
   (the UPPER median for even n), year range = [min year, max year], both attained *)
Theorem timestamp_stats :
  forall cells t, present cells <> [] -> compute_time cells = Some t ->
  exists ser,
    Permutation ser (present cells) /\ StronglySorted key_le ser /\
    (exists c0, hd_error ser = Some c0 /\ t_oldest t = snd c0 /\ forall c, In c (present cells) -> (fst c0 <= fst c)%Z) /\
    (exists c1, last_error ser = Some c1 /\ t_newest t = snd c1 /\ forall c, In c (present cells) -> (fst c <= fst c1)%Z) /\
    (exists cm, nth_error ser (length (present cells) / 2) = Some cm /\ t_median t = snd cm) /\
    (exists lo hi, t_year_range t = [lo; hi] /\
       (forall c y, In c (present cells) -> year_of c = Some y -> (lo <= y <= hi)%Z) /\
       (exists ca cb, In ca (present cells) /\ In cb (present cells) /\ year_of ca = Some lo /\ year_of cb = Some hi)).
Proof. exact compute_time_spec. Qed.
Print Assumptions timestamp_stats.

Theorem median_time_index :
  forall (ser : list (Z * list Z)) k,
    (length ser = (2 * k)%nat -> nth_error ser (length ser / 2) = nth_error ser k) /\
    (length ser = (2 * k + 1)%nat -> nth_error ser (length ser / 2) = nth_error ser k).
Proof. intros ser k. split; [apply stat_median_even|apply stat_median_odd]. Qed.
Print Assumptions median_time_index.

(* ---- a column with no usable value gets the neutral defaults, never an error *)
Theorem defaults_without_usable_value :
  (forall cells, finite_values cells = [] -> compute_num cells = default_num_stats) /\
  (forall cells, finite_values (flatten (present cells)) = [] -> compute_seq cells = default_num_stats) /\
  (forall o, valid_count_order o [] = true <-> o = []) /\
  (forall cells, (forall c, In (Some c) cells -> c = []) -> multi_tokens cells = []) /\
  (forall cells, present cells = [] -> compute_time cells = Some default_time_stats) /\
  default_num_stats = {| s_mean := None; s_var := None; s_quant := [None; None; None; None; None] |} /\
  default_time_stats = {| t_year_range := [-1; -1]%Z; t_newest := [-1; -1; -1; -1; -1; -1; -1]%Z;
                          t_oldest := [-1; -1; -1; -1; -1; -1; -1]%Z; t_median := [-1; -1; -1; -1; -1; -1; -1]%Z |}.
Proof.
  repeat split; try reflexivity.
  - exact compute_num_default.
  - exact compute_seq_default.
  - apply valid_count_order_nil.
  - apply valid_count_order_nil.
  - exact multi_tokens_empty.
  - exact compute_time_default.
Qed.
Print Assumptions defaults_without_usable_value.

(* ---- embeddings: EMB_DIM is the vector width, also when written by _update_col_stats *)
Theorem emb_dim_is_width :
  (forall (ser : list (list Q)) w, ser <> [] -> (forall r, In r ser -> length r = w) -> stat_emb_dim ser = Some w) /\
  (forall widths, update_emb_dims (emb_offsets widths) = widths).
Proof. split; [exact (@stat_emb_dim_width Q)|exact update_emb_dims_spec]. Qed.
Print Assumptions emb_dim_is_width.

(* ---- finite-domain fact over the table generated from /repo (case analysis on the
   nine stypes): the statistics the code computes per stype are the ones modelled *)
Theorem stats_per_stype_table : forall s, stats_for_stype s = model_stats_for_stype s.
Proof. exact stats_table_matches_model. Qed.
Print Assumptions stats_per_stype_table.

(* ---- the statistics are those of the frame that is materialized, whatever happened to the Dataset
   object before.  `_col_stats` is ONE dict: it keeps the entries written by an attempt that raised
   midway and it is shared with column-selected copies (copy.copy).  For every compute function, every
   initial store (arbitrary stale entries) and every history of materialize attempts by not yet
   materialized dataset objects sharing the store (each on the frame it holds at that moment): if the
   LAST attempt completes, every column it declares carries the statistics of the frame it ran on.
   (`materialize` on an already materialized dataset returns early by design and is not an attempt.) *)
Theorem no_stale_statistics_after_history :
  forall (Frame Stat : Type) (compute : String.string -> Frame -> option Stat) ops cols df s0 s oks,
    run_history compute (ops ++ [(cols, df)]) s0 = (s, oks) -> last oks false = true ->
    forall c, In c cols -> slookup s c = compute c df /\ compute c df <> None.
Proof. exact @history_no_stale. Qed.
Print Assumptions no_stale_statistics_after_history.

Theorem materialize_overwrites_every_declared_column :
  forall (Frame Stat : Type) (compute : String.string -> Frame -> option Stat) cols df s s' c,
    fill compute cols df s = (s', true) -> In c cols ->
    slookup s' c = compute c df /\ compute c df <> None.
Proof. exact @fill_no_stale. Qed.
Print Assumptions materialize_overwrites_every_declared_column.

(* ---- MEAN of integer-backed data (stats.py StatType.MEAN.compute: np.mean accumulates in float64).
   The model is the exact rational mean of the integers; it is the QStats mean ... *)
Theorem integer_mean_is_the_definition :
  forall l, (int_mean l == qmean (map inject_Z l))%Q.
Proof. exact int_mean_is_qmean. Qed.
Print Assumptions integer_mean_is_the_definition.

(* ... and accumulating in the column's own int64 type (`valid.sum() / valid.size`) agrees with it
   EXACTLY when the column total stays inside [-2^63, 2^63) *)
Theorem int64_accumulation_correct_iff_no_overflow :
  forall l, l <> [] -> ((wrapped_mean l == int_mean l)%Q <-> in_int64 (zsum l)).
Proof. exact wrapped_mean_correct_iff. Qed.
Print Assumptions int64_accumulation_correct_iff_no_overflow.

(* the int64-accumulating variant is refuted: three positive int64 cells, a negative "mean" *)
Theorem int64_accumulation_refuted :
  exists l, Forall in_int64 l /\ ~ (wrapped_mean l == int_mean l)%Q /\
            (forall x, In x l -> (inject_Z x <= int_mean l)%Q \/ (int_mean l <= inject_Z x)%Q) /\
            (wrapped_mean l < 0)%Q /\ (forall x, In x l -> (0 < x)%Z).
Proof. exact wrapped_mean_refuted. Qed.
Print Assumptions int64_accumulation_refuted.

(* ---- non-vacuity: concrete columns on which the hypotheses hold *)
Example ex_numerical :
  compute_num [NFin (3 # 2); NPosInf; NNaN; NFin (-1 # 4); NFin (5 # 1); NNegInf; NFin (3 # 2)]
  = {| s_mean := Some (31 # 16); s_var := Some (931 # 256);
       s_quant := [Some (-1 # 4); Some (17 # 16); Some (3 # 2); Some (19 # 8); Some (5 # 1)] |}%Q.
Proof. vm_compute. reflexivity. Qed.

Example ex_counts_tie_orders :
  (* ids 4 and 9 are tied: both orders are accepted, a wrong count or a wrong order is not *)
  let col := [7; 4; 9; 7; 4; 9; 7]%Z in
  valid_count_order [(7%Z, 3%nat); (4%Z, 2%nat); (9%Z, 2%nat)] col = true /\
  valid_count_order [(7%Z, 3%nat); (9%Z, 2%nat); (4%Z, 2%nat)] col = true /\
  valid_count_order [(4%Z, 2%nat); (7%Z, 3%nat); (9%Z, 2%nat)] col = false /\
  valid_count_order [(7%Z, 3%nat); (4%Z, 2%nat)] col = false /\
  valid_count_order [(7%Z, 3%nat); (4%Z, 2%nat); (9%Z, 3%nat)] col = false.
Proof. vm_compute. repeat split. Qed.

Example ex_binary_target :
  target_resort [(8%Z, 5%nat); (2%Z, 1%nat)] = [(2%Z, 1%nat); (8%Z, 5%nat)] /\
  valid_count_order [(8%Z, 5%nat); (2%Z, 1%nat)] [8; 8; 2; 8; 8; 8]%Z = true.
Proof. vm_compute. split; reflexivity. Qed.

Example ex_timestamps :
  (* unsorted, one missing entry, even number of usable timestamps: the median is the upper one *)
  compute_time [Some (300, [1970; 0; 0; 3; 0; 5; 0]); None; Some (100, [1970; 0; 0; 3; 0; 1; 40]);
                Some (86400, [1970; 0; 1; 4; 0; 0; 0]); Some (-5, [1969; 11; 30; 2; 23; 59; 55])]%Z
  = Some {| t_year_range := [1969; 1970]; t_newest := [1970; 0; 1; 4; 0; 0; 0];
            t_oldest := [1969; 11; 30; 2; 23; 59; 55]; t_median := [1970; 0; 0; 3; 0; 5; 0] |}%Z.
Proof. vm_compute. reflexivity. Qed.

Definition ex_small : list Z := [5; -7; 11]%Z.
Definition ex_big : list Z := [4611686018427387904; 4611686018427386880; 4611686018427383808]%Z.
Example ex_int_mean :
  in_int64 (zsum ex_small) /\ (wrapped_mean ex_small == int_mean ex_small)%Q /\ (int_mean ex_small == 3)%Q /\
  ~ in_int64 (zsum ex_big) /\
  int_mean_ok ex_big (Some (DFin 9007199254740989 9)) = true /\       (* what numpy reports *)
  int_mean_ok ex_big (Some (DFin (-6004799503160668) 8)) = false.       (* what the int64 sum would give *)
Proof.
  split; [unfold in_int64; vm_compute; split; [discriminate|reflexivity]|].
  split; [vm_compute; reflexivity|]. split; [vm_compute; reflexivity|].
  split; [unfold in_int64; vm_compute; intros [_ H]; discriminate|].
  split; vm_compute; reflexivity.
Qed.

Import Strings.String.
Example ex_history :
  (* frame versions 0 (dirty) and 1 (repaired); column "b"%string raises on version 0 after "a"%string was written;
     a column-selected copy materialized ["a"%string] on version 0 before: the store really holds stale entries
     after the failed attempt, and none after the completed one *)
  let compute := fun (c : String.string) (v : nat) =>
                   if (String.eqb c "b"%string && Nat.eqb v 0)%bool then None else Some (c, v) in
  run_history compute [(["a"%string], 0%nat); (["a"%string; "b"%string; "c"%string], 0%nat)] [] = ([("a"%string, ("a"%string, 0%nat))], [true; false]) /\
  run_history compute [(["a"%string], 0%nat); (["a"%string; "b"%string; "c"%string], 0%nat); (["a"%string; "b"%string; "c"%string], 1%nat)] []
  = ([("a"%string, ("a"%string, 1%nat)); ("b"%string, ("b"%string, 1%nat)); ("c"%string, ("c"%string, 1%nat))], [true; false; true]).
Proof. vm_compute. split; reflexivity. Qed.
