(* C17 — fitted cat-to-num transform is pure, label-independent and as documented.
   Statements only; proofs live in Proofs/CatToNumProofs.v.  The model (Model/CatToNum.v) mirrors
   CatToNumTransform._fit / ._forward (as repaired in /repo a72a63a), FittableBaseTransform.fit / forward / __call__ /
   _replace_nans / state_dict / load_state_dict and BaseTransform.transformed_stats; None = raise; tensors are
   column-major; arithmetic over Q.  The pre-fix _forward and the witness that it violated
   forward_label_independent are in Legacy/CatToNumLegacy.v (forward_depends_on_y_refuted).

   Reading aid:  call t tf                 t(tf)           fit fresh train cs     CatToNumTransform().fit(train, cs)
                 transform_spec counts n k prior tf   the documented result (Model/CatToNum.v, specification part):
                     numerical block = num_names tf ++ gen_names cats (k-1)  over
                                       num_cols tf ++ [one column per (categorical column, prior entry)], cell =
                     estimate count n prior c = (count[c or 0 if missing] + prior) / (n + 1)
                 has_nonmissing col / all_seen count col   the property's domain for a categorical column

   "The input frame is never modified": the model is a pure function of (transform state, frame); that the real
   __call__ leaves the caller's dicts, name lists and tensors untouched is the model assumption checked on every
   call of the correspondence run by a before/after snapshot (harness/c17.py).                                    *)
From Coq Require Import String.
From Coq Require Import List ZArith QArith Bool Arith Lia.
From PF Require Import Lib.ListX Model.CatToNum Proofs.CatToNumProofs.
Import ListNotations.
Open Scope Q_scope.

(* 1. The transform of any in-domain frame with the fitted categorical schema IS the documented frame:
      original numerical columns first, then one generated column per categorical column and non-reference class
      (in that order, named {col}_{k}), every generated cell = (count + prior) / (n_train + 1); no categorical block
      left; y passed through.  Holds for every training frame (any task), every col_stats, every frame. *)
Theorem transform_output_is_documented :
  forall train cs t tf cbt y k prior cb counts,
    fit fresh train cs = Some t -> tf_cat train = Some cbt -> tf_y train = Some y ->
    target_prior y = Some (k, prior) ->
    validate tf = Some tf -> tf_cat tf = Some cb -> b_names cb = b_names cbt ->
    Forall2 (fun name count => assoc name cs = Some count) (b_names cb) counts ->
    Forall has_nonmissing (b_cols cb) -> Forall2 all_seen counts (b_cols cb) ->
    call t tf = Some (transform_spec counts (block_rows cbt) k prior tf).
Proof. exact call_spec. Qed.
Print Assumptions transform_output_is_documented.

(* one generated column per non-reference class: the prior has num_classes - 1 entries, num_classes >= 2 *)
Theorem one_prior_per_non_reference_class :
  forall y k prior, target_prior y = Some (k, prior) -> length prior = (k - 1)%nat /\ (2 <= k)%nat.
Proof. exact target_prior_length. Qed.
Print Assumptions one_prior_per_non_reference_class.

(* a missing category is treated as the most frequent one (index 0) *)
Theorem missing_category_is_most_frequent :
  forall count n prior c, (c < 0)%Z -> estimate count n prior c = estimate count n prior 0.
Proof. exact estimate_missing. Qed.
Print Assumptions missing_category_is_most_frequent.

(* 2. Label independence, for EVERY transform state and EVERY frame: the result for label content y' (absent, any
      dtype, any subset of classes) is the result of the label-free frame with y' attached.  (The `if` is
      TensorFrame's own length check of y', which every constructed frame passes.) *)
Theorem forward_label_independent :
  forall t tf y',
    call t (set_y tf y') =
    match call t (set_y tf None) with
    | Some o => if y_ok (num_rows o) y' then Some (set_y o y') else None
    | None => None
    end.
Proof. exact call_label_independent. Qed.
Print Assumptions forward_label_independent.

(* 3. Row locality: the documented result commutes with row selection (any index list: subsets, single rows,
      repetitions, reorderings) ... *)
Theorem documented_result_is_row_local :
  forall counts nt k prior idx tf tf',
    select_rows idx tf = Some tf' ->
    select_rows idx (transform_spec counts nt k prior tf) = Some (transform_spec counts nt k prior tf').
Proof. exact transform_spec_select. Qed.
Print Assumptions documented_result_is_row_local.

(* ... hence so does the transform: transforming the selected rows = selecting rows of the transformed frame,
   as long as the selection stays in the domain (valid frame, a non-missing entry per categorical column). *)
Theorem forward_row_local :
  forall train cs t tf cbt y k prior cb counts idx tf' cb',
    fit fresh train cs = Some t -> tf_cat train = Some cbt -> tf_y train = Some y ->
    target_prior y = Some (k, prior) ->
    validate tf = Some tf -> tf_cat tf = Some cb -> b_names cb = b_names cbt ->
    Forall2 (fun name count => assoc name cs = Some count) (b_names cb) counts ->
    Forall has_nonmissing (b_cols cb) -> Forall2 all_seen counts (b_cols cb) ->
    select_rows idx tf = Some tf' -> validate tf' = Some tf' ->
    tf_cat tf' = Some cb' -> Forall has_nonmissing (b_cols cb') ->
    exists out, call t tf = Some out /\ call t tf' = select_rows idx out.
Proof. exact call_row_local. Qed.
Print Assumptions forward_row_local.

(* 4. Output column names <-> transformed statistics: for EVERY successful fit the two are the same list and that
      list has no duplicates -- no distinctness hypothesis: _fit rejects a clash (next theorem), and generated names
      never collide among themselves when the categorical names are distinct (gen_name is injective). *)
Theorem output_names_are_transformed_stats_keys :
  forall train cs t tf cbt y k prior cb counts,
    fit fresh train cs = Some t -> tf_cat train = Some cbt -> tf_y train = Some y ->
    target_prior y = Some (k, prior) ->
    validate tf = Some tf -> tf_cat tf = Some cb -> b_names cb = b_names cbt -> num_names tf = num_names train ->
    Forall2 (fun name count => assoc name cs = Some count) (b_names cb) counts ->
    Forall has_nonmissing (b_cols cb) -> Forall2 all_seen counts (b_cols cb) ->
    exists out nb, call t tf = Some out /\ tf_num out = Some nb /\
                   transformed_stats_keys t = Some (b_names nb) /\ NoDup (b_names nb).
Proof. exact names_are_keys. Qed.
Print Assumptions output_names_are_transformed_stats_keys.

(* already at fit time: the keys of the transformed statistics are the future output names, duplicate-free *)
Theorem fitted_stats_keys_are_distinct_output_names :
  forall train cs t cbt y k prior,
    fit fresh train cs = Some t -> tf_cat train = Some cbt -> tf_y train = Some y ->
    target_prior y = Some (k, prior) ->
    transformed_stats_keys t = Some (num_names train ++ gen_names (b_names cbt) (k - 1)) /\
    NoDup (num_names train ++ gen_names (b_names cbt) (k - 1)).
Proof. exact keys_spec. Qed.
Print Assumptions fitted_stats_keys_are_distinct_output_names.

(* a clash (a numerical column named like a generated one, e.g. "a_0" next to categorical "a", or two generated
   names that coincide) makes fit raise instead of silently producing duplicate names / overwritten statistics *)
Theorem name_clash_rejected :
  forall t train cs cb y k prior,
    tf_cat train = Some cb -> tf_y train = Some y -> target_prior y = Some (k, prior) ->
    ~ NoDup (num_names train ++ gen_names (b_names cb) (k - 1)) ->
    fit t train cs = None.
Proof. exact fit_name_clash. Qed.
Print Assumptions name_clash_rejected.

(* when there is no clash: distinct numerical names, distinct categorical names, no numerical name of generated form *)
Theorem generated_names_are_distinct :
  forall num cats w,
    NoDup num -> NoDup cats -> (forall n, In n num -> ~ In n (gen_names cats w)) ->
    NoDup (num ++ gen_names cats w).
Proof. exact names_NoDup. Qed.
Print Assumptions generated_names_are_distinct.

Theorem generated_name_is_injective :
  forall c1 k1 c2 k2, gen_name c1 k1 = gen_name c2 k2 -> c1 = c2 /\ k1 = k2.
Proof. exact gen_name_inj. Qed.
Print Assumptions generated_name_is_injective.

(* 5. Raises: use before fitting; a category index not seen at fit time (>= number of fitted categories). *)
Theorem unfitted_transform_raises :
  forall t tf, t_is_fitted t = false -> call t tf = None.
Proof. exact call_unfitted. Qed.
Print Assumptions unfitted_transform_raises.

Theorem unseen_category_raises :
  forall t st tf cb i name col c count,
    t_state t = Some st -> tf_cat tf = Some cb ->
    nth_error (b_names cb) i = Some name -> nth_error (b_cols cb) i = Some col -> In c col ->
    assoc name (f_stats st) = Some count -> (Z.of_nat (length count) <= c)%Z ->
    call t tf = None.
Proof. exact call_unseen. Qed.
Print Assumptions unseen_category_raises.

(* 6. Histories: a call never changes the transform (the model's `call` returns only a frame), and a
      state_dict -> load_state_dict round trip into a new transform behaves identically. *)
Theorem state_dict_round_trip_is_identity :
  forall t tf, call (load_state_dict fresh (state_dict t)) tf = call t tf.
Proof. exact state_dict_round_trip. Qed.
Print Assumptions state_dict_round_trip_is_identity.

(* ---------------------------------------------------------------------------------------------------------
   The hypotheses are satisfiable (vm_compute on concrete frames): a 3-class fit on 4 rows, one numerical and two
   categorical columns with missing entries; a 2-row frame WITHOUT labels is transformed to the documented frame. *)
Definition ex_train : tframe :=
  mkframe (Some (mkblock ["n0"%string] [[Some 1; None; Some (1#2); Some 3]]))
          (Some (mkblock ["c0"%string; "a"%string] [[0; 0; 1; (-1)]; [(-1); 1; 0; 0]]%Z))
          (Some (YInt [0; 1; 2; 1]%Z)).
Definition ex_stats : col_stats := [("n0"%string, []); ("c0"%string, [2; 1]%Z); ("a"%string, [2; 1; 0]%Z)].
Definition ex_tf : tframe :=
  mkframe (Some (mkblock ["n0"%string] [[None; Some 3]]))
          (Some (mkblock ["c0"%string; "a"%string] [[1; (-1)]; [(-1); 2]]%Z))
          None.

Example fit_succeeds :
  exists t, fit fresh ex_train ex_stats = Some t /\ target_prior (YInt [0; 1; 2; 1]%Z) = Some (3%nat, [1#4; 2#4]) /\
            transformed_stats_keys t =
            Some ["n0"; "c0_0"; "c0_1"; "a_0"; "a_1"]%string.
Proof. eexists. split; [vm_compute; reflexivity|]. split; vm_compute; reflexivity. Qed.

Example transform_example :
  history_agrees 0
    [SFit ex_train ex_stats; SCall ex_tf]
    [ODone;
     OFrame ["n0"; "c0_0"; "c0_1"; "a_0"; "a_1"]%string
            [[None; Some 3];
             [Some (1#4); Some (9#20)]; [Some (3#10); Some (1#2)];      (* c0: (1 + 1/4)/5, (2 + 1/4)/5 ; + 1/2 *)
             [Some (9#20); Some (1#20)]; [Some (1#2); Some (1#10)]]      (* a : (2 + 1/4)/5, (0 + 1/4)/5 ; + 1/2 *)
            false] = true.
Proof. vm_compute. reflexivity. Qed.

Example domain_hypotheses_hold :
  validate ex_tf = Some ex_tf /\
  Forall2 (fun name count => assoc name ex_stats = Some count) ["c0"; "a"]%string [[2; 1]; [2; 1; 0]]%Z /\
  Forall has_nonmissing [[1; (-1)]; [(-1); 2]]%Z /\
  Forall2 all_seen [[2; 1]; [2; 1; 0]]%Z [[1; (-1)]; [(-1); 2]]%Z.
Proof.
  split; [vm_compute; reflexivity|]. split; [repeat constructor|]. split.
  - repeat constructor; [exists 1%Z|exists 2%Z]; simpl; split; auto; lia.
  - repeat constructor; vm_compute; lia.
Qed.

Example unfitted_and_unseen_raise :
  history_agrees 0
    [SCall ex_tf; SFit ex_train ex_stats;
     SCall (mkframe None (Some (mkblock ["c0"%string; "a"%string] [[2]; [0]]%Z)) None)]
    [OErr; ODone; OErr] = true.
Proof. vm_compute. reflexivity. Qed.

(* a numerical column "a_0" next to the categorical column "a": fit raises *)
Example name_clash_example :
  fit fresh (mkframe (Some (mkblock ["a_0"%string] [[Some 1; Some 2]]))
                     (Some (mkblock ["a"%string] [[0; 1]%Z])) (Some (YInt [0; 1]%Z)))
            [("a_0"%string, []); ("a"%string, [1; 1]%Z)] = None.
Proof. vm_compute. reflexivity. Qed.
