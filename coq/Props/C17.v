(* C17 — fitted cat-to-num transform is pure, label-independent and as documented.
   Statements only; proofs live in Proofs/CatToNumProofs.v.  The model (Model/CatToNum.v) mirrors
   CatToNumTransform._fit / ._forward (as repaired in /repo a72a63a), FittableBaseTransform.fit / forward / __call__ /
   _replace_nans / state_dict / load_state_dict and BaseTransform.transformed_stats; None = raise; tensors are
   column-major; arithmetic over Q.  The pre-fix _forward and the witness that it violated
   forward_label_independent are in Legacy/CatToNumLegacy.v (forward_depends_on_y_refuted).

   Reading aid:  call t tf                 t(tf)           fit fresh train cs     CatToNumTransform().fit(train, cs)
                 transform_spec counts n k prior tf   the documented result (Model/CatToNum.v, specification part):
                     numerical block = num_names tf ++ gen_names cats (k-1)  over
                                       num_cols tf ++ [one column per (categorical column, prior entry)], cell =
                     estimate count n prior c = (count[c or 0 if missing] + prior) / (n + 1)
                 has_nonmissing col / all_seen count col   the property's domain for a categorical column

   "The input frame is never modified": the model is a pure function of (transform state, frame); that the real
   __call__ leaves the caller's dicts, name lists and tensors untouched is the model assumption checked on every
   call of the correspondence run by a before/after snapshot (harness/c17.py).                                    *)
From Coq Require Import String.
From Coq Require Import List ZArith QArith Bool Arith Lia.
From PF Require Import Lib.ListX Model.CatToNum Proofs.CatToNumProofs.
Import ListNotations.
Open Scope Q_scope.

(* 1. The transform of any in-domain frame with the fitted categorical schema IS the documented frame:
      original numerical columns first, then one generated column per categorical column and non-reference class
      (in that order, named {col}_{k}), every generated cell = (count + prior) / (n_train + 1); no categorical block
      left; y passed through.  Holds for every training frame (any task), every col_stats, every frame. *)
Theorem transform_output_is_documented :
  forall train cs t tf cbt y k prior cb counts,
    fit fresh train cs = Some t -> tf_cat train = Some cbt -> tf_y train = Some y ->
    target_prior y = Some (k, prior) ->
    validate tf = Some tf -> tf_cat tf = Some cb -> b_names cb = b_names cbt ->
    Forall2 (fun name count => assoc name cs = Some count) (b_names cb) counts ->
    Forall has_nonmissing (b_cols cb) -> Forall2 all_seen counts (b_cols cb) ->
    call t tf = Some (transform_spec counts (block_rows cbt) k prior tf).
Proof. exact call_spec. Qed.
Print Assumptions transform_output_is_documented.

(* one generated column per non-reference class: the prior has num_classes - 1 entries, num_classes >= 2 *)
Theorem one_prior_per_non_reference_class :
  forall y k prior, target_prior y = Some (k, prior) -> length prior = (k - 1)%nat /\ (2 <= k)%nat.
Proof. exact target_prior_length. Qed.
Print Assumptions one_prior_per_non_reference_class.

(* a missing category is treated as the most frequent one (index 0) *)
Theorem missing_category_is_most_frequent :
  forall count n prior c, (c < 0)%Z -> estimate count n prior c = estimate count n prior 0.
Proof. exact estimate_missing. Qed.
Print Assumptions missing_category_is_most_frequent.

(* 2. Label independence, for EVERY transform state and EVERY frame: the result for label content y' (absent, any
      dtype, any subset of classes) is the result of the label-free frame with y' attached.  (The `if` is
      TensorFrame's own length check of y', which every constructed frame passes.) *)
Theorem forward_label_independent :
  forall t tf y',
    call t (set_y tf y') =
    match call t (set_y tf None) with
    | Some o => if y_ok (num_rows o) y' then Some (set_y o y') else None
    | None => None
    end.
Proof. exact call_label_independent. Qed.
Print Assumptions forward_label_independent.

(* 3. Row locality: the documented result commutes with row selection (any index list: subsets, single rows,
      repetitions, reorderings) ... *)
Theorem documented_result_is_row_local :
  forall counts nt k prior idx tf tf',
    select_rows idx tf = Some tf' ->
    select_rows idx (transform_spec counts nt k prior tf) = Some (transform_spec counts nt k prior tf').
Proof. exact transform_spec_select. Qed.
Print Assumptions documented_result_is_row_local.

(* ... hence so does the transform: transforming the selected rows = selecting rows of the transformed frame,
   as long as the selection stays in the domain (valid frame, a non-missing entry per categorical column). *)
Theorem forward_row_local :
  forall train cs t tf cbt y k prior cb counts idx tf' cb',
    fit fresh train cs = Some t -> tf_cat train = Some cbt -> tf_y train = Some y ->
    target_prior y = Some (k, prior) ->
    validate tf = Some tf -> tf_cat tf = Some cb -> b_names cb = b_names cbt ->
    Forall2 (fun name count => assoc name cs = Some count) (b_names cb) counts ->
    Forall has_nonmissing (b_cols cb) -> Forall2 all_seen counts (b_cols cb) ->
    select_rows idx tf = Some tf' -> validate tf' = Some tf' ->
    tf_cat tf' = Some cb' -> Forall has_nonmissing (b_cols cb') ->
    exists out, call t tf = Some out /\ call t tf' = select_rows idx out.
Proof. exact call_row_local. Qed.
Print Assumptions forward_row_local.

(* 4. Output column names <-> transformed statistics: for EVERY successful fit the two are the same list and that
      list has no duplicates -- no distinctness hypothesis: _fit rejects a clash (next theorem), and generated names
      never collide among themselves when the categorical names are distinct (gen_name is injective). *)
Theorem output_names_are_transformed_stats_keys :
  forall train cs t tf cbt y k prior cb counts,
    fit fresh train cs = Some t -> tf_cat train = Some cbt -> tf_y train = Some y ->
    target_prior y = Some (k, prior) ->
    validate tf = Some tf -> tf_cat tf = Some cb -> b_names cb = b_names cbt -> num_names tf = num_names train ->
    Forall2 (fun name count => assoc name cs = Some count) (b_names cb) counts ->
    Forall has_nonmissing (b_cols cb) -> Forall2 all_seen counts (b_cols cb) ->
    exists out nb, call t tf = Some out /\ tf_num out = Some nb /\
                   transformed_stats_keys t = Some (b_names nb) /\ NoDup (b_names nb).
Proof. exact names_are_keys. Qed.
Print Assumptions output_names_are_transformed_stats_keys.

(* already at fit time: the keys of the transformed statistics are the future output names, duplicate-free *)
Theorem fitted_stats_keys_are_distinct_output_names :
  forall train cs t cbt y k prior,
    fit fresh train cs = Some t -> tf_cat train = Some cbt -> tf_y train = Some y ->
    target_prior y = Some (k, prior) ->
    transformed_stats_keys t = Some (num_names train ++ gen_names (b_names cbt) (k - 1)) /\
    NoDup (num_names train ++ gen_names (b_names cbt) (k - 1)).
Proof. exact keys_spec. Qed.
Print Assumptions fitted_stats_keys_are_distinct_output_names.

(* a clash (a numerical column named like a generated one, e.g. "a_0" next to categorical "a", or two generated
   names that coincide) makes fit raise instead of silently producing duplicate names / overwritten statistics *)
Theorem name_clash_rejected :
  forall t train cs cb y k prior,
    tf_cat train = Some cb -> tf_y train = Some y -> target_prior y = Some (k, prior) ->
    ~ NoDup (num_names train ++ gen_names (b_names cb) (k - 1)) ->
    fit t train cs = None.
Proof. exact fit_name_clash. Qed.
Print Assumptions name_clash_rejected.

(* when there is no clash: distinct numerical names, distinct categorical names, no numerical name of generated form *)
Theorem generated_names_are_distinct :
  forall num cats w,
    NoDup num -> NoDup cats -> (forall n, In n num -> ~ In n (gen_names cats w)) ->
    NoDup (num ++ gen_names cats w).
Proof. exact names_NoDup. Qed.
Print Assumptions generated_names_are_distinct.

Theorem generated_name_is_injective :
  forall c1 k1 c2 k2, gen_name c1 k1 = gen_name c2 k2 -> c1 = c2 /\ k1 = k2.
Proof. exact gen_name_inj. Qed.
Print Assumptions generated_name_is_injective.

(* 5. Raises: use before fitting; a category index not seen at fit time (>= number of fitted categories). *)
Theorem unfitted_transform_raises :
  forall t tf, t_is_fitted t = false -> call t tf = None.
Proof. exact call_unfitted. Qed.
Print Assumptions unfitted_transform_raises.

Theorem unseen_category_raises :
  forall t st tf cb i name col c count,
    t_state t = Some st -> tf_cat tf = Some cb ->
    nth_error (b_names cb) i = Some name -> nth_error (b_cols cb) i = Some col -> In c col ->
    assoc name (f_stats st) = Some count -> (Z.of_nat (length count) <= c)%Z ->
    call t tf = None.
Proof. exact call_unseen. Qed.
Print Assumptions unseen_category_raises.

(* 6. Histories: a call never changes the transform (the model's `call` returns only a frame), and a
      state_dict -> load_state_dict round trip into a new transform behaves identically. *)
Theorem state_dict_round_trip_is_identity :
  forall t tf, call (load_state_dict fresh (state_dict t)) tf = call t tf.
Proof. exact state_dict_round_trip. Qed.
Print Assumptions state_dict_round_trip_is_identity.

(* 7. state_dict / load_state_dict on the OBJECT STORE (Model/CatToNum.v, "object store"): state_dict() hands out the
      LIVE attribute dict of the object, load_state_dict updates the destination's dict with it.
      7a. SELF round trip t.load_state_dict(t.state_dict()): source and destination are the same dict; afterwards
          every object of the heap -- t included -- has exactly the attributes it had. *)
Theorem self_round_trip_is_identity :
  forall h o d,
    hget o h = Some d -> NoDup (map fst d) ->
    exists h', st_state_dict h o false = Some (RLive o) /\ st_load h o (RLive o) = Some h' /\
               forall o', hget o' h' = hget o' h.
Proof. exact self_round_trip_identity. Qed.
Print Assumptions self_round_trip_is_identity.

(*    7b. Round trip into another object (a fresh CatToNumTransform() or any other instance), through the live dict or a
          detached copy (deepcopy, torch.save/load): the destination reads back as the very transform value of the
          source; every other object, the source included, is untouched. *)
Theorem round_trip_into_another_object :
  forall h src dst t dd (copy : bool),
    hget src h = Some (to_dict t) -> hget dst h = Some dd -> src <> dst ->
    dget "_is_fitted" dd <> None -> dget "_transformed_stats" dd <> None ->
    (t_state t = None -> dget "fit_attrs" dd = None) ->
    exists sd h', st_state_dict h src copy = Some sd /\ st_load h dst sd = Some h' /\
                  (exists d', hget dst h' = Some d' /\ of_dict d' = Some t) /\
                  forall o', o' <> dst -> hget o' h' = hget o' h.
Proof. exact round_trip_into_other. Qed.
Print Assumptions round_trip_into_another_object.

(*    7c. dst.update(src) in general: the source's attributes win, all other attributes of the destination stay. *)
Theorem dict_update_semantics :
  forall s, NoDup (map fst s) ->
    forall d k, dget k (dupdate d s) = match dget k s with Some v => Some v | None => dget k d end.
Proof. exact dget_dupdate. Qed.
Print Assumptions dict_update_semantics.

(*    7d. "clear() before update" (seeded change C17_10) is REFUTED for source = destination: the witness transform
          survives the library's load and is wiped (every later use raises) by the variant. *)
Theorem clear_before_update_is_refuted :
  (exists h', st_load w_heap0 0 (RLive 0%nat) = Some h' /\ (d <- hget 0 h' ;; of_dict d) = Some w_obj) /\
  (exists h', st_load_clear w_heap0 0 (RLive 0%nat) = Some h' /\ (d <- hget 0 h' ;; of_dict d) = None).
Proof. exact clear_before_update_refuted. Qed.
Print Assumptions clear_before_update_is_refuted.

(* 8. The prior and the task rule of _fit.
      8a. Floating-point labels: regression / binary, whatever their values (dtype-based rule; the seeded change
          C17_12 treated whole-valued floats as classes); the prior is the mean over the LABELLED rows only. *)
Theorem float_labels_give_one_prior_the_mean_of_labelled_rows :
  forall ys, labelled ys <> [] -> target_prior (YFloat ys) = Some (2%nat, [qmean (labelled ys)]).
Proof. exact prior_float_is_mean_of_labelled. Qed.
Print Assumptions float_labels_give_one_prior_the_mean_of_labelled_rows.

Theorem float_labels_are_never_a_multiclass_problem :
  forall ys k prior, target_prior (YFloat ys) = Some (k, prior) -> k = 2%nat /\ length prior = 1%nat.
Proof. exact float_labels_are_never_multiclass. Qed.
Print Assumptions float_labels_are_never_a_multiclass_problem.

(*    8b. Integer labels: multiclass iff the largest label exceeds 1, and then num_classes = max + 1. *)
Theorem integer_labels_are_multiclass_iff_max_exceeds_one :
  forall ys m k prior,
    zmax ys = Some m -> target_prior (YInt ys) = Some (k, prior) ->
    ((1 < m)%Z -> k = (Z.to_nat m + 1)%nat) /\ ((m <= 1)%Z -> k = 2%nat).
Proof. exact int_labels_multiclass_iff. Qed.
Print Assumptions integer_labels_are_multiclass_iff_max_exceeds_one.

(*    8c. "nansum / number of ALL rows" (seeded change C17_11) is REFUTED: labels [1, NaN]. *)
Theorem prior_over_all_rows_is_refuted :
  exists ys, labelled ys <> [] /\ ~ (qsum (labelled ys) / qnat (length ys) == qmean (labelled ys)).
Proof. exact prior_over_all_rows_refuted. Qed.
Print Assumptions prior_over_all_rows_is_refuted.

(* ---------------------------------------------------------------------------------------------------------
   The hypotheses are satisfiable (vm_compute on concrete frames): a 3-class fit on 4 rows, one numerical and two
   categorical columns with missing entries; a 2-row frame WITHOUT labels is transformed to the documented frame. *)
Definition ex_train : tframe :=
  mkframe (Some (mkblock ["n0"%string] [[Some 1; None; Some (1#2); Some 3]]))
          (Some (mkblock ["c0"%string; "a"%string] [[0; 0; 1; (-1)]; [(-1); 1; 0; 0]]%Z))
          (Some (YInt [0; 1; 2; 1]%Z)).
Definition ex_stats : col_stats := [("n0"%string, []); ("c0"%string, [2; 1]%Z); ("a"%string, [2; 1; 0]%Z)].
Definition ex_tf : tframe :=
  mkframe (Some (mkblock ["n0"%string] [[None; Some 3]]))
          (Some (mkblock ["c0"%string; "a"%string] [[1; (-1)]; [(-1); 2]]%Z))
          None.

Example fit_succeeds :
  exists t, fit fresh ex_train ex_stats = Some t /\ target_prior (YInt [0; 1; 2; 1]%Z) = Some (3%nat, [1#4; 2#4]) /\
            transformed_stats_keys t =
            Some ["n0"; "c0_0"; "c0_1"; "a_0"; "a_1"]%string.
Proof. eexists. split; [vm_compute; reflexivity|]. split; vm_compute; reflexivity. Qed.

Example transform_example :
  history_agrees 0
    [SFit ex_train ex_stats; SCall ex_tf]
    [ODone;
     OFrame ["n0"; "c0_0"; "c0_1"; "a_0"; "a_1"]%string
            [[None; Some 3];
             [Some (1#4); Some (9#20)]; [Some (3#10); Some (1#2)];      (* c0: (1 + 1/4)/5, (2 + 1/4)/5 ; + 1/2 *)
             [Some (9#20); Some (1#20)]; [Some (1#2); Some (1#10)]]      (* a : (2 + 1/4)/5, (0 + 1/4)/5 ; + 1/2 *)
            false] = true.
Proof. vm_compute. reflexivity. Qed.

Example domain_hypotheses_hold :
  validate ex_tf = Some ex_tf /\
  Forall2 (fun name count => assoc name ex_stats = Some count) ["c0"; "a"]%string [[2; 1]; [2; 1; 0]]%Z /\
  Forall has_nonmissing [[1; (-1)]; [(-1); 2]]%Z /\
  Forall2 all_seen [[2; 1]; [2; 1; 0]]%Z [[1; (-1)]; [(-1); 2]]%Z.
Proof.
  split; [vm_compute; reflexivity|]. split; [repeat constructor|]. split.
  - repeat constructor; [exists 1%Z|exists 2%Z]; simpl; split; auto; lia.
  - repeat constructor; vm_compute; lia.
Qed.

Example unfitted_and_unseen_raise :
  history_agrees 0
    [SCall ex_tf; SFit ex_train ex_stats;
     SCall (mkframe None (Some (mkblock ["c0"%string; "a"%string] [[2]; [0]]%Z)) None)]
    [OErr; ODone; OErr] = true.
Proof. vm_compute. reflexivity. Qed.

(* a numerical column "a_0" next to the categorical column "a": fit raises *)
Example name_clash_example :
  fit fresh (mkframe (Some (mkblock ["a_0"%string] [[Some 1; Some 2]]))
                     (Some (mkblock ["a"%string] [[0; 1]%Z])) (Some (YInt [0; 1]%Z)))
            [("a_0"%string, []); ("a"%string, [1; 1]%Z)] = None.
Proof. vm_compute. reflexivity. Qed.

(* two objects, fitted state saved LIVE from object 0, a self round trip (twice), a load into the same object and a
   round trip into a fresh instance: all calls keep returning the documented frame (store-level runner) *)
Example store_history_example :
  store_history_agrees 0
    [MFit 0 ex_train ex_stats; MSave 0 false; MRound 0 RtSelf2; MCall 0 ex_tf; MLoad 0 true; MRound 0 (RtFresh false);
     MCall 1 ex_tf; MKeys 0]
    [ODone; ODone; ODone;
     OFrame ["n0"; "c0_0"; "c0_1"; "a_0"; "a_1"]%string
            [[None; Some 3]; [Some (1#4); Some (9#20)]; [Some (3#10); Some (1#2)];
             [Some (9#20); Some (1#20)]; [Some (1#2); Some (1#10)]] false;
     ODone; ODone; OErr; OKeys ["n0"; "c0_0"; "c0_1"; "a_0"; "a_1"]%string] = true.
Proof. vm_compute. reflexivity. Qed.
