(* C04 -- Train/inference consistency of the DataFrame-to-TensorFrame converter.
   Statements only; proofs are in Proofs/ConverterStateProofs.v.  The model
   (Model/ConverterState.v) is the converter as a state machine whose state is the
   `_col_names_dict` it shares with every returned frame; it is tied to /repo by the
   correspondence run of ./check C04.  `None` = the call raises. *)
From Coq Require Import List Arith ZArith Bool String.
From PF Require Import Lib.ListX Gen.Tables Model.Stats Model.ConverterState Proofs.ConverterStateProofs.
Import ListNotations.

(* ---- row locality: converting df.iloc[idx] (any multiset / order of positions) is
   selecting the same positions of the conversion of df -- as an equation between
   possibly-raising computations ... *)
Theorem convert_row_local :
  forall cfg d idx df df',
    df_select idx df = Some df' ->
    call cfg d df' = (p <- call cfg d df ;; tf' <- tf_select idx (snd p) ;; Some (fst p, tf')).
Proof. exact call_row_local. Qed.
Print Assumptions convert_row_local.

(* ... and whenever the whole frame converts, every selection of its rows converts too *)
Theorem convert_selection_succeeds :
  forall cfg d idx df df' d1 tf,
    df_select idx df = Some df' -> call cfg d df = Some (d1, tf) ->
    exists tf', tf_select idx tf = Some tf' /\ call cfg d df' = Some (d1, tf').
Proof. exact call_select_succeeds. Qed.
Print Assumptions convert_selection_succeeds.

(* ---- however often the converter is called: the k-th result of any sequence of calls
   equals what the FIRST call of a fresh converter returns on the same input (features,
   y, and -- next theorem -- names) *)
Theorem convert_idempotent_state :
  forall cfg dfs d,
    option_map snd (run cfg d dfs) = mapM (fun df => option_map snd (call cfg d df)) dfs.
Proof. exact run_idempotent. Qed.
Print Assumptions convert_idempotent_state.

(* the shared name table after any non-empty sequence of calls is the one the first call
   wrote; it is a fixed point of `_merge_feat`, so names seen through earlier frames never change *)
Theorem names_stable_after_first_call :
  (forall cfg dfs d d' tfs, run cfg d dfs = Some (d', tfs) -> dfs <> [] -> merge_feat d = Some d') /\
  (forall (d d' : dict (list string)), merge_feat d = Some d' -> merge_feat d' = Some d').
Proof. split; [exact run_state|exact (@merge_feat_idempotent string)]. Qed.
Print Assumptions names_stable_after_first_call.

(* `_merge_feat` never raises, and it treats the feature dict and the name dict alike
   (it commutes with any column-wise map): names and data stay paired *)
Theorem merge_total_and_natural :
  (forall X (d : dict (list X)), exists d', merge_feat d = Some d') /\
  (forall X Y (f : X -> Y) (d : dict (list X)),
      merge_feat (dmap (map f) d) = option_map (dmap (map f)) (merge_feat d)).
Proof. split; [exact @merge_feat_total|exact @merge_feat_natural]. Qed.
Print Assumptions merge_total_and_natural.

(* a call = rewrite the names, then map every listed column with the mapper fitted for it *)
Theorem call_uses_fitted_statistics_only :
  forall cfg d df,
    call cfg d df = (d' <- merge_feat d ;;
                     yv <- call_y cfg df ;;
                     fd <- seq_dict (dmap (map (map_col cfg df)) d') ;;
                     Some (d', {| feats := fd; y := yv |})).
Proof. exact call_char. Qed.
Print Assumptions call_uses_fitted_statistics_only.

(* ---- unseen values *)
Theorem unseen_category_is_missing :
  forall cats v, ~ In v cats -> apply_fit (FitCat cats) (RCat (Some v)) = ECat (-1).
Proof. exact unseen_category. Qed.
Print Assumptions unseen_category_is_missing.

Theorem category_never_aliased :
  forall cats v i, apply_fit (FitCat cats) (RCat (Some v)) = ECat (Z.of_nat i) -> nth_error cats i = Some v.
Proof. exact category_no_alias. Qed.
Print Assumptions category_never_aliased.

Theorem multicategorical_unseen_dropped :
  (forall cats toks z,
      In z (encode_multi cats (Some toks)) <->
      exists t i, In t toks /\ nth_error cats i = Some t /\ index_of cats t = Some i /\ z = Z.of_nat i) /\
  (forall cats toks, (forall t, In t toks -> ~ In t cats) ->
                     apply_fit (FitMulti cats) (RMulti (Some toks)) = EMulti []).
Proof. split; [exact multicat_tokens|exact multicat_unseen_dropped]. Qed.
Print Assumptions multicategorical_unseen_dropped.

(* ---- y only when the frame has the target column *)
Theorem no_target_column_no_y :
  forall cfg d df d1 tf,
    call cfg d df = Some (d1, tf) ->
    (cfg_target cfg = None \/ exists t, cfg_target cfg = Some t /\ df_col df t = None) ->
    y tf = None.
Proof. exact no_target_no_y. Qed.
Print Assumptions no_target_column_no_y.

Theorem target_column_gives_y :
  forall cfg d df d1 tf t col f,
    call cfg d df = Some (d1, tf) -> cfg_target cfg = Some t -> df_col df t = Some col ->
    lookup (cfg_fits cfg) t = Some f -> y tf = Some (map (apply_fit f) col).
Proof. exact target_present_y. Qed.
Print Assumptions target_column_gives_y.

(* ---- supplying the statistics of a previous materialization = recomputing them.
   Premise: the recomputed statistics contain every statistic the generated table
   stats_for_stype requires (this is C03's stats_per_stype_table + correspondence) *)
Theorem supplied_statistics_equal_recomputed :
  forall cts target compute width df st d tf,
    validate_stats cts (compute df) = true ->
    materialize cts target compute width None df = Some (st, d, tf) ->
    materialize cts target compute width (Some st) df = Some (st, d, tf).
Proof. exact materialize_supplied_equiv. Qed.
Print Assumptions supplied_statistics_equal_recomputed.

(* ---- finite-domain facts over the table generated from /repo (case analysis on the nine
   stypes): merging is one level deep -- this is what makes the first call's rewrite a fixed point *)
Theorem parent_of_parent_table : forall s, stype_parent (stype_parent s) = stype_parent s.
Proof. intros s; destruct s; reflexivity. Qed.
Print Assumptions parent_of_parent_table.

(* ---- non-vacuity: a converter with an embedding column and two embedded children, a
   category column with an unseen value, three calls (whole frame, reordered multiset, single row) *)
Local Open Scope string_scope.
Definition ex_cts : list (string * stype) :=
  [("img", st_image_embedded); ("cat", st_categorical); ("emb", st_embedding); ("txt", st_text_embedded);
   ("lab", st_categorical)].
Definition ex_cfg : config :=
  {| cfg_cts := ex_cts; cfg_target := Some "lab";
     cfg_fits := [("img", FitOpaque); ("cat", FitCat [5; 2]%Z); ("emb", FitOpaque); ("txt", FitOpaque);
                  ("lab", FitCat [0; 1]%Z)] |}.
Definition ex_df : dataframe :=
  [("cat", [RCat (Some 2); RCat None; RCat (Some 9)]%Z); ("img", [ROpaque 0; ROpaque 1; ROpaque 2]%Z);
   ("emb", [ROpaque 0; ROpaque 1; ROpaque 2]%Z); ("txt", [ROpaque 0; ROpaque 1; ROpaque 2]%Z);
   ("lab", [RCat (Some 1); RCat (Some 0); RCat (Some 1)]%Z)].

Example ex_init_names :
  init_names ex_cts (Some "lab") = [(st_image_embedded, ["img"]); (st_categorical, ["cat"]);
                                     (st_embedding, ["emb"]); (st_text_embedded, ["txt"])].
Proof. vm_compute. reflexivity. Qed.

Example ex_first_call_rewrites_names :
  option_map fst (call ex_cfg (init_names ex_cts (Some "lab")) ex_df)
  = Some [(st_categorical, ["cat"]); (st_embedding, ["emb"; "txt"; "img"])].
Proof. vm_compute. reflexivity. Qed.

Example ex_three_calls :
  exists d1 t1 t2 t3,
    run ex_cfg (init_names ex_cts (Some "lab")) [ex_df; ex_df; ex_df] = Some (d1, [t1; t2; t3]) /\
    t1 = t2 /\ t2 = t3 /\
    dget (feats t1) st_categorical = Some [[ECat 1; ECat (-1); ECat (-1)]%Z] /\
    y t1 = Some [ECat 1; ECat 0; ECat 1]%Z.
Proof. vm_compute. repeat eexists. Qed.

Example ex_selection :
  exists df', df_select [2; 0; 0]%nat ex_df = Some df' /\
  exists d1 tf, call ex_cfg (init_names ex_cts (Some "lab")) df' = Some (d1, tf) /\
    dget (feats tf) st_embedding
    = Some [[EOpaque 2; EOpaque 0; EOpaque 0]; [EOpaque 2; EOpaque 0; EOpaque 0]; [EOpaque 2; EOpaque 0; EOpaque 0]]%Z.
Proof. vm_compute. repeat eexists. Qed.
