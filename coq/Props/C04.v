(* C04 -- Train/inference consistency of the DataFrame-to-TensorFrame converter.
   Statements only; proofs are in Proofs/ConverterStateProofs.v.

   The model (Model/ConverterState.v) is the converter as a state machine whose state is
   the `_col_names_dict` it shares with every returned frame.  The state machine is generic
   in the per-column mapper `enc_col` (nothing is assumed about it); the concrete converter
   `pcall` instantiates it with the pandas/torch pipeline models of Model/Mapper.v (numerical,
   categorical, multicategorical, sequence, timestamp, embedding columns), whose row-locality
   is DERIVED here from the theorems of Props/C01.v (each pipeline = map canonical_cell).
   Columns handled by user callables (text_embedded, image_embedded, text_tokenized) are
   opaque row ids.  Tied to /repo by the correspondence run of ./check C04.  None = raises. *)
From Coq Require Import List Arith ZArith QArith Bool String.
From PF Require Import Lib.ListX Gen.Tables Model.Ragged Model.Mapper Model.MapperSpec Model.Converter Model.ConverterSpec
  Proofs.MapperProofs Model.ConverterState Proofs.ConverterStateProofs.
Import ListNotations.
Local Open Scope nat_scope.
Local Notation length := List.length (only parsing).

(* ---- row locality of the converter built from the modelled pipelines.
   For every NON-EMPTY list of row positions idx (any multiset, any order -- single rows,
   repeats, reorders): if converting df succeeds, converting df.iloc[idx] succeeds, leaves the
   same converter state, and returns exactly the rows idx of the conversion of df.
   Premises, all about the data / fitted statistics (`pipeline_ok`): the index is as long as
   every column; category lists hold every category once (value_counts); the integer -1 is
   neither a category nor a token of a multicategorical column, which is held with object/string
   dtype; embedding vectors of a column have one width.  The empty selection is excluded: five
   of the nine mappers raise on an empty column (the property does not name it). *)
Theorem convert_row_local :
  forall fits target d idx (df df' : pdataframe) d1 tf,
    idx <> [] ->
    (forall c col, df_col df c = Some col -> pipeline_ok fits c (df_index df) col) ->
    pdf_select idx df = Some df' ->
    pcall fits target d df = Some (d1, tf) ->
    exists tf', tf_select idx tf = Some tf' /\ pcall fits target d df' = Some (d1, tf').
Proof. exact pcall_select. Qed.
Print Assumptions convert_row_local.

(* where that comes from: the pipelines of Model/Mapper.v are row-wise -- proved from
   numerical_cells / categorical_cells / multicategorical_cells / sequence_cells /
   timestamp_cells / embedding_cells (Props/C01.v), for any label type and label equality *)
Theorem mapper_pipelines_rowwise :
  forall (L : Type) (leqb : L -> L -> bool) fits,
    leqb_refl leqb -> rowwise (pipeline_col leqb fits) fcol_select (pipeline_ok fits).
Proof. exact @pipeline_rowwise. Qed.
Print Assumptions mapper_pipelines_rowwise.

(* the premises are inherited by selections, so the theorem applies to selections of selections *)
Theorem premises_inherited_by_selections :
  forall (L : Type) fits c (ix ix' : list L) col col' idx,
    pipeline_ok fits c ix col -> tgather ix idx = Some ix' -> fcol_select idx col = Some col' ->
    pipeline_ok fits c ix' col'.
Proof. exact @pipeline_ok_select. Qed.
Print Assumptions premises_inherited_by_selections.

(* ... and the state machine turns ANY row-wise mappers into a row-local converter *)
Theorem convert_row_local_generic :
  forall (L Col Enc : Type) (enc_col : string -> list L -> Col -> option (list Enc))
         (col_select : list nat -> Col -> option Col) ok target d idx df df' d1 tf,
    rowwise enc_col col_select ok -> idx <> [] ->
    (forall c col, df_col df c = Some col -> ok c (df_index df) col) ->
    df_select col_select idx df = Some df' -> call enc_col target d df = Some (d1, tf) ->
    exists tf', tf_select idx tf = Some tf' /\ call enc_col target d df' = Some (d1, tf').
Proof. exact @call_select_rowwise. Qed.
Print Assumptions convert_row_local_generic.

(* ---- however often the converter is called (for ARBITRARY mappers): the k-th result of any
   sequence of calls equals what the FIRST call of a fresh converter returns on the same input *)
Theorem convert_idempotent_state :
  forall (L Col Enc : Type) (enc_col : string -> list L -> Col -> option (list Enc)) target dfs d,
    option_map snd (run enc_col target d dfs) = mapM (fun df => option_map snd (call enc_col target d df)) dfs.
Proof. exact @run_idempotent. Qed.
Print Assumptions convert_idempotent_state.

(* the shared name table after any non-empty sequence of calls is the one the first call
   wrote; it is a fixed point of `_merge_feat`, so names seen through earlier frames never change *)
Theorem names_stable_after_first_call :
  (forall (L Col Enc : Type) (enc_col : string -> list L -> Col -> option (list Enc)) target dfs d d' tfs,
      run enc_col target d dfs = Some (d', tfs) -> dfs <> [] -> merge_feat d = Some d') /\
  (forall (d d' : dict (list string)), merge_feat d = Some d' -> merge_feat d' = Some d').
Proof. split; [exact @run_state|exact (@merge_feat_idempotent string)]. Qed.
Print Assumptions names_stable_after_first_call.

(* `_merge_feat` never raises, and it treats the feature dict and the name dict alike
   (it commutes with any column-wise map): names and data stay paired *)
Theorem merge_total_and_natural :
  (forall X (d : dict (list X)), exists d', merge_feat d = Some d') /\
  (forall X Y (f : X -> Y) (d : dict (list X)),
      merge_feat (dmap (map f) d) = option_map (dmap (map f)) (merge_feat d)).
Proof. split; [exact @merge_feat_total|exact @merge_feat_natural]. Qed.
Print Assumptions merge_total_and_natural.

(* a call = rewrite the names, then map every listed column with the mapper fitted for it *)
Theorem call_uses_fitted_statistics_only :
  forall (L Col Enc : Type) (enc_col : string -> list L -> Col -> option (list Enc)) target d df,
    call enc_col target d df =
    (d' <- merge_feat d ;;
     yv <- call_y enc_col target df ;;
     fd <- seq_dict (dmap (map (map_col enc_col df)) d') ;;
     Some (d', {| feats := fd; y := yv |})).
Proof. exact @call_char. Qed.
Print Assumptions call_uses_fitted_statistics_only.

(* ---- unseen values, through the modelled pipelines *)
Theorem categorical_column_cells :
  forall (L : Type) (leqb : L -> L -> bool) fits c cats (ix : list L) cells,
    lookup fits c = Some (FitCat cats) -> NoDup cats -> length ix = length cells ->
    pipeline_col leqb fits c ix (FCat cells) = Some (map (canon_cat cats) cells).
Proof. exact @pipeline_categorical. Qed.
Print Assumptions categorical_column_cells.

Theorem unseen_category_is_missing :
  forall cats v, ~ In v cats -> canon_cat cats (Some v) = [SInt (-1)] /\ canon_cat cats None = [SInt (-1)].
Proof. intros cats v H. split; [now apply canon_cat_unseen|reflexivity]. Qed.
Print Assumptions unseen_category_is_missing.

Theorem category_never_aliased :
  forall cats v k, canon_cat cats (Some v) = [SInt (Z.of_nat k)] -> nth_error cats k = Some v.
Proof. exact canon_cat_no_alias. Qed.
Print Assumptions category_never_aliased.

(* a multicategorical cell becomes the ascending set of positions of those of its tokens that are
   fitted categories (canon_multi, Props/C01.v multicategorical_cell_is_index_set): unseen tokens
   are left out, no position stands for a token the cell does not hold *)
Theorem multicategorical_column_cells :
  forall (L : Type) (leqb : L -> L -> bool) fits c cats sep (ix : list L) cells canon,
    lookup fits c = Some (FitMulti cats sep) -> NoDup cats -> ~ In (VInt (-1)) cats ->
    Forall (tokens_ok sep) cells -> length ix = length cells ->
    mapM (canon_multi cats sep) cells = Some canon ->
    pipeline_col leqb fits c ix (FMulti true cells) = Some canon.
Proof. exact @pipeline_multicategorical. Qed.
Print Assumptions multicategorical_column_cells.

Theorem multicategorical_unseen_dropped :
  forall cats sep c toks,
    c <> MCMissing -> tokens_of sep c = Some toks ->
    exists ks, canon_multi cats sep c = Some (map (fun k => SInt (Z.of_nat k)) ks) /\
               Sorted.StronglySorted lt ks /\
               forall k, In k ks <-> exists cat, nth_error cats k = Some cat /\ In cat toks.
Proof. exact canon_multi_index_set. Qed.
Print Assumptions multicategorical_unseen_dropped.

(* ---- category values WITH their Python types (mapper.py CategoricalTensorMapper.forward merges on
   object keys: numbers compare by value, 1 == 1.0, a str equals only the same str, +/-inf only itself).
   The presentation of typed values to the untyped pipeline model (`norm`, what the harness ships) preserves
   exactly that key equality, so the canonical cell of C01 is DERIVED for every mixture of value types *)
Theorem typed_keys_normalise_faithfully :
  forall a b, wf_tval a -> wf_tval b -> pval_eqb (norm a) (norm b) = key_eqb a b.
Proof. exact norm_reflects_key_equality. Qed.
Print Assumptions typed_keys_normalise_faithfully.

Theorem typed_categorical_merge_is_canon_cat :
  forall cats c, Forall wf_tval cats -> (forall v, c = Some v -> wf_tval v) ->
    [SInt (typed_cat_cell cats c)] = canon_cat (map norm cats) (option_map norm c).
Proof. exact typed_merge_is_canon_cat. Qed.
Print Assumptions typed_categorical_merge_is_canon_cat.

(* unseen values ADJACENT to the fitted ones: a non-integral float is never an integer category, whatever it
   truncates or rounds to; an integral float IS that integer; a value of another type never matches *)
Theorem nonintegral_float_is_unseen :
  forall cats q, Forall is_tint cats -> (forall z, ~ (q == inject_Z z)%Q) ->
    typed_cat_cell cats (Some (TFloat q)) = (-1)%Z.
Proof. exact nonintegral_float_unseen. Qed.
Print Assumptions nonintegral_float_is_unseen.

Theorem integral_float_is_that_integer :
  forall cats z, typed_cat_cell cats (Some (TFloat (inject_Z z))) = typed_cat_cell cats (Some (TInt z)).
Proof. exact integral_float_is_the_integer. Qed.
Print Assumptions integral_float_is_that_integer.

Theorem value_of_another_type_is_unseen :
  forall cats v,
    (Forall is_tnumber cats /\ (is_tstr v \/ exists p, v = TInf p)) \/ (Forall is_tstr cats /\ ~ is_tstr v) ->
    typed_cat_cell cats (Some v) = (-1)%Z.
Proof. exact other_type_unseen. Qed.
Print Assumptions value_of_another_type_is_unseen.

(* ---- y only when the frame has the target column *)
Theorem no_target_column_no_y :
  forall (L Col Enc : Type) (enc_col : string -> list L -> Col -> option (list Enc)) target d df d1 tf,
    call enc_col target d df = Some (d1, tf) ->
    (target = None \/ exists t, target = Some t /\ df_col df t = None) ->
    y tf = None.
Proof. exact @no_target_no_y. Qed.
Print Assumptions no_target_column_no_y.

Theorem target_column_gives_y :
  forall (L Col Enc : Type) (enc_col : string -> list L -> Col -> option (list Enc)) target d df d1 tf t col,
    call enc_col target d df = Some (d1, tf) -> target = Some t -> df_col df t = Some col ->
    exists enc, enc_col t (df_index df) col = Some enc /\ y tf = Some enc.
Proof. exact @target_present_y. Qed.
Print Assumptions target_column_gives_y.

(* ---- supplying the statistics of a previous materialization = recomputing them.
   Premise: the recomputed statistics contain every statistic the generated table
   stats_for_stype requires (this is C03's stats_per_stype_table + correspondence) *)
Theorem supplied_statistics_equal_recomputed :
  forall cts seps target compute width df st d tf,
    validate_stats cts (compute df) = true ->
    materialize cts seps target compute width None df = Some (st, d, tf) ->
    materialize cts seps target compute width (Some st) df = Some (st, d, tf).
Proof. exact materialize_supplied_equiv. Qed.
Print Assumptions supplied_statistics_equal_recomputed.

(* ---- "converting the dataset's own frame reproduces the dataset's TensorFrame": after materialize
   (statistics recomputed or supplied) the mappers built from the FINAL statistics -- the ones
   dataset.col_stats shows, EMB_DIM included -- together with the converter state the materialization
   left behind map the dataset's own frame to exactly the dataset's TensorFrame ... *)
Theorem own_frame_reproduces_tensor_frame :
  forall cts seps target compute width supplied df st d tf,
    materialize cts seps target compute width supplied df = Some (st, d, tf) ->
    exists fits, fits_of cts seps st = Some fits /\ pcall fits target d df = Some (d, tf).
Proof. exact own_frame_reproduced. Qed.
Print Assumptions own_frame_reproduces_tensor_frame.

(* ... and every non-empty selection / repetition / reordering of its rows to exactly the corresponding
   rows of that TensorFrame (premises as in convert_row_local) *)
Theorem own_frame_selection_gives_corresponding_rows :
  forall cts seps target compute width supplied df st d tf idx df',
    materialize cts seps target compute width supplied df = Some (st, d, tf) ->
    idx <> [] -> pdf_select idx df = Some df' ->
    (forall fits c col, fits_of cts seps st = Some fits -> df_col df c = Some col ->
                        pipeline_ok fits c (df_index df) col) ->
    exists fits tf', fits_of cts seps st = Some fits /\ tf_select idx tf = Some tf' /\
                     pcall fits target d df' = Some (d, tf').
Proof. exact own_frame_selection. Qed.
Print Assumptions own_frame_selection_gives_corresponding_rows.

(* ---- finite-domain facts over the table generated from /repo (case analysis on the nine
   stypes): merging is one level deep -- this is what makes the first call's rewrite a fixed point *)
Theorem parent_of_parent_table : forall s, stype_parent (stype_parent s) = stype_parent s.
Proof. intros s; destruct s; reflexivity. Qed.
Print Assumptions parent_of_parent_table.

(* ---- non-vacuity: a converter with an embedding column and two embedded children, a
   category column with an unseen value, a multicategorical column with an unseen token;
   premises of convert_row_local hold; three calls; a reordered multiset of rows *)
Local Open Scope string_scope.
Definition ex_cts : list (string * stype) :=
  [("img", st_image_embedded); ("cat", st_categorical); ("emb", st_embedding); ("txt", st_text_embedded);
   ("mul", st_multicategorical); ("lab", st_categorical)].
Definition ex_fits : list (string * col_fit) :=
  [("img", FitStub); ("cat", FitCat [VStr [98%Z]; VStr [97%Z]]); ("emb", FitEmb); ("txt", FitStub);
   ("mul", FitMulti [VStr [120%Z]; VStr [121%Z]] (Some [124%Z])); ("lab", FitCat [VInt 0; VInt 1])].
Definition ex_df : pdataframe :=
  {| df_index := [7; 7; 3]%nat;                                         (* duplicated labels *)
     df_cols :=
       [("cat", FCat [Some (VStr [97%Z]); None; Some (VStr [122%Z])]);           (* "a", missing, unseen "z" *)
        ("img", FStub [0; 1; 2]%Z); ("emb", FVec [[NFin 1; NFin 2]; [NFin 3; NFin 4]; [NNaN; NFin 6]]);
        ("txt", FStub [0; 1; 2]%Z);
        ("mul", FMulti true [MCStr [121; 124; 113; 124; 120]%Z; MCMissing; MCStr [32]%Z]);   (* "y|q|x", missing, blank *)
        ("lab", FCat [Some (VInt 1); Some (VInt 0); Some (VInt 1)])] |}.

Ltac ok_col := split; [reflexivity|]; intros f rc Lf A; vm_compute in Lf; inversion Lf; subst f; clear Lf;
                cbn [attach] in A; inversion A; subst rc; clear A; cbn [rawcol_ok].
Example ex_premises_hold :
  Forall (fun p => pipeline_ok ex_fits (fst p) (df_index ex_df) (snd p)) (df_cols ex_df).
Proof.
  unfold ex_df; cbn [df_cols df_index fst snd]. repeat apply Forall_cons; try apply Forall_nil; cbn [fst snd].
  - ok_col. repeat constructor; simpl; intuition discriminate.
  - ok_col. exists 1%nat. repeat constructor.
  - ok_col. exists 2%nat. repeat constructor.
  - ok_col. exists 1%nat. repeat constructor.
  - ok_col. split; [reflexivity|]. split; [repeat constructor; simpl; intuition discriminate|].
    split; [simpl; intuition discriminate|].
    repeat apply Forall_cons; try apply Forall_nil; try apply tokens_ok_str. intros toks Ht. discriminate.
  - ok_col. repeat constructor; simpl; intuition discriminate.
Qed.

Example ex_first_call_rewrites_names :
  option_map fst (pcall ex_fits (Some "lab") (init_names ex_cts (Some "lab")) ex_df)
  = Some [(st_categorical, ["cat"]); (st_embedding, ["emb"; "txt"; "img"]); (st_multicategorical, ["mul"])].
Proof. vm_compute. reflexivity. Qed.

Example ex_three_calls :
  exists d1 t1 t2 t3,
    prun ex_fits (Some "lab") (init_names ex_cts (Some "lab")) [ex_df; ex_df; ex_df] = Some (d1, [t1; t2; t3]) /\
    t1 = t2 /\ t2 = t3 /\
    dget (feats t1) st_categorical = Some [[[SInt 1]; [SInt (-1)]; [SInt (-1)]]] /\
    dget (feats t1) st_multicategorical = Some [[[SInt 0; SInt 1]; [SInt (-1)]; []]] /\
    y t1 = Some [[SInt 1]; [SInt 0]; [SInt 1]].
Proof. vm_compute. repeat eexists. Qed.

Example ex_selection :
  exists df', pdf_select [2; 0; 0]%nat ex_df = Some df' /\
  exists d1 tf, pcall ex_fits (Some "lab") (init_names ex_cts (Some "lab")) df' = Some (d1, tf) /\
    dget (feats tf) st_embedding
    = Some [[[SNum NNaN; SNum (NFin 6)]; [SNum (NFin 1); SNum (NFin 2)]; [SNum (NFin 1); SNum (NFin 2)]];
            [[SNum (NFin 2)]; [SNum (NFin 0)]; [SNum (NFin 0)]]; [[SNum (NFin 2)]; [SNum (NFin 0)]; [SNum (NFin 0)]]].
Proof. eexists. split; [vm_compute; reflexivity|]. vm_compute. repeat eexists. Qed.

(* the empty selection is outside the theorem for a reason: the embedding pipeline raises on it *)
Example ex_empty_selection_raises :
  exists df', pdf_select [] ex_df = Some df' /\
              pcall ex_fits (Some "lab") (init_names ex_cts (Some "lab")) df' = None.
Proof. eexists. split; [vm_compute; reflexivity|]. vm_compute. reflexivity. Qed.

Example ex_materialize_then_own_frame :
  let stats0 : stats :=
    [("img", {| cs_keys := []; cs_cats := []; cs_emb := None |});
     ("cat", {| cs_keys := [stat_COUNT]; cs_cats := [VStr [98%Z]; VStr [97%Z]]; cs_emb := None |});
     ("emb", {| cs_keys := [stat_EMB_DIM]; cs_cats := []; cs_emb := Some 2%nat |});
     ("txt", {| cs_keys := []; cs_cats := []; cs_emb := None |});
     ("mul", {| cs_keys := [stat_MULTI_COUNT]; cs_cats := [VStr [120%Z]; VStr [121%Z]]; cs_emb := None |});
     ("lab", {| cs_keys := [stat_COUNT]; cs_cats := [VInt 0; VInt 1]; cs_emb := None |})] in
  exists st d tf fits,
    materialize ex_cts [("mul", Some [124%Z])] (Some "lab") (fun _ => stats0) (fun _ => 1%nat) None ex_df = Some (st, d, tf) /\
    fits_of ex_cts [("mul", Some [124%Z])] st = Some fits /\ fits = ex_fits /\
    pcall fits (Some "lab") d ex_df = Some (d, tf) /\
    option_map cs_emb (lookup st "txt") = Some (Some 1%nat).
Proof.
  do 4 eexists. split; [vm_compute; reflexivity|]. split; [vm_compute; reflexivity|].
  split; [reflexivity|]. split; vm_compute; reflexivity.
Qed.

Example ex_typed_values :
  let cats := [TInt 1; TInt 2; TInt 10] in
  Forall wf_tval cats /\
  map (typed_cat_cell cats) [Some (TFloat (5 # 2)); Some (TFloat (2 # 1)); Some (TFloat (19 # 10)); Some (TStr [122%Z; 122%Z]);
                             Some (TInf true); None; Some (TInt 10)]
  = [-1; 1; -1; -1; -1; -1; 2]%Z /\
  map (canon_cat (map norm cats)) (map (option_map norm) [Some (TFloat (5 # 2)); Some (TFloat (2 # 1)); Some (TInt 10)])
  = [[SInt (-1)]; [SInt 1]; [SInt 2]].
Proof. split; [repeat constructor|]. split; vm_compute; reflexivity. Qed.
