(* C20 — GBDT adapters preserve the table; metrics and guards follow their definitions.
   Statements only; proofs live in Proofs/GbdtProofs.v.

   Model/Gbdt.v models the three conversion functions (_to_xgboost_input with
   neg_to_nan, _to_catboost_input, _to_lightgbm_input), GBDT.__init__ metric
   selection, the is_fitted guards and compute_metric for RMSE (squared) / MAE /
   accuracy.  Metric / task tables come from Gen/Tables.v, regenerated from the live
   objects of /repo on every run: the finite statements below (marked FINITE) are
   proved by case analysis over the generated enums and are re-proved whenever
   DEFAULT_METRIC, supported_metrics or supports_task_type change.

   Observed only (correspondence / oracle in harness/c20.py): that stypes other
   than categorical / numerical / embedding and the key order of feat_dict do not
   matter, float32 round-off of the metric values.  Out of scope: the boosters,
   ROC-AUC, R2. *)
From Coq Require Import List ZArith QArith Qabs Bool Arith Permutation.
From PF Require Import Gen.Tables Model.Gbdt Proofs.GbdtProofs.
Import ListNotations.
Close Scope Q_scope.
Open Scope nat_scope.

(* ---------------------------------------------------------------- frames *)
(* every present block has n rows of the declared width; names agree with widths *)
Definition well_formed (n : nat) (tf : tframe) : Prop :=
  (forall c, tf_cat tf = Some c ->
     f_names c = f_width c /\ length (f_rows c) = n /\ Forall (fun r => length r = f_width c) (f_rows c)) /\
  (forall f, tf_num tf = Some f ->
     f_names f = f_width f /\ length (f_rows f) = n /\ Forall (fun r => length r = f_width f) (f_rows f)) /\
  (forall e, tf_emb tf = Some e ->
     e_names e = length (e_dims e) /\ length (e_rows e) = n /\
     Forall (fun r => map (@length val) r = e_dims e) (e_rows e)).

Definition some_feature (tf : tframe) : Prop :=
  tf_cat tf <> None \/ tf_num tf <> None \/ tf_emb tf <> None.

(* row i of a block that may be absent (absent: contributes nothing) *)
Definition row_of (o : option block) (i : nat) : option row :=
  match o with None => Some [] | Some b => nth_error b i end.
Definition categorical_rows (conv : Z -> val) (tf : tframe) : option block :=
  option_map (fun c => map (map conv) (f_rows c)) (tf_cat tf).
Definition numerical_rows (tf : tframe) : option block := option_map (fun f => f_rows f) (tf_num tf).
Definition embedding_rows (tf : tframe) : option block := option_map emb_values (tf_emb tf).
Definition width_cat (tf : tframe) : nat := match tf_cat tf with Some c => f_width c | None => 0 end.
Definition width_num (tf : tframe) : nat := match tf_num tf with Some f => f_width f | None => 0 end.
Definition width_emb (tf : tframe) : nat := match tf_emb tf with Some e => emb_width e | None => 0 end.

(* 1. XGBoost: n rows in order, row i = categorical (−1 -> NaN) ++ numerical ++
      flattened embedding; y passed through; feature types as written *)
Theorem xgboost_rows : forall n tf,
  well_formed n tf -> some_feature tf ->
  exists m, to_xgboost_input tf = Some (m, tf_y tf, xgb_types tf) /\ length m = n /\
            forall i a b c,
              row_of (categorical_rows neg_to_nan tf) i = Some a ->
              row_of (numerical_rows tf) i = Some b ->
              row_of (embedding_rows tf) i = Some c ->
              nth_error m i = Some (a ++ b ++ c).
Proof. exact xgboost_position_map. Qed.
Print Assumptions xgboost_rows.

(* 2. ... and the types flag exactly the categorical columns *)
Theorem xgboost_flags : forall n tf,
  well_formed n tf ->
  xgb_types tf = repeat FC (width_cat tf) ++ repeat FQ (width_num tf + width_emb tf).
Proof. exact xgb_types_flags. Qed.
Print Assumptions xgboost_flags.

(* 3. CatBoost / LightGBM: same rows with −1 KEPT, column labels 0..width-1,
      cat_features = the categorical columns, y passed through *)
Theorem catboost_rows : forall n tf,
  well_formed n tf -> some_feature tf ->
  exists m, to_catboost_input tf =
            Some ({| d_columns := seq 0 (width_cat tf + width_num tf + width_emb tf); d_rows := m |},
                  tf_y tf, seq 0 (width_cat tf)) /\
            length m = n /\
            forall i a b c,
              row_of (categorical_rows keep_int tf) i = Some a ->
              row_of (numerical_rows tf) i = Some b ->
              row_of (embedding_rows tf) i = Some c ->
              nth_error m i = Some (a ++ b ++ c).
Proof. exact dataframe_position_map. Qed.
Print Assumptions catboost_rows.

Theorem lightgbm_rows : forall n tf,
  well_formed n tf -> some_feature tf ->
  exists m, to_lightgbm_input tf =
            Some ({| d_columns := seq 0 (width_cat tf + width_num tf + width_emb tf); d_rows := m |},
                  tf_y tf, seq 0 (width_cat tf)) /\
            length m = n /\
            forall i a b c,
              row_of (categorical_rows keep_int tf) i = Some a ->
              row_of (numerical_rows tf) i = Some b ->
              row_of (embedding_rows tf) i = Some c ->
              nth_error m i = Some (a ++ b ++ c).
Proof. exact dataframe_position_map. Qed.
Print Assumptions lightgbm_rows.

(* 4. the position map inside a row: every input value lands at its categorical |
      numerical | flattened-embedding offset, and nothing else is in the row *)
Theorem position_map : forall (conv : Z -> val) (crow : list Z) (nrow : row) (erow : list (list val)),
  let out := map conv crow ++ nrow ++ concat erow in
  (forall j z, nth_error crow j = Some z -> nth_error out j = Some (conv z)) /\
  (forall j v, nth_error nrow j = Some v -> nth_error out (length crow + j) = Some v) /\
  (forall k cell j v, nth_error erow k = Some cell -> nth_error cell j = Some v ->
     nth_error out (length crow + length nrow + total (map (@length val) (firstn k erow)) + j) = Some v) /\
  length out = length crow + length nrow + total (map (@length val) erow).
Proof. exact row_position_map. Qed.
Print Assumptions position_map.

(* 5. missing categories: NaN for XGBoost only; every other entry is unchanged *)
Theorem missing_category_conversion :
  neg_to_nan (-1) = None /\
  (forall z, z <> (-1)%Z -> neg_to_nan z = Some (inject_Z z)) /\
  (forall z, keep_int z = Some (inject_Z z)).
Proof. exact (conj neg_to_nan_missing (conj neg_to_nan_other keep_int_all)). Qed.
Print Assumptions missing_category_conversion.

(* 5b. BOUNDED EXACTNESS of the float32 casts in the XGBoost adapter
       (tuned_xgboost.py: neg_to_nan's `.to(torch.float32)` when the block contains a -1,
       and torch.cat's dtype promotion of the int64 block next to a float32 block):
       to_xgboost_input_f32 models them with round-to-nearest-even on a 24-bit
       significand.  While every category code is at most 2^24 in magnitude the casts
       change nothing, i.e. the value-level model of 1-5 is exact.  Beyond the bound it is
       not (Example float32_rounds_beyond_bound): a categorical entry is a frequency-rank
       index below the number of categories, so this needs > 16.7 million categories. *)
Theorem xgboost_float32_casts_exact_up_to_2_24 : forall num_is_f64 tf,
  (forall c r z, tf_cat tf = Some c -> In r (f_rows c) -> In z r -> (Z.abs z <= 2 ^ 24)%Z) ->
  to_xgboost_input_f32 num_is_f64 tf = to_xgboost_input tf.
Proof. exact xgboost_f32_exact. Qed.
Print Assumptions xgboost_float32_casts_exact_up_to_2_24.

Theorem float32_of_small_integers : forall z, (Z.abs z <= 2 ^ 24)%Z -> f32_of_Z z = z.
Proof. exact f32_exact. Qed.
Print Assumptions float32_of_small_integers.

(* 6. a frame with none of the three stypes is rejected by all three adapters *)
Theorem empty_frame_rejected : forall tf,
  tf_cat tf = None -> tf_num tf = None -> tf_emb tf = None ->
  to_xgboost_input tf = None /\ to_catboost_input tf = None /\ to_lightgbm_input tf = None.
Proof.
  intros tf A B C.
  exact (conj (xgboost_empty_rejected tf A B C)
              (conj (dataframe_empty_rejected tf A B C) (dataframe_empty_rejected tf A B C))).
Qed.
Print Assumptions empty_frame_rejected.

(* 6b. the frame as the DICTIONARY the code holds (feat_dict, in insertion order, with
       entries of any stype): the adapters depend only on the categorical / numerical /
       embedding entries -- neither on the order of the keys nor on what other stypes
       (timestamp, multicategorical, sequence_numerical, text_tokenized, ...) are present *)
Definition relevant_entry (e : stype * payload) : bool :=
  stype_eqb (fst e) st_categorical || stype_eqb (fst e) st_numerical || stype_eqb (fst e) st_embedding.

Theorem adapters_ignore_key_order_and_other_stypes : forall d d' y,
  NoDup (map fst d) -> NoDup (map fst d') ->
  Permutation (filter relevant_entry d) (filter relevant_entry d') ->
  on_dict to_xgboost_input d y = on_dict to_xgboost_input d' y /\
  on_dict to_catboost_input d y = on_dict to_catboost_input d' y /\
  on_dict to_lightgbm_input d y = on_dict to_lightgbm_input d' y.
Proof. intros d d' y A B C. repeat split; apply adapters_relevant_only; assumption. Qed.
Print Assumptions adapters_ignore_key_order_and_other_stypes.

(* ---------------------------------------------------------------- metric selection (FINITE) *)
(* 7. the model of GBDT.__init__ agrees with what the constructor did on this run,
      for ALL (task, metric) pairs and for the default *)
Theorem constructor_model_matches_run : forall t,
  gbdt_init t None = gbdt_default_metric t /\
  forall m, gbdt_init t (Some m) = gbdt_metric_request t m.
Proof. intros t. exact (conj (init_default t) (init_request t)). Qed.
Print Assumptions constructor_model_matches_run.

(* 8. the default metric of a task is one the task supports *)
Theorem default_metric_is_supported : forall t d,
  gbdt_default_metric t = Some d -> metric_supports_task d t = true /\ In d (supported_metrics t).
Proof. exact default_supported. Qed.
Print Assumptions default_metric_is_supported.

(* 9. a requested metric is accepted iff the task supports it; unsupported pairs raise *)
Theorem requested_metric_accepted_iff_supported : forall t m,
  gbdt_default_metric t <> None ->
  (gbdt_metric_request t m = Some m <-> metric_supports_task m t = true) /\
  (metric_supports_task m t = false -> gbdt_metric_request t m = None).
Proof. exact request_accepted_iff. Qed.
Print Assumptions requested_metric_accepted_iff_supported.

Theorem supports_task_iff_listed : forall m t,
  metric_supports_task m t = true <-> In m (supported_metrics t).
Proof. exact supports_iff_listed. Qed.
Print Assumptions supports_task_iff_listed.

(* 10. the default follows the task type as documented *)
Theorem default_metric_table :
  gbdt_default_metric task_REGRESSION = Some met_RMSE /\
  gbdt_default_metric task_BINARY_CLASSIFICATION = Some met_ROCAUC /\
  gbdt_default_metric task_MULTICLASS_CLASSIFICATION = Some met_ACCURACY.
Proof. exact default_table. Qed.
Print Assumptions default_metric_table.

(* 10b. which metrics a task supports (membership, not order) *)
Theorem supported_metrics_table : forall m,
  (In m (supported_metrics task_REGRESSION) <-> m = met_RMSE \/ m = met_MAE \/ m = met_R2) /\
  (In m (supported_metrics task_BINARY_CLASSIFICATION) <-> m = met_ACCURACY \/ m = met_ROCAUC) /\
  (In m (supported_metrics task_MULTICLASS_CLASSIFICATION) <-> m = met_ACCURACY) /\
  ~ In m (supported_metrics task_MULTILABEL_CLASSIFICATION).
Proof. exact supported_table. Qed.
Print Assumptions supported_metrics_table.

(* ---------------------------------------------------------------- guards *)
(* 11. THE PROPERTY CLAUSE: in any sequence of operations starting from a fresh model,
       predict / save raise unless a tune() that returned, or a load(), came earlier *)
Definition makes_fitted (o : gop) : bool := match o with OTune true | OLoad => true | _ => false end.
Definition requires_fitted (o : gop) : bool := match o with OPredict | OSave => true | _ => false end.

Theorem predict_and_save_before_tuning_raise : forall ops k o res fitted_after,
  nth_error ops k = Some o -> nth_error (grun false ops) k = Some (res, fitted_after) ->
  requires_fitted o = true ->
  (forall j p, j < k -> nth_error ops j = Some p -> makes_fitted p = false) ->
  res = RErr.
Proof. exact guard_raises_before_fit. Qed.
Print Assumptions predict_and_save_before_tuning_raise.

(* 11b. conversely the GUARD lets predict / save through once fitted (ROk = "the guard
        does not raise"; what the call does afterwards -- _predict's asserts,
        os.makedirs / save_model -- is outside the model, see Model/Gbdt.v), and
        is_fitted says exactly "a tune() that returned, or a load(), has happened" *)
Theorem guard_passes_once_fitted : forall ops k o res fitted_after,
  nth_error ops k = Some o -> nth_error (grun false ops) k = Some (res, fitted_after) ->
  (requires_fitted o = true ->
   (exists j p, j < k /\ nth_error ops j = Some p /\ makes_fitted p = true) -> res = ROk) /\
  (fitted_after = true <-> exists j p, j <= k /\ nth_error ops j = Some p /\ makes_fitted p = true).
Proof. exact guard_passes_after_fit. Qed.
Print Assumptions guard_passes_once_fitted.

(* ---------------------------------------------------------------- metrics *)
Open Scope Q_scope.

(* 12. RMSE^2 and MAE are the textbook means of squared / absolute errors *)
Theorem rmse_squared_is_mean_squared_error : forall target pred,
  length target = length pred -> target <> [] ->
  mse target pred = Some (sum_sq_err pred target / inject_Z (Z.of_nat (length target))) /\
  0 <= sum_sq_err pred target /\ sum_sq_err target target == 0.
Proof.
  intros t p E N.
  exact (conj (mse_textbook t p E N) (conj (sum_sq_err_nonneg p t) (sum_sq_err_same t))).
Qed.
Print Assumptions rmse_squared_is_mean_squared_error.

Theorem mae_is_mean_absolute_error : forall target pred,
  length target = length pred -> target <> [] ->
  mae target pred = Some (sum_abs_err pred target / inject_Z (Z.of_nat (length target))) /\
  0 <= sum_abs_err pred target /\ sum_abs_err target target == 0.
Proof.
  intros t p E N.
  exact (conj (mae_textbook t p E N) (conj (sum_abs_err_nonneg p t) (sum_abs_err_same t))).
Qed.
Print Assumptions mae_is_mean_absolute_error.

(* 13. accuracy: share of equal labels; binary scores are thresholded strictly above
       0.5 (a score of exactly 0.5 is class 0) *)
Theorem binary_threshold_is_strict :
  (forall s, above_half s = true <-> (1 # 2) < s) /\ above_half (1 # 2) = false /\
  (forall target scores,
     accuracy_binary target scores =
     accuracy_labels target (map (fun s => if above_half s then 1%Z else 0%Z) scores)).
Proof. exact (conj above_half_iff (conj above_half_at_half (fun _ _ => eq_refl))). Qed.
Print Assumptions binary_threshold_is_strict.

Theorem accuracy_in_unit_interval : forall target pred a,
  accuracy_labels target pred = Some a -> 0 <= a /\ a <= 1.
Proof. exact accuracy_labels_range. Qed.
Print Assumptions accuracy_in_unit_interval.

(* ---------------------------------------------------------------- hypotheses are satisfiable *)
Close Scope Q_scope.

Definition q (n : Z) (d : positive) : val := Some (Qmake n d).
Definition tf_example : tframe :=
  {| tf_cat := Some {| f_names := 2; f_width := 2; f_rows := [[5; -1]; [-1; 7]]%Z |};
     tf_num := Some {| f_names := 1; f_width := 1; f_rows := [[q 3 2]; [None]] |};
     tf_emb := Some {| e_names := 2; e_dims := [2; 1];
                       e_rows := [[[q 1 4; q 5 4]; [q 9 4]]; [[q 13 4; q 17 4]; [q 21 4]]] |};
     tf_y := Some [q 0 1; q 1 1] |}.

Example tf_example_well_formed : well_formed 2 tf_example /\ some_feature tf_example.
Proof.
  split; [|left; discriminate].
  split; [|split]; intros x Hx; inversion Hx; subst; simpl; repeat split; repeat constructor.
Qed.

Example tf_example_xgboost :
  to_xgboost_input tf_example =
  Some ([[q 5 1; None; q 3 2; q 1 4; q 5 4; q 9 4]; [None; q 7 1; None; q 13 4; q 17 4; q 21 4]],
        Some [q 0 1; q 1 1], [FC; FC; FQ; FQ; FQ; FQ]).
Proof. vm_compute. reflexivity. Qed.

Example tf_example_catboost :
  to_catboost_input tf_example =
  Some ({| d_columns := [0; 1; 2; 3; 4; 5];
           d_rows := [[q 5 1; q (-1) 1; q 3 2; q 1 4; q 5 4; q 9 4]; [q (-1) 1; q 7 1; None; q 13 4; q 17 4; q 21 4]] |},
        Some [q 0 1; q 1 1], [0; 1]).
Proof. vm_compute. reflexivity. Qed.

(* guards: predict on a fresh model raises; a failed tune does not help; load does
   (ROk = the guard passes) *)
Example guard_example :
  map fst (grun false [OPredict; OSave; OTune false; OPredict; OLoad; OPredict; OSave; OTune true]) =
  [RErr; RErr; RErr; RErr; ROk; ROk; ROk; ROk].
Proof. vm_compute. reflexivity. Qed.

(* a score of exactly 0.5 is class 0; just above is class 1 *)
Example half_example :
  accuracy_binary [0; 1; 1]%Z [(1 # 2)%Q; (1 # 2)%Q; (513 # 1024)%Q] = Some (2 # 3)%Q.
Proof. vm_compute. reflexivity. Qed.

(* multilabel has no default: the constructor raises whatever metric is asked *)
Example multilabel_rejected :
  gbdt_init task_MULTILABEL_CLASSIFICATION None = None /\
  forall m, gbdt_init task_MULTILABEL_CLASSIFICATION (Some m) = None.
Proof. split; [reflexivity | intros m; destruct m; reflexivity]. Qed.

(* 6b is not vacuous: two dictionaries with different key order and different ignored
   stypes, same relevant entries, same (non-trivial) conversion *)
Definition c_ex : feat Z := {| f_names := 1; f_width := 1; f_rows := [[5]; [-1]]%Z |}.
Definition n_ex : feat val := {| f_names := 1; f_width := 1; f_rows := [[q 3 2]; [None]] |}.
Definition dict1 : feat_dict := [(st_timestamp, POther); (st_numerical, PNum n_ex); (st_categorical, PCat c_ex)].
Definition dict2 : feat_dict := [(st_categorical, PCat c_ex); (st_multicategorical, POther); (st_numerical, PNum n_ex);
                                 (st_text_tokenized, POther)].
Example dict_example :
  NoDup (map fst dict1) /\ NoDup (map fst dict2) /\
  Permutation (filter relevant_entry dict1) (filter relevant_entry dict2) /\
  on_dict to_xgboost_input dict1 None = Some ([[q 5 1; q 3 2]; [None; None]], None, [FC; FQ]) /\
  on_dict to_xgboost_input dict2 None = Some ([[q 5 1; q 3 2]; [None; None]], None, [FC; FQ]).
Proof.
  split; [repeat constructor; simpl; intuition discriminate|].
  split; [repeat constructor; simpl; intuition discriminate|].
  split; [apply perm_swap|]. split; vm_compute; reflexivity.
Qed.

(* 5b: the bound is sharp, ties go to even, and the cast only happens next to a -1 or a
   float32 block *)
Example float32_rounds_beyond_bound :
  f32_of_Z (2 ^ 24 + 1) = (2 ^ 24)%Z /\ f32_of_Z (2 ^ 24 + 3) = (2 ^ 24 + 4)%Z /\
  f32_of_Z (- (2 ^ 24 + 1)) = (- 2 ^ 24)%Z /\ f32_of_Z (2 ^ 24) = (2 ^ 24)%Z /\
  cat_block_f32 false false [[16777217; -1]]%Z = [[q 16777216 1; None]] /\
  cat_block_f32 true false [[16777217; 3]]%Z = [[q 16777216 1; q 3 1]] /\
  cat_block_f32 false false [[16777217; 3]]%Z = [[q 16777217 1; q 3 1]] /\
  cat_block_f32 true true [[16777217; 3]]%Z = [[q 16777217 1; q 3 1]].
Proof. repeat split; vm_compute; reflexivity. Qed.
