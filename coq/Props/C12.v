(* C12 -- feature encoder: column order, domain contract between mappers and encoders,
   lazily configured modules, rejected pairings.  Statements only; every proof is
   `exact <lemma of Proofs/...>`.  Shapes and finiteness of torch outputs are observed by
   the check (harness/c12.py), not proved. *)
From Coq Require Import String List ZArith QArith Bool Arith.
From PF Require Import Lib.ListX Lib.Calendar Gen.Tables Model.LazyModule Model.Encoders.
From PF Require Import Proofs.LazyModuleProofs Proofs.EncodersProofs.
From PF Require Model.Mapper Model.MapperSpec Model.Stats.
Import ListNotations.
Local Close Scope Q_scope.
Local Close Scope Z_scope.
Local Open Scope nat_scope.

(* ========================================================================= *)
(* (a) DOMAIN CONTRACT: what the mappers emit for the data the statistics were
       computed from lies inside what the encoders built from those statistics accept *)

(* EmbeddingEncoder: per-column blocks of one table, the +1 shift, padding row 0 *)
Theorem cat_index_in_table : forall (S : Scalar) (stats : list (colstats S)) j x,
    j < length stats -> (-1 <= x < Z.of_nat (nth j (ncats S stats) 0%nat))%Z ->
    let i := emb_index x (nth j (emb_offset S stats) 0) in
    (0 <= i < Z.of_nat (emb_table_size S stats))%Z /\
    ((0 <= x)%Z -> (1 <= i)%Z) /\ ((x < 0)%Z -> i = 0%Z).
Proof. exact EncodersProofs.cat_index_in_table. Qed.
Print Assumptions cat_index_in_table.

Theorem cat_index_injective : forall (S : Scalar) (stats : list (colstats S)) j x j' x',
    j < length stats -> j' < length stats ->
    (0 <= x < Z.of_nat (nth j (ncats S stats) 0%nat))%Z -> (0 <= x' < Z.of_nat (nth j' (ncats S stats) 0%nat))%Z ->
    emb_index x (nth j (emb_offset S stats) 0) = emb_index x' (nth j' (emb_offset S stats) 0) ->
    j = j' /\ x = x'.
Proof. exact EncodersProofs.cat_index_injective. Qed.
Print Assumptions cat_index_injective.

Theorem cat_domain_no_raise : forall (S : Scalar) (stats : list (colstats S)) (table : mat (car S)) feat,
    cat_in_domain (ncats S stats) feat = true ->
    length table = emb_table_size S stats ->
    encode_embedding S stats table feat <> None.
Proof. exact EncodersProofs.cat_domain_no_raise. Qed.
Print Assumptions cat_domain_no_raise.

(* MultiCategoricalEmbeddingEncoder: index + 1 inside each bag's own table *)
Theorem bag_index_in_table : forall ncat z,
    (-1 <= z < Z.of_nat ncat)%Z -> (0 <= z + 1 < Z.of_nat (ncat + 1))%Z /\ ((z = -1)%Z <-> (z + 1 = 0)%Z).
Proof. exact EncodersProofs.bag_index_in_table. Qed.
Print Assumptions bag_index_in_table.

(* with the table init_modules allocates, max(ncat, 1) + 1 rows, also the index that the
   ZEROS strategy imputes (category 0) is inside -- even for a column without any category *)
Theorem bag_fill_in_table : forall ncat z,
    (-1 <= z < Z.of_nat ncat)%Z \/ z = 0%Z -> (0 <= z + 1 < Z.of_nat (bag_table_rows ncat))%Z.
Proof. exact EncodersProofs.bag_fill_in_table. Qed.
Print Assumptions bag_fill_in_table.

Theorem bag_domain_no_raise : forall (S : Scalar) (stats : list (colstats S)) mode ch (tables : list (mat (car S))) feat,
    bag_in_domain (ncats S stats) feat = true ->
    length tables = length stats ->
    (forall j, j < length stats -> nth j (ncats S stats) 0 + 1 <= length (nth j tables [])) ->
    encode_bags S mode ch tables feat <> None.
Proof. exact EncodersProofs.bag_domain_no_raise. Qed.
Print Assumptions bag_domain_no_raise.

(* TimestampEncoder: year - min_year >= 0 for every year the YEAR_RANGE was fitted on *)
Theorem year_in_fitted_range : forall ys lo hi y,
    year_range ys = Some (lo, hi) -> In y ys -> (0 <= y - lo)%Z /\ (y <= hi)%Z.
Proof. exact EncodersProofs.year_in_fitted_range. Qed.
Print Assumptions year_in_fitted_range.

(* the generated TIME_TO_INDEX / CYCLIC_VALUES_NORMALIZATION_CONSTANT against the component
   ranges month-1 <= 11, day-1 <= 30, weekday <= 6, hour <= 23, minute <= 59, second <= 59
   (finite table, by computation on Gen/Tables.v) *)
Theorem calendar_table_ok :
  forallb (fun nb => match norm_constant_of (fst nb) with
                     | Some c => (0 <? c)%Z && (snd nb <=? c)%Z
                     | None => false
                     end) calendar_bounds = true
  /\ assoc_str time_to_index "YEAR"%string = Some 0
  /\ length cyclic_norm_constants = length calendar_bounds
  /\ length time_to_index = Datatypes.S (length cyclic_norm_constants).
Proof. exact EncodersProofs.calendar_table_ok. Qed.
Print Assumptions calendar_table_ok.

Theorem cyclic_component_in_unit : forall name bound v,
    In (name, bound) calendar_bounds -> (0 <= v <= bound)%Z ->
    exists c, norm_constant_of name = Some c /\ unit_ok v c = true /\
              (0 <= inject_Z v / inject_Z c)%Q /\ (inject_Z v / inject_Z c <= 1)%Q.
Proof. exact EncodersProofs.cyclic_component_in_unit. Qed.
Print Assumptions cyclic_component_in_unit.

(* with the calendar of Lib/Calendar.v (ranges proved for every instant): the cell the
   mapper emits for ANY parsed instant passes both encodings' assertions *)
Theorem calendar_cell_in_domain : forall s min_year,
    (min_year <= year_of_days (days_of_secs s))%Z -> time_cell_in_domain min_year (calendar_cell s) = true.
Proof. exact EncodersProofs.calendar_cell_in_domain. Qed.
Print Assumptions calendar_cell_in_domain.

Theorem time_domain_no_raise : forall (S : Scalar) (stats : list (colstats S)) ch half pm w b feat,
    time_in_domain (map cs_year_min stats) feat = true ->
    length w = length stats -> length b = length stats ->
    encode_timestamp S stats ch half pm w b cyclic_norm_constants feat <> None.
Proof. exact EncodersProofs.time_domain_no_raise. Qed.
Print Assumptions time_domain_no_raise.

(* ------------------------------------------------------------------------- *)
(* END TO END.  The three theorems above take "the matrix lies in the domain" as a hypothesis;
   here it is discharged: the matrix is what the C01 mapper model (Model/Mapper.v; proved
   cell-faithful in Props/C01.v) produces column by column, and the statistics are what the C03
   model (Model/Stats.v; Props/C03.v) computes from the same columns.  `counted_categories cats`:
   cats is the key list of a valid value_counts table (C03 `valid_count_order`), hence
   duplicate-free; C01's `index_of_range` then bounds every emitted index by its length. *)
Theorem categorical_end_to_end :
  forall (S : Scalar) (L : Type) (cols : list (list Mapper.pval * @Mapper.series L (option Mapper.pval)))
         n na feat (table : mat (car S)),
    Forall (fun p => counted_categories (fst p)) cols ->
    (na <> None -> Forall (fun p => fst p <> []) cols) ->          (* a category to impute: >= 1 non-missing value *)
    strategy_ok st_categorical na = true ->
    frame_of_columns n (cat_columns cols) = Some feat ->
    length table = emb_table_size S (cat_col_stats S cols) ->
    obind (na_forward_idx S na (cat_col_stats S cols) feat) (encode_embedding S (cat_col_stats S cols) table) <> None.
Proof. exact (fun S L => @EncodersProofs.categorical_end_to_end S L). Qed.
Print Assumptions categorical_end_to_end.

(* tables as init_modules allocates them: max(ncat, 1) + 1 rows; without a strategy and with ZEROS *)
Theorem multicategorical_end_to_end :
  forall (S : Scalar) (L : Type)
         (cols : list (list Mapper.pval * option Mapper.str * @Mapper.series L Mapper.mc_cell))
         encs n na feat mode ch (tables : list (mat (car S))),
    Forall2 (fun p enc => Mapper.multicategorical_encode true (fst (fst p)) (snd (fst p)) (snd p) = Some enc) cols encs ->
    Forall mc_ok cols ->
    strategy_ok st_multicategorical na = true ->
    frame_of_columns n (map (map ecell_ints) encs) = Some feat ->
    length tables = length cols ->
    (forall j, j < length cols -> bag_table_rows (nth j (ncats S (mc_stats S cols)) 0) <= length (nth j tables [])) ->
    obind (na_forward_bag S na (mc_stats S cols) feat) (encode_bags S mode ch tables) <> None.
Proof. exact (fun S L => @EncodersProofs.multicategorical_end_to_end S L). Qed.
Print Assumptions multicategorical_end_to_end.

(* every column has at least one parsed instant; YEAR_RANGE / OLDEST / NEWEST / MEDIAN as C03's
   compute_time computes them from the column: year - min_year >= 0 for every cell, the calendar
   components are in range (Lib/Calendar.v), and the imputed cell is itself a cell of the column.
   Without a strategy the theorem needs "no missing cell" -- the other case is finding D10. *)
Theorem timestamp_end_to_end :
  forall (S : Scalar) (L : Type) (cols : list (@Mapper.series L (option Z))) ts n na feat ch half pm w b,
    Forall2 (fun s t => Stats.present (time_stat_cells (Mapper.ser_values s)) <> [] /\
                        Stats.compute_time (time_stat_cells (Mapper.ser_values s)) = Some t) cols ts ->
    strategy_ok st_timestamp na = true ->
    (na = None -> Forall (fun s => Forall (fun c => c <> None) (Mapper.ser_values s)) cols) ->
    frame_of_columns n (map (fun s => map ecell_ints (Mapper.timestamp_encode s)) cols) = Some feat ->
    length w = length cols -> length b = length cols ->
    obind (na_forward_time S na (map (time_colstats S) ts) feat)
          (encode_timestamp S (map (time_colstats S) ts) ch half pm w b cyclic_norm_constants) <> None.
Proof. exact (fun S L => @EncodersProofs.timestamp_end_to_end S L). Qed.
Print Assumptions timestamp_end_to_end.

(* the hypotheses are satisfiable: a two-row categorical column ["b", "a"] whose count table is
   {a: 1, b: 1} under the naming a -> 0, b -> 1 *)
Example counted_categories_example :
  counted_categories [Mapper.VStr [98%Z]; Mapper.VStr [97%Z]].
Proof.
  exists (fun v => match v with Mapper.VStr [97%Z] => 0%Z | _ => 1%Z end), [(1%Z, 1); (0%Z, 1)], [1%Z; 0%Z].
  split; [|split; reflexivity].
  intros a b [<- | [<- | []]] [<- | [<- | []]] H; try reflexivity; discriminate.
Qed.

(* LinearEmbeddingEncoder: the start/end walk over EMB_DIM tiles each value row exactly *)
Theorem emb_walk_tiles : forall (A : Type) dims start (row : list A),
    length row = start + sum dims ->
    concat (map (fun p => tslice row (fst p) (snd p)) (emb_walk start dims)) = skipn start row.
Proof. exact @EncodersProofs.emb_walk_tiles. Qed.
Print Assumptions emb_walk_tiles.

Theorem emb_walk_widths : forall (A : Type) dims start (row : list A),
    length row = start + sum dims ->
    map (fun p => length (tslice row (fst p) (snd p))) (emb_walk start dims) = dims.
Proof. exact @EncodersProofs.emb_walk_widths. Qed.
Print Assumptions emb_walk_widths.

(* ========================================================================= *)
(* (a') SHAPE.  Every stype encoder returns a tensor of shape [batch, columns, out_channels]: for
   every batch size (the empty batch and a single row included), every encoder class, every NA
   strategy, and every post-module that keeps the length of a cell's vector (post_forward raises
   otherwise).  `channels_ok`: the parameter blocks carrying the channel axis are out_channels
   wide, as init_modules allocates them.  With forward_order / forward_aligned below this gives
   the shape [batch, total feature columns, channels] of the feature encoder's output. *)
Theorem encoder_output_shape : forall (S : Scalar) (c : config S) (x : input S) o,
    wf_config S c -> input_ok S c x -> channels_ok S c ->
    (forall v, length (cf_post S c v) = length v) ->
    forward S c x = Some o ->
    shape_is (input_rows S x) (ncols S c) (cf_channels S c) o.
Proof. exact (fun S c => forward_with_shape S (cf_post S c) c). Qed.
Print Assumptions encoder_output_shape.

(* hypotheses satisfiable; the empty batch of a two-column LinearEncoder has shape [0, 2, 3] *)
Example encoder_output_shape_example :
  let st := [qcs (XFin 1%Q) (XFin 2%Q) [] 0 0%Z [] [] [] 0; qcs (XFin 0%Q) (XFin 0%Q) [] 0 0%Z [] [] [] 0] in
  let c := qconfig (ELinear QS (gmat 0 0 2 3) (gmat 1 0 2 3)) st 3 (Some na_MEAN) in
  wf_config QS c /\ channels_ok QS c /\ input_ok QS c (InNum QS []) /\
  (exists o, forward QS c (InNum QS []) = Some o /\ shape_isb 0 2 3 o = true) /\
  (exists o, forward QS c (InNum QS [[XNaN; XFin 5%Q]]) = Some o /\ shape_isb 1 2 3 o = true).
Proof.
  repeat split; try (vm_compute; reflexivity); try (repeat constructor);
    eexists; split; vm_compute; reflexivity.
Qed.

(* ========================================================================= *)
(* (b) ORDER: the output column axis and the returned names are the same concatenation,
       over the stypes present, in the generated enum order *)
Theorem forward_order : forall (A : Type) cnd fd enc xs ns,
    stypewise_forward A cnd fd enc = Some (xs, ns) ->
    exists parts, Forall2 (part_ok A cnd enc) (tf_stypes fd) parts /\
                  xs = concat (map fst parts) /\ ns = concat (map snd parts).
Proof. exact LazyModuleProofs.forward_order. Qed.
Print Assumptions forward_order.

Theorem forward_aligned : forall (A : Type) cnd fd enc xs ns,
    stypewise_forward A cnd fd enc = Some (xs, ns) -> length xs = length ns.
Proof. exact LazyModuleProofs.forward_aligned. Qed.
Print Assumptions forward_aligned.

(* COLUMN ASSOCIATION ("the column names in the same order as the tensor's column axis"): changing
   one input column of a stype (any of its rows) moves only the corresponding output column of that
   stype's encoder, and torch.cat(xs, dim=1) (StypeWiseFeatureEncoder.forward, model `hcat`) puts
   column k of part p at position width(0) + ... + width(p-1) + k -- the position at which
   forward_order lists its name. *)
Theorem encoder_column_local : forall (S : Scalar) (c : config S) (x x' : input S) o o' k,
    wf_config S c -> input_ok S c x -> input_ok S c x' ->
    forward S c x = Some o -> forward S c x' = Some o' ->
    (forall r j, j <> k -> get2 (cells S (cf_stats S c) x') r j = get2 (cells S (cf_stats S c) x) r j) ->
    forall r j, j <> k -> get2 o' r j = get2 o r j.
Proof. exact (fun S c => forward_with_column_local S (cf_post S c) c). Qed.
Print Assumptions encoder_column_local.

Theorem hcat_position : forall (A : Type) b (xs : list (mat A)) (widths : list nat) o r p k,
    hcat b xs = Some o -> r < b ->
    Forall2 (fun x w => rect w x = true) xs widths ->
    k < nth p widths 0 ->
    get2 o r (col_offset widths p + k) = get2 (nth p xs []) r k.
Proof. exact @EncodersProofs.hcat_position. Qed.
Print Assumptions hcat_position.

Example hcat_position_example :
  hcat 2 [[[1; 2]; [3; 4]]; [[5]; [6]]] = Some [[1; 2; 5]; [3; 4; 6]] /\
  col_position [(st_embedding, 1); (st_numerical, 2)] st_embedding 0 = Some 2 /\
  col_position [(st_embedding, 1); (st_numerical, 2)] st_numerical 1 = Some 1.
Proof. vm_compute. repeat split; reflexivity. Qed.

(* the hypotheses are satisfiable, and dict order does not matter: col_names_dict listed as
   {embedding, multicategorical, categorical} comes out categorical, multicategorical, embedding *)
Example forward_order_example :
  stypewise_forward string
    [(st_embedding, ["e1"; "e2"]%string); (st_multicategorical, ["m"]%string); (st_categorical, ["c"]%string)]
    [(st_embedding, 2); (st_multicategorical, 1); (st_categorical, 1)]
    (fun _ names => Some names)
  = Some (["c"; "m"; "e1"; "e2"]%string, ["c"; "m"; "e1"; "e2"]%string).
Proof. vm_compute. reflexivity. Qed.

(* ========================================================================= *)
(* (c) LAZY MODULES (torch_frame/nn/base.py).  `init_ok` is the subclass's init_modules:
   it may reject the configuration it sees (inadmissible na_strategy, odd out_size, ...), in
   which case the completing statement raises AFTER the missing set was emptied.  `fired` lists
   the configurations init_modules was called with, `built` those it completed with. *)
Theorem init_fires_exactly_once : forall (V : Type) params lazy_attrs init_ok args ops,
    let s := run V params init_ok (state_of (construct V params lazy_attrs init_ok args)) ops in
    (missing s = [] -> exists snap, fired s = [snap]) /\ (missing s <> [] -> fired s = []).
Proof. exact fires_exactly_once. Qed.
Print Assumptions init_fires_exactly_once.

Theorem use_iff_complete : forall (V : Type) (s : mstate V),
    (missing s <> [] -> use V s = None) /\ (missing s = [] -> use V s = Some tt).
Proof. exact LazyModuleProofs.use_iff_complete. Qed.
Print Assumptions use_iff_complete.

(* Once complete, later assignments never rebuild.  This is the module as written; it is also
   why an encoder object that was already completed for one dataset keeps that dataset's
   statistics when the same object is handed to a second StypeWiseFeatureEncoder: re-use of
   completed encoder objects across datasets is OUTSIDE C12's quantifier ("the stype-wise
   feature encoder built from the dataset's statistics" presupposes encoders that are not yet
   completed), and every case of the check builds fresh encoder objects. *)
Theorem frozen_after_fire : forall (V : Type) params init_ok ops (s : mstate V),
    missing s = [] ->
    fired (run V params init_ok s ops) = fired s /\ missing (run V params init_ok s ops) = [].
Proof. exact LazyModuleProofs.frozen_after_fire. Qed.
Print Assumptions frozen_after_fire.

(* A statement raises exactly when it completes the module with a configuration init_modules
   rejects.  Afterwards the module is "fully specified", passes the validate() guard, and is
   built from nothing -- it was rejected, but it does not refuse through validate(). *)
Theorem completing_assignment_raises : forall (V : Type) params init_ok (s : mstate V) k v,
    Inv V s ->
    is_raised (setattr V params init_ok s k v) = true ->
    let s' := state_of (setattr V params init_ok s k v) in
    missing s' = [] /\ use V s' = Some tt /\ built V init_ok s' = [] /\
    exists snap, fired s' = [snap] /\ init_ok snap = false.
Proof. exact setattr_raises_iff. Qed.
Print Assumptions completing_assignment_raises.

Theorem constructed_invariant : forall (V : Type) params lazy_attrs init_ok args ops,
    Inv V (run V params init_ok (state_of (construct V params lazy_attrs init_ok args)) ops).
Proof. intros. apply run_inv. apply construct_inv. Qed.
Print Assumptions constructed_invariant.

(* eager construction calls init_modules on the target configuration and raises iff rejected *)
Theorem eager_builds_target : forall (V : Type) params lazy_attrs init_ok (vals : string -> option V),
    NoDup params ->
    (forall k, mem k lazy_attrs = true -> In k params /\ vals k <> None) ->
    let o := construct V params lazy_attrs init_ok (map vals params) in
    missing (state_of o) = [] /\ fired (state_of o) = [target V params vals] /\
    is_raised o = negb (init_ok (target V params vals)).
Proof. exact LazyModuleProofs.eager_builds_target. Qed.
Print Assumptions eager_builds_target.

(* any order, any interleaving, re-assignments, None assigned to still-missing attributes:
   when the module completes, init_modules is called on exactly the configuration the eager
   constructor would have seen (hence it is rejected lazily iff it is rejected eagerly) *)
Theorem lazy_any_order_builds_target :
  forall (V : Type) params lazy_attrs init_ok (vals : string -> option V) args ops,
    NoDup params -> length args = length params ->
    Forall (consistent V lazy_attrs vals) (combine params args) -> Forall (consistent V lazy_attrs vals) ops ->
    let s0 := state_of (construct V params lazy_attrs init_ok args) in
    clobber_free V params lazy_attrs init_ok s0 ops = true ->
    missing (run V params init_ok s0 ops) = [] ->
    fired (run V params init_ok s0 ops) = [target V params vals].
Proof. exact LazyModuleProofs.lazy_any_order_builds_target. Qed.
Print Assumptions lazy_any_order_builds_target.

(* the generated signature of StypeEncoder satisfies the hypotheses above *)
Theorem stype_encoder_signature_ok :
  NoDup stype_encoder_params /\
  (forall k, mem k stype_encoder_lazy_attrs = true -> In k stype_encoder_params).
Proof. exact LazyModuleProofs.stype_encoder_signature_ok. Qed.
Print Assumptions stype_encoder_signature_ok.

(* a half-configured module: stats_list given, then out_channels, use attempted, then stype *)
Example lazy_example :
  let ok := fun _ : list (string * option nat) => true in
  let s0 := state_of (construct nat stype_encoder_params stype_encoder_lazy_attrs ok [None; Some 7; None; Some 1; None]) in
  let s1 := run nat stype_encoder_params ok s0 [("out_channels"%string, Some 4); ("stype"%string, None)] in
  let s2 := run nat stype_encoder_params ok s1 [("stype"%string, Some 2); ("out_channels"%string, Some 9)] in
  use nat s1 = None /\ fired s1 = [] /\ use nat s2 = Some tt /\
  fired s2 = [[("out_channels"%string, Some 4); ("stats_list"%string, Some 7); ("stype"%string, Some 2);
               ("post_module"%string, Some 1); ("na_strategy"%string, None)]].
Proof. vm_compute. repeat split; reflexivity. Qed.

(* the hypotheses of lazy_any_order_builds_target on that sequence (target: out_channels 4,
   stats_list 7, stype 2, post_module 1), and a configuration init_modules rejects
   (na_strategy = 6): the completing assignment raises, the module stays unbuilt *)
Example lazy_hypotheses_example :
  let vals := fun k : string => if String.eqb k "out_channels" then Some 4 else if String.eqb k "stats_list" then Some 7
                                else if String.eqb k "stype" then Some 2 else if String.eqb k "post_module" then Some 1
                                else None in
  let args := [None; Some 7; None; Some 1; None] in
  let ops := [("out_channels"%string, Some 4); ("stype"%string, None); ("stype"%string, Some 2)] in
  let ok := fun _ : list (string * option nat) => true in
  Forall (consistent nat stype_encoder_lazy_attrs vals) (combine stype_encoder_params args) /\
  Forall (consistent nat stype_encoder_lazy_attrs vals) ops /\
  clobber_free nat stype_encoder_params stype_encoder_lazy_attrs ok
               (state_of (construct nat stype_encoder_params stype_encoder_lazy_attrs ok args)) ops = true /\
  let bad := probe_init_ok (Some 6) in
  let o := setattr nat stype_encoder_params bad
                   (state_of (construct nat stype_encoder_params stype_encoder_lazy_attrs bad
                                        [Some 4; Some 7; None; Some 1; Some 6])) "stype"%string (Some 2) in
  is_raised o = true /\ use nat (state_of o) = Some tt /\ built nat bad (state_of o) = [].
Proof.
  repeat split; try (vm_compute; reflexivity);
    repeat (constructor; try (left; reflexivity); try (right; split; reflexivity)).
Qed.

(* StypeWiseFeatureEncoder.__init__: child-stype keys and unsupported pairings are rejected *)
Theorem stypewise_init_spec : forall (Enc : Type) (supported : Enc -> list stype) keys d,
    stypewise_init Enc supported keys d =
    (if forallb (key_ok Enc supported) d then Some (filter (fun p => stype_in (fst p) keys) d) else None).
Proof. exact init_some_iff. Qed.
Print Assumptions stypewise_init_spec.

Theorem stypewise_init_rejects : forall (Enc : Type) (supported : Enc -> list stype) keys d s e,
    In (s, e) d -> (stype_eqb s (stype_parent s) = false \/ stype_in s (supported e) = false) ->
    stypewise_init Enc supported keys d = None.
Proof. exact init_rejects. Qed.
Print Assumptions stypewise_init_rejects.

(* the generated supported_stypes of every built-in class is exactly its documented table *)
Theorem supported_is_documented :
  forall e s, stype_in s (encoder_supported e) = true -> stype_in s (documented_stypes e) = true.
Proof. exact LazyModuleProofs.supported_is_documented. Qed.
Print Assumptions supported_is_documented.

Theorem documented_is_supported :
  forall e s, stype_in s (documented_stypes e) = true -> stype_in s (encoder_supported e) = true.
Proof. exact LazyModuleProofs.documented_is_supported. Qed.
Print Assumptions documented_is_supported.
