(* C12 -- feature encoder: column order, domain contract between mappers and encoders,
   lazily configured modules, rejected pairings.  Statements only; every proof is
   `exact <lemma of Proofs/...>`.  Shapes and finiteness of torch outputs are observed by
   the check (harness/c12.py), not proved. *)
From Coq Require Import String List ZArith QArith Bool Arith.
From PF Require Import Lib.ListX Lib.Calendar Gen.Tables Model.LazyModule Model.Encoders.
From PF Require Import Proofs.LazyModuleProofs Proofs.EncodersProofs.
Import ListNotations.
Local Close Scope Q_scope.
Local Close Scope Z_scope.
Local Open Scope nat_scope.

(* ========================================================================= *)
(* (a) DOMAIN CONTRACT: what the mappers emit for the data the statistics were
       computed from lies inside what the encoders built from those statistics accept *)

(* EmbeddingEncoder: per-column blocks of one table, the +1 shift, padding row 0 *)
Theorem cat_index_in_table : forall (S : Scalar) (stats : list (colstats S)) j x,
    j < length stats -> (-1 <= x < Z.of_nat (nth j (ncats S stats) 0%nat))%Z ->
    let i := emb_index x (nth j (emb_offset S stats) 0) in
    (0 <= i < Z.of_nat (emb_table_size S stats))%Z /\
    ((0 <= x)%Z -> (1 <= i)%Z) /\ ((x < 0)%Z -> i = 0%Z).
Proof. exact EncodersProofs.cat_index_in_table. Qed.
Print Assumptions cat_index_in_table.

Theorem cat_index_injective : forall (S : Scalar) (stats : list (colstats S)) j x j' x',
    j < length stats -> j' < length stats ->
    (0 <= x < Z.of_nat (nth j (ncats S stats) 0%nat))%Z -> (0 <= x' < Z.of_nat (nth j' (ncats S stats) 0%nat))%Z ->
    emb_index x (nth j (emb_offset S stats) 0) = emb_index x' (nth j' (emb_offset S stats) 0) ->
    j = j' /\ x = x'.
Proof. exact EncodersProofs.cat_index_injective. Qed.
Print Assumptions cat_index_injective.

Theorem cat_domain_no_raise : forall (S : Scalar) (stats : list (colstats S)) (table : mat (car S)) feat,
    cat_in_domain (ncats S stats) feat = true ->
    length table = emb_table_size S stats ->
    encode_embedding S stats table feat <> None.
Proof. exact EncodersProofs.cat_domain_no_raise. Qed.
Print Assumptions cat_domain_no_raise.

(* MultiCategoricalEmbeddingEncoder: index + 1 inside each bag's own table *)
Theorem bag_index_in_table : forall ncat z,
    (-1 <= z < Z.of_nat ncat)%Z -> (0 <= z + 1 < Z.of_nat (ncat + 1))%Z /\ ((z = -1)%Z <-> (z + 1 = 0)%Z).
Proof. exact EncodersProofs.bag_index_in_table. Qed.
Print Assumptions bag_index_in_table.

(* with the table init_modules allocates, max(ncat, 1) + 1 rows, also the index that the
   ZEROS strategy imputes (category 0) is inside -- even for a column without any category *)
Theorem bag_fill_in_table : forall ncat z,
    (-1 <= z < Z.of_nat ncat)%Z \/ z = 0%Z -> (0 <= z + 1 < Z.of_nat (bag_table_rows ncat))%Z.
Proof. exact EncodersProofs.bag_fill_in_table. Qed.
Print Assumptions bag_fill_in_table.

Theorem bag_domain_no_raise : forall (S : Scalar) (stats : list (colstats S)) mode ch (tables : list (mat (car S))) feat,
    bag_in_domain (ncats S stats) feat = true ->
    length tables = length stats ->
    (forall j, j < length stats -> nth j (ncats S stats) 0 + 1 <= length (nth j tables [])) ->
    encode_bags S mode ch tables feat <> None.
Proof. exact EncodersProofs.bag_domain_no_raise. Qed.
Print Assumptions bag_domain_no_raise.

(* TimestampEncoder: year - min_year >= 0 for every year the YEAR_RANGE was fitted on *)
Theorem year_in_fitted_range : forall ys lo hi y,
    year_range ys = Some (lo, hi) -> In y ys -> (0 <= y - lo)%Z /\ (y <= hi)%Z.
Proof. exact EncodersProofs.year_in_fitted_range. Qed.
Print Assumptions year_in_fitted_range.

(* the generated TIME_TO_INDEX / CYCLIC_VALUES_NORMALIZATION_CONSTANT against the component
   ranges month-1 <= 11, day-1 <= 30, weekday <= 6, hour <= 23, minute <= 59, second <= 59
   (finite table, by computation on Gen/Tables.v) *)
Theorem calendar_table_ok :
  forallb (fun nb => match norm_constant_of (fst nb) with
                     | Some c => (0 <? c)%Z && (snd nb <=? c)%Z
                     | None => false
                     end) calendar_bounds = true
  /\ assoc_str time_to_index "YEAR"%string = Some 0
  /\ length cyclic_norm_constants = length calendar_bounds
  /\ length time_to_index = Datatypes.S (length cyclic_norm_constants).
Proof. exact EncodersProofs.calendar_table_ok. Qed.
Print Assumptions calendar_table_ok.

Theorem cyclic_component_in_unit : forall name bound v,
    In (name, bound) calendar_bounds -> (0 <= v <= bound)%Z ->
    exists c, norm_constant_of name = Some c /\ unit_ok v c = true /\
              (0 <= inject_Z v / inject_Z c)%Q /\ (inject_Z v / inject_Z c <= 1)%Q.
Proof. exact EncodersProofs.cyclic_component_in_unit. Qed.
Print Assumptions cyclic_component_in_unit.

(* with the calendar of Lib/Calendar.v (ranges proved for every instant): the cell the
   mapper emits for ANY parsed instant passes both encodings' assertions *)
Theorem calendar_cell_in_domain : forall s min_year,
    (min_year <= year_of_days (days_of_secs s))%Z -> time_cell_in_domain min_year (calendar_cell s) = true.
Proof. exact EncodersProofs.calendar_cell_in_domain. Qed.
Print Assumptions calendar_cell_in_domain.

Theorem time_domain_no_raise : forall (S : Scalar) (stats : list (colstats S)) ch half pm w b feat,
    time_in_domain (map cs_year_min stats) feat = true ->
    length w = length stats -> length b = length stats ->
    encode_timestamp S stats ch half pm w b cyclic_norm_constants feat <> None.
Proof. exact EncodersProofs.time_domain_no_raise. Qed.
Print Assumptions time_domain_no_raise.

(* LinearEmbeddingEncoder: the start/end walk over EMB_DIM tiles each value row exactly *)
Theorem emb_walk_tiles : forall (A : Type) dims start (row : list A),
    length row = start + sum dims ->
    concat (map (fun p => tslice row (fst p) (snd p)) (emb_walk start dims)) = skipn start row.
Proof. exact @EncodersProofs.emb_walk_tiles. Qed.
Print Assumptions emb_walk_tiles.

Theorem emb_walk_widths : forall (A : Type) dims start (row : list A),
    length row = start + sum dims ->
    map (fun p => length (tslice row (fst p) (snd p))) (emb_walk start dims) = dims.
Proof. exact @EncodersProofs.emb_walk_widths. Qed.
Print Assumptions emb_walk_widths.

(* ========================================================================= *)
(* (b) ORDER: the output column axis and the returned names are the same concatenation,
       over the stypes present, in the generated enum order *)
Theorem forward_order : forall (A : Type) cnd fd enc xs ns,
    stypewise_forward A cnd fd enc = Some (xs, ns) ->
    exists parts, Forall2 (part_ok A cnd enc) (tf_stypes fd) parts /\
                  xs = concat (map fst parts) /\ ns = concat (map snd parts).
Proof. exact LazyModuleProofs.forward_order. Qed.
Print Assumptions forward_order.

Theorem forward_aligned : forall (A : Type) cnd fd enc xs ns,
    stypewise_forward A cnd fd enc = Some (xs, ns) -> length xs = length ns.
Proof. exact LazyModuleProofs.forward_aligned. Qed.
Print Assumptions forward_aligned.

(* the hypotheses are satisfiable, and dict order does not matter: col_names_dict listed as
   {embedding, multicategorical, categorical} comes out categorical, multicategorical, embedding *)
Example forward_order_example :
  stypewise_forward string
    [(st_embedding, ["e1"; "e2"]%string); (st_multicategorical, ["m"]%string); (st_categorical, ["c"]%string)]
    [(st_embedding, 2); (st_multicategorical, 1); (st_categorical, 1)]
    (fun _ names => Some names)
  = Some (["c"; "m"; "e1"; "e2"]%string, ["c"; "m"; "e1"; "e2"]%string).
Proof. vm_compute. reflexivity. Qed.

(* ========================================================================= *)
(* (c) LAZY MODULES (torch_frame/nn/base.py) *)
Theorem init_fires_exactly_once : forall (V : Type) params lazy_attrs args ops,
    exists s0 s, construct V params lazy_attrs args = Some s0 /\ run V params s0 ops = Some s /\
                 (missing s = [] -> exists snap, fired s = [snap]) /\
                 (missing s <> [] -> fired s = []).
Proof. exact fires_exactly_once. Qed.
Print Assumptions init_fires_exactly_once.

Theorem use_iff_complete : forall (V : Type) (s : mstate V),
    (missing s <> [] -> use V s = None) /\ (missing s = [] -> use V s = Some tt).
Proof. exact LazyModuleProofs.use_iff_complete. Qed.
Print Assumptions use_iff_complete.

Theorem frozen_after_fire : forall (V : Type) params ops (s s' : mstate V),
    missing s = [] -> run V params s ops = Some s' -> fired s' = fired s /\ missing s' = [].
Proof. exact LazyModuleProofs.frozen_after_fire. Qed.
Print Assumptions frozen_after_fire.

Theorem eager_builds_target : forall (V : Type) params lazy_attrs (vals : string -> option V),
    NoDup params ->
    (forall k, mem k lazy_attrs = true -> In k params /\ vals k <> None) ->
    exists s, construct V params lazy_attrs (map vals params) = Some s /\ missing s = [] /\
              fired s = [target V params vals].
Proof. exact LazyModuleProofs.eager_builds_target. Qed.
Print Assumptions eager_builds_target.

(* any order, any interleaving, re-assignments, None assigned to still-missing attributes:
   when the module completes it is built from exactly the configuration the eager
   constructor would have seen *)
Theorem lazy_any_order_builds_target : forall (V : Type) params lazy_attrs (vals : string -> option V) args ops,
    NoDup params -> length args = length params ->
    Forall (consistent V lazy_attrs vals) (combine params args) -> Forall (consistent V lazy_attrs vals) ops ->
    exists s0 s, construct V params lazy_attrs args = Some s0 /\ run V params s0 ops = Some s /\
                 (clobber_free V params lazy_attrs s0 ops = true -> missing s = [] ->
                  fired s = [target V params vals]).
Proof. exact LazyModuleProofs.lazy_any_order_builds_target. Qed.
Print Assumptions lazy_any_order_builds_target.

(* the generated signature of StypeEncoder satisfies the hypotheses above *)
Theorem stype_encoder_signature_ok :
  NoDup stype_encoder_params /\
  (forall k, mem k stype_encoder_lazy_attrs = true -> In k stype_encoder_params).
Proof. exact LazyModuleProofs.stype_encoder_signature_ok. Qed.
Print Assumptions stype_encoder_signature_ok.

(* a half-configured module: stats_list given, then out_channels, use attempted, then stype *)
Example lazy_example :
  let s0 := construct nat stype_encoder_params stype_encoder_lazy_attrs [None; Some 7; None; Some 1; None] in
  match s0 with
  | Some s0 =>
      match run nat stype_encoder_params s0 [("out_channels"%string, Some 4); ("stype"%string, None)] with
      | Some s1 =>
          use nat s1 = None /\ fired s1 = [] /\
          match run nat stype_encoder_params s1 [("stype"%string, Some 2); ("out_channels"%string, Some 9)] with
          | Some s2 => use nat s2 = Some tt /\
                       fired s2 = [[("out_channels"%string, Some 4); ("stats_list"%string, Some 7);
                                    ("stype"%string, Some 2); ("post_module"%string, Some 1);
                                    ("na_strategy"%string, None)]]
          | None => False
          end
      | None => False
      end
  | None => False
  end.
Proof. vm_compute. repeat split; reflexivity. Qed.

(* StypeWiseFeatureEncoder.__init__: child-stype keys and unsupported pairings are rejected *)
Theorem stypewise_init_spec : forall (Enc : Type) (supported : Enc -> list stype) keys d,
    stypewise_init Enc supported keys d =
    (if forallb (key_ok Enc supported) d then Some (filter (fun p => stype_in (fst p) keys) d) else None).
Proof. exact init_some_iff. Qed.
Print Assumptions stypewise_init_spec.

Theorem stypewise_init_rejects : forall (Enc : Type) (supported : Enc -> list stype) keys d s e,
    In (s, e) d -> (stype_eqb s (stype_parent s) = false \/ stype_in s (supported e) = false) ->
    stypewise_init Enc supported keys d = None.
Proof. exact init_rejects. Qed.
Print Assumptions stypewise_init_rejects.

(* the generated supported_stypes of every built-in class is exactly its documented table *)
Theorem supported_is_documented :
  forall e s, stype_in s (encoder_supported e) = true -> stype_in s (documented_stypes e) = true.
Proof. exact LazyModuleProofs.supported_is_documented. Qed.
Print Assumptions supported_is_documented.

Theorem documented_is_supported :
  forall e s, stype_in s (documented_stypes e) = true -> stype_in s (encoder_supported e) = true.
Proof. exact LazyModuleProofs.documented_is_supported. Qed.
Print Assumptions documented_is_supported.
