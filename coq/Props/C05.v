(* C05 — ragged containers: every selection equals the same selection on nested
   lists.  Statements only; every proof is `exact <lemma of Proofs/...>`. *)
From Coq Require Import List ZArith Arith Bool.
From PF Require Import Lib.ListX Lib.PySlice Model.Ragged Model.RaggedSpec.
From PF Require Import Model.RaggedRun Model.RaggedCat Model.RaggedStore.
From PF Require Import Proofs.MntProofs Proofs.MetProofs Proofs.RaggedEntryProofs Proofs.RaggedStoreSelect Proofs.RaggedStoreSelectMet Proofs.RaggedStoreProofs Proofs.MaskFacts Proofs.MaskRagged.
Import ListNotations.

Section C05.
  Variable A : Type.

  (* _batched_arange as written (cumsum / repeat_interleave / ptr[batch]) equals its docstring *)
  Theorem batched_arange_docstring : forall count : list nat,
    batched_arange count =
      (concat (map (fun p => repeat (fst p) (snd p)) (combine (seq 0 (length count)) count)),
       concat (map (fun c => seq 0 c) count)).
  Proof. exact batched_arange_spec. Qed.

  (* MultiNestedTensor: any index expression on either axis.  The result is the
     canonical container of the nested-list selection; where the list selection
     is an error (out-of-range integer, non-positive step, bad mask) the
     container raises. *)
  Theorem mnt_select_refines : forall (c : nat) (m : cellmat A) (ix : index) (dim : nat),
    rect c m -> dim < 2 ->
    select A _ (mnt_kernels A) (mnt_of_cells c m) ix dim =
    match py_positions (if dim =? 0 then length m else c) ix with
    | Some pos => Some (mnt_of_cells (if dim =? 0 then c else length pos) (pick dim pos m))
    | None => None
    end.
  Proof. exact (mnt_select_refines_proof A). Qed.

  (* the selected matrix is again rectangular, so the result is well-formed and
     usable in any further operation *)
  Theorem pick_rect : forall (c : nat) (m : cellmat A) (ix : index) (dim : nat) (pos : list nat),
    rect c m -> dim < 2 ->
    py_positions (if dim =? 0 then length m else c) ix = Some pos ->
    rect (if dim =? 0 then c else length pos) (pick dim pos m).
  Proof. exact (pick_rect_proof A). Qed.

  Theorem mnt_get_value_spec : forall (c : nat) (m : cellmat A) (i j : nat),
    rect c m -> i < length m -> j < c ->
    mnt_get_value A (mnt_of_cells c m) i j = Some (nth j (nth i m []) []).
  Proof. exact (mnt_get_value_proof A). Qed.

  (* t[i, j] with two integers: negative indices wrap, out of range raises *)
  Theorem mnt_getitem_ints : forall (c : nat) (m : cellmat A) (i j : Z),
    rect c m ->
    getitem_pair A _ (mnt_kernels A) (mnt_of_cells c m) (IInt i) (IInt j) =
    match norm_index (length m) i, norm_index c j with
    | Some i', Some j' => Some (ItemValue A _ (nth j' (nth i' m []) []))
    | _, _ => None
    end.
  Proof. exact (mnt_getitem_ints_proof A). Qed.

  (* arbitrary programs (chains) of selections, including through empties *)
  Fixpoint spec_prog (c : nat) (m : cellmat A) (p : list (nat * index)) : option (nat * cellmat A) :=
    match p with
    | [] => Some (c, m)
    | (d, ix) :: rest =>
        match py_positions (if d =? 0 then length m else c) ix with
        | Some pos => spec_prog (if d =? 0 then c else length pos) (pick d pos m) rest
        | None => None
        end
    end.
  Fixpoint mnt_prog (t : mnt A) (p : list (nat * index)) : option (mnt A) :=
    match p with
    | [] => Some t
    | (d, ix) :: rest => match select A _ (mnt_kernels A) t ix d with Some t' => mnt_prog t' rest | None => None end
    end.

  Theorem mnt_program_refines : forall (p : list (nat * index)) (c : nat) (m : cellmat A),
    rect c m -> Forall (fun s => fst s < 2) p ->
    mnt_prog (mnt_of_cells c m) p = option_map (fun cm => mnt_of_cells (fst cm) (snd cm)) (spec_prog c m p)
    /\ (forall c' m', spec_prog c m p = Some (c', m') -> rect c' m').
  Proof.
    (* by induction on p from mnt_select_refines and pick_rect *)
    induction p as [|[d ix] rest IH]; intros c m Hr Hp.
    - simpl. split; [reflexivity|]. intros c' m' H. injection H as <- <-. exact Hr.
    - inversion Hp as [|x l Hd Hrest]; subst. simpl in Hd.
      cbn [mnt_prog spec_prog]. rewrite (mnt_select_refines c m ix d Hr Hd).
      destruct (py_positions (if d =? 0 then length m else c) ix) as [pos|] eqn:E.
      + apply IH; [|exact Hrest]. exact (pick_rect c m ix d pos Hr Hd E).
      + split; [reflexivity|discriminate].
  Qed.

  (* well-formedness is intrinsic: exactly the validate() facts plus monotone offsets *)
  Theorem mnt_wf_intrinsic : forall t : mnt A, mnt_wf t <-> mnt_valid t.
  Proof. exact (mnt_wf_intrinsic_proof A). Qed.

  (* MultiEmbeddingTensor *)
  Theorem met_select_refines : forall (ws : list nat) (m : cellmat A) (ix : index) (dim : nat),
    rect_w ws m -> dim < 2 ->
    select A _ (met_kernels A) (met_of_cells ws m) ix dim =
    match py_positions (if dim =? 0 then length m else length ws) ix with
    | Some pos => Some (met_of_cells (pick_ws dim pos ws) (pick dim pos m))
    | None => None
    end.
  Proof. exact (met_select_refines_proof A). Qed.

  Theorem pick_rect_w : forall (ws : list nat) (m : cellmat A) (ix : index) (dim : nat) (pos : list nat),
    rect_w ws m -> dim < 2 ->
    py_positions (if dim =? 0 then length m else length ws) ix = Some pos ->
    rect_w (pick_ws dim pos ws) (pick dim pos m).
  Proof. exact (pick_rect_w_proof A). Qed.

  Theorem met_get_value_spec : forall (ws : list nat) (m : cellmat A) (i j : nat),
    rect_w ws m -> i < length m -> j < length ws ->
    met_get_value A (met_of_cells ws m) i j = Some (nth j (nth i m []) []).
  Proof. exact (met_get_value_proof A). Qed.

  (* MultiEmbeddingTensor: t[i, j] with two integers, negatives wrap, out of range raises *)
  Theorem met_getitem_ints : forall (ws : list nat) (m : cellmat A) (i j : Z),
    rect_w ws m ->
    getitem_pair A _ (met_kernels A) (met_of_cells ws m) (IInt i) (IInt j) =
    match norm_index (length m) i, norm_index (length ws) j with
    | Some i', Some j' => Some (ItemValue A _ (nth j' (nth i' m []) []))
    | _, _ => None
    end.
  Proof.
    intros ws m i j H. unfold getitem_pair. cbn [met_kernels k_rows k_cols k_get_value].
    change (er (met_of_cells ws m)) with (length m). change (ec (met_of_cells ws m)) with (length ws).
    destruct (norm_index (length m) i) as [i'|] eqn:Ei; cbn [obind]; [|reflexivity].
    destruct (norm_index (length ws) j) as [j'|] eqn:Ej; cbn [obind]; [|reflexivity].
    apply norm_index_lt in Ei. apply norm_index_lt in Ej.
    rewrite (met_get_value_proof A ws m i' j' H Ei Ej). reflexivity.
  Qed.

  (* t[i, j] with a non-integer component is exactly "select rows, then columns" (both containers):
     the "rows, columns or both" clause *)
  Theorem getitem_pair_is_rows_then_cols : forall (T : Type) (K : kernels A T) (t : T) (i j : index),
    (forall a b, i = IInt a -> j = IInt b -> False) ->
    getitem_pair A T K t i j =
    match select A T K t i 0 with
    | Some t1 => option_map (ItemTensor A T) (select A T K t1 j 1)
    | None => None
    end.
  Proof.
    intros T K t i j Hn. unfold getitem_pair.
    destruct i as [a| | | | |]; try (destruct (select A T K t _ 0); cbn [obind]; [destruct (select A T K _ j 1); reflexivity | reflexivity]).
    destruct j as [b| | | | |]; try (destruct (select A T K t _ 0); cbn [obind]; [destruct (select A T K _ _ 1); reflexivity | reflexivity]).
    exfalso. exact (Hn a b eq_refl eq_refl).
  Qed.

  (* arbitrary programs of selections on the embedding container *)
  Fixpoint spec_prog_w (ws : list nat) (m : cellmat A) (p : list (nat * index)) : option (list nat * cellmat A) :=
    match p with
    | [] => Some (ws, m)
    | (d, ix) :: rest =>
        match py_positions (if d =? 0 then length m else length ws) ix with
        | Some pos => spec_prog_w (pick_ws d pos ws) (pick d pos m) rest
        | None => None
        end
    end.
  Fixpoint met_prog (t : met A) (p : list (nat * index)) : option (met A) :=
    match p with
    | [] => Some t
    | (d, ix) :: rest => match select A _ (met_kernels A) t ix d with Some t' => met_prog t' rest | None => None end
    end.

  Theorem met_program_refines : forall (p : list (nat * index)) (ws : list nat) (m : cellmat A),
    rect_w ws m -> Forall (fun s => fst s < 2) p ->
    met_prog (met_of_cells ws m) p = option_map (fun wm => met_of_cells (fst wm) (snd wm)) (spec_prog_w ws m p)
    /\ (forall ws' m', spec_prog_w ws m p = Some (ws', m') -> rect_w ws' m').
  Proof.
    induction p as [|[d ix] rest IH]; intros ws m Hr Hp.
    - simpl. split; [reflexivity|]. intros ws' m' H. injection H as <- <-. exact Hr.
    - inversion Hp as [|x l Hd Hrest]; subst. simpl in Hd.
      cbn [met_prog spec_prog_w]. rewrite (met_select_refines_proof A ws m ix d Hr Hd).
      destruct (py_positions (if d =? 0 then length m else length ws) ix) as [pos|] eqn:E.
      + apply IH; [|exact Hrest]. exact (pick_rect_w_proof A ws m ix d pos Hr Hd E).
      + split; [reflexivity|discriminate].
  Qed.

  (* ------------------------------------------------------------------ *)
  (* The other public entry points.  narrow(dim, start, length) called directly
     (start >= 0 is asserted by the code; a window that fits the axis): exactly the
     contiguous selection range(start, start+length), as a canonical container.
     A window that overshoots the axis from start > 0 is outside C05's quantifier
     (narrow is not an IndexSelectType; torch.narrow rejects it, the library does
     not check) and is not claimed. *)
  Theorem mnt_narrow_refines : forall (c : nat) (m : cellmat A) (dim start len : nat),
    rect c m -> dim < 2 ->
    start + len <= (if dim =? 0 then length m else c) ->
    narrow A _ (mnt_kernels A) (mnt_of_cells c m) dim start (Z.of_nat len) =
    Some (mnt_of_cells (if dim =? 0 then c else len) (pick dim (seq start len) m)).
  Proof. exact (mnt_narrow_refines_proof A). Qed.

  Theorem met_narrow_refines : forall (ws : list nat) (m : cellmat A) (dim start len : nat),
    rect_w ws m -> dim < 2 ->
    start + len <= (if dim =? 0 then length m else length ws) ->
    narrow A _ (met_kernels A) (met_of_cells ws m) dim start (Z.of_nat len) =
    Some (met_of_cells (pick_ws dim (seq start len) ws) (pick dim (seq start len) m)).
  Proof. exact (met_narrow_refines_proof A). Qed.

  (* narrow(dim, 0, length >= size) is the container itself (both containers) *)
  Theorem narrow_whole : forall (T : Type) (K : kernels A T) (t : T) (dim : nat) (len : Z),
    (Z.of_nat (size A T K t dim) <= len)%Z -> narrow A T K t dim 0 len = Some t.
  Proof. exact (narrow_whole_proof A). Qed.

  (* a non-positive length selects nothing *)
  Theorem mnt_narrow_nonpositive : forall (c : nat) (m : cellmat A) (dim start : nat) (len : Z),
    rect c m -> dim < 2 -> (len <= 0)%Z ->
    narrow A _ (mnt_kernels A) (mnt_of_cells c m) dim start len =
    Some (mnt_of_cells (if dim =? 0 then c else 0) (pick dim [] m)).
  Proof. exact (mnt_narrow_nonpositive_proof A). Qed.

  Theorem met_narrow_nonpositive : forall (ws : list nat) (m : cellmat A) (dim start : nat) (len : Z),
    rect_w ws m -> dim < 2 -> (len <= 0)%Z ->
    narrow A _ (met_kernels A) (met_of_cells ws m) dim start len =
    Some (met_of_cells (pick_ws dim [] ws) (pick dim [] m)).
  Proof. exact (met_narrow_nonpositive_proof A). Qed.

  (* ------------------------------------------------------------------ *)
  (* "No selection modifies its source", and what is a view.  Store level
     (Model/RaggedStore.v: the values of an object are a window of a numbered
     storage; n_place says where a selection puts its result - the same object,
     a VIEW of the source's storage (an integer row, a contiguous row slice) or a
     fresh storage - and is compared with the library's data pointers on every
     run by the C06 store programs).  For every index expression on either axis:
     the returned object reads back as exactly the pure selection result, every
     object that existed before reads the same afterwards, and the store is
     unchanged or extended by one fresh storage - a selection never writes. *)
  Theorem mnt_select_store_sound : forall (st st' : list (list A)) (h r : hmnt) (t : mnt A) (ix : index) (dim : nat),
    dim < 2 -> n_read A st h = Some t -> mnt_valid t ->
    n_select A st h ix dim = Some (st', r) ->
    n_read A st' r = select A _ (mnt_kernels A) t ix dim
    /\ (forall h0, n_buf h0 < length st -> n_read A st' h0 = n_read A st h0)
    /\ (st' = st \/ exists b, st' = st ++ [b]).
  Proof. exact (mnt_select_store_sound_proof A). Qed.

  (* MultiEmbeddingTensor objects (values = a row / column window of a 2-D storage): a selection never writes -
     every object that existed before reads the same, at most one storage is allocated. *)
  Theorem met_select_store_frame : forall (st st' : list (list (list A))) (h r : hmet) (ix : index) (dim : nat),
    e_select A st h ix dim = Some (st', r) ->
    (forall h0, e_buf h0 < length st -> e_read A st' h0 = e_read A st h0)
    /\ (st' = st \/ exists b, st' = st ++ [b]).
  Proof. exact (met_select_store_frame_proof A). Qed.

  (* MultiEmbeddingTensor: full store-level soundness.  For every index expression on either axis the returned
     object - the same object, a ROW-window view (integer row / contiguous row slice), a COLUMN-window view
     (integer column / contiguous column slice, window [c0 + offs[lo], c0 + offs[hi])) or a fresh storage -
     reads back as exactly the pure selection result; nothing that existed changes; at most one allocation. *)
  Theorem met_select_store_sound :
    forall (st st' : list (list (list A))) (h r : hmet) (ws : list nat) (m : cellmat A) (ix : index) (dim : nat),
    dim < 2 -> rect_w ws m -> e_read A st h = Some (met_of_cells ws m) ->
    e_select A st h ix dim = Some (st', r) ->
    e_read A st' r = select A _ (met_kernels A) (met_of_cells ws m) ix dim
    /\ (forall h0, e_buf h0 < length st -> e_read A st' h0 = e_read A st h0)
    /\ (st' = st \/ exists b, st' = st ++ [b]).
  Proof. exact (met_select_store_sound_proof A). Qed.
  (* The boolean mask in plain terms (Proofs/MaskFacts.v, Proofs/MaskRagged.v).  `py_positions` gives a mask the
     meaning the code gives it (mask.nonzero().flatten(), then the positional selection); these four say that on
     either axis of either container this keeps EXACTLY the rows (columns) whose entry is True, each once, in their
     original order -- `keep_true mk l = map fst (filter snd (combine l mk))` -- with count_true mk columns left,
     and that a mask of any other length raises. *)
  Theorem mnt_mask_rows_plain : forall (c : nat) (m : cellmat A) (mk : list bool),
    rect c m ->
    select A _ (mnt_kernels A) (mnt_of_cells c m) (IMask mk) 0 =
    if (length mk =? length m)%nat then Some (mnt_of_cells c (keep_true mk m)) else None.
  Proof. exact (mnt_mask_rows_proof A). Qed.

  Theorem mnt_mask_cols_plain : forall (c : nat) (m : cellmat A) (mk : list bool),
    rect c m ->
    select A _ (mnt_kernels A) (mnt_of_cells c m) (IMask mk) 1 =
    if (length mk =? c)%nat then Some (mnt_of_cells (count_true mk) (map (keep_true mk) m)) else None.
  Proof. exact (mnt_mask_cols_proof A). Qed.

  Theorem met_mask_rows_plain : forall (ws : list nat) (m : cellmat A) (mk : list bool),
    rect_w ws m ->
    select A _ (met_kernels A) (met_of_cells ws m) (IMask mk) 0 =
    if (length mk =? length m)%nat then Some (met_of_cells ws (keep_true mk m)) else None.
  Proof. exact (met_mask_rows_proof A). Qed.

  Theorem met_mask_cols_plain : forall (ws : list nat) (m : cellmat A) (mk : list bool),
    rect_w ws m ->
    select A _ (met_kernels A) (met_of_cells ws m) (IMask mk) 1 =
    if (length mk =? length ws)%nat then Some (met_of_cells (keep_true mk ws) (map (keep_true mk) m)) else None.
  Proof. exact (met_mask_cols_proof A). Qed.
End C05.

(* the dim argument as Python passes it: 0/-3 rows, 1/-2 columns, everything else
   (the ragged axis 2/-1 included) raises *)
Theorem normalize_dim_z_spec : forall d : Z,
  normalize_dim_z d =
  if ((d =? 0) || (d =? -3))%Z then Some 0
  else if ((d =? 1) || (d =? -2))%Z then Some 1 else None.
Proof. exact normalize_dim_z_spec_proof. Qed.

Print Assumptions batched_arange_docstring.
Print Assumptions mnt_select_refines.
Print Assumptions pick_rect.
Print Assumptions mnt_get_value_spec.
Print Assumptions mnt_getitem_ints.
Print Assumptions mnt_program_refines.
Print Assumptions mnt_wf_intrinsic.
Print Assumptions met_select_refines.
Print Assumptions pick_rect_w.
Print Assumptions met_get_value_spec.
Print Assumptions met_getitem_ints.
Print Assumptions getitem_pair_is_rows_then_cols.
Print Assumptions met_program_refines.
Print Assumptions mnt_narrow_refines.
Print Assumptions met_narrow_refines.
Print Assumptions narrow_whole.
Print Assumptions mnt_narrow_nonpositive.
Print Assumptions met_narrow_nonpositive.
Print Assumptions mnt_select_store_sound.
Print Assumptions met_select_store_frame.
Print Assumptions met_select_store_sound.
Print Assumptions normalize_dim_z_spec.
Print Assumptions mnt_mask_rows_plain.
Print Assumptions mnt_mask_cols_plain.
Print Assumptions met_mask_rows_plain.
Print Assumptions met_mask_cols_plain.

(* ---------------------------------------------------------------------- *)
(* Non-vacuity: the hypotheses are met by concrete non-trivial states, and the
   theorems say something definite about them. *)
Definition ex_m : cellmat nat := [[[1;2];[3]]; [[4];[]]; [[];[5;6]]; [[7];[8;9]]].

Example ex_rect : rect 2 ex_m.
Proof. repeat constructor. Qed.

(* a container that is itself a slice of a larger one (rows 1..2) is well-formed *)
Example ex_wf_of_slice : exists t,
  select nat _ (mnt_kernels nat) (mnt_of_cells 2 ex_m) (ISlice (Some 1%Z) (Some 3%Z) None) 0 = Some t
  /\ mnt_wf t /\ mnt_valid t.
Proof.
  eexists. split; [vm_compute; reflexivity|].
  assert (W : mnt_wf (mnt_of_cells 2 [[[4];[]]; [[];[5;6]]])).
  { exists [[[4];[]]; [[];[5;6]]]. split; [repeat constructor | reflexivity]. }
  split; [exact W | apply (proj1 (mnt_wf_intrinsic nat _)); exact W].
Qed.

(* a 2-step program: overshooting slice on rows, then a column list, through the model *)
Example ex_program :
  mnt_prog nat (mnt_of_cells 2 ex_m) [(0, ISlice (Some 1%Z) (Some 9%Z) None); (1, IList [1%Z; 0%Z])]
  = Some (mnt_of_cells 2 [[[];[4]]; [[5;6];[]]; [[8;9];[7]]]).
Proof. vm_compute. reflexivity. Qed.

(* passing through an empty result and continuing *)
Example ex_through_empty :
  mnt_prog nat (mnt_of_cells 2 ex_m) [(0, ISlice (Some 2%Z) (Some 2%Z) None); (1, ISlice None (Some 1%Z) None);
                                      (0, IMask [])]
  = Some (mnt_of_cells 1 []).
Proof. vm_compute. reflexivity. Qed.

(* errors: out-of-range integer, non-positive step *)
Example ex_errors :
  select nat _ (mnt_kernels nat) (mnt_of_cells 2 ex_m) (IInt 4%Z) 0 = None /\
  select nat _ (mnt_kernels nat) (mnt_of_cells 2 ex_m) (ISlice None None (Some 0%Z)) 1 = None /\
  select nat _ (met_kernels nat) (met_of_cells [2;1] [[[1;2];[3]];[[4;5];[6]]]) (ITensor [(-3)%Z]) 0 = None.
Proof. vm_compute. repeat split. Qed.

Example ex_met_cols :
  select nat _ (met_kernels nat) (met_of_cells [2;1;0] [[[1;2];[3];[]];[[4;5];[6];[]]]) (IList [2%Z; 0%Z; 0%Z]) 1
  = Some (met_of_cells [0;2;2] [[[];[1;2];[1;2]];[[];[4;5];[4;5]]]).
Proof. vm_compute. reflexivity. Qed.

(* narrow called directly: a window in the middle, the whole axis, a negative length *)
Example ex_narrow :
  narrow nat _ (mnt_kernels nat) (mnt_of_cells 2 ex_m) 0 1 2%Z = Some (mnt_of_cells 2 [[[4];[]]; [[];[5;6]]]) /\
  narrow nat _ (mnt_kernels nat) (mnt_of_cells 2 ex_m) 1 0 9%Z = Some (mnt_of_cells 2 ex_m) /\
  narrow nat _ (met_kernels nat) (met_of_cells [2;1] [[[1;2];[3]];[[4;5];[6]]]) 1 1 1%Z
    = Some (met_of_cells [1] [[[3]];[[6]]]) /\
  narrow nat _ (mnt_kernels nat) (mnt_of_cells 2 ex_m) 0 2 (-1)%Z = Some (mnt_of_cells 2 []).
Proof. vm_compute. repeat split. Qed.

(* store level: a row slice of an object that is itself a view (non-zero start) is again a view of the same
   storage and reads back as the pure selection; a column selection allocates; nothing existing changes *)
Example ex_store_select :
  let st := [[0; 0; 1; 2; 3; 4; 5; 6; 9; 9]] in
  let h := MkHmnt 3 2 [0; 2; 3; 3; 4; 5; 6] 0 2 6 in    (* views storage 0 at [2, 8): cells [[1;2];[3]] [[];[4]] [[5];[6]] *)
  (exists r, n_select nat st h (ISlice (Some 1%Z) None None) 0 = Some (st, r)
             /\ n_buf r = 0 /\ n_start r = 5 /\ n_len r = 3
             /\ n_read nat st r = Some (mnt_of_cells 2 [[[];[4]]; [[5];[6]]])) /\
  (exists st' r, n_select nat st h (IInt 1%Z) 1 = Some (st', r) /\ st' = st ++ [[3; 4; 6]] /\ n_buf r = 1
             /\ n_read nat st' h = n_read nat st h).
Proof. vm_compute. split; [eexists; repeat split | eexists; eexists; repeat split]. Qed.

(* store level, embedding container: a column slice of an object that is itself a window of a larger 2-D storage is a
   view of the same storage and reads back as the pure selection; a list selection allocates *)
Example ex_store_select_met :
  let st := [[[9; 1; 2; 3; 9]; [9; 4; 5; 6; 9]; [9; 7; 8; 0; 9]]] in
  let h := MkHmet 2 2 [0; 2; 3] 0 1 1 3 in     (* rows 1..2, storage columns 1..3: cells [[4;5];[6]] [[7;8];[0]] *)
  (exists r, e_select nat st h (ISlice (Some 1%Z) None None) 1 = Some (st, r)
             /\ e_buf r = 0 /\ e_c0 r = 3 /\ e_w r = 1
             /\ e_read nat st r = Some (met_of_cells [1] [[[6]]; [[0]]])) /\
  (exists st' r, e_select nat st h (IList [1%Z; 0%Z]) 0 = Some (st', r) /\ e_buf r = 1
             /\ e_read nat st' h = e_read nat st h).
Proof. vm_compute. split; [eexists; repeat split | eexists; eexists; repeat split]. Qed.

Example ex_mask_cols_plain :
  select nat _ (mnt_kernels nat) (mnt_of_cells 3 [[[1]; [2; 3]; []]; [[4]; []; [5]]]) (IMask [true; false; true]) 1
  = Some (mnt_of_cells 2 [[[1]; []]; [[4]; [5]]])
  /\ select nat _ (mnt_kernels nat) (mnt_of_cells 3 [[[1]; [2; 3]; []]; [[4]; []; [5]]]) (IMask [true; false]) 1 = None.
Proof. vm_compute. split; reflexivity. Qed.
