(* C05 — property theorems (statements only; proofs live in Proofs/). *)
From Coq Require Import List ZArith.
From PF Require Import Lib.ListX Lib.PySlice Model.Ragged.
Import ListNotations.
