(* C01 -- Materialization encodes every cell faithfully, for every semantic type.
   Statements only; proofs live in Proofs/MapperProofs.v, Proofs/ConverterProofs.v
   and Proofs/CalendarFacts.v.

   Reading guide.  `X_encode s` is the model of `XTensorMapper.forward(ser)` of
   torch_frame/data/mapper.py as the pandas/torch pipeline it is (Model/Mapper.v),
   read back cell by cell; a Series `s` is a list of (label, cell) over an
   arbitrary label type L.  `canon_*` (Model/MapperSpec.v) is the property's own
   wording for ONE cell.  The category list `cats` of the (multi)categorical
   theorems is an INPUT: the implementation's own COUNT / MULTI_COUNT statistic
   (that it lists every value once, by frequency, is C03's statement; NoDup is a
   hypothesis here).  `leqb` is the equality of index labels that the keyed
   pandas operations of the model may use (Model/Mapper.v, Section Keyed).
   Every theorem is for all series (all lengths, all
   missing patterns, all labels).  The model is tied to /repo on every run by
   harness/c01.py (same frames through both; every cell compared). *)
From Coq Require Import ZArith List Permutation Sorting.Sorted.
From PF Require Import Gen.Tables Lib.ListX Lib.Calendar Lib.CalendarSpec Model.Ragged Model.Mapper Model.MapperSpec
  Model.Converter Model.ConverterSpec Proofs.CalendarFacts Proofs.CalendarGregorian Proofs.MapperProofs
  Proofs.ConverterProofs Proofs.StringProofs.
Import ListNotations.

(* ---- numerical: the float value; missing -> NaN ------------------------- *)
Theorem numerical_cells : forall (L : Type) (s : @series L (option num)),
  numerical_encode s = map canon_num (ser_values s).
Proof. intros. apply numerical_faithful. Qed.
Print Assumptions numerical_cells.

(* ---- categorical: the position in the category list of the statistics;
        missing or unseen -> -1.  `cats` lists every category once
        (value_counts) ------------------------------------------------------ *)
Theorem categorical_cells : forall (L : Type) (cats : list pval) (s : @series L (option pval)),
  NoDup cats -> categorical_encode cats s = map (canon_cat cats) (ser_values s).
Proof. intros. apply categorical_faithful. assumption. Qed.
Print Assumptions categorical_cells.

(* the index space: a seen value is encoded as a valid position that holds
   exactly that value; an unseen value as -1; distinct categories never alias;
   the i-th listed category is the one encoded as i *)
Theorem category_index_seen : forall cats v, In v cats ->
  (0 <= index_of cats v < Z.of_nat (length cats))%Z /\ nth_error cats (Z.to_nat (index_of cats v)) = Some v.
Proof. exact index_of_seen. Qed.
Print Assumptions category_index_seen.

Theorem category_index_unseen : forall cats v, ~ In v cats -> index_of cats v = (-1)%Z.
Proof. exact index_of_unseen. Qed.
Print Assumptions category_index_unseen.

Theorem category_index_no_alias : forall cats v w, In v cats -> index_of cats v = index_of cats w -> v = w.
Proof. exact index_of_inj. Qed.
Print Assumptions category_index_no_alias.

Theorem category_index_position : forall cats k v, NoDup cats -> nth_error cats k = Some v -> index_of cats v = Z.of_nat k.
Proof. exact index_of_nth. Qed.
Print Assumptions category_index_position.

(* ---- multicategorical: the set of category indices of the cell's tokens
        (compared sorted: a Python set has no order); [-1] for a missing cell;
        [] for a blank cell; unseen tokens dropped.  The first argument `true`
        is the dtype gate (object / string dtype).  The two hypotheses about
        the integer -1 (`~ In (VInt (-1)) cats`, `tokens_ok`: no token is the
        integer -1 -- automatic for delimiter-joined strings) are NOT technical:
        -1 is the mapper's own marker for a missing cell, and without them the
        statement is false of the faithful model and of the code, see
        multicategorical_minus_one_refuted below (known finding) -------------- *)
Theorem multicategorical_cells : forall (L : Type) cats sep (s : @series L mc_cell) canon,
  NoDup cats -> ~ In (VInt (-1)) cats -> Forall (tokens_ok sep) (ser_values s) ->
  mapM (canon_multi cats sep) (ser_values s) = Some canon ->
  exists enc, multicategorical_encode true cats sep s = Some enc /\ map sort_cell enc = canon.
Proof. intros. apply multicategorical_faithful_sorted; assumption. Qed.
Print Assumptions multicategorical_cells.

(* ... and without sorting: each encoded cell is an arrangement of the canonical one *)
Theorem multicategorical_cells_perm : forall (L : Type) cats sep (s : @series L mc_cell) canon,
  NoDup cats -> ~ In (VInt (-1)) cats -> Forall (tokens_ok sep) (ser_values s) ->
  mapM (canon_multi cats sep) (ser_values s) = Some canon ->
  exists enc, multicategorical_encode true cats sep s = Some enc /\ Forall2 (@Permutation scalar) enc canon.
Proof. intros. apply multicategorical_faithful; assumption. Qed.
Print Assumptions multicategorical_cells_perm.

(* the canonical cell IS the set of indices, ascending, no duplicates: k is in
   it exactly when category k is one of the cell's tokens *)
Theorem multicategorical_cell_is_index_set : forall cats sep c toks,
  c <> MCMissing -> tokens_of sep c = Some toks ->
  exists ks, canon_multi cats sep c = Some (map (fun k => SInt (Z.of_nat k)) ks) /\
             StronglySorted lt ks /\
             forall k, In k ks <-> exists cat, nth_error cats k = Some cat /\ In cat toks.
Proof. exact canon_multi_index_set. Qed.
Print Assumptions multicategorical_cell_is_index_set.

Theorem multicategorical_missing_cell : forall cats sep, canon_multi cats sep MCMissing = Some [SInt (-1)].
Proof. reflexivity. Qed.
Print Assumptions multicategorical_missing_cell.

Theorem multicategorical_blank_cell : forall cats sp s, py_strip s = [] -> canon_multi cats (Some sp) (MCStr s) = Some [].
Proof. exact canon_multi_blank. Qed.
Print Assumptions multicategorical_blank_cell.

Theorem multicategorical_string_tokens_ok : forall sep s, tokens_ok sep (MCStr s).
Proof. exact tokens_ok_str. Qed.
Print Assumptions multicategorical_string_tokens_ok.

(* what "the tokens of a delimiter-joined cell" are, independently of the scanning code of Model/Mapper.v
   (torch_frame/data/mapper.py split_by_sep: row.split(sep), cat.strip()): splitting loses nothing -- joining the
   pieces with the separator gives the cell back, and there is at least one piece -- and stripping removes exactly a
   whitespace prefix and a whitespace suffix, leaving a string that neither starts nor ends with whitespace.
   (Python's str.split / str.strip are compared with these primitives on every generated cell: check_split.) *)
Theorem split_loses_nothing : forall s sep pieces,
  py_split s sep = Some pieces -> py_join sep pieces = s /\ pieces <> [].
Proof. exact py_split_join. Qed.
Print Assumptions split_loses_nothing.

Theorem strip_removes_surrounding_whitespace : forall s, exists a b,
  s = a ++ py_strip s ++ b /\ forallb py_isspace a = true /\ forallb py_isspace b = true /\
  (py_strip s = [] \/
   ((exists c r, py_strip s = c :: r /\ py_isspace c = false) /\ (exists r c, py_strip s = r ++ [c] /\ py_isspace c = false))).
Proof. exact py_strip_spec. Qed.
Print Assumptions strip_removes_surrounding_whitespace.

(* a cell that does not fit the separator configuration makes forward raise *)
Theorem multicategorical_ill_typed_raises : forall (L : Type) dt cats sep (s : @series L mc_cell),
  mapM (canon_multi cats sep) (ser_values s) = None -> multicategorical_encode dt cats sep s = None.
Proof. intros. apply multicategorical_raises. assumption. Qed.
Print Assumptions multicategorical_ill_typed_raises.

(* the dtype gate: a column that pandas holds with a non-object, non-string
   dtype (e.g. an all-NaN float64 column) makes forward raise *)
Theorem multicategorical_dtype_gate : forall (L : Type) cats sep (s : @series L mc_cell),
  multicategorical_encode false cats sep s = None.
Proof. reflexivity. Qed.
Print Assumptions multicategorical_dtype_gate.

(* KNOWN FINDING (known_findings.txt: multicat-int-token-minus-one-aliases-missing).
   With list-valued cells whose tokens are integers, the token -1 collides with
   the missing marker: for the column [[-1, 2], [2], None, [3]] with statistics
   [2; -1; 3] the faithful pipeline encodes the MISSING cell as {1, -1} (it
   aliases category 1) and stamps the marker on row 0, which is not missing.
   The canonical encoding is [[0;1]; [0]; [-1]; [2]].  Computed witness. *)
Definition minus_one_cats : list pval := [VInt 2; VInt (-1); VInt 3].
Definition minus_one_series : @series nat mc_cell :=
  [(0%nat, MCList [VInt (-1); VInt 2]); (1%nat, MCList [VInt 2]); (2%nat, MCMissing); (3%nat, MCList [VInt 3])].
Theorem multicategorical_minus_one_refuted :
  NoDup minus_one_cats /\
  mapM (canon_multi minus_one_cats None) (ser_values minus_one_series)
    = Some [[SInt 0; SInt 1]; [SInt 0]; [SInt (-1)]; [SInt 2]] /\
  option_map (map sort_cell) (multicategorical_encode true minus_one_cats None minus_one_series)
    = Some [[SInt (-1); SInt 0; SInt 1]; [SInt 0]; [SInt (-1); SInt 1]; [SInt 2]].
Proof.
  split; [repeat constructor; simpl; intuition discriminate | split; vm_compute; reflexivity].
Qed.
Print Assumptions multicategorical_minus_one_refuted.

(* ---- numerical sequences: the value sequence (NaN kept); missing -> [] --- *)
Theorem sequence_cells : forall (L : Type) (leqb : L -> L -> bool) (s : @series L seq_cell) canon,
  leqb_refl leqb ->
  mapM canon_seq (ser_values s) = Some canon -> sequence_encode leqb s = Some canon.
Proof. intros. apply sequence_faithful; assumption. Qed.
Print Assumptions sequence_cells.

Theorem sequence_ill_typed_raises : forall (L : Type) (leqb : L -> L -> bool) (s : @series L seq_cell),
  mapM canon_seq (ser_values s) = None -> sequence_encode leqb s = None.
Proof. intros. apply sequence_raises. assumption. Qed.
Print Assumptions sequence_ill_typed_raises.

(* ---- timestamps: (year, month-1, day-1, weekday, hour, minute, second) of
        the parsed instant; NaT (missing or unparseable) -> seven -1 --------- *)
Theorem timestamp_cells : forall (L : Type) (s : @series L (option Z)),
  timestamp_encode s = map canon_time (ser_values s).
Proof. intros. apply timestamp_faithful. Qed.
Print Assumptions timestamp_cells.

Theorem timestamp_components_in_range : forall s y mo d wd h mi se,
  canon_time (Some s) = [SInt y; SInt mo; SInt d; SInt wd; SInt h; SInt mi; SInt se] ->
  (0 <= mo < 12 /\ 0 <= d < 31 /\ 0 <= wd < 7 /\ 0 <= h < 24 /\ 0 <= mi < 60 /\ 0 <= se < 60)%Z.
Proof. exact canon_time_ranges. Qed.
Print Assumptions timestamp_components_in_range.

Theorem timestamp_missing_is_not_a_date : forall s, canon_time (Some s) <> canon_time None.
Proof. exact canon_time_missing_distinct. Qed.
Print Assumptions timestamp_missing_is_not_a_date.

Theorem timestamp_encoding_injective : forall s s', canon_time (Some s) = canon_time (Some s') -> s = s'.
Proof. exact canon_time_inj. Qed.
Print Assumptions timestamp_encoding_injective.

(* the calendar the components come from (Lib/Calendar.v), for every day
   number z : Z -- exhaustive vm_compute sweep over one 400-year era (a finite
   domain) lifted to Z by era periodicity *)
Theorem calendar_roundtrip : forall z, days_of_civil (civil_of_days z) = z.
Proof. exact days_of_civil_of_days. Qed.
Print Assumptions calendar_roundtrip.

Theorem calendar_ranges : forall z,
  (1 <= month_of_days z <= 12 /\ 1 <= day_of_days z <= 31 /\ 0 <= weekday_of_days z < 7)%Z.
Proof. intro z. split; [apply month_range | split; [apply day_range | apply weekday_range]]. Qed.
Print Assumptions calendar_ranges.

Theorem calendar_era_periodic : forall z,
  civil_of_days (z + days_per_era) = let '(y, m, d) := civil_of_days z in ((y + 400)%Z, m, d).
Proof. exact civil_era_periodic. Qed.
Print Assumptions calendar_era_periodic.

(* ... and it IS the proleptic Gregorian calendar (Lib/CalendarSpec.v: leap
   years, month lengths, "the day after"): day 0 is Thursday 1970-01-01, every
   day number is a valid date, and day z+1 is the date after day z on the next
   weekday.  These facts determine the calendar functions on all of Z. *)
Theorem calendar_anchor : civil_of_days 0 = (1970, 1, 1)%Z /\ weekday_of_days 0 = 3%Z.
Proof. exact epoch_is_1970_01_01. Qed.
Print Assumptions calendar_anchor.

Theorem calendar_is_gregorian : forall z,
  valid_date (civil_of_days z) /\
  civil_of_days (z + 1) = next_date (civil_of_days z) /\
  weekday_of_days (z + 1) = ((weekday_of_days z + 1) mod 7)%Z.
Proof. intro z. split; [apply civil_of_days_valid | split; [apply civil_of_days_succ | apply weekday_succ]]. Qed.
Print Assumptions calendar_is_gregorian.

(* ---- embeddings: the given vector (any width, one width per column).  An
        embedding cell is a vector by type: a missing embedding cell makes
        np.stack raise and is outside the property ("the given vector") ------- *)
Theorem embedding_cells : forall (L : Type) (s : @series L (list num)) w,
  s <> [] -> Forall (fun v => length v = w) (ser_values s) ->
  embedding_encode s = Some (map canon_vec (ser_values s)).
Proof. intros. eapply embedding_faithful; eassumption. Qed.
Print Assumptions embedding_cells.

(* ---- inside the converter: whatever the stype, an encoded feature column is
        canonical cell by cell (canonical_col spells out the six cases) ------ *)
Theorem column_in_frame_canonical : forall (L : Type) (leqb : L -> L -> bool) (idx : list L) c col,
  leqb_refl leqb ->
  length idx = rawcol_len c -> rawcol_ok c -> encode_col leqb idx c = Some (ECol col) -> canonical_col c col.
Proof. intros. eapply encode_col_canonical; eassumption. Qed.
Print Assumptions column_in_frame_canonical.

(* ---- the target column is encoded the same way into y -------------------- *)
Theorem target_encoded_like_feature : forall (L : Type) (leqb : L -> L -> bool) target (df : frame L) t tg c,
  convert leqb target df = Some t -> target = Some tg -> get_col (f_cols df) tg = Some c ->
  exists y, tf_y t = Some y /\ encode_col leqb (f_index df) c = Some y.
Proof. intros. eapply convert_target; eassumption. Qed.
Print Assumptions target_encoded_like_feature.

(* ------------------------------------------------------------------------- *)
(* The hypotheses are satisfiable on concrete non-trivial states (computed). *)
Definition ex_cats : list pval := [VStr [98]; VStr [97]; VStr [233]].             (* "b", "a", "e-acute" *)
Definition ex_multi : @series pval mc_cell :=
  [ (VInt 7, MCStr [32; 97; 124; 98; 32; 124; 97; 124; 122]);                      (* " a|b |a|z"  labels 7,7,"x": duplicated *)
    (VInt 7, MCMissing);
    (VStr [120], MCStr [32; 9]);
    (VInt 0, MCStr [233]) ].

Example multicategorical_hypotheses_hold :
  NoDup ex_cats /\ ~ In (VInt (-1)) ex_cats /\ Forall (tokens_ok (Some [124%Z])) (ser_values ex_multi) /\
  mapM (canon_multi ex_cats (Some [124%Z])) (ser_values ex_multi)
    = Some [[SInt 0; SInt 1]; [SInt (-1)]; []; [SInt 2]] /\
  option_map (map sort_cell) (multicategorical_encode true ex_cats (Some [124%Z]) ex_multi)
    = Some [[SInt 0; SInt 1]; [SInt (-1)]; []; [SInt 2]].
Proof.
  split; [|split; [|split; [|split]]].
  - repeat constructor; simpl; intuition discriminate.
  - simpl. intuition discriminate.
  - repeat constructor; try apply tokens_ok_str. intros toks H. discriminate.
  - vm_compute. reflexivity.
  - vm_compute. reflexivity.
Qed.

Example timestamp_example :
  timestamp_encode [(tt, Some 951827696%Z); (tt, None); (tt, Some (-1)%Z)] =
  [ map SInt [2000; 1; 28; 1; 12; 34; 56]%Z;             (* 2000-02-29 12:34:56, a Tuesday *)
    map SInt [-1; -1; -1; -1; -1; -1; -1]%Z;
    map SInt [1969; 11; 30; 2; 23; 59; 59]%Z ].          (* 1969-12-31 23:59:59, a Wednesday *)
Proof. vm_compute. reflexivity. Qed.

Example sequence_example :
  leqb_refl Nat.eqb /\
  sequence_encode Nat.eqb [(1%nat, SQList [Some (NFin 3); None]); (1%nat, SQMissing); (5%nat, SQList []); (2%nat, SQList [Some NPosInf])] =
  Some [[SNum (NFin 3); SNum NNaN]; []; []; [SNum NPosInf]].
Proof. split; [exact Nat.eqb_refl | vm_compute; reflexivity]. Qed.

Example embedding_example :
  embedding_encode [(7, [NFin 1; NFin 2]); (7, [NPosInf; NNaN])] = Some [[SNum (NFin 1); SNum (NFin 2)]; [SNum NPosInf; SNum NNaN]].
Proof. vm_compute. reflexivity. Qed.

Example categorical_example :
  NoDup ex_cats /\
  categorical_encode ex_cats [(5, Some (VStr [97])); (5, None); (9, Some (VStr [122])); (1, Some (VInt 97))] =
  [[SInt 1]; [SInt (-1)]; [SInt (-1)]; [SInt (-1)]].
Proof. split; [repeat constructor; simpl; intuition discriminate | vm_compute; reflexivity]. Qed.

Example split_strip_example :
  py_split [32; 97; 58; 58; 98; 32; 58; 58]%Z [58; 58]%Z = Some [[32; 97]; [98; 32]; []]%Z /\
  py_join [58; 58]%Z [[32; 97]; [98; 32]; []]%Z = [32; 97; 58; 58; 98; 32; 58; 58]%Z /\
  py_strip [160; 9; 97; 32; 98; 12288]%Z = [97; 32; 98]%Z.
Proof. vm_compute. repeat split; reflexivity. Qed.
