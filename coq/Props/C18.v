(* C18 — stype inference follows its decision table and ignores row order and labels.
   Statements only; proofs live in Proofs/InferProofs.v.

   The model (Model/Infer.v) is the decision procedure of infer_series_stype over a
   column = the list of its cells in row order; the threshold and the separator
   list come from Gen/Tables.v, which is regenerated from /repo on every run.
   Index labels are not part of the model (the code never reads them; the harness
   observes relabelled variants on every run), so relabelling invariance is an
   observation, not a theorem.  Date recognition is pandas': a DateStr cell carries,
   as input classifications, the formats it parses under and the format pandas
   guesses from it.  With an explicit candidate format of possible_time_formats
   (Gen/Tables.v) recognition is a per-cell matter; with format=None pandas guesses
   the format from the FIRST element, which makes the real code depend on the row
   order for date columns outside the explicit formats (known finding
   date-format-inference-order-dependent; witness: date_guess_order_dependence_refuted
   below).  The date theorems are therefore stated for the explicit formats.

   Finite-domain facts proved by computation: threshold_is_4_vs_5 and the Examples. *)
From Coq Require Import List ZArith QArith Bool String Ascii Permutation.
From PF Require Import Gen.Tables Model.Infer Proofs.InferProofs.
Import ListNotations.
Close Scope Q_scope.
Open Scope nat_scope.
Open Scope bool_scope.
Open Scope string_scope.

(* ---------------------------------------------------------------- families of the table *)
Definition float_cell (c : cell) : bool := match c with Float _ => true | _ => false end.
Definition str_cell (c : cell) : bool := match c with Str _ => true | _ => false end.
Definition numlist_cell (c : cell) : bool := match c with LList l => forallb is_num_elem l | _ => false end.
Definition strlist_cell' (c : cell) : bool := match c with LList l => forallb is_str_elem l | _ => false end.
Definition with_str_elem (c : cell) : bool := match c with LList l => existsb is_str_elem l | _ => false end.
(* every cell is of the given kind or missing *)
Definition column_of (kind : cell -> bool) (col : list cell) : Prop :=
  forallb (fun c => kind c || is_missing c) col = true.

(* 1. an all-missing (or empty) column is skipped *)
Theorem all_missing_is_skipped : forall col,
  forallb is_missing col = true -> infer_series_stype col = Inferred None.
Proof. exact table_all_missing. Qed.
Print Assumptions all_missing_is_skipped.

(* 2. float columns infer numerical (a float column whose values are all integral
      AND that has missing cells is pandas' image of an integer column: see 2b) *)
Theorem float_is_numerical : forall col,
  column_of float_cell col -> dropna col <> [] ->
  (has_nan col = false \/ existsb (fun c => negb (is_integral c)) (dropna col) = true) ->
  infer_series_stype col = Inferred (Some st_numerical).
Proof. exact table_float. Qed.
Print Assumptions float_is_numerical.

(* 2b. the code's deliberate `has_nan and integral` rule, made visible: a float
       column whose values are ALL integral is numerical without a missing cell and
       judged by multiplicity (like integers) with one.  For this family the result
       is NOT a function of the non-missing values alone; it is outside the
       invariance claims below (missing cells are only added to string / list /
       integer / boolean columns). *)
Theorem integral_floats_depend_on_nan : forall col,
  column_of float_cell col -> dropna col <> [] ->
  forallb is_integral (dropna col) = true ->
  infer_series_stype col =
  Inferred (Some (if has_nan col && above_thresh (min_count (dropna col))
                  then st_categorical else st_numerical)).
Proof. exact table_integral_floats. Qed.
Print Assumptions integral_floats_depend_on_nan.

(* 2c. MAGNITUDE INDEPENDENCE of the whole-number rule (`(ser % 1 == 0).all()` + the
       frequency rule of infer_series_stype, numeric branch): multiplying every value
       of a whole-valued numeric column by a non-zero integer -- 3 or 10^19 or 2^300 --
       never changes the decision.  The values are exact rationals in the model, so no
       integer width or float precision enters. *)
Definition whole_number (c : cell) : bool := is_num_cell c && is_integral c.

Theorem whole_number_rule_ignores_magnitude : forall k col,
  k <> 0%Z -> column_of whole_number col ->
  infer_series_stype (map (scale_cell k) col) = infer_series_stype col.
Proof. exact infer_scale_invariant. Qed.
Print Assumptions whole_number_rule_ignores_magnitude.

(* 3. booleans infer categorical, with or without missing cells *)
Theorem bool_is_categorical : forall col,
  column_of is_bool_cell col -> dropna col <> [] ->
  infer_series_stype col = Inferred (Some st_categorical).
Proof. exact table_bool. Qed.
Print Assumptions bool_is_categorical.

(* 4. integers (with or without missing cells): categorical iff the rarest value
      occurs more than cat_min_count_thresh times, else numerical *)
Theorem int_by_min_count : forall col,
  column_of is_int_cell col -> dropna col <> [] ->
  infer_series_stype col =
  Inferred (Some (if above_thresh (min_count (dropna col)) then st_categorical else st_numerical)).
Proof. exact table_int. Qed.
Print Assumptions int_by_min_count.

(* 5. dates written in ONE explicit candidate format of possible_time_formats infer
      timestamp (whatever their multiplicities).  Columns of individually parseable
      dates in a format pandas must guess, or in mixed formats, are NOT covered: see
      the header and date_guess_order_dependence_refuted. *)
Theorem dates_are_timestamp : forall col f,
  In (Some f) possible_time_formats ->
  column_of (cell_accepts f) col -> dropna col <> [] ->
  infer_series_stype col = Inferred (Some st_timestamp).
Proof. exact table_date. Qed.
Print Assumptions dates_are_timestamp.

(* 6. strings: repeated strings categorical; else delimiter-joined repeated tokens
      multicategorical (best separator of possible_seps); else free text *)
Theorem strings_by_counts : forall col,
  column_of is_strlike col -> existsb str_cell col = true ->
  infer_series_stype col =
  Inferred (Some (if above_thresh (min_count (dropna col)) then st_categorical
                  else if above_thresh (max_min_count (dropna col)) then st_multicategorical
                  else st_text_embedded)).
Proof. exact table_string. Qed.
Print Assumptions strings_by_counts.

(* 6b. the multicategorical test of 6 without value_counts / explode: some separator of
       possible_seps yields at least one token, and EVERY token occurs in more than
       cat_min_count_thresh ROWS (a token repeated inside one row counts once).
       multicat_spec / rows_with_token are the specification-level definitions of
       Model/Infer.v; the harness evaluates string_table_spec on every string column. *)
Theorem multicategorical_test_in_plain_terms : forall ser,
  above_thresh (max_min_count ser) = multicat_spec ser.
Proof. exact multicat_test_is_spec. Qed.
Print Assumptions multicategorical_test_in_plain_terms.

Theorem multicat_spec_meaning : forall ser,
  multicat_spec ser = true <->
  exists sep c, In sep possible_seps /\ sep_char sep = Some c /\
    (exists tok, In tok (flat_map (fun x => row_tokens c (cell_string x)) ser)) /\
    (forall tok, In tok (flat_map (fun x => row_tokens c (cell_string x)) ser) ->
                 above_thresh (rows_with_token c tok ser) = true).
Proof. exact multicat_spec_iff. Qed.
Print Assumptions multicat_spec_meaning.

(* the multiplicity value_counts sees after explode IS the number of rows containing the token *)
Theorem exploded_token_count_is_row_count : forall c tok ser,
  count_by String.eqb tok (flat_map (fun x => row_tokens c (cell_string x)) ser) = rows_with_token c tok ser.
Proof. exact token_count_is_row_count. Qed.
Print Assumptions exploded_token_count_is_row_count.

Theorem strings_by_spec : forall col,
  column_of is_strlike col -> existsb str_cell col = true ->
  infer_series_stype col = Inferred (Some (string_table_spec (dropna col))).
Proof. exact table_string_spec. Qed.
Print Assumptions strings_by_spec.

(* 6c. PRIORITIES of the string part of the table, for every column of strings (dates,
       non-dates, or both): timestamp wins over everything, then repeated whole strings
       (categorical), then repeated tokens (multicategorical), then free text *)
Theorem string_decision_priorities : forall col,
  column_of is_strlike col -> dropna col <> [] ->
  infer_series_stype col = Inferred (Some (string_column_decision (dropna col))).
Proof. exact string_priority. Qed.
Print Assumptions string_decision_priorities.

(* 7. numeric lists: embedding iff all lists have one length and only finite floats,
      otherwise numerical sequence *)
Theorem numeric_lists : forall col,
  column_of numlist_cell col -> dropna col <> [] ->
  infer_series_stype col =
  Inferred (Some (if embedding_ok (dropna col) then st_embedding else st_sequence_numerical)).
Proof. exact table_numlist. Qed.
Print Assumptions numeric_lists.

(* ... where embedding_ok, defined through "the length of the first list", means: *)
Theorem embedding_ok_meaning : forall ser,
  forallb is_list ser = true ->
  (embedding_ok ser = true <->
   (forall l l', In (LList l) ser -> In (LList l') ser -> List.length l = List.length l') /\
   (forall l, In (LList l) ser -> forallb is_float_elem l = true /\ forallb is_finite_elem l = true)).
Proof. exact embedding_ok_iff. Qed.
Print Assumptions embedding_ok_meaning.

(* 8. lists of strings infer multicategorical *)
Theorem string_lists_are_multicategorical : forall col,
  column_of strlist_cell' col -> existsb with_str_elem col = true ->
  infer_series_stype col = Inferred (Some st_multicategorical).
Proof. exact table_strlist. Qed.
Print Assumptions string_lists_are_multicategorical.

(* 9. the frequency threshold of the code (Gen/Tables.v): 5 occurrences of the rarest
      value count as repeated, 4 do not.  Finite: by computation over the generated
      constant; editing cat_min_count_thresh in /repo breaks this proof. *)
Theorem threshold_is_4_vs_5 : above_thresh 5 = true /\ above_thresh 4 = false.
Proof. exact threshold_4_vs_5. Qed.
Print Assumptions threshold_is_4_vs_5.

(* min_count is the multiplicity of a rarest value *)
Theorem min_count_is_least_multiplicity : forall ser,
  ser <> [] ->
  (exists x, In x ser /\ min_count ser = count_by cell_eqb x ser) /\
  (forall x, In x ser -> min_count ser <= count_by cell_eqb x ser).
Proof. exact min_count_least. Qed.
Print Assumptions min_count_is_least_multiplicity.

(* ---------------------------------------------------------------- invariances *)
(* a homogeneous column: its non-missing cells are all lists, or none is *)
Definition homogeneous_col (col : list cell) : Prop :=
  forallb is_list (dropna col) = true \/ existsb is_list col = false.

(* 10. "the first non-missing cell is a list" (ser.iloc[0] after dropna) does not
       depend on the row order of a homogeneous column *)
Theorem first_is_list_order_independent : forall col col',
  homogeneous_col col -> Permutation col col' -> first_is_list col = first_is_list col'.
Proof. exact first_is_list_perm. Qed.
Print Assumptions first_is_list_order_independent.

(* date recognition does not rest on pandas' guess: the column parses under an
   explicit candidate format, or under no format at all (e.g. it contains a cell that
   is not a date string) *)
Definition dates_explicit (ser : list cell) : Prop :=
  existsb (fun fo => match fo with Some f => parses_with f ser | None => false end) possible_time_formats = true
  \/ (forall f, parses_with f ser = false).

Theorem dates_explicit_sufficient : forall ser,
  (forall x, In x ser -> is_datestr x = false) -> ser <> [] -> dates_explicit ser.
Proof. exact no_date_cells_robust. Qed.
Print Assumptions dates_explicit_sufficient.

Theorem dates_explicit_sufficient' : forall ser f,
  In (Some f) possible_time_formats -> parses_with f ser = true -> dates_explicit ser.
Proof. exact explicit_format_robust. Qed.
Print Assumptions dates_explicit_sufficient'.

(* 11. permuting the rows does not change the result *)
Theorem row_order_is_irrelevant : forall col col',
  homogeneous_col col -> dates_explicit (dropna col) -> Permutation col col' ->
  infer_series_stype col = infer_series_stype col'.
Proof. exact infer_perm_invariant. Qed.
Print Assumptions row_order_is_irrelevant.

(* 12. adding (or removing, or moving) missing cells in a string- or list-valued
       column does not change the result *)
Definition string_or_list_col (col : list cell) : Prop :=
  forallb (fun c => (is_strlike c || is_list c) || is_missing c) col = true.

Theorem missing_cells_are_irrelevant : forall col col',
  string_or_list_col col -> dropna col' = dropna col ->
  infer_series_stype col' = infer_series_stype col.
Proof. exact infer_missing_invariant. Qed.
Print Assumptions missing_cells_are_irrelevant.

(* 12b. integer and boolean columns: the result is a function of the non-missing
        values (missing cells may be added, removed or moved) *)
Theorem int_bool_missing_cells_are_irrelevant : forall col col',
  (column_of is_int_cell col \/ column_of is_bool_cell col) ->
  dropna col' = dropna col ->
  infer_series_stype col' = infer_series_stype col.
Proof. exact int_bool_missing_invariant. Qed.
Print Assumptions int_bool_missing_cells_are_irrelevant.

(* 11 + 12 together: any reordering combined with any change of the missing cells *)
Theorem order_and_missing_are_irrelevant : forall col col',
  homogeneous_col col -> dates_explicit (dropna col) -> string_or_list_col col ->
  Permutation (dropna col) (dropna col') ->
  infer_series_stype col' = infer_series_stype col.
Proof. exact infer_perm_missing_invariant. Qed.
Print Assumptions order_and_missing_are_irrelevant.

(* 13. frame-level inference is exactly the per-column inference over the columns
       that yield a type, in column order *)
Theorem frame_inference_is_per_column : forall df,
  infer_df_stype df =
  Some (flat_map (fun nc => match infer_series_stype (snd nc) with
                            | Inferred (Some s) => [(fst nc, s)]
                            | _ => []
                            end) df).
Proof. exact infer_df_filter_map. Qed.
Print Assumptions frame_inference_is_per_column.

(* ---------------------------------------------------------------- the hypotheses are satisfiable; boundary witnesses *)
Definition ints (v : Z) (k : nat) : list cell := repeat (Int v) k.
Definition strs (s : string) (k : nat) : list cell := repeat (Str s) k.

(* both sides of the threshold, integers (with a missing cell: float64 in pandas) *)
Example int_5_categorical :
  infer_series_stype (ints 1 5 ++ [Missing] ++ ints 2 6) = Inferred (Some st_categorical).
Proof. vm_compute. reflexivity. Qed.
Example int_4_numerical :
  infer_series_stype (ints 1 4 ++ [Missing] ++ ints 2 6) = Inferred (Some st_numerical).
Proof. vm_compute. reflexivity. Qed.

(* both sides, repeated strings *)
Example str_5_categorical :
  infer_series_stype (strs "kabq" 5 ++ strs "kecq" 5) = Inferred (Some st_categorical).
Proof. vm_compute. reflexivity. Qed.
Example str_4_text :
  infer_series_stype (strs "kabq" 4 ++ strs "kecq" 5) = Inferred (Some st_text_embedded).
Proof. vm_compute. reflexivity. Qed.

(* both sides, delimiter-joined tokens: every token occurs 5 times / one only 4 times *)
Definition mc5 : list cell :=
  [Str "a|b"; Str "b | a"; Str "a|b|c"; Str "c|a "; Str "b|c|a"; Str " c|b"; Str "c"; Str "c | c"; Missing].
Example tokens_5_multicategorical : infer_series_stype mc5 = Inferred (Some st_multicategorical).
Proof. vm_compute. reflexivity. Qed.
Example tokens_4_text : infer_series_stype (tl mc5) = Inferred (Some st_text_embedded).
Proof. vm_compute. reflexivity. Qed.
Example tokens_comma_multicategorical :
  infer_series_stype [Str "a,b"; Str "b, a"; Str "a,b "; Str " b,a"; Str "a,b,b"] = Inferred (Some st_multicategorical).
Proof. vm_compute. reflexivity. Qed.

(* the hypotheses of 11 / 12 hold on a list column with a leading missing cell, and
   the conclusion is not vacuous *)
Definition emb_col : list cell :=
  [Missing; LList [EFloat (1 # 2); EFloat (3 # 1)]; LList [EFloat (5 # 4); EFloat (0 # 1)]; Missing].
Example emb_col_homogeneous : homogeneous_col emb_col /\ string_or_list_col emb_col.
Proof. split; [left|]; vm_compute; reflexivity. Qed.
Example emb_col_result :
  infer_series_stype emb_col = Inferred (Some st_embedding) /\
  infer_series_stype (rev emb_col) = Inferred (Some st_embedding) /\
  Permutation emb_col (rev emb_col).
Proof. split; [|split]; try (vm_compute; reflexivity). apply Permutation_rev. Qed.

(* without homogeneity the row order matters (which is why 10 is needed) *)
Example order_matters_without_homogeneity :
  infer_series_stype [LList [EStr "a"]; Str "a"] = Inferred None /\
  infer_series_stype [Str "a"; LList [EStr "a"]] = Inferred (Some st_embedding).
Proof. split; vm_compute; reflexivity. Qed.

(* a float column with a non-integral value and a missing cell; an all-integral one without *)
Example float_examples :
  infer_series_stype [Float (3 # 2); Missing; Float (2 # 1)] = Inferred (Some st_numerical) /\
  infer_series_stype (repeat (Float (2 # 1)) 6) = Inferred (Some st_numerical).
Proof. split; vm_compute; reflexivity. Qed.

(* a frame: the all-missing column is skipped, order kept *)
Definition iso (s : string) : cell := DateStr "%Y-%m-%d" ["%Y-%m-%d"] s.
Example frame_example :
  infer_df_stype [("n", [Float (1 # 2)]); ("gone", [Missing; Missing]); ("t", [iso "2020-01-02"])]
  = Some [("n", st_numerical); ("t", st_timestamp)].
Proof. vm_compute. reflexivity. Qed.

(* booleans with a missing cell (object dtype in pandas) *)
Example bool_with_missing :
  infer_series_stype [Bool true; Missing; Bool false] = Inferred (Some st_categorical).
Proof. vm_compute. reflexivity. Qed.

(* integral floats: numerical without NaN, categorical with one (2b) *)
Example integral_floats_example :
  infer_series_stype (repeat (Float (1 # 1)) 5 ++ repeat (Float (2 # 1)) 5) = Inferred (Some st_numerical) /\
  infer_series_stype (repeat (Float (1 # 1)) 5 ++ repeat (Float (2 # 1)) 5 ++ [Missing]) = Inferred (Some st_categorical).
Proof. split; vm_compute; reflexivity. Qed.

(* KNOWN FINDING date-format-inference-order-dependent, at model level.  Day-first
   dates: "01/02/2020" is ambiguous (pandas guesses month-first, both readings parse),
   "13/02/2020" is not.  The column is homogeneous, every cell parses, and the result
   depends on which cell comes first: the statement "unchanged by permuting the rows"
   is refuted for date columns outside the explicit formats. *)
Definition d_ambiguous : cell := DateStr "%m/%d/%Y" ["%m/%d/%Y"; "%d/%m/%Y"] "01/02/2020".
Definition d_dayfirst : cell := DateStr "%d/%m/%Y" ["%d/%m/%Y"] "13/02/2020".
Example date_guess_order_dependence_refuted :
  exists col col',
    homogeneous_col col /\ Permutation col col' /\
    infer_series_stype col = Inferred (Some st_text_embedded) /\
    infer_series_stype col' = Inferred (Some st_timestamp).
Proof.
  exists [d_ambiguous; d_dayfirst], [d_dayfirst; d_ambiguous].
  split; [right; reflexivity|]. split; [apply perm_swap|]. split; vm_compute; reflexivity.
Qed.

(* mixed explicit formats: every cell parses under SOME candidate, no candidate parses
   all of them: not a timestamp in any order (second half of the known finding) *)
Example mixed_iso_formats_not_timestamp :
  infer_series_stype [iso "2020-01-02"; DateStr "%Y/%m/%d" ["%Y/%m/%d"] "2020/01/03"] = Inferred (Some st_text_embedded) /\
  infer_series_stype [DateStr "%Y/%m/%d" ["%Y/%m/%d"] "2020/01/03"; iso "2020-01-02"] = Inferred (Some st_text_embedded).
Proof. split; vm_compute; reflexivity. Qed.

(* 6b on the boundary witnesses: "a" occurs in 5 rows of mc5 and in 4 rows of its tail; "c"
   occurs twice in the last row and is counted once there *)
Example rows_with_token_example :
  rows_with_token "|"%char "a" (dropna mc5) = 5 /\ rows_with_token "|"%char "a" (dropna (tl mc5)) = 4 /\
  rows_with_token "|"%char "c" [Str "c | c"] = 1 /\
  multicat_spec (dropna mc5) = true /\ multicat_spec (dropna (tl mc5)) = false.
Proof. repeat split; vm_compute; reflexivity. Qed.

(* 2c is not vacuous, and the int64-cast variant of the rule is REFUTED: a column of
   whole floats beyond the int64 range with a missing cell.  The code (and the model)
   say numerical -- every value occurs 3 times; counting the values after
   astype('int64') makes them all INT64_MIN and says categorical (seeded change C18_12).
   The harness replays this column against /repo in every run (boundary
   wholefloat_cast_witness). *)
Definition e19 (k : Z) : cell := Float (inject_Z (k * 10 ^ 19)).
Definition cast_witness : list cell := [e19 1; e19 2; e19 1; e19 2; Missing; e19 1; e19 2].
Example cast_witness_whole : column_of whole_number cast_witness.
Proof. vm_compute. reflexivity. Qed.
Example int64_cast_variant_refuted :
  infer_series_stype cast_witness = Inferred (Some st_numerical) /\
  infer_after_int64_cast cast_witness = Inferred (Some st_categorical).
Proof. split; vm_compute; reflexivity. Qed.
Example magnitude_example :
  infer_series_stype (map (scale_cell (2 ^ 300)) cast_witness) = infer_series_stype cast_witness /\
  infer_series_stype (repeat (Int 3) 5 ++ [Missing]) = Inferred (Some st_categorical) /\
  infer_series_stype (map (scale_cell (10 ^ 19)) (repeat (Int 3) 5 ++ [Missing])) = Inferred (Some st_categorical).
Proof. repeat split; vm_compute; reflexivity. Qed.

(* 6c on witnesses: a date repeated 5 times is a timestamp, not a category; repeated whole
   strings win over their repeated tokens *)
Example priority_examples :
  infer_series_stype (repeat (iso "2020-01-02") 5) = Inferred (Some st_timestamp) /\
  infer_series_stype (strs "a|b" 5 ++ strs "b|a" 5) = Inferred (Some st_categorical) /\
  infer_series_stype (strs "a|b" 4 ++ strs "b|a" 4) = Inferred (Some st_multicategorical).
Proof. repeat split; vm_compute; reflexivity. Qed.
