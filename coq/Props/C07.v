(* C07 -- placeholder, statements follow *)
From PF Require Import Model.Frame Model.FrameSpec.
