(* C07 -- TensorFrame row selection is coherent across all stypes and the target.
   Statements only; every proof is `exact <lemma of Proofs/FrameProofs.v>`.

   Reading guide.  `frame_of vs nm y ov` is the implementation-level TensorFrame
   (Model/Frame.v) that stores the views vs -- one cell matrix (rows x columns x
   cell) per stype, in dense / MultiNestedTensor / MultiEmbeddingTensor / dict
   storage -- with column names nm, target y and explicit row count ov.
   `frame_wf n ...` says that every feature and the target have n rows.
   `py_positions n ix` (Lib/PySlice.v) are the positions the index expression ix
   picks from a Python list of n rows (None where the list selection raises);
   `sel_frame pos ...` is the frame in which THE SAME positions pos were picked
   from every view and from the target, names unchanged.  `tf_getitem` is the
   model of TensorFrame.__getitem__ as written. *)
From Coq Require Import String ZArith List Bool Arith.
From PF Require Import Lib.ListX Lib.PySlice Model.Ragged Model.RaggedSpec Model.RaggedRun Model.Frame Model.FrameSpec
     Gen.Tables.
From PF Require Import Proofs.MntProofs Proofs.MetProofs Proofs.FrameProofs Proofs.MaskFrame.
Import ListNotations.

(* Every feature of every storage kind and the target contain exactly the
   selected rows in the selected order -- the same positions for all of them --
   names are unchanged and the explicit row count becomes the number selected. *)
Theorem getitem_coherent : forall n vs nm yy ov ix pos,
  frame_wf n vs yy ov ->
  py_positions n (as_list_index ix) = Some pos ->
  tf_getitem (frame_of vs nm yy ov) ix = Some (sel_frame pos vs nm yy ov).
Proof. exact (getitem_coherent_proof (mnt_select_refines_proof payload) (met_select_refines_proof payload)). Qed.
Print Assumptions getitem_coherent.

(* ... or everything raises: an index that raises on a list of n rows raises on
   every frame that has a feature, a target or an explicit row count. *)
Theorem getitem_raises : forall n vs nm yy ov ix,
  frame_wf n vs yy ov ->
  vs <> [] \/ yy <> None \/ ov <> None ->
  py_positions n (as_list_index ix) = None ->
  tf_getitem (frame_of vs nm yy ov) ix = None.
Proof. exact (getitem_raises_proof (mnt_select_refines_proof payload) (met_select_refines_proof payload)). Qed.
Print Assumptions getitem_raises.

(* The reported length is the number of selected rows (zero included) and the
   column names are those of the source; this covers frames without features
   (explicit num_rows) as the case vs = []. *)
Theorem getitem_len_names : forall n vs nm yy ov ix pos,
  frame_wf n vs yy ov ->
  py_positions n (as_list_index ix) = Some pos ->
  exists f', tf_getitem (frame_of vs nm yy ov) ix = Some f'
             /\ tf_num_rows f' = Some (length pos) /\ names f' = nm.
Proof. exact (getitem_len_proof (mnt_select_refines_proof payload) (met_select_refines_proof payload)). Qed.
Print Assumptions getitem_len_names.

(* the result is again a frame of (length pos) rows, usable in any further selection *)
Theorem getitem_preserves_wf : forall n vs yy ov pos,
  frame_wf n vs yy ov -> Forall (fun i => i < n) pos ->
  frame_wf (length pos) (map (fun sv => (fst sv, vsel pos (snd sv))) vs) (option_map (ysel pos) yy)
           (option_map (fun _ => length pos) ov).
Proof. exact frame_wf_sel. Qed.
Print Assumptions getitem_preserves_wf.

(* Chains tf[i1][i2]...[ik] of any length, through empty intermediate frames:
   by induction, every step picks the same positions everywhere, and the chain
   raises exactly when a step raises on the list. *)
Theorem getitem_chain : forall p n vs nm yy ov,
  frame_wf n vs yy ov ->
  vs <> [] \/ yy <> None \/ ov <> None ->
  tf_getitem_chain (frame_of vs nm yy ov) p = spec_chain n vs nm yy ov p.
Proof. exact (getitem_chain_proof (mnt_select_refines_proof payload) (met_select_refines_proof payload)). Qed.
Print Assumptions getitem_chain.

(* A chain of selections IS one selection: tf[i1][i2]...[ik] equals selecting, once, the composed positions of the
   ORIGINAL rows (chain_positions: position j of the result is original row pos1[pos2[...[j]]]) from every feature of
   every storage kind and from the target -- "the selected rows in the selected order" through any number of steps;
   and the chain raises exactly when some step's index raises on the list of the rows that are left. *)
Theorem getitem_chain_composes : forall p n vs nm yy ov,
  frame_wf n vs yy ov -> vs <> [] \/ yy <> None \/ ov <> None ->
  tf_getitem_chain (frame_of vs nm yy ov) p
  = option_map (fun pos => sel_frame pos vs nm yy ov) (chain_positions n p).
Proof. exact (getitem_chain_composes_proof (mnt_select_refines_proof payload) (met_select_refines_proof payload)). Qed.
Print Assumptions getitem_chain_composes.

Theorem chain_positions_in_range : forall p n pos, chain_positions n p = Some pos -> Forall (fun i => i < n) pos.
Proof. exact chain_positions_bound. Qed.
Print Assumptions chain_positions_in_range.

(* A slice that overshoots the end behaves like the same slice on a Python
   list: tf[a:b] with a <= n <= b keeps rows a .. n-1 of every feature. *)
Theorem overshooting_slice : forall n vs nm yy ov a b,
  frame_wf n vs yy ov -> a <= n -> n <= b ->
  tf_getitem (frame_of vs nm yy ov) (ISlice (Some (Z.of_nat a)) (Some (Z.of_nat b)) None)
  = Some (sel_frame (seq a (n - a)) vs nm yy ov)
  /\ (forall m : cellmat payload, length m = n -> pick_rows (seq a (n - a)) m = skipn a m).
Proof.
  intros n vs nm yy ov a b Hwf Ha Hb. split.
  - apply (getitem_coherent n); [exact Hwf|]. exact (overshoot_positions n a b Ha Hb).
  - intros m Hm. exact (overshoot_rows m n a Hm Ha).
Qed.
Print Assumptions overshooting_slice.

(* a frame without features and with an explicit row count *)
Theorem getitem_featureless : forall n nm ix pos,
  py_positions n (as_list_index ix) = Some pos ->
  tf_getitem (MkTF [] nm None (Some n)) ix = Some (MkTF [] nm None (Some (length pos))).
Proof.
  intros n nm ix pos E. apply (getitem_coherent n [] nm None (Some n) ix pos); [|exact E].
  split; [constructor|split; [exact I|reflexivity]].
Qed.
Print Assumptions getitem_featureless.

(* "agreeing row-for-row with selecting from each column separately": looking a column up in the selected frame
   gives the selected rows of that column (getitem_coherent + C08 get_col_feat_spec). *)
Theorem getitem_then_get_col_feat : forall n vs nm yy ov ix pos s v cn j name,
  frame_wf n vs yy ov -> names_ok vs nm -> NoDup (flat_map snd nm) ->
  py_positions n (as_list_index ix) = Some pos ->
  In (s, v) vs -> alookup stype_eqb s nm = Some cn -> nth_error cn j = Some name ->
  exists f', tf_getitem (frame_of vs nm yy ov) ix = Some f'
             /\ tf_get_col_feat f' name = Some (feat_of_view (vcol j (vsel pos v)), s).
Proof.
  intros n vs nm yy ov ix pos s v cn j name Hwf Hnm Hnd E Hin Hcn Hj.
  exists (sel_frame pos vs nm yy ov). split; [exact (getitem_coherent n vs nm yy ov ix pos Hwf E)|].
  unfold sel_frame. apply (get_col_feat_spec_proof (length pos) _ nm _ _ s (vsel pos v) cn j name); try assumption.
  - apply (frame_wf_sel n); [exact Hwf|]. eapply py_positions_bound; exact E.
  - apply names_ok_sel. exact Hnm.
  - apply in_map_iff. exists (s, v). split; [reflexivity|exact Hin].
Qed.
Print Assumptions getitem_then_get_col_feat.

(* ------------------------------------------------------------------ *)
(* The boolean mask in plain terms.  The model gives `tf[mask]` the meaning the code gives it
   (`mask.nonzero().flatten()`, then the positional selection); Proofs/MaskFacts.v shows that this is what a reader
   expects of a mask -- exactly the rows whose entry is True, each once, in their original order (`keep_true`, written
   with `filter` only) -- that a mask of another length raises, and that the reported length is the number of Trues. *)
From Coq Require Import Sorted.
From PF Require Import Proofs.MaskFacts.

Theorem mask_selects_exactly_the_true_rows : forall (X : Type) (m : list bool) (l : list X),
  py_select (IMask m) l = if (length m =? length l)%nat then Some (keep_true m l) else None.
Proof. exact (@py_select_mask). Qed.
Print Assumptions mask_selects_exactly_the_true_rows.

Theorem mask_positions_are_the_true_entries_in_order : forall m,
  (forall i, In i (nonzero m) <-> nth_error m i = Some true)
  /\ StronglySorted lt (nonzero m)
  /\ length (nonzero m) = count_true m.
Proof. intro m. exact (conj (nonzero_In m) (conj (nonzero_sorted m) (nonzero_length m))). Qed.
Print Assumptions mask_positions_are_the_true_entries_in_order.

Theorem getitem_mask_row_count : forall n vs nm yy ov m,
  frame_wf n vs yy ov -> length m = n ->
  tf_getitem (frame_of vs nm yy ov) (IMask m) = Some (sel_frame (nonzero m) vs nm yy ov)
  /\ exists f', tf_getitem (frame_of vs nm yy ov) (IMask m) = Some f'
                /\ tf_num_rows f' = Some (count_true m) /\ names f' = nm.
Proof. exact getitem_mask_row_count_proof. Qed.
Print Assumptions getitem_mask_row_count.

Theorem getitem_mask_of_another_length_raises : forall n vs nm yy ov m,
  frame_wf n vs yy ov -> vs <> [] \/ yy <> None \/ ov <> None -> length m <> n ->
  tf_getitem (frame_of vs nm yy ov) (IMask m) = None.
Proof. exact getitem_mask_wrong_length_proof. Qed.
Print Assumptions getitem_mask_of_another_length_raises.

Theorem all_true_mask_is_identity_all_false_is_empty : forall (X : Type) (l : list X),
  py_select (IMask (repeat true (length l))) l = Some l
  /\ py_select (IMask (repeat false (length l))) l = Some [].
Proof. exact (@py_select_mask_extremes). Qed.
Print Assumptions all_true_mask_is_identity_all_false_is_empty.

Example ex_mask_plain :
  py_select (IMask [true; false; true; true]) [10; 11; 12; 13] = Some [10; 12; 13]
  /\ py_select (IMask [true; false; true]) [10; 11; 12; 13] = None
  /\ keep_true [false; false] [1; 2] = @nil nat /\ count_true [true; false; true; true] = 3.
Proof. vm_compute. repeat split. Qed.

(* ------------------------------------------------------------------ *)
(* The strided slice in plain terms (Proofs/SliceFacts.v).  `py_positions` enumerates a slice with the closed-form
   count (hi - lo + s - 1) / s; for every n, every bounds (negative, missing, overshooting) and every step this is
   exactly the set of positions lo <= i < hi with s | (i - lo), in increasing order, where lo/hi are the bounds
   wrapped once and clamped to [0, n]; a step <= 0 raises. *)
From PF Require Import Proofs.SliceFacts.

Theorem slice_positions_in_plain_terms : forall n a b s pos,
  py_positions n (ISlice a b s) = Some pos ->
  let lo := fst (slice_indices n a b) in
  let hi := snd (slice_indices n a b) in
  let st := Z.to_nat (match s with None => 1%Z | Some v => v end) in
  0 < st /\ hi <= n
  /\ (forall i, In i pos <-> (lo <= i < hi /\ (i - lo) mod st = 0))
  /\ StronglySorted lt pos.
Proof. exact slice_positions_spec. Qed.
Print Assumptions slice_positions_in_plain_terms.

Theorem slice_step_must_be_positive : forall n a b v, (v <= 0)%Z -> py_positions n (ISlice a b (Some v)) = None.
Proof. exact slice_step_nonpositive. Qed.
Print Assumptions slice_step_must_be_positive.

Example ex_slice_plain :
  py_positions 10 (ISlice (Some (-7)%Z) (Some 100%Z) (Some 3%Z)) = Some [3; 6; 9]
  /\ py_positions 10 (ISlice (Some 8%Z) (Some 2%Z) None) = Some []
  /\ py_positions 10 (ISlice None None (Some 0%Z)) = None.
Proof. vm_compute. repeat split. Qed.

(* ------------------------------------------------------------------ *)
(* A `range` index in plain terms (Proofs/RangeFacts.v): over all of Z, `list(range(a, b, s))` as the model computes
   it (closed-form counts for both signs of the step) lists exactly the integers from a (included) towards b
   (excluded) that differ from a by a multiple of s; s = 0 raises. *)
From PF Require Import Proofs.RangeFacts.

Theorem range_index_in_plain_terms : forall a b s : Z,
  (s = 0 -> py_range a b s = None)%Z /\
  (s <> 0 -> exists l, py_range a b s = Some l /\
     forall x, In x l <-> (if 0 <? s then a <= x < b /\ (x - a) mod s = 0
                           else b < x <= a /\ (a - x) mod (- s) = 0))%Z.
Proof. exact py_range_plain. Qed.
Print Assumptions range_index_in_plain_terms.

Example ex_range_plain :
  py_range 7 (-2) (-3) = Some [7; 4; 1]%Z /\ py_range (-5) 6 4 = Some [-5; -1; 3]%Z /\ py_range 3 3 1 = Some [].
Proof. vm_compute. repeat split. Qed.

(* ------------------------------------------------------------------ *)
(* Integer, list and index-tensor selections in plain terms (Proofs/IndexFacts.v): an entry i over n rows is accepted
   iff -n <= i < n and then denotes row (i mod n) -- a negative entry wraps exactly once, never twice; duplicates and
   order are kept; one rejected entry rejects the whole selection. *)
From PF Require Import Proofs.IndexFacts.

Theorem list_and_tensor_indices_in_plain_terms : forall n l,
  let answer := if forallb (in_range_z n) l then Some (map (fun i => Z.to_nat (i mod Z.of_nat n)) l) else None in
  py_positions n (IList l) = answer /\ py_positions n (ITensor l) = answer.
Proof. exact (fun n l => conj (list_positions_plain n l) (tensor_positions_plain n l)). Qed.
Print Assumptions list_and_tensor_indices_in_plain_terms.

Theorem integer_index_in_plain_terms : forall n i,
  py_positions n (IInt i) = if in_range_z n i then Some [Z.to_nat (i mod Z.of_nat n)] else None.
Proof. exact int_positions_plain. Qed.
Print Assumptions integer_index_in_plain_terms.

Example ex_index_plain :
  py_positions 4 (IList [-4; 3; -1; 0; 3]%Z) = Some [0; 3; 3; 0; 3]
  /\ py_positions 4 (ITensor [0; -5]%Z) = None /\ py_positions 4 (IInt 4%Z) = None /\ py_positions 0 (IList []) = Some [].
Proof. vm_compute. repeat split. Qed.

(* ------------------------------------------------------------------ *)
(* "The source is left unchanged" for the one object of the caller that the selection code writes next to: the index
   tensor.  Store model (Model/FrameStore.v) of _normalize_index's tensor branch -- clone, then the masked in-place
   += on the clone: the caller's tensor (any object that existed before) is never written, whatever it contains, and
   the normalised index holds the wrapped entries; and this for any number of ragged containers of the frame that
   receive the same index object one after the other. *)
From PF Require Import Model.FrameStore Proofs.FrameStoreProofs.

Theorem normalize_index_leaves_caller_index : forall (h : theap) a n,
  let r := normalize_index_store h a n in
  (forall b, b < length h -> hget [] (fst (fst r)) b = hget [] h b)
  /\ Forall (fun x => length h <= x) (snd r)
  /\ length h <= length (fst (fst r))
  /\ hget [] (fst (fst r)) (snd (fst r)) = map (wrap_neg n) (hget [] h a).
Proof. exact normalize_index_store_proof. Qed.
Print Assumptions normalize_index_leaves_caller_index.

Theorem getitem_leaves_caller_index : forall k (h : theap) a n,
  a < length h ->
  let r := getitem_index_store h a n k in
  (forall b, b < length h -> hget [] (fst r) b = hget [] h b) /\ Forall (fun x => length h <= x) (snd r)
  /\ length h <= length (fst r).
Proof. exact getitem_index_store_proof. Qed.
Print Assumptions getitem_leaves_caller_index.

(* the wrapped entry is the position the pure model (norm_index, used by getitem_coherent) computes *)
Theorem wrap_neg_is_norm_index : forall n i k, norm_index n i = Some k -> wrap_neg n i = Z.of_nat k.
Proof. exact wrap_neg_norm_index. Qed.
Print Assumptions wrap_neg_is_norm_index.

Example ex_store_index :
  let r := getitem_index_store [[(-1); 0; (-3)]%Z] 0 3 2 in
  hget [] (fst r) 0 = [(-1); 0; (-3)]%Z /\ hget [] (fst r) 1 = [2; 0; 0]%Z /\ snd r = [1; 2].
Proof. vm_compute. repeat split. Qed.

(* ------------------------------------------------------------------ *)
(* Non-vacuity: a 3-row frame with one feature of every storage kind, a target
   and an explicit row count is well-formed; selecting [2, 0] and then the
   overshooting slice [1:5] computes. *)
Definition ex_vs : list (stype * fview) :=
  [ (st_numerical, VDense 2 1 [[[Some 1%Z]; [Some 2%Z]]; [[None]; [Some 4%Z]]; [[Some 5%Z]; [Some 6%Z]]]);
    (st_multicategorical, VNested 1 [[[Some 7%Z; Some 8%Z]]; [[]]; [[Some 9%Z]]]);
    (st_embedding, VEmb [2; 0] [[[Some 10%Z; Some 11%Z]; []]; [[Some 12%Z; None]; []]; [[Some 14%Z; Some 15%Z]; []]]);
    (st_text_tokenized, VDict [("input_ids"%string, (1, [[[Some 16%Z]]; [[]]; [[Some 17%Z; Some 18%Z]]]));
                               ("attention_mask"%string, (1, [[[Some 1%Z]]; [[]]; [[Some 1%Z; Some 1%Z]]]))]) ].
Definition ex_names : list (stype * list string) :=
  [ (st_numerical, ["a"; "b"]%string); (st_multicategorical, ["m"]%string); (st_embedding, ["e"; "f"]%string);
    (st_text_tokenized, ["t"]%string) ].
Definition ex_y : option (list payload) := Some [Some 100%Z; Some 200%Z; Some 300%Z].

Example ex_frame_wf : frame_wf 3 ex_vs ex_y (Some 3).
Proof.
  unfold frame_wf, ex_vs, ex_y. split; [|split; reflexivity].
  repeat match goal with |- _ <> _ => discriminate | |- _ => constructor end.
Qed.

Example ex_validates : tf_validate (frame_of ex_vs ex_names ex_y (Some 3)) = true.
Proof. vm_compute. reflexivity. Qed.

Example ex_chain_positions :
  chain_positions 3 [ITensor [2; 0; 2]%Z; ISlice (Some 1%Z) (Some 5%Z) None; IInt (-1)%Z] = Some [2].
Proof. vm_compute. reflexivity. Qed.

Example ex_chain :
  tf_getitem_chain (frame_of ex_vs ex_names ex_y (Some 3))
                   [ITensor [2; 0]%Z; ISlice (Some 1%Z) (Some 5%Z) None]
  = Some (sel_frame [0] ex_vs ex_names ex_y (Some 3)).
Proof. vm_compute. reflexivity. Qed.
