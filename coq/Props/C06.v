(* C06 — ragged containers: construction, concatenation, clone, padding and fill laws.
   Statements only; every proof is `exact <lemma of Proofs/RaggedCatProofs.v>`.

   Vocabulary (Model/RaggedSpec.v, Model/RaggedCat.v):
     cell matrix m : list (list (list A))      rows x columns x scalars of a cell
     rect c m            every row of m has c cells
     rect_w ws m         every row of m has one cell per column, of widths ws
     mnt_of_cells c m    THE MultiNestedTensor (num_rows, num_cols, values, offset) holding m
     met_of_cells ws m   THE MultiEmbeddingTensor holding m
     hcat n ms           rows of the matrices ms appended pairwise (n rows)
     pick_rows / pick_cols pos m     the nested-list selection of positions pos
     fill_cells / pad_cells          nested-list references of fillna_col / to_dense
   junk_o / junk_v are the contents of torch.empty buffers: every statement holds
   for all of them.  All theorems are for every payload type A, every size, every
   number of parts (proved by induction, no bounds). *)
From Coq Require Import ZArith List Bool Arith.
From PF Require Import Lib.ListX Lib.PySlice Model.Ragged Model.RaggedSpec Model.RaggedCat.
From PF Require Import Model.RaggedStore Proofs.RaggedCatProofs Proofs.RaggedStoreProofs.
Import ListNotations.

Section C06.
  Variable A : Type.
  Notation cellmat := (list (list (list A))).
  Variable junk_o : nat -> nat.
  Variable junk_v : nat -> A.

  (* ------------------------------------------------------------------ *)
  (* 1. building a container from its cells and reading the cells back is the identity *)

  Theorem mnt_from_mat_cells : forall c (m : cellmat), rect c m -> m <> [] -> c <> 0 ->
    mnt_from_mat A m = Some (mnt_of_cells c m).
  Proof. exact (mnt_from_mat_canon A). Qed.

  Theorem mnt_cells_read_back : forall c (m : cellmat) i j, rect c m -> i < length m -> j < c ->
    mnt_get_value A (mnt_of_cells c m) i j = Some (nth j (nth i m []) []).
  Proof. exact (mnt_get_value_canon A). Qed.

  (* anything that is not a non-empty rectangular matrix is rejected *)
  Theorem mnt_from_mat_rejects :
    mnt_from_mat A [] = None
    /\ (forall m : cellmat, (forall c, ~ rect c m) -> mnt_from_mat A m = None)
    /\ (forall m : cellmat, rect 0 m -> mnt_from_mat A m = None).
  Proof. exact (conj (mnt_from_mat_empty A) (conj (mnt_from_mat_ragged A) (mnt_from_mat_nocols A))). Qed.

  Theorem met_from_cells_cells : forall ws (m : cellmat), rect_w ws m -> m <> [] -> ws <> [] ->
    met_from_cells A m = Some (met_of_cells ws m).
  Proof. exact (met_from_cells_canon A). Qed.

  Theorem met_cells_read_back : forall ws (m : cellmat) i j, rect_w ws m -> i < length m -> j < length ws ->
    met_get_value A (met_of_cells ws m) i j = Some (nth j (nth i m []) []).
  Proof. exact (met_get_value_canon A). Qed.

  Theorem met_from_cells_rejects :
    met_from_cells A [] = None /\ (forall m : cellmat, met_from_cells A ([] :: m) = None).
  Proof. exact (conj (met_from_cells_empty A) (met_from_cells_nocols A)). Qed.

  (* from_tensor_list on its real input: one 2-D tensor per column.  The column tensors of a
     cell matrix give the canonical container; an empty list and tensors with different
     numbers of rows are rejected. *)
  Theorem met_from_tensor_list_cells : forall ws (m : cellmat), rect_w ws m -> ws <> [] ->
    met_from_tensor_list A (cols_of ws m) = Some (met_of_cells ws m).
  Proof. exact (met_from_tensor_list_canon A). Qed.

  Theorem met_from_tensor_list_rejects :
    met_from_tensor_list A [] = None
    /\ (forall v0 rest v, In v rest -> length (t2rows v) <> length (t2rows v0) ->
        met_from_tensor_list A (v0 :: rest) = None).
  Proof. exact (conj (met_from_tensor_list_empty A) (met_from_tensor_list_rows_mismatch A)). Qed.

  (* ------------------------------------------------------------------ *)
  (* 2. concatenation yields exactly the cells of the parts in order *)

  (* rows: any number of parts, parts with zero rows included *)
  Theorem mnt_cat_rows : forall c (ms : list cellmat), Forall (rect c) ms -> ms <> [] ->
    mnt_cat A junk_o junk_v (map (mnt_of_cells c) ms) 0%Z = Some (mnt_of_cells c (concat ms)).
  Proof. intros c ms H Hne. rewrite mnt_cat_dim0. exact (mnt_cat0_canon A junk_o c ms H Hne). Qed.

  (* columns: parts p = (number of columns, cells), all with n rows; parts with zero
     columns and n = 0 included; the result row r is the rows r of the parts appended *)
  Theorem mnt_cat_cols : forall n (ps : list (nat * cellmat)), ps <> [] ->
    Forall (fun p => rect (fst p) (snd p) /\ length (snd p) = n) ps ->
    mnt_cat A junk_o junk_v (map (fun p => mnt_of_cells (fst p) (snd p)) ps) 1%Z =
    Some (mnt_of_cells (sum (map fst ps)) (hcat n (map snd ps))).
  Proof. intros n ps Hne H. rewrite mnt_cat_dim1. exact (mnt_cat1_canon A junk_o junk_v n ps Hne H). Qed.

  Theorem met_cat_rows : forall ws (ms : list cellmat), ms <> [] ->
    met_cat A (map (met_of_cells ws) ms) 0%Z = Some (met_of_cells ws (concat ms)).
  Proof. intros ws ms Hne. rewrite met_cat_dim0. exact (met_cat0_canon A ws ms Hne). Qed.

  (* parts p = (column widths, cells) *)
  Theorem met_cat_cols : forall n (ps : list (list nat * cellmat)), ps <> [] ->
    Forall (fun p => length (snd p) = n) ps ->
    met_cat A (map (fun p => met_of_cells (fst p) (snd p)) ps) 1%Z =
    Some (met_of_cells (concat (map fst ps)) (hcat n (map snd ps))).
  Proof. intros n ps Hne H. rewrite met_cat_dim1. exact (met_cat1_canon A n ps Hne H). Qed.

  (* the results are again canonical containers of rectangular matrices, hence usable in
     every further operation (C05) *)
  Theorem cat_results_rect :
    (forall c (ms : list cellmat), Forall (rect c) ms -> rect c (concat ms))
    /\ (forall n (ps : list (nat * cellmat)),
          Forall (fun p => rect (fst p) (snd p) /\ length (snd p) = n) ps ->
          rect (sum (map fst ps)) (hcat n (map snd ps))).
  Proof. exact (conj (rect_concat A) (hcat_rect A)). Qed.

  (* dim = -3 / -2 are dim = 0 / 1 *)
  Theorem cat_negative_dims : forall (xs : list (mnt A)) (ys : list (met A)),
    (mnt_cat A junk_o junk_v xs (-3)%Z = mnt_cat A junk_o junk_v xs 0%Z
     /\ mnt_cat A junk_o junk_v xs (-2)%Z = mnt_cat A junk_o junk_v xs 1%Z)
    /\ (met_cat A ys (-3)%Z = met_cat A ys 0%Z /\ met_cat A ys (-2)%Z = met_cat A ys 1%Z).
  Proof. intros xs ys. exact (conj (mnt_cat_neg A junk_o junk_v xs) (met_cat_neg A ys)). Qed.

  (* ------------------------------------------------------------------ *)
  (* 3. rejections: empty argument lists and disagreeing row / column counts *)

  Theorem cat_rejects_empty : forall d,
    mnt_cat A junk_o junk_v [] d = None /\ met_cat A [] d = None
    /\ cat_tensor_data A junk_o junk_v [] d = None.
  Proof. intros d. repeat split. Qed.

  Theorem mnt_cat_rejects_mismatch : forall (x0 x : mnt A) rest, In x rest ->
    (nc x <> nc x0 -> mnt_cat A junk_o junk_v (x0 :: rest) 0%Z = None)
    /\ (nr x <> nr x0 -> mnt_cat A junk_o junk_v (x0 :: rest) 1%Z = None).
  Proof.
    intros x0 x rest Hin. split; intros Hne.
    - exact (mnt_cat0_mismatch A junk_o x0 rest x Hin Hne).
    - exact (mnt_cat1_mismatch A junk_o junk_v x0 rest x Hin Hne).
  Qed.

  Theorem met_cat_rejects_mismatch : forall (x0 x : met A) rest, In x rest ->
    (ec x <> ec x0 -> met_cat A (x0 :: rest) 0%Z = None)
    /\ (er x <> er x0 -> met_cat A (x0 :: rest) 1%Z = None).
  Proof.
    intros x0 x rest Hin. split; intros Hne.
    - exact (met_cat0_mismatch A x0 rest x Hin Hne).
    - exact (met_cat1_mismatch A x0 rest x Hin Hne).
  Qed.

  (* row cat of MultiEmbeddingTensors with equal num_cols but different column widths: no
     container can hold the rows of both, so it is rejected (any part whose offset differs
     from the first; in particular canonical containers of different width vectors, even of
     equal total width) *)
  Theorem met_cat_rows_rejects_width_mismatch :
    (forall (x0 x : met A) rest, In x rest -> eoffs x <> eoffs x0 -> met_cat A (x0 :: rest) 0%Z = None)
    /\ (forall ws ws' (m m' : cellmat) before after, ws' <> ws ->
        met_cat A (met_of_cells ws m :: before ++ met_of_cells ws' m' :: after) 0%Z = None).
  Proof.
    split.
    - intros x0 x rest Hin Hne. exact (met_cat0_offset_mismatch A x0 rest x Hin Hne).
    - intros ws ws' m m' before after Hne. exact (met_cat0_width_mismatch A ws ws' m m' before after Hne).
  Qed.

  (* ------------------------------------------------------------------ *)
  (* 4. cat of selections, and the split / cat round trip.
     ixs are ANY index expressions of C05 (ints, slices, lists, ranges, tensors, masks)
     that are valid for the axis; poss are the positions they denote.  Parts may be
     empty (t[2:2], t[:, []]).  The parts are computed by the real selection kernels. *)

  Theorem mnt_cat_of_row_selections : forall c (m : cellmat) ixs poss, rect c m -> ixs <> [] ->
    Forall2 (fun ix pos => py_positions (length m) ix = Some pos) ixs poss ->
    (parts <- mapM (fun ix => select A _ (mnt_kernels A) (mnt_of_cells c m) ix 0) ixs ;;
     mnt_cat A junk_o junk_v parts 0%Z)
    = Some (mnt_of_cells c (pick_rows (concat poss) m)).
  Proof. exact (mnt_cat_row_selections A junk_o junk_v). Qed.

  Theorem mnt_cat_of_col_selections : forall c (m : cellmat) ixs poss, rect c m -> ixs <> [] ->
    Forall2 (fun ix pos => py_positions c ix = Some pos) ixs poss ->
    (parts <- mapM (fun ix => select A _ (mnt_kernels A) (mnt_of_cells c m) ix 1) ixs ;;
     mnt_cat A junk_o junk_v parts 1%Z)
    = Some (mnt_of_cells (length (concat poss)) (pick_cols (concat poss) m)).
  Proof. exact (mnt_cat_col_selections A junk_o junk_v). Qed.

  (* any partition of the rows (resp. columns) into parts whose positions concatenate to
     0 .. n-1 restores an EQUAL container: same sizes, same values, same offsets *)
  Theorem mnt_split_cat_roundtrip_rows : forall c (m : cellmat) ixs poss, rect c m -> ixs <> [] ->
    Forall2 (fun ix pos => py_positions (length m) ix = Some pos) ixs poss ->
    concat poss = seq 0 (length m) ->
    (parts <- mapM (fun ix => select A _ (mnt_kernels A) (mnt_of_cells c m) ix 0) ixs ;;
     mnt_cat A junk_o junk_v parts 0%Z) = Some (mnt_of_cells c m).
  Proof. exact (mnt_roundtrip_rows A junk_o junk_v). Qed.

  Theorem mnt_split_cat_roundtrip_cols : forall c (m : cellmat) ixs poss, rect c m -> ixs <> [] ->
    Forall2 (fun ix pos => py_positions c ix = Some pos) ixs poss ->
    concat poss = seq 0 c ->
    (parts <- mapM (fun ix => select A _ (mnt_kernels A) (mnt_of_cells c m) ix 1) ixs ;;
     mnt_cat A junk_o junk_v parts 1%Z) = Some (mnt_of_cells c m).
  Proof. exact (mnt_roundtrip_cols A junk_o junk_v). Qed.

  Theorem met_cat_of_row_selections : forall ws (m : cellmat) ixs poss, rect_w ws m -> ixs <> [] ->
    Forall2 (fun ix pos => py_positions (length m) ix = Some pos) ixs poss ->
    (parts <- mapM (fun ix => select A _ (met_kernels A) (met_of_cells ws m) ix 0) ixs ;; met_cat A parts 0%Z)
    = Some (met_of_cells ws (pick_rows (concat poss) m)).
  Proof. exact (met_cat_row_selections A). Qed.

  Theorem met_cat_of_col_selections : forall ws (m : cellmat) ixs poss, rect_w ws m -> ixs <> [] ->
    Forall2 (fun ix pos => py_positions (length ws) ix = Some pos) ixs poss ->
    (parts <- mapM (fun ix => select A _ (met_kernels A) (met_of_cells ws m) ix 1) ixs ;; met_cat A parts 1%Z)
    = Some (met_of_cells (map (fun j => nth j ws 0) (concat poss)) (pick_cols (concat poss) m)).
  Proof. exact (met_cat_col_selections A). Qed.

  Theorem met_split_cat_roundtrip_rows : forall ws (m : cellmat) ixs poss, rect_w ws m -> ixs <> [] ->
    Forall2 (fun ix pos => py_positions (length m) ix = Some pos) ixs poss ->
    concat poss = seq 0 (length m) ->
    (parts <- mapM (fun ix => select A _ (met_kernels A) (met_of_cells ws m) ix 0) ixs ;; met_cat A parts 0%Z)
    = Some (met_of_cells ws m).
  Proof. exact (met_roundtrip_rows A). Qed.

  Theorem met_split_cat_roundtrip_cols : forall ws (m : cellmat) ixs poss, rect_w ws m -> ixs <> [] ->
    Forall2 (fun ix pos => py_positions (length ws) ix = Some pos) ixs poss ->
    concat poss = seq 0 (length ws) ->
    (parts <- mapM (fun ix => select A _ (met_kernels A) (met_of_cells ws m) ix 1) ixs ;; met_cat A parts 1%Z)
    = Some (met_of_cells ws m).
  Proof. exact (met_roundtrip_cols A). Qed.

  (* ------------------------------------------------------------------ *)
  (* 5. clone gives an equal container  ("shares no storage" is observed at run time) *)
  Theorem clone_equal :
    (forall c (m : cellmat), rect c m -> mnt_clone A (mnt_of_cells c m) = Some (mnt_of_cells c m))
    /\ (forall ws (m : cellmat), met_clone A (met_of_cells ws m) = Some (met_of_cells ws m)).
  Proof. exact (conj (mnt_clone_canon A) (met_clone_canon A)). Qed.

  (* ------------------------------------------------------------------ *)
  (* 6. to_dense: every cell followed only by the fill value (containers with >= 1 cell) *)
  Theorem to_dense_spec : forall fill c (m : cellmat), rect c m -> m <> [] -> c <> 0 ->
    mnt_to_dense A (mnt_of_cells c m) fill = Some (pad_cells fill m).
  Proof. exact (mnt_to_dense_canon A). Qed.

  (* pointwise: dense[i][j][k] = cell[k] if k < |cell| else fill ; the last axis has the
     length of the longest cell *)
  Theorem to_dense_pointwise : forall (fill : A) (m : cellmat) i j k, i < length m -> j < length (nth i m []) ->
    nth k (nth j (nth i (pad_cells fill m) []) []) fill = nth k (nth j (nth i m []) []) fill
    /\ length (nth j (nth i (pad_cells fill m) []) []) = list_max (map (@length A) (concat m)).
  Proof. exact (pad_cells_nth A). Qed.

  (* ------------------------------------------------------------------ *)
  (* 7. fillna_col changes exactly the missing scalars of column j, nothing else:
     sizes, offsets, all other columns and the non-missing scalars of column j stay *)
  Theorem mnt_fillna_col_spec : forall is_na fill c (m : cellmat) j, rect c m -> j < c ->
    mnt_fillna_col A is_na (mnt_of_cells c m) j fill = Some (mnt_of_cells c (fill_cells is_na fill j m)).
  Proof. exact (mnt_fillna_col_canon A). Qed.

  Theorem met_fillna_col_spec : forall is_na fill ws (m : cellmat) j, rect_w ws m -> j < length ws ->
    met_fillna_col A is_na (met_of_cells ws m) j fill = Some (met_of_cells ws (fill_cells is_na fill j m)).
  Proof. exact (met_fillna_col_canon A). Qed.

  Theorem fill_cells_pointwise : forall is_na (fill : A) j (m : cellmat) i,
    (forall j', j' <> j -> nth j' (nth i (fill_cells is_na fill j m) []) [] = nth j' (nth i m []) [])
    /\ (j < length (nth i m []) ->
        nth j (nth i (fill_cells is_na fill j m) []) [] =
        map (fun v => if is_na v then fill else v) (nth j (nth i m []) [])).
  Proof.
    intros is_na fill j m i. split.
    - intros j' Hne. exact (fill_cells_other A is_na fill j j' m i Hne).
    - exact (fill_cells_same A is_na fill j m i).
  Qed.

  (* ------------------------------------------------------------------ *)
  (* 9. store level (Model/RaggedStore.v): `values` tensors are views into numbered
     storages st; n_read / e_read is what an object holds now.  The aliasing the model
     assigns to selections (views / same object / fresh) is compared with the real library
     on every run (scenario "store"). *)
  Variable is_na : A -> bool.

  (* clone: an equal container in a NEW storage; no existing object changes *)
  Theorem clone_allocates : forall (st st' : list (list A)) h c, n_clone A st h = Some (st', c) ->
    n_buf c = length st
    /\ (exists b, st' = st ++ [b])
    /\ n_read A st' c = (t <- n_read A st h ;; mnt_clone A t)
    /\ (forall h0, n_buf h0 < length st -> n_read A st' h0 = n_read A st h0).
  Proof. exact (n_clone_spec A). Qed.

  (* clone shares no storage: fillna_col on the clone changes NO object that existed before
     the clone (the source, its views, ...), and fillna_col on the source does not change the clone *)
  Theorem mnt_clone_shares_no_storage : forall (st st1 : list (list A)) h c, n_clone A st h = Some (st1, c) ->
    forall j v st2,
      (n_fill A is_na st1 c j v = Some st2 -> forall h0, n_buf h0 < length st -> n_read A st2 h0 = n_read A st h0)
      /\ (n_fill A is_na st1 h j v = Some st2 -> n_read A st2 c = n_read A st1 c).
  Proof. exact (n_clone_no_shared_storage A is_na). Qed.

  Theorem met_clone_shares_no_storage : forall (st st1 : list (list (list A))) h c,
    e_clone A st h = Some (st1, c) ->
    forall j v st2,
      (e_fill A is_na st1 c j v = Some st2 -> forall h0, e_buf h0 < length st -> e_read A st2 h0 = e_read A st h0)
      /\ (e_fill A is_na st1 h j v = Some st2 -> e_read A st2 c = e_read A st1 c).
  Proof. exact (e_clone_no_shared_storage A is_na). Qed.

  (* fillna_col is in place: afterwards the object reads as the pure fillna_col of what it read
     before; in its storage only the window of the object is written; every object on another
     storage reads the same *)
  Theorem mnt_fillna_col_in_place : forall (st st' : list (list A)) h j v, n_fill A is_na st h j v = Some st' ->
    length st' = length st
    /\ n_read A st' h = (t <- n_read A st h ;; mnt_fillna_col A is_na t j v)
    /\ (forall h0, n_buf h0 <> n_buf h -> n_read A st' h0 = n_read A st h0)
    /\ (exists b b', nth_error st (n_buf h) = Some b /\ nth_error st' (n_buf h) = Some b' /\
                     firstn (n_start h) b' = firstn (n_start h) b /\
                     skipn (n_start h + n_len h) b' = skipn (n_start h + n_len h) b).
  Proof. exact (n_fill_spec A is_na). Qed.

  Theorem met_fillna_col_writes_one_storage : forall (st st' : list (list (list A))) h j v,
    e_fill A is_na st h j v = Some st' ->
    length st' = length st /\ e_buf h < length st
    /\ (forall k, k <> e_buf h -> nth_error st' k = nth_error st k)
    /\ (forall h0, e_buf h0 <> e_buf h -> e_read A st' h0 = e_read A st h0).
  Proof. exact (e_fill_frame A is_na). Qed.

  (* cat does not modify its arguments (nor any other existing object): the result lives in a
     new storage, except that a one-element torch_frame.cat / MultiEmbeddingTensor.cat returns
     the element itself *)
  Theorem mnt_cat_does_not_modify_arguments : forall (st st' : list (list A)) hs d tf r,
    n_cat A junk_o junk_v st hs d tf = Some (st', r) ->
    (forall h0, n_buf h0 < length st -> n_read A st' h0 = n_read A st h0)
    /\ ((exists h, hs = [h] /\ tf = true /\ st' = st /\ r = h)
        \/ (n_buf r = length st /\
            n_read A st' r = (ts <- mapM (n_read A st) hs ;;
                              if tf then x <- cat_tensor_data A junk_o junk_v (map TMnt ts) d ;; as_mnt A x
                              else mnt_cat A junk_o junk_v ts d))).
  Proof. exact (n_cat_frame A junk_o junk_v). Qed.

  Theorem met_cat_does_not_modify_arguments : forall (st st' : list (list (list A))) hs d tf r,
    e_cat A junk_o junk_v st hs d tf = Some (st', r) ->
    (forall h0, e_buf h0 < length st -> e_read A st' h0 = e_read A st h0)
    /\ ((exists h, hs = [h] /\ st' = st /\ r = h) \/ (exists b, st' = st ++ [b] /\ e_buf r = length st)).
  Proof. exact (e_cat_frame A junk_o junk_v). Qed.

  (* MultiEmbeddingTensor.fillna_col at store level (multi_embedding_tensor.py:fillna_col writes through
     the view values[:, offset[j]:offset[j+1]]): afterwards the object reads as the pure fillna_col of
     what it read before -- also when the object is itself a row / column view of a larger storage *)
  Theorem met_fillna_col_in_place : forall (st st' : list (list (list A))) h j v,
    e_fill A is_na st h j v = Some st' ->
    e_read A st' h = (t <- e_read A st h ;; met_fillna_col A is_na t j v).
  Proof. exact (e_fill_read A is_na). Qed.

  (* MultiEmbeddingTensor.cat / torch_frame.cat at store level, full form: no existing object changes;
     the result is the element itself for a one-element list and an object on a NEW storage otherwise; and
     it reads as the pure cat of what the arguments read (whatever views the arguments are) *)
  Theorem met_cat_at_store_level : forall (st st' : list (list (list A))) hs d tf r,
    e_cat A junk_o junk_v st hs d tf = Some (st', r) ->
    (forall h0, e_buf h0 < length st -> e_read A st' h0 = e_read A st h0)
    /\ ((exists h, hs = [h] /\ st' = st /\ r = h) \/ e_buf r = length st)
    /\ e_read A st' r =
       (ts <- mapM (e_read A st) hs ;;
        if tf then x <- cat_tensor_data A junk_o junk_v (map TMet ts) d ;; as_met A x else met_cat A ts d).
  Proof. exact (e_cat_spec A junk_o junk_v). Qed.

  (* every MultiEmbeddingTensor object read from a store has a well-formed 2-D values tensor
     (num_rows rows of the declared width), and cat preserves that *)
  Theorem met_store_values_well_formed :
    (forall (st : list (list (list A))) h t, e_read A st h = Some t ->
       length (t2rows (evals t)) = er t /\ Forall (fun row => length row = t2w (evals t)) (t2rows (evals t)))
    /\ (forall ts d x, Forall (met_ok A) ts -> met_cat A ts d = Some x -> met_ok A x).
  Proof. exact (conj (e_read_ok A) (met_cat_ok A)). Qed.

  (* ------------------------------------------------------------------ *)
  (* 8. torch_frame.cat on tensor data: one element is returned as is, two or more
     containers go to the class method *)
  Theorem cat_tensor_data_dispatch : forall d,
    (forall x, cat_tensor_data A junk_o junk_v [x] d = Some x)
    /\ (forall t0 t1 ts, cat_tensor_data A junk_o junk_v (map TMnt (t0 :: t1 :: ts)) d =
                         option_map TMnt (mnt_cat A junk_o junk_v (t0 :: t1 :: ts) d))
    /\ (forall t0 t1 ts, cat_tensor_data A junk_o junk_v (map TMet (t0 :: t1 :: ts)) d =
                         option_map TMet (met_cat A (t0 :: t1 :: ts) d)).
  Proof.
    intros d. split; [|split].
    - intros x. exact (cat_tensor_data_single A junk_o junk_v x d).
    - intros. exact (cat_tensor_data_mnt A junk_o junk_v t0 t1 ts d).
    - intros. exact (cat_tensor_data_met A junk_o junk_v t0 t1 ts d).
  Qed.
End C06.

Print Assumptions mnt_from_mat_cells.
Print Assumptions mnt_cells_read_back.
Print Assumptions mnt_from_mat_rejects.
Print Assumptions met_from_cells_cells.
Print Assumptions met_cells_read_back.
Print Assumptions met_from_cells_rejects.
Print Assumptions met_from_tensor_list_cells.
Print Assumptions met_from_tensor_list_rejects.
Print Assumptions met_cat_rows_rejects_width_mismatch.
Print Assumptions mnt_cat_rows.
Print Assumptions mnt_cat_cols.
Print Assumptions met_cat_rows.
Print Assumptions met_cat_cols.
Print Assumptions cat_results_rect.
Print Assumptions cat_negative_dims.
Print Assumptions cat_rejects_empty.
Print Assumptions mnt_cat_rejects_mismatch.
Print Assumptions met_cat_rejects_mismatch.
Print Assumptions mnt_cat_of_row_selections.
Print Assumptions mnt_cat_of_col_selections.
Print Assumptions mnt_split_cat_roundtrip_rows.
Print Assumptions mnt_split_cat_roundtrip_cols.
Print Assumptions met_cat_of_row_selections.
Print Assumptions met_cat_of_col_selections.
Print Assumptions met_split_cat_roundtrip_rows.
Print Assumptions met_split_cat_roundtrip_cols.
Print Assumptions clone_equal.
Print Assumptions to_dense_spec.
Print Assumptions to_dense_pointwise.
Print Assumptions mnt_fillna_col_spec.
Print Assumptions met_fillna_col_spec.
Print Assumptions fill_cells_pointwise.
Print Assumptions cat_tensor_data_dispatch.
Print Assumptions clone_allocates.
Print Assumptions mnt_clone_shares_no_storage.
Print Assumptions met_clone_shares_no_storage.
Print Assumptions mnt_fillna_col_in_place.
Print Assumptions met_fillna_col_writes_one_storage.
Print Assumptions mnt_cat_does_not_modify_arguments.
Print Assumptions met_cat_does_not_modify_arguments.
Print Assumptions met_fillna_col_in_place.
Print Assumptions met_cat_at_store_level.
Print Assumptions met_store_values_well_formed.

(* ---------------------------------------------------------------------- *)
(* Non-vacuity: the hypotheses hold on concrete, non-trivial states, and the
   model computes the stated results on them (vm_compute). *)
Definition ex_m : list (list (list nat)) := [[[1; 2]; [3]]; [[]; [4; 5; 6]]; [[7]; []]].
Definition ex_ps : list (nat * list (list (list nat))) :=
  [(2, ex_m); (0, [[]; []; []]); (1, [[[8]]; [[9; 10]]; [[]]])].
Definition ex_junk : nat -> nat := fun k => 1000 + k.

Example ex_rect : rect 2 ex_m.
Proof. repeat constructor. Qed.

Example ex_parts_ok : Forall (fun p => rect (fst p) (snd p) /\ length (snd p) = 3) ex_ps.
Proof. repeat constructor. Qed.

(* three parts, one of them without columns *)
Example ex_cat_cols :
  mnt_cat nat ex_junk ex_junk (map (fun p => mnt_of_cells (fst p) (snd p)) ex_ps) 1%Z =
  Some (mnt_of_cells 3 [[[1; 2]; [3]; [8]]; [[]; [4; 5; 6]; [9; 10]]; [[7]; []; []]]).
Proof. vm_compute. reflexivity. Qed.

(* a partition of the rows by a slice, an empty slice and an index list; the parts are
   computed by the selection kernels from a container with non-trivial offsets *)
Example ex_valid_parts :
  Forall2 (fun ix pos => py_positions (length ex_m) ix = Some pos)
          [ISlice None (Some 1%Z) None; ISlice (Some 1%Z) (Some 1%Z) None; IList [1%Z; (-1)%Z]]
          [[0]; []; [1; 2]].
Proof. repeat constructor. Qed.

Example ex_roundtrip :
  (parts <- mapM (fun ix => select nat _ (mnt_kernels nat) (mnt_of_cells 2 ex_m) ix 0)
                 [ISlice None (Some 1%Z) None; ISlice (Some 1%Z) (Some 1%Z) None; IList [1%Z; (-1)%Z]] ;;
   mnt_cat nat ex_junk ex_junk parts 0%Z) = Some (mnt_of_cells 2 ex_m).
Proof. vm_compute. reflexivity. Qed.

Example ex_rect_w : rect_w [2; 0; 1] [[[1; 2]; []; [3]]; [[4; 5]; []; [6]]].
Proof. repeat constructor. Qed.

(* same number of columns, same total width, permuted widths: rejected *)
Example ex_width_mismatch :
  met_cat nat [met_of_cells [1; 2] [[[1]; [2; 3]]]; met_of_cells [2; 1] [[[4; 5]; [6]]]] 0%Z = None.
Proof. vm_compute. reflexivity. Qed.

Example ex_to_dense :
  mnt_to_dense nat (mnt_of_cells 2 ex_m) 0 =
  Some [[[1; 2; 0]; [3; 0; 0]]; [[0; 0; 0]; [4; 5; 6]]; [[7; 0; 0]; [0; 0; 0]]].
Proof. vm_compute. reflexivity. Qed.

Example ex_fillna :
  mnt_fillna_col nat (Nat.eqb 5) (mnt_of_cells 2 ex_m) 1 99 =
  Some (mnt_of_cells 2 [[[1; 2]; [3]]; [[]; [4; 99; 6]]; [[7]; []]]).
Proof. vm_compute. reflexivity. Qed.

(* store level: b = base ; s = b[1:3] (a VIEW) ; c = s.clone() ; c.fillna_col(0, 99) ; s.fillna_col(0, 77).
   The write to the clone shows nowhere else; the write to the view shows in the base. *)
Definition ex_prog : list stmt :=
  [PBase [[[Some 1%Z; Some 5%Z]]; [[Some 5%Z]]; [[Some 3%Z; Some 5%Z]]];
   PSel 0 0 (ISlice (Some 1%Z) (Some 3%Z) None); PClone 1; PFill 2 0 (Some 99%Z); PFill 1 0 (Some 77%Z)].
Example ex_store :
  n_observe (fun p => RaggedRun.payload_eqb p (Some 5%Z)) ex_prog =
  Some [CCells 3 1 [[[Some 1%Z; Some 5%Z]]; [[Some 77%Z]]; [[Some 3%Z; Some 77%Z]]];
        CCells 2 1 [[[Some 77%Z]]; [[Some 3%Z; Some 77%Z]]];
        CCells 2 1 [[[Some 99%Z]]; [[Some 3%Z; Some 99%Z]]];
        CCells 2 1 [[[Some 99%Z]]; [[Some 3%Z; Some 99%Z]]];
        CCells 2 1 [[[Some 77%Z]]; [[Some 3%Z; Some 77%Z]]]].
Proof. vm_compute. reflexivity. Qed.

(* the hypothesis of mnt_clone_shares_no_storage is satisfiable on a view with non-zero start *)
Example ex_clone_hyp :
  exists st1 c, n_clone nat [[7; 1; 2; 3; 9]] {| n_nr := 1; n_nc := 2; n_offs := [0; 1; 3]; n_buf := 0; n_start := 1; n_len := 3 |}
                = Some (st1, c) /\ n_buf c = 1.
Proof. eexists. eexists. vm_compute. split; reflexivity. Qed.

(* MultiEmbeddingTensor at store level: b = 3 rows x widths [2;1]; s = b[1:3] (row VIEW); c = s[:, 0] (column
   VIEW of the view); c.fillna_col(0, 77) lands in b; k = cat([s, s], dim=1) is fresh and reads the written cells *)
Definition ex_met_prog : list stmt :=
  [PBase [[[Some 1%Z; Some 5%Z]; [Some 2%Z]]; [[Some 5%Z; Some 3%Z]; [Some 5%Z]]; [[Some 4%Z; Some 5%Z]; [Some 6%Z]]];
   PSel 0 0 (ISlice (Some 1%Z) (Some 3%Z) None); PSel 1 1 (IInt 0%Z); PFill 2 0 (Some 77%Z);
   PCat [1; 1] 1%Z false].
Example ex_met_store :
  e_observe (fun p => RaggedRun.payload_eqb p (Some 5%Z)) ex_met_prog =
  Some [CCells 3 2 [[[Some 1%Z; Some 5%Z]; [Some 2%Z]]; [[Some 77%Z; Some 3%Z]; [Some 5%Z]]; [[Some 4%Z; Some 77%Z]; [Some 6%Z]]];
        CCells 2 2 [[[Some 77%Z; Some 3%Z]; [Some 5%Z]]; [[Some 4%Z; Some 77%Z]; [Some 6%Z]]];
        CCells 2 1 [[[Some 77%Z; Some 3%Z]]; [[Some 4%Z; Some 77%Z]]];
        CCells 2 1 [[[Some 77%Z; Some 3%Z]]; [[Some 4%Z; Some 77%Z]]];
        CCells 2 4 [[[Some 77%Z; Some 3%Z]; [Some 5%Z]; [Some 77%Z; Some 3%Z]; [Some 5%Z]];
                    [[Some 4%Z; Some 77%Z]; [Some 6%Z]; [Some 4%Z; Some 77%Z]; [Some 6%Z]]]].
Proof. vm_compute. reflexivity. Qed.

(* the hypothesis of met_fillna_col_in_place holds on a column view inside a row view *)
Example ex_met_fill_hyp :
  exists st', e_fill nat (Nat.eqb 5) [[[1; 5; 2]; [5; 3; 5]; [4; 5; 6]]]
                     {| e_nr := 2; e_nc := 1; e_offs := [0; 2]; e_buf := 0; e_r0 := 1; e_c0 := 0; e_w := 2 |} 0 77
              = Some st' /\ st' = [[[1; 5; 2]; [77; 3; 5]; [4; 77; 6]]].
Proof. eexists. vm_compute. split; reflexivity. Qed.
