(* C06 — property theorems (statements only; proofs live in Proofs/RaggedCatProofs.v). *)
From Coq Require Import ZArith List Bool Arith.
From PF Require Import Lib.ListX Lib.PySlice Model.Ragged Model.RaggedSpec Model.RaggedCat.
From PF Require Import Proofs.RaggedCatProofs.
Import ListNotations.
