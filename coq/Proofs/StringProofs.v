(* What the Python string primitives of Model/Mapper.v compute (str.strip, str.split): characterisations that do
   not mention the scanning code, so that "the tokens of a cell" in Model/MapperSpec.v has a meaning of its own. *)
From Coq Require Import ZArith List Bool Arith Lia.
From PF Require Import Lib.ListX Model.Ragged Model.Mapper.
Import ListNotations.
Local Open Scope nat_scope.

Lemma lstrip_spec : forall s, exists a,
  s = a ++ lstrip s /\ forallb py_isspace a = true /\
  (lstrip s = [] \/ exists c r, lstrip s = c :: r /\ py_isspace c = false).
Proof.
  induction s as [|c s IH].
  - exists []. simpl. auto.
  - simpl. destruct (py_isspace c) eqn:E.
    + destruct IH as [a [H1 [H2 H3]]]. exists (c :: a). simpl. rewrite E, H2. split; [f_equal; exact H1 | auto].
    + exists []. simpl. split; [reflexivity|]. split; [reflexivity|]. right. exists c, s. auto.
Qed.

Lemma forallb_rev : forall {A} (f : A -> bool) l, forallb f (rev l) = forallb f l.
Proof.
  intros A f l. induction l as [|x l IH]; [reflexivity|]. simpl. rewrite forallb_app, IH. simpl. rewrite andb_true_r.
  apply andb_comm.
Qed.

(* s.strip(): s = (whitespace) ++ strip ++ (whitespace), and strip neither starts nor ends with whitespace *)
Lemma py_strip_spec : forall s, exists a b,
  s = a ++ py_strip s ++ b /\ forallb py_isspace a = true /\ forallb py_isspace b = true /\
  (py_strip s = [] \/
   ((exists c r, py_strip s = c :: r /\ py_isspace c = false) /\ (exists r c, py_strip s = r ++ [c] /\ py_isspace c = false))).
Proof.
  intro s. unfold py_strip.
  destruct (lstrip_spec s) as [a [Ha [Sa Ea]]]. set (t := lstrip s) in *.
  destruct (lstrip_spec (rev t)) as [b' [Hb [Sb Eb]]]. set (u := lstrip (rev t)) in *.
  assert (Ht : t = rev u ++ rev b') by (rewrite <- rev_app_distr, <- Hb, rev_involutive; reflexivity).
  exists a, (rev b'). split; [rewrite Ha, Ht; reflexivity|]. split; [exact Sa|]. split; [rewrite forallb_rev; exact Sb|].
  destruct Eb as [Eu|[c [r [Eu Ec]]]]; [left; rewrite Eu; reflexivity|]. right. split.
  - rewrite Eu in *. simpl in *. destruct Ea as [Et|[c0 [r0 [Et Ec0]]]].
    + rewrite Et in Ht. destruct (rev r); discriminate.
    + rewrite Et in Ht. destruct (rev r ++ [c]) as [|x xs] eqn:X; [destruct (rev r); discriminate|].
      simpl in Ht. injection Ht as <- _. exists c0, xs. auto.
  - exists (rev r), c. rewrite Eu. simpl. auto.
Qed.

(* sep.join(pieces) *)
Fixpoint py_join (sep : str) (pieces : list str) : str :=
  match pieces with
  | [] => []
  | [p] => p
  | p :: rest => p ++ sep ++ py_join sep rest
  end.

Lemma is_prefix_split : forall p s, is_prefix p s = true -> s = p ++ skipn (length p) s.
Proof.
  induction p as [|x p IH]; intros s H; [reflexivity|]. destruct s as [|y s]; [discriminate|]. simpl in H.
  apply andb_prop in H. destruct H as [H1 H2]. apply Z.eqb_eq in H1. subst. simpl. f_equal. apply IH. exact H2.
Qed.

Lemma split_go_skip : forall sep k s cur, k <= length s -> split_go sep s cur k = split_go sep (skipn k s) cur 0.
Proof.
  intros sep. induction k as [|k IH]; intros s cur H; [reflexivity|].
  destruct s as [|c r]; [simpl in H; lia|]. simpl. apply IH. simpl in H. lia.
Qed.

Lemma split_go_nonempty : forall sep s cur k, split_go sep s cur k <> [].
Proof.
  intros sep. induction s as [|c r IH]; intros cur k; simpl; [discriminate|].
  destruct k; [destruct (is_prefix sep (c :: r)); [discriminate | apply IH] | apply IH].
Qed.

Lemma py_join_cons : forall sep p rest, rest <> [] -> py_join sep (p :: rest) = p ++ sep ++ py_join sep rest.
Proof. intros sep p rest H. destruct rest; [contradiction | reflexivity]. Qed.

Lemma split_go_join : forall sep n s cur, sep <> [] -> length s <= n ->
  py_join sep (split_go sep s cur 0) = rev cur ++ s.
Proof.
  intros sep. induction n as [|n IH]; intros s cur Hs Hn.
  - destruct s; [simpl; rewrite app_nil_r; reflexivity | simpl in Hn; lia].
  - destruct s as [|c r]; [simpl; rewrite app_nil_r; reflexivity|].
    cbn [split_go]. destruct (is_prefix sep (c :: r)) eqn:P.
    + pose proof (is_prefix_split _ _ P) as E.
      destruct sep as [|x sep']; [contradiction|]. simpl in E. injection E as Ec Er.
      assert (Hl : length sep' <= length r) by (rewrite Er, app_length; lia).
      replace (length (x :: sep') - 1) with (length sep') by (simpl; lia). rewrite split_go_skip by exact Hl.
      rewrite py_join_cons by apply split_go_nonempty.
      rewrite (IH (skipn (length sep') r) []).
      * simpl. subst x. rewrite Er at 2. reflexivity.
      * discriminate.
      * rewrite skipn_length. simpl in Hn. lia.
    + rewrite (IH r (c :: cur) Hs) by (simpl in Hn; lia). simpl. rewrite <- app_assoc. reflexivity.
Qed.

(* s.split(sep) loses nothing: joining the pieces with the separator gives s back; there is at least one piece *)
Lemma py_split_join : forall s sep pieces, py_split s sep = Some pieces -> py_join sep pieces = s /\ pieces <> [].
Proof.
  intros s sep pieces H. unfold py_split in H. destruct sep as [|x sep'] eqn:E; [discriminate|]. injection H as <-.
  split; [|apply split_go_nonempty]. rewrite (split_go_join (x :: sep') (length s) s []); [reflexivity | discriminate | lia].
Qed.
