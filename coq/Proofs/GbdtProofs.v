(* Lemmas about Model/Gbdt.v (C20). *)
From Coq Require Import List ZArith QArith Qabs Bool Arith Lia Permutation.
From PF Require Import Gen.Tables Model.Gbdt.
Import ListNotations.
Close Scope Q_scope.
Open Scope nat_scope.
Open Scope bool_scope.

(* ------------------------------------------------------------------ lists *)
Lemma nth_error_combine {A B} (a : list A) (b : list B) i x y :
  nth_error a i = Some x -> nth_error b i = Some y -> nth_error (combine a b) i = Some (x, y).
Proof.
  revert b i. induction a as [|a0 a IH]; intros b i Ha Hb; destruct i; simpl in *; try discriminate;
    destruct b; simpl in *; try discriminate.
  - congruence.
  - now apply IH.
Qed.

Lemma nth_error_app_l {A} (a b : list A) j : j < length a -> nth_error (a ++ b) j = nth_error a j.
Proof. intros H. now apply nth_error_app1. Qed.

Lemma nth_error_app_r {A} (a b : list A) j : nth_error (a ++ b) (length a + j) = nth_error b j.
Proof. rewrite nth_error_app2 by lia. f_equal. lia. Qed.

Lemma nth_error_Some_lt {A} (l : list A) j v : nth_error l j = Some v -> j < length l.
Proof. intros H. apply nth_error_Some. congruence. Qed.

(* position of an entry of the k-th cell inside the concatenation of all cells *)
Lemma nth_error_concat {A} (cells : list (list A)) k cell j :
  nth_error cells k = Some cell ->
  nth_error (concat cells) (total (map (@length A) (firstn k cells)) + j) = nth_error (cell ++ concat (skipn (S k) cells)) j.
Proof.
  revert k. induction cells as [|c r IH]; intros k H; destruct k; simpl in *; try discriminate.
  - inversion H; subst. reflexivity.
  - rewrite <- Nat.add_assoc, nth_error_app_r. now apply IH.
Qed.

Lemma nth_error_concat_cell {A} (cells : list (list A)) k cell j v :
  nth_error cells k = Some cell -> nth_error cell j = Some v ->
  nth_error (concat cells) (total (map (@length A) (firstn k cells)) + j) = Some v.
Proof.
  intros Hk Hj. rewrite (nth_error_concat _ _ _ _ Hk), nth_error_app_l; auto.
  eapply nth_error_Some_lt; eauto.
Qed.

Lemma length_concat {A} (l : list (list A)) : length (concat l) = total (map (@length A) l).
Proof. induction l as [|c r IH]; simpl; auto. now rewrite app_length, IH. Qed.

(* ------------------------------------------------------------------ hcat *)
Lemma hcat2_spec n a b :
  length a = n -> length b = n ->
  exists m, hcat2 a b = Some m /\ length m = n /\
            forall i ra rb, nth_error a i = Some ra -> nth_error b i = Some rb ->
                            nth_error m i = Some (ra ++ rb).
Proof.
  intros Ha Hb. unfold hcat2. rewrite Ha, Hb, Nat.eqb_refl.
  eexists. split; [reflexivity|]. split.
  - rewrite map_length, combine_length. lia.
  - intros i ra rb H1 H2.
    rewrite nth_error_map. pose proof (nth_error_combine _ _ _ _ _ H1 H2) as X.
    unfold row in *. rewrite X. reflexivity.
Qed.

(* a block that may be absent, and the piece of row i it contributes *)
Definition piece (o : option block) (i : nat) : option row :=
  match o with None => Some [] | Some b => nth_error b i end.
Definition rows_ok (n : nat) (o : option block) : Prop :=
  match o with None => True | Some b => length b = n end.

Lemma hcat3_spec n (A B C : option block) :
  rows_ok n A -> rows_ok n B -> rows_ok n C ->
  olist A ++ olist B ++ olist C <> [] ->
  exists m, hcat (olist A ++ olist B ++ olist C) = Some m /\ length m = n /\
            forall i a b c, piece A i = Some a -> piece B i = Some b -> piece C i = Some c ->
                            nth_error m i = Some (a ++ b ++ c).
Proof.
  intros HA HB HC Hne.
  destruct A as [a|], B as [b|], C as [c|]; simpl in *; try congruence.
  - destruct (hcat2_spec n a b HA HB) as [ab [E1 [L1 R1]]].
    destruct (hcat2_spec n ab c L1 HC) as [m [E2 [L2 R2]]].
    exists m. rewrite E1, E2. repeat split; auto.
    intros i x y z Hx Hy Hz. rewrite (R2 i (x ++ y) z); auto. now rewrite app_assoc.
  - destruct (hcat2_spec n a b HA HB) as [m [E [L R]]]. exists m. rewrite E. repeat split; auto.
    intros i x y z Hx Hy Hz. inversion Hz; subst. rewrite app_nil_r. auto.
  - destruct (hcat2_spec n a c HA HC) as [m [E [L R]]]. exists m. rewrite E. repeat split; auto.
    intros i x y z Hx Hy Hz. inversion Hy; subst. simpl. auto.
  - exists a. repeat split; auto.
    intros i x y z Hx Hy Hz. inversion Hy; inversion Hz; subst. now rewrite !app_nil_r.
  - destruct (hcat2_spec n b c HB HC) as [m [E [L R]]]. exists m. rewrite E. repeat split; auto.
    intros i x y z Hx Hy Hz. inversion Hx; subst. simpl. auto.
  - exists b. repeat split; auto.
    intros i x y z Hx Hy Hz. inversion Hx; inversion Hz; subst. now rewrite app_nil_r.
  - exists c. repeat split; auto.
    intros i x y z Hx Hy Hz. inversion Hx; inversion Hy; subst. auto.
Qed.

(* ------------------------------------------------------------------ well-formed frames *)
Definition wf_feat {A} (n : nat) (f : feat A) : Prop :=
  f_names f = f_width f /\ length (f_rows f) = n /\ Forall (fun r => length r = f_width f) (f_rows f).
Definition wf_efeat (n : nat) (e : efeat) : Prop :=
  e_names e = length (e_dims e) /\ length (e_rows e) = n /\
  Forall (fun r => map (@length val) r = e_dims e) (e_rows e).
Definition wf_tf (n : nat) (tf : tframe) : Prop :=
  (forall c, tf_cat tf = Some c -> wf_feat n c) /\
  (forall f, tf_num tf = Some f -> wf_feat n f) /\
  (forall e, tf_emb tf = Some e -> wf_efeat n e).
Definition has_feature (tf : tframe) : Prop :=
  tf_cat tf <> None \/ tf_num tf <> None \/ tf_emb tf <> None.

Definition cat_block (conv : Z -> val) (tf : tframe) : option block :=
  option_map (fun c => map (map conv) (f_rows c)) (tf_cat tf).
Definition num_block (tf : tframe) : option block := option_map (fun f => f_rows f) (tf_num tf).
Definition emb_block (tf : tframe) : option block := option_map emb_values (tf_emb tf).

Definition cat_w (tf : tframe) : nat := match tf_cat tf with Some c => f_width c | None => 0 end.
Definition num_w (tf : tframe) : nat := match tf_num tf with Some f => f_width f | None => 0 end.
Definition emb_w (tf : tframe) : nat := match tf_emb tf with Some e => emb_width e | None => 0 end.

Lemma blocks_rows_ok n conv tf :
  wf_tf n tf -> rows_ok n (cat_block conv tf) /\ rows_ok n (num_block tf) /\ rows_ok n (emb_block tf).
Proof.
  intros [Hc [Hn He]]. unfold cat_block, num_block, emb_block, emb_values.
  destruct (tf_cat tf) as [c|], (tf_num tf) as [f|], (tf_emb tf) as [e|]; simpl;
    repeat split; auto; rewrite ?map_length;
    try (destruct (Hc _ eq_refl) as [_ [L _]]; exact L);
    try (destruct (Hn _ eq_refl) as [_ [L _]]; exact L);
    try (destruct (He _ eq_refl) as [_ [L _]]; exact L).
Qed.

Lemma blocks_nonempty conv tf :
  has_feature tf -> olist (cat_block conv tf) ++ olist (num_block tf) ++ olist (emb_block tf) <> [].
Proof.
  unfold has_feature, cat_block, num_block, emb_block.
  destruct (tf_cat tf), (tf_num tf), (tf_emb tf); simpl; intros [H|[H|H]]; congruence.
Qed.

(* ------------------------------------------------------------------ XGBoost *)
Definition xgb_types (tf : tframe) : list ftype :=
  match tf_cat tf with Some c => repeat FC (f_names c) | None => [] end ++
  match tf_num tf with Some n => repeat FQ (f_names n) | None => [] end ++
  match tf_emb tf with Some e => repeat FQ (emb_width e) | None => [] end.

Lemma xgb_types_flags n tf :
  wf_tf n tf -> xgb_types tf = repeat FC (cat_w tf) ++ repeat FQ (num_w tf + emb_w tf).
Proof.
  intros [Hc [Hn _]]. unfold xgb_types, cat_w, num_w, emb_w.
  rewrite repeat_app.
  destruct (tf_cat tf) as [c|], (tf_num tf) as [f|], (tf_emb tf) as [e|]; simpl;
    try (destruct (Hc _ eq_refl) as [-> _]); try (destruct (Hn _ eq_refl) as [-> _]); reflexivity.
Qed.

Lemma to_xgboost_input_unfold tf :
  to_xgboost_input tf =
  match olist (cat_block neg_to_nan tf) ++ olist (num_block tf) ++ olist (emb_block tf) with
  | [] => None
  | _ => match hcat (olist (cat_block neg_to_nan tf) ++ olist (num_block tf) ++ olist (emb_block tf)) with
         | Some m => Some (m, tf_y tf, xgb_types tf)
         | None => None
         end
  end.
Proof. reflexivity. Qed.

Theorem xgboost_position_map n tf :
  wf_tf n tf -> has_feature tf ->
  exists m, to_xgboost_input tf = Some (m, tf_y tf, xgb_types tf) /\ length m = n /\
            forall i a b c,
              piece (cat_block neg_to_nan tf) i = Some a ->
              piece (num_block tf) i = Some b ->
              piece (emb_block tf) i = Some c ->
              nth_error m i = Some (a ++ b ++ c).
Proof.
  intros Hwf Hf.
  destruct (blocks_rows_ok n neg_to_nan tf Hwf) as [RA [RB RC]].
  pose proof (blocks_nonempty neg_to_nan tf Hf) as Hne.
  destruct (hcat3_spec n _ _ _ RA RB RC Hne) as [m [E [L R]]].
  exists m. split; [|split; auto].
  rewrite to_xgboost_input_unfold, E.
  destruct (olist (cat_block neg_to_nan tf) ++ olist (num_block tf) ++ olist (emb_block tf)) eqn:Z;
    [congruence|reflexivity].
Qed.

Theorem xgboost_empty_rejected tf :
  tf_cat tf = None -> tf_num tf = None -> tf_emb tf = None -> to_xgboost_input tf = None.
Proof. intros A B C. unfold to_xgboost_input. now rewrite A, B, C. Qed.

(* ------------------------------------------------------------------ CatBoost / LightGBM *)
Lemma seq3 a b c : seq 0 a ++ seq a b ++ seq (a + b) c = seq 0 (a + b + c).
Proof. now rewrite !seq_app, <- app_assoc. Qed.

Theorem dataframe_position_map n tf :
  wf_tf n tf -> has_feature tf ->
  exists m, to_df_input tf =
            Some ({| d_columns := seq 0 (cat_w tf + num_w tf + emb_w tf); d_rows := m |},
                  tf_y tf, seq 0 (cat_w tf)) /\
            length m = n /\
            forall i a b c,
              piece (cat_block keep_int tf) i = Some a ->
              piece (num_block tf) i = Some b ->
              piece (emb_block tf) i = Some c ->
              nth_error m i = Some (a ++ b ++ c).
Proof.
  intros Hwf Hf.
  destruct (blocks_rows_ok n keep_int tf Hwf) as [RA [RB RC]].
  pose proof (blocks_nonempty keep_int tf Hf) as Hne.
  destruct (hcat3_spec n _ _ _ RA RB RC Hne) as [m [E [L R]]].
  exists m. split; [|split; auto].
  revert E Hne. unfold to_df_input, df_parts, cat_block, num_block, emb_block, cat_w, num_w, emb_w.
  destruct (tf_cat tf) as [c|], (tf_num tf) as [f|], (tf_emb tf) as [e|]; simpl; intros E Hne;
    try congruence; rewrite ?E; try (injection E as <-);
    rewrite ?app_nil_r, ?Nat.add_0_r, ?seq_app; simpl; rewrite <- ?app_assoc; reflexivity.
Qed.

Theorem dataframe_empty_rejected tf :
  tf_cat tf = None -> tf_num tf = None -> tf_emb tf = None -> to_df_input tf = None.
Proof. intros A B C. unfold to_df_input, df_parts. now rewrite A, B, C. Qed.

(* ------------------------------------------------------------------ where an entry lands inside a row *)
Theorem row_position_map (conv : Z -> val) (crow : list Z) (nrow : row) (erow : list (list val)) :
  let out := map conv crow ++ nrow ++ concat erow in
  (forall j z, nth_error crow j = Some z -> nth_error out j = Some (conv z)) /\
  (forall j v, nth_error nrow j = Some v -> nth_error out (length crow + j) = Some v) /\
  (forall k cell j v, nth_error erow k = Some cell -> nth_error cell j = Some v ->
     nth_error out (length crow + length nrow + total (map (@length val) (firstn k erow)) + j) = Some v) /\
  length out = length crow + length nrow + total (map (@length val) erow).
Proof.
  intros out. unfold out. repeat split.
  - intros j z H. rewrite nth_error_app_l.
    + now rewrite nth_error_map, H.
    + rewrite map_length. eapply nth_error_Some_lt; eauto.
  - intros j v H. rewrite <- (map_length conv crow), nth_error_app_r, nth_error_app_l; auto.
    eapply nth_error_Some_lt; eauto.
  - intros k cell j v Hk Hj.
    rewrite <- (map_length conv crow), <- !Nat.add_assoc, nth_error_app_r, nth_error_app_r.
    eapply nth_error_concat_cell; eauto.
  - rewrite !app_length, map_length, length_concat. lia.
Qed.

(* what happens to a categorical entry *)
Lemma neg_to_nan_missing : neg_to_nan (-1) = None.
Proof. reflexivity. Qed.
Lemma neg_to_nan_other z : z <> (-1)%Z -> neg_to_nan z = Some (inject_Z z).
Proof. intros H. unfold neg_to_nan. destruct (Z.eqb_spec z (-1)); congruence. Qed.
Lemma keep_int_all z : keep_int z = Some (inject_Z z).
Proof. reflexivity. Qed.

(* ------------------------------------------------------------------ float32 round trip of category codes *)
Lemma f32_exact z : (Z.abs z <= 2 ^ 24)%Z -> f32_of_Z z = z.
Proof.
  intros H. unfold f32_of_Z.
  destruct (Z.eq_dec (Z.abs z) (2 ^ 24)) as [E|N].
  - destruct (Z.abs_eq_or_opp z) as [A|A]; rewrite A in E.
    + subst z. vm_compute. reflexivity.
    + assert (z = (- 2 ^ 24)%Z) by lia. subst z. vm_compute. reflexivity.
  - destruct (Z.eq_dec (Z.abs z) 0) as [Z0|NZ].
    + rewrite Z0. reflexivity.
    + assert (L : (Z.log2 (Z.abs z) < 24)%Z) by (apply Z.log2_lt_pow2; lia).
      destruct (Z.leb_spec (Z.log2 (Z.abs z) - 23) 0); [reflexivity | lia].
Qed.

Lemma existsb_false_forall {A} (f : A -> bool) l : existsb f l = false -> forall x, In x l -> f x = false.
Proof.
  intros H x I. destruct (f x) eqn:E; auto.
  assert (existsb f l = true) by (apply existsb_exists; eauto). congruence.
Qed.

Lemma cat_block_f32_exact f32 f64 rows :
  (forall r z, In r rows -> In z r -> (Z.abs z <= 2 ^ 24)%Z) ->
  cat_block_f32 f32 f64 rows = map (map neg_to_nan) rows.
Proof.
  intros H. unfold cat_block_f32.
  apply map_ext_in. intros r Ir. apply map_ext_in. intros z Iz.
  pose proof (f32_exact z (H r z Ir Iz)) as E.
  unfold neg_to_nan.
  destruct (existsb (existsb (Z.eqb (-1))) rows) eqn:M; simpl.
  - now rewrite E.
  - assert (Z.eqb (-1) z = false).
    { pose proof (existsb_false_forall _ _ M r Ir) as X. apply (existsb_false_forall _ _ X z Iz). }
    rewrite Z.eqb_sym, H0. destruct f64; [reflexivity|]. destruct f32; [now rewrite E | reflexivity].
Qed.

Lemma to_xgboost_input_gen_neg tf : to_xgboost_input tf = to_xgboost_input_gen (map (map neg_to_nan)) tf.
Proof. reflexivity. Qed.

(* bounded exactness: with every category code at most 2^24 in magnitude, the float32
   casts of the XGBoost adapter change nothing *)
Theorem xgboost_f32_exact b tf :
  (forall c r z, tf_cat tf = Some c -> In r (f_rows c) -> In z r -> (Z.abs z <= 2 ^ 24)%Z) ->
  to_xgboost_input_f32 b tf = to_xgboost_input tf.
Proof.
  intros H. rewrite to_xgboost_input_gen_neg. unfold to_xgboost_input_f32, to_xgboost_input_gen.
  destruct (tf_cat tf) as [c|] eqn:E; [|reflexivity].
  simpl. rewrite cat_block_f32_exact; [reflexivity|].
  intros r z Ir Iz. exact (H c r z eq_refl Ir Iz).
Qed.

(* ------------------------------------------------------------------ the dictionary view *)
Lemma stype_eqb_eq a b : stype_eqb a b = true <-> a = b.
Proof. destruct a, b; simpl; split; intros H; try reflexivity; try discriminate. Qed.

Definition relevant (e : stype * payload) : bool :=
  stype_eqb (fst e) st_categorical || stype_eqb (fst e) st_numerical || stype_eqb (fst e) st_embedding.

Lemma lookup_In k p d : NoDup (map fst d) -> (lookup k d = Some p <-> In (k, p) d).
Proof.
  induction d as [|[k' p'] r IH]; simpl; intros ND.
  - split; [discriminate | tauto].
  - inversion ND as [|? ? Hn ND']; subst.
    destruct (stype_eqb k k') eqn:E.
    + apply stype_eqb_eq in E. subst k'. split.
      * intros H. inversion H; subst. auto.
      * intros [H|H]; [inversion H; subst; reflexivity|].
        exfalso. apply Hn. apply in_map_iff. exists (k, p). auto.
    + rewrite (IH ND'). split; [auto|]. intros [H|H]; auto.
      inversion H; subst. rewrite (proj2 (stype_eqb_eq k k) eq_refl) in E. discriminate.
Qed.

Lemma lookup_None k d : lookup k d = None <-> forall p, ~ In (k, p) d.
Proof.
  induction d as [|[k' p'] r IH]; simpl.
  - split; auto.
  - destruct (stype_eqb k k') eqn:E.
    + apply stype_eqb_eq in E. subst. split; [discriminate|]. intros H. exfalso. apply (H p'). auto.
    + rewrite IH. split.
      * intros H p [X|X]; [inversion X; subst; rewrite (proj2 (stype_eqb_eq k k) eq_refl) in E; discriminate | apply (H p X)].
      * intros H p X. apply (H p). auto.
Qed.

Lemma lookup_filter_relevant k d :
  relevant (k, POther) = true -> lookup k (filter relevant d) = lookup k d.
Proof.
  intros R. induction d as [|[k' p'] r IH]; simpl; auto.
  destruct (relevant (k', p')) eqn:R'; simpl.
  - now rewrite IH.
  - destruct (stype_eqb k k') eqn:E; auto.
    apply stype_eqb_eq in E. subst. unfold relevant in *. simpl in *. congruence.
Qed.

Lemma NoDup_keys_filter (f : stype * payload -> bool) d : NoDup (map fst d) -> NoDup (map fst (filter f d)).
Proof.
  induction d as [|e r IH]; simpl; intros ND; auto. inversion ND; subst.
  destruct (f e); simpl; auto. constructor; auto.
  intros X. apply H1. apply in_map_iff in X. destruct X as [x [E I]]. apply filter_In in I.
  apply in_map_iff. exists x. tauto.
Qed.

Lemma lookup_perm k d d' :
  NoDup (map fst d) -> Permutation.Permutation d d' -> lookup k d = lookup k d'.
Proof.
  intros ND HP.
  assert (ND' : NoDup (map fst d')).
  { eapply Permutation.Permutation_NoDup; [apply Permutation.Permutation_map, HP | exact ND]. }
  destruct (lookup k d) as [p|] eqn:E.
  - symmetry. apply (lookup_In k p d' ND'). eapply Permutation.Permutation_in; [exact HP|].
    now apply (lookup_In k p d ND).
  - symmetry. apply lookup_None. intros p X. apply (proj1 (lookup_None k d) E p).
    eapply Permutation.Permutation_in; [apply Permutation.Permutation_sym, HP | exact X].
Qed.

(* only the categorical / numerical / embedding entries matter, in whatever order the
   dictionary holds them and whatever else it holds *)
Theorem frame_of_dict_relevant_only d d' y :
  NoDup (map fst d) -> NoDup (map fst d') ->
  Permutation.Permutation (filter relevant d) (filter relevant d') ->
  frame_of_dict d y = frame_of_dict d' y.
Proof.
  intros ND ND' HP. unfold frame_of_dict.
  assert (L : forall k, relevant (k, POther) = true -> lookup k d = lookup k d').
  { intros k R. rewrite <- (lookup_filter_relevant k d R), <- (lookup_filter_relevant k d' R).
    apply lookup_perm; [apply NoDup_keys_filter, ND | exact HP]. }
  now rewrite (L st_categorical eq_refl), (L st_numerical eq_refl), (L st_embedding eq_refl).
Qed.

Theorem adapters_relevant_only {R} (adapter : tframe -> option R) d d' y :
  NoDup (map fst d) -> NoDup (map fst d') ->
  Permutation.Permutation (filter relevant d) (filter relevant d') ->
  on_dict adapter d y = on_dict adapter d' y.
Proof. intros A B C. unfold on_dict. now rewrite (frame_of_dict_relevant_only d d' y A B C). Qed.

(* ------------------------------------------------------------------ metric selection, over Gen/Tables.v *)
Lemma init_default t : gbdt_init t None = gbdt_default_metric t.
Proof. unfold gbdt_init. destruct (gbdt_default_metric t); reflexivity. Qed.

(* the model of the constructor agrees with what the constructor did on this run, for ALL pairs *)
Lemma init_request t m : gbdt_init t (Some m) = gbdt_metric_request t m.
Proof. destruct t, m; vm_compute; reflexivity. Qed.

Lemma supports_iff_listed m t : metric_supports_task m t = true <-> In m (supported_metrics t).
Proof.
  destruct t, m; vm_compute; split; intros H; try reflexivity; try discriminate;
    repeat (destruct H as [H|H]; try discriminate H); auto 10; try contradiction.
Qed.

Lemma default_supported t d :
  gbdt_default_metric t = Some d -> metric_supports_task d t = true /\ In d (supported_metrics t).
Proof.
  intros H. assert (S : metric_supports_task d t = true).
  { destruct t; vm_compute in H; inversion H; subst; vm_compute; reflexivity. }
  split; auto. now apply supports_iff_listed.
Qed.

Lemma request_accepted_iff t m :
  gbdt_default_metric t <> None ->
  (gbdt_metric_request t m = Some m <-> metric_supports_task m t = true) /\
  (metric_supports_task m t = false -> gbdt_metric_request t m = None).
Proof.
  intros H. rewrite <- init_request. unfold gbdt_init.
  destruct (gbdt_default_metric t); [|congruence].
  destruct (metric_supports_task m t); repeat split; intros; auto; discriminate.
Qed.

Lemma default_table :
  gbdt_default_metric task_REGRESSION = Some met_RMSE /\
  gbdt_default_metric task_BINARY_CLASSIFICATION = Some met_ROCAUC /\
  gbdt_default_metric task_MULTICLASS_CLASSIFICATION = Some met_ACCURACY.
Proof. repeat split; vm_compute; reflexivity. Qed.

Lemma supported_table m :
  (In m (supported_metrics task_REGRESSION) <-> m = met_RMSE \/ m = met_MAE \/ m = met_R2) /\
  (In m (supported_metrics task_BINARY_CLASSIFICATION) <-> m = met_ACCURACY \/ m = met_ROCAUC) /\
  (In m (supported_metrics task_MULTICLASS_CLASSIFICATION) <-> m = met_ACCURACY) /\
  ~ In m (supported_metrics task_MULTILABEL_CLASSIFICATION).
Proof.
  destruct m; vm_compute; repeat split; intros H;
    repeat (destruct H as [H|H]; try discriminate H); auto 10; try contradiction.
Qed.

(* ------------------------------------------------------------------ guards *)
Definition fits (o : gop) : bool := match o with OTune true | OLoad => true | _ => false end.
Definition needs_fit (o : gop) : bool := match o with OPredict | OSave => true | _ => false end.

Lemma grun_length f ops : length (grun f ops) = length ops.
Proof. revert f. induction ops as [|o r IH]; intros f; simpl; auto. destruct (gstep f o). simpl. now rewrite IH. Qed.

Lemma gstep_fitted f o : fst (gstep f o) = f || fits o.
Proof. destruct o as [[|]| | |], f; reflexivity. Qed.

Lemma grun_guard f ops k o res f' :
  nth_error ops k = Some o -> nth_error (grun f ops) k = Some (res, f') ->
  (needs_fit o = true ->
   (res = ROk <-> (f = true \/ exists j p, j < k /\ nth_error ops j = Some p /\ fits p = true))) /\
  (f' = true <-> (f = true \/ exists j p, j <= k /\ nth_error ops j = Some p /\ fits p = true)).
Proof.
  revert f k. induction ops as [|o0 r IH]; intros f k Hk Hr; [destruct k; discriminate|].
  destruct k.
  - simpl in Hk. inversion Hk; subst o0. simpl in Hr.
    destruct (gstep f o) as [f1 r1] eqn:G. simpl in Hr. inversion Hr; subst. split.
    + intros N. split.
      * intros ->. left. destruct o as [[|]| | |], f; simpl in *; try discriminate; inversion G; auto.
      * intros [->|[j [p [Hj _]]]]; [|lia].
        destruct o as [[|]| | |]; simpl in *; try discriminate; inversion G; auto.
    + pose proof (gstep_fitted f o) as F. rewrite G in F. simpl in F. subst f'. split.
      * intros H. apply orb_true_iff in H. destruct H as [H|H]; [left; auto|].
        right. exists 0, o. repeat split; auto.
      * intros [->|[j [p [Hj [Hp Fp]]]]]; [reflexivity|].
        assert (j = 0) by lia. subst j. simpl in Hp. inversion Hp; subst. rewrite Fp. apply orb_true_r.
  - simpl in Hk. simpl in Hr. destruct (gstep f o0) as [f1 r1] eqn:G. simpl in Hr.
    destruct (IH f1 k Hk Hr) as [I1 I2].
    pose proof (gstep_fitted f o0) as F. rewrite G in F. simpl in F.
    assert (X : forall P : nat -> Prop,
               (f1 = true \/ exists j p, P j /\ nth_error r j = Some p /\ fits p = true) <->
               (f = true \/ exists j p, (match j with 0 => True | S j' => P j' end) /\
                                        nth_error (o0 :: r) j = Some p /\ fits p = true)).
    { intros P. subst f1. split.
      - intros [H|[j [p [Hj [Hp Fp]]]]].
        + apply orb_true_iff in H. destruct H as [H|H]; [left; auto|].
          right. exists 0, o0. auto.
        + right. exists (S j), p. auto.
      - intros [->|[j [p [Hj [Hp Fp]]]]]; [left; reflexivity|].
        destruct j.
        + simpl in Hp. inversion Hp; subst. left. rewrite Fp. apply orb_true_r.
        + right. exists j, p. auto. }
    split.
    + intros N. rewrite (I1 N). rewrite (X (fun j => j < k)). split.
      * intros [H|[j [p [Hj H]]]]; [left; auto|]. right. exists j, p. split; auto. destruct j; lia.
      * intros [H|[j [p [Hj H]]]]; [left; auto|]. right. exists j, p. split; auto. destruct j; auto; lia.
    + rewrite I2. rewrite (X (fun j => j <= k)). split.
      * intros [H|[j [p [Hj H]]]]; [left; auto|]. right. exists j, p. split; auto. destruct j; lia.
      * intros [H|[j [p [Hj H]]]]; [left; auto|]. right. exists j, p. split; auto. destruct j; auto; lia.
Qed.

Lemma guard_raises_before_fit ops k o res f' :
  nth_error ops k = Some o -> nth_error (grun false ops) k = Some (res, f') ->
  needs_fit o = true ->
  (forall j p, j < k -> nth_error ops j = Some p -> fits p = false) ->
  res = RErr.
Proof.
  intros Hk Hr N Hno.
  destruct (grun_guard false ops k o res f' Hk Hr) as [A _]. specialize (A N).
  destruct res; auto. exfalso.
  destruct (proj1 A eq_refl) as [H|[j [p [Hj [Hp Fp]]]]]; [discriminate|].
  rewrite (Hno j p Hj Hp) in Fp. discriminate.
Qed.

Lemma guard_passes_after_fit ops k o res f' :
  nth_error ops k = Some o -> nth_error (grun false ops) k = Some (res, f') ->
  (needs_fit o = true ->
   (exists j p, j < k /\ nth_error ops j = Some p /\ fits p = true) -> res = ROk) /\
  (f' = true <-> exists j p, j <= k /\ nth_error ops j = Some p /\ fits p = true).
Proof.
  intros Hk Hr. destruct (grun_guard false ops k o res f' Hk Hr) as [A B].
  split.
  - intros N H. apply (A N). right. exact H.
  - rewrite B. split; [intros [H|H]; [discriminate | exact H] | auto].
Qed.

(* ------------------------------------------------------------------ metrics *)
Open Scope Q_scope.

(* textbook sums, by recursion over the two vectors *)
Fixpoint sum_sq_err (pred target : list Q) : Q :=
  match pred, target with
  | p :: pr, t :: tr => (p - t) * (p - t) + sum_sq_err pr tr
  | _, _ => 0
  end.
Fixpoint sum_abs_err (pred target : list Q) : Q :=
  match pred, target with
  | p :: pr, t :: tr => Qabs (p - t) + sum_abs_err pr tr
  | _, _ => 0
  end.

Lemma qsum_sq pred target :
  qsum (map (fun d => d * d) (qsub2 pred target)) = sum_sq_err pred target.
Proof.
  revert target. induction pred as [|p pr IH]; intros [|t tr]; simpl; auto.
  unfold qsub2 in IH. now rewrite IH.
Qed.

Lemma qsum_abs pred target :
  qsum (map Qabs (qsub2 pred target)) = sum_abs_err pred target.
Proof.
  revert target. induction pred as [|p pr IH]; intros [|t tr]; simpl; auto.
  unfold qsub2 in IH. now rewrite IH.
Qed.

Lemma guard_false {A B} (target : list A) (pred : list B) :
  length target = length pred -> target <> [] ->
  negb (Nat.eqb (length target) (length pred)) || Nat.eqb (length target) 0 = false.
Proof.
  intros E N. rewrite E, Nat.eqb_refl. simpl. rewrite <- E.
  destruct target; [congruence|reflexivity].
Qed.

Lemma mse_textbook target pred :
  length target = length pred -> target <> [] ->
  mse target pred = Some (sum_sq_err pred target / inject_Z (Z.of_nat (length target))).
Proof.
  intros E N. unfold mse. rewrite (guard_false _ _ E N). unfold qmean.
  rewrite qsum_sq, map_length. unfold qsub2. rewrite map_length, combine_length, E, Nat.min_id.
  reflexivity.
Qed.

Lemma mae_textbook target pred :
  length target = length pred -> target <> [] ->
  mae target pred = Some (sum_abs_err pred target / inject_Z (Z.of_nat (length target))).
Proof.
  intros E N. unfold mae. rewrite (guard_false _ _ E N). unfold qmean.
  rewrite qsum_abs, map_length. unfold qsub2. rewrite map_length, combine_length, E, Nat.min_id.
  reflexivity.
Qed.

Lemma sq_nonneg (d : Q) : 0 <= d * d.
Proof. unfold Qle, Qmult. simpl. rewrite Z.mul_1_r. apply Z.square_nonneg. Qed.

Lemma sum_sq_err_nonneg pred target : 0 <= sum_sq_err pred target.
Proof.
  revert target. induction pred as [|p pr IH]; intros [|t tr]; simpl; try apply Qle_refl.
  replace 0 with (0 + 0) by reflexivity. apply Qplus_le_compat; [apply sq_nonneg | apply IH].
Qed.

Lemma sum_abs_err_nonneg pred target : 0 <= sum_abs_err pred target.
Proof.
  revert target. induction pred as [|p pr IH]; intros [|t tr]; cbn [sum_abs_err]; try apply Qle_refl.
  replace 0 with (0 + 0) by reflexivity. apply Qplus_le_compat; [apply Qabs_nonneg | apply IH].
Qed.

Lemma sum_sq_err_same v : sum_sq_err v v == 0.
Proof. induction v as [|x r IH]; simpl; [reflexivity|]. rewrite IH. ring. Qed.

Lemma sum_abs_err_same v : sum_abs_err v v == 0.
Proof.
  induction v as [|x r IH]; cbn [sum_abs_err]; [reflexivity|]. rewrite IH.
  assert (E : x - x == 0) by ring. rewrite E. reflexivity.
Qed.

(* the binary threshold is strict *)
Lemma above_half_iff s : above_half s = true <-> (1 # 2) < s.
Proof.
  unfold above_half. rewrite negb_true_iff. split.
  - intros H. apply Qnot_le_lt. intros L. apply Qle_bool_iff in L. congruence.
  - intros H. destruct (Qle_bool s (1 # 2)) eqn:E; auto.
    apply Qle_bool_iff in E. exfalso. eapply Qlt_not_le; eauto.
Qed.

Lemma above_half_at_half : above_half (1 # 2) = false.
Proof. reflexivity. Qed.

Lemma count_true_le l : (count_true l <= length l)%nat.
Proof.
  unfold count_true. induction l as [|b r IH]; simpl; auto. destruct b; simpl; lia.
Qed.

Lemma accuracy_labels_range target pred a :
  accuracy_labels target pred = Some a -> 0 <= a /\ a <= 1.
Proof.
  unfold accuracy_labels.
  destruct (negb (Nat.eqb (length target) (length pred)) || Nat.eqb (length target) 0) eqn:G; [discriminate|].
  intros H. inversion H; subst; clear H.
  apply orb_false_iff in G. destruct G as [G1 G2].
  apply negb_false_iff, Nat.eqb_eq in G1. apply Nat.eqb_neq in G2.
  set (k := count_true _).
  assert (Hk : (k <= length target)%nat).
  { unfold k. etransitivity; [apply count_true_le|]. rewrite map_length, combine_length. lia. }
  assert (Hn : 0 < inject_Z (Z.of_nat (length target))).
  { rewrite <- (Zlt_Qlt 0). lia. }
  split.
  - apply Qle_shift_div_l; auto. rewrite Qmult_0_l. rewrite <- (Zle_Qle 0). lia.
  - apply Qle_shift_div_r; auto. rewrite Qmult_1_l. rewrite <- Zle_Qle. lia.
Qed.
