(* Lemmas about Model/FrameStore.v: the in-place writes of _cat_col and of
   _normalize_index only touch objects allocated by the call itself. *)
From Coq Require Import String ZArith List Bool Arith Lia.
From PF Require Import Lib.ListX Lib.PySlice Model.Frame Model.FrameStore Gen.Tables.
From PF Require Import Proofs.ListXFacts Proofs.FrameProofs.
Import ListNotations.

Section HeapFacts.
  Context {O : Type}.
  Variable dflt : O.

  Lemma hset_length : forall (h : list O) a v, a < length h -> length (hset h a v) = length h.
  Proof.
    intros h a v H. unfold hset. rewrite app_length, firstn_length. cbn [length]. rewrite skipn_length. lia.
  Qed.

  Lemma hget_hset_same : forall (h : list O) a v, a < length h -> hget dflt (hset h a v) a = v.
  Proof.
    intros h a v H. unfold hget, hset. rewrite app_nth2; rewrite firstn_length; [|lia].
    replace (a - Nat.min a (length h)) with 0 by lia. reflexivity.
  Qed.

  Lemma hget_hset_other : forall (h : list O) a b v, a < length h -> a <> b -> hget dflt (hset h a v) b = hget dflt h b.
  Proof.
    intros h a b v Ha Hne. unfold hget, hset.
    destruct (Nat.lt_ge_cases b a) as [Hb|Hb].
    - rewrite app_nth1 by (rewrite firstn_length; lia). apply nth_firstn_lt. exact Hb.
    - rewrite app_nth2; rewrite firstn_length; [|lia]. replace (Nat.min a (length h)) with a by lia.
      destruct (b - a) as [|k] eqn:E; [lia|]. cbn [nth]. rewrite nth_skipn'. f_equal. lia.
  Qed.

  Lemma hget_alloc_old : forall (h : list O) v b, b < length h -> hget dflt (h ++ [v]) b = hget dflt h b.
  Proof. intros h v b H. unfold hget. apply app_nth1. exact H. Qed.

  Lemma hget_alloc_new : forall (h : list O) v, hget dflt (h ++ [v]) (length h) = v.
  Proof. intros h v. unfold hget. rewrite app_nth2 by lia. rewrite Nat.sub_diag. reflexivity. Qed.
End HeapFacts.

(* ------------------------------------------------------------------ *)
(* _cat_col names *)
Definition st_heap (st : nstate) : nheap := fst (fst st).
Definition st_dict (st : nstate) : ndict := snd (fst st).
Definition st_writes (st : nstate) : list nat := snd st.

Definition ninv (h0 : nheap) (st : nstate) : Prop :=
  length h0 <= length (st_heap st)
  /\ (forall b, b < length h0 -> hget [] (st_heap st) b = hget [] h0 b)
  /\ Forall (fun sa => length h0 <= snd sa /\ snd sa < length (st_heap st)) (st_dict st)
  /\ NoDup (map snd (st_dict st))
  /\ Forall (fun a => length h0 <= a) (st_writes st).

Lemma alookup_read : forall h d k, alookup stype_eqb k (read_ndict h d) = option_map (hget [] h) (alookup stype_eqb k d).
Proof.
  intros h d k. unfold read_ndict. induction d as [|[k' a] r IH]; simpl; [reflexivity|].
  destruct (stype_eqb k k'); [reflexivity|exact IH].
Qed.

Lemma read_unchanged : forall h h' d, (forall sa, In sa d -> hget [] h' (snd sa) = hget [] h (snd sa)) ->
  read_ndict h' d = read_ndict h d.
Proof. intros h h' d H. unfold read_ndict. apply map_ext_in. intros sa Hin. rewrite (H sa Hin). reflexivity. Qed.

Lemma aset_read : forall h d k a v,
  NoDup (map snd d) -> alookup stype_eqb k d = Some a -> a < length h ->
  read_ndict (hset h a v) d = aset stype_eqb k v (read_ndict h d).
Proof.
  intros h d k a v. induction d as [|[k' a'] r IH]; intros Hnd Hl Ha; simpl in *; [discriminate|].
  inversion Hnd as [|? ? Hni Hnd']; subst. destruct (stype_eqb k k') eqn:E.
  - injection Hl as ->. cbn [fst snd]. rewrite (hget_hset_same [] h a v Ha). f_equal.
    apply read_unchanged. intros sa Hin. apply hget_hset_other; [exact Ha|]. intros ->. apply Hni. apply in_map. exact Hin.
  - cbn [fst snd]. assert (Hne : a <> a').
    { intros ->. apply Hni. apply (alookup_In stype_eqb stype_eqb_spec) in Hl. apply (in_map snd) in Hl. exact Hl. }
    rewrite (hget_hset_other [] h a a' v Ha Hne). f_equal. apply IH; assumption.
Qed.

Lemma extend_step_spec : forall h0 st sa,
  ninv h0 st -> snd sa < length h0 ->
  ninv h0 (extend_step st sa)
  /\ read_ndict (st_heap (extend_step st sa)) (st_dict (extend_step st sa))
     = gstep stype_eqb (read_ndict (st_heap st) (st_dict st)) (fst sa, hget [] h0 (snd sa)).
Proof.
  intros h0 [[h d] w] [s b] [Hlen [Hold [Hd [Hnd Hw]]]] Hb. unfold st_heap, st_dict, st_writes in *. cbn [fst snd] in *.
  unfold extend_step, gstep, dict_extend. cbn [fst snd]. rewrite alookup_read.
  destruct (alookup stype_eqb s d) as [a|] eqn:El; cbn [option_map].
  - pose proof (alookup_In stype_eqb stype_eqb_spec _ _ _ El) as Hin.
    rewrite Forall_forall in Hd. destruct (Hd _ Hin) as [Ha1 Ha2]. cbn [snd] in *.
    unfold ninv, st_heap, st_dict, st_writes. cbn [fst snd]. split.
    + split; [rewrite hset_length by lia; lia|]. split.
      * intros c Hc. rewrite hget_hset_other by lia. apply Hold. exact Hc.
      * split; [|split; [exact Hnd|constructor; [lia|exact Hw]]].
        apply Forall_forall. intros sa Hsa. rewrite hset_length by lia. apply Hd. exact Hsa.
    + rewrite (Hold b Hb). apply aset_read; assumption.
  - unfold halloc. unfold ninv, st_heap, st_dict, st_writes. cbn [fst snd].
    assert (Hl1 : length h < length (h ++ [[]])) by (rewrite app_length; simpl; lia).
    rewrite (hget_alloc_new [] h []). cbn [app].
    rewrite (hget_alloc_old [] h [] b) by lia. rewrite (Hold b Hb). split.
    + split; [rewrite hset_length by exact Hl1; rewrite app_length; simpl; lia|]. split.
      * intros c Hc. rewrite hget_hset_other by lia. rewrite hget_alloc_old by lia. apply Hold. exact Hc.
      * split; [|split].
        -- apply Forall_app. split.
           ++ eapply Forall_impl; [|exact Hd]. cbn beta. intros sa [H1 H2]. rewrite hset_length by exact Hl1.
              rewrite app_length. simpl. lia.
           ++ constructor; [|constructor]. cbn [snd]. rewrite hset_length by exact Hl1. rewrite app_length. simpl. lia.
        -- rewrite map_app. simpl. apply NoDup_app_intro_single; [exact Hnd|].
           intros Hin. apply in_map_iff in Hin. destruct Hin as [sa [E Hin]]. rewrite Forall_forall in Hd.
           destruct (Hd sa Hin) as [_ H2]. lia.
        -- constructor; [lia|exact Hw].
    + unfold read_ndict at 1. rewrite map_app. cbn [map fst snd]. rewrite (hget_hset_same [] _ _ _ Hl1). f_equal.
      apply map_ext_in. intros sa Hin. rewrite Forall_forall in Hd. destruct (Hd sa Hin) as [_ H2].
      rewrite hget_hset_other by lia. rewrite hget_alloc_old by lia. reflexivity.
Qed.

Lemma extend_fold_spec : forall h0 L st,
  ninv h0 st -> Forall (fun sa => snd sa < length h0) L ->
  ninv h0 (fold_left extend_step L st)
  /\ read_ndict (st_heap (fold_left extend_step L st)) (st_dict (fold_left extend_step L st))
     = fold_left (gstep stype_eqb) (map (fun sa => (fst sa, hget [] h0 (snd sa))) L) (read_ndict (st_heap st) (st_dict st)).
Proof.
  intros h0 L. induction L as [|sa r IH]; intros st Hinv HL; simpl; [split; [exact Hinv|reflexivity]|].
  inversion HL as [|? ? Hsa Hr]; subst. destruct (extend_step_spec h0 st sa Hinv Hsa) as [Hinv' E].
  destruct (IH (extend_step st sa) Hinv' Hr) as [G1 G2]. split; [exact G1|]. rewrite G2, E. reflexivity.
Qed.

Lemma fold_concat : forall {Acc U} (f : Acc -> U -> Acc) (ps : list (list U)) (acc : Acc),
  fold_left (fun a p => fold_left f p a) ps acc = fold_left f (concat ps) acc.
Proof.
  intros Acc U f ps. induction ps as [|p r IH]; intros acc; simpl; [reflexivity|]. rewrite fold_left_app. apply IH.
Qed.

(* _cat_col's name lists: every write goes to a list allocated by the call, every input list is unchanged, the result's
   lists are fresh objects, and what they hold is the pure model's group_names *)
Lemma cat_col_names_store_proof : forall (h : nheap) (parts : list ndict) (tfs : list tframe),
  Forall (Forall (fun sa => snd sa < length h)) parts ->
  map names tfs = map (read_ndict h) parts ->
  let st := cat_col_names_store h parts in
  Forall (fun a => length h <= a) (st_writes st)
  /\ (forall b, b < length h -> hget [] (st_heap st) b = hget [] h b)
  /\ Forall (fun sa => length h <= snd sa) (st_dict st)
  /\ read_ndict (st_heap st) (st_dict st) = group_names tfs.
Proof.
  intros h parts tfs Hvalid Hnames st. unfold st, cat_col_names_store.
  rewrite (fold_concat extend_step parts (h, [], [])).
  assert (Hinv0 : ninv h (h, [], [])).
  { unfold ninv, st_heap, st_dict, st_writes. cbn [fst snd map]. repeat split; auto; constructor. }
  assert (HL : Forall (fun sa : stype * nat => snd sa < length h) (concat parts)).
  { apply Forall_forall. intros sa Hin. apply in_concat in Hin. destruct Hin as [p [Hp Hin]].
    rewrite Forall_forall in Hvalid. specialize (Hvalid p Hp). rewrite Forall_forall in Hvalid. apply Hvalid. exact Hin. }
  destruct (extend_fold_spec h _ _ Hinv0 HL) as [[_ [Hold [Hd [_ Hw]]]] E].
  split; [exact Hw|]. split; [exact Hold|]. split.
  - eapply Forall_impl; [|exact Hd]. cbn beta. tauto.
  - rewrite E. unfold st_heap, st_dict. cbn [fst snd read_ndict map]. rewrite group_names_flat. f_equal.
    unfold flat_names. rewrite (flat_map_concat_map names), Hnames, concat_map. reflexivity.
Qed.

(* ------------------------------------------------------------------ *)
(* _normalize_index on a store *)
Lemma normalize_index_store_proof : forall (h : theap) a n,
  let r := normalize_index_store h a n in
  (forall b, b < length h -> hget [] (fst (fst r)) b = hget [] h b)
  /\ Forall (fun x => length h <= x) (snd r)
  /\ length h <= length (fst (fst r))
  /\ hget [] (fst (fst r)) (snd (fst r)) = map (wrap_neg n) (hget [] h a).
Proof.
  intros h a n. unfold normalize_index_store.
  destruct (existsb (fun i => (i <? 0)%Z) (hget [] h a)) eqn:E; cbn [halloc fst snd].
  - assert (Hl : length h < length (h ++ [hget [] h a])) by (rewrite app_length; simpl; lia).
    split; [|split; [|split]].
    + intros b Hb. rewrite hget_hset_other by lia. apply hget_alloc_old. exact Hb.
    + constructor; [lia|constructor].
    + rewrite hset_length by exact Hl. lia.
    + rewrite (hget_hset_same [] _ _ _ Hl). rewrite hget_alloc_new. reflexivity.
  - split; [auto|]. split; [constructor|]. split; [lia|].
    symmetry. rewrite <- (map_id (hget [] h a)) at 2. apply map_ext_in. intros i Hin. unfold wrap_neg.
    destruct (i <? 0)%Z eqn:Ei; [|reflexivity]. exfalso.
    assert (Hx : existsb (fun i => (i <? 0)%Z) (hget [] h a) = true) by (apply existsb_exists; exists i; auto). congruence.
Qed.

(* however many ragged containers of the frame normalise the caller's index object, it is never written *)
Lemma getitem_index_store_proof : forall k (h : theap) a n,
  a < length h ->
  let r := getitem_index_store h a n k in
  (forall b, b < length h -> hget [] (fst r) b = hget [] h b) /\ Forall (fun x => length h <= x) (snd r)
  /\ length h <= length (fst r).
Proof.
  induction k as [|k IH]; intros h a n Ha; cbn [getitem_index_store].
  - cbn [fst snd]. repeat split; auto.
  - pose proof (normalize_index_store_proof h a n) as H. cbn zeta in H.
    destruct (normalize_index_store h a n) as [[h1 a1] w1]. cbn [fst snd] in H. destruct H as [H1 [H2 [H3 _]]].
    specialize (IH h1 a n). destruct (getitem_index_store h1 a n k) as [h2 w2]. cbn [fst snd] in *.
    destruct IH as [I1 [I2 I3]]; [lia|]. split; [|split].
    + intros b Hb. rewrite I1 by lia. apply H1. exact Hb.
    + apply Forall_app. split; [exact H2|]. eapply Forall_impl; [|exact I2]. cbn beta. lia.
    + lia.
Qed.

(* the wrapped value is the position the pure model computes (norm_index), when that is defined *)
Lemma wrap_neg_norm_index : forall n i k, norm_index n i = Some k -> wrap_neg n i = Z.of_nat k.
Proof.
  intros n i k. unfold norm_index, wrap_neg. destruct (i <? 0)%Z eqn:E.
  - destruct ((i + Z.of_nat n <? 0)%Z || (Z.of_nat n <=? i + Z.of_nat n)%Z) eqn:E2; [discriminate|].
    intros H. injection H as <-. apply orb_false_elim in E2. destruct E2 as [E3 _]. apply Z.ltb_ge in E3. lia.
  - destruct ((i <? 0)%Z || (Z.of_nat n <=? i)%Z) eqn:E2; [discriminate|].
    intros H. injection H as <-. apply Z.ltb_ge in E. lia.
Qed.
