(* C10 — lemmas about Model/LoaderCall.v (the call-level model of DataLoader.__init__). *)
From Coq Require Import String.
From Coq Require Import List Arith Bool Lia.
From PF Require Import Lib.ListX Lib.Chunks Model.Loader Model.LoaderCall.
Import ListNotations.

Lemma set_second_false_length : forall args, length (set_second_false args) = length args.
Proof. intros [|a0 [|a1 r]]; reflexivity. Qed.

(* with at most five positional arguments (batch_size, shuffle, sampler, batch_sampler,
   num_workers) the collate function torch sees is the explicit `collate_fn=self.collate_fn` *)
Lemma py_call_collate : forall args kw b, length args <= 5 ->
  py_call torch_params torch_kwonly args (("collate_fn"%string, PCollate 0) :: kw) = Some b ->
  dict_get "collate_fn" b = Some (PCollate 0).
Proof.
  intros args kw b Hl H.
  destruct args as [|a0 [|a1 [|a2 [|a3 [|a4 [|a5 r]]]]]]; try (simpl in Hl; lia);
    unfold py_call in H; cbn [bind_positional torch_params] in H;
    match type of H with (if ?c then _ else _) = _ => destruct c; try discriminate end;
    match type of H with (if ?c then _ else _) = _ => destruct c; try discriminate end;
    injection H as <-; reflexivity.
Qed.

Section CallFacts.
  Context {R DF : Type}.
  Variable convert : DF -> list R.
  Variable df_len : DF -> nat.

  Lemma torch_init_tag : forall (tf : list R) n b order ld tag,
    dict_get "collate_fn" b = Some (PCollate 0) ->
    torch_loader_init tf n b order = Some (ld, tag) -> tag = 0.
  Proof.
    intros tf n b order ld tag Hg H. unfold torch_loader_init in H. rewrite Hg in H.
    repeat (match type of H with
            | context [match ?x with _ => _ end] => destruct x; try discriminate
            | context [if ?x then _ else _] => destruct x; try discriminate
            end);
      injection H; intros; subst; reflexivity.
  Qed.

  (* whatever the caller passes by keyword (a collate_fn in particular), and with up to five
     positional arguments, the collate function in effect is the loader's own row selection *)
  Lemma call_collate_is_own : forall src args kwargs order ld tag, length args <= 5 ->
    loader_init_call convert df_len src args kwargs order = Some (ld, tag) -> tag = 0.
  Proof.
    intros src args kwargs order ld tag Hl H. unfold loader_init_call in H.
    destruct (match src with SrcFrame tf => _ | SrcDataset ds => _ end) as [[tf n]|]; [|discriminate].
    cbn [obind fst snd] in H.
    match type of H with context [let '(a, k) := ?e in _] => destruct e as [args2 kwargs2] eqn:E end.
    assert (Hl2 : length args2 <= 5).
    { destruct (n =? 0); [destruct (opt_truthy _); [|destruct (_ && _)]|];
        injection E as <- _; rewrite ?set_second_false_length; exact Hl. }
    destruct (py_call torch_params torch_kwonly args2 _) as [b|] eqn:Eb; [|discriminate].
    cbn [obind] in H. eapply torch_init_tag; [|exact H]. eapply py_call_collate; eauto.
  Qed.

  Lemma call_epoch_own : forall user (ld : loader R), call_epoch user ld 0 = loader_epoch ld.
  Proof. reflexivity. Qed.

  (* shuffle over an empty frame, requested positionally or by keyword: zero batches, no error *)
  Lemma call_empty_shuffle : forall bs order, 0 < bs ->
    (exists ld, loader_init_call convert df_len (SrcFrame []) [PNat bs; PBool true] [] order = Some (ld, 0) /\
                ld_sampling ld = Sequential /\ loader_epoch ld = Some []) /\
    (exists ld, loader_init_call convert df_len (SrcFrame [])
                  [] [("batch_size"%string, PNat bs); ("shuffle"%string, PBool true)] order = Some (ld, 0) /\
                ld_sampling ld = Sequential /\ loader_epoch ld = Some []).
  Proof.
    intros bs order Hbs. destruct bs as [|b]; [lia|].
    split; eexists; (split; [reflexivity | split; reflexivity]).
  Qed.
End CallFacts.
