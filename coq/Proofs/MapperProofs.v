(* Lemmas about Model/Mapper.v: every mapper pipeline equals the cell-by-cell
   canonical encoding of Model/MapperSpec.v (C01), and none of them reads a
   caller's index label (C02). *)
From Coq Require Import ZArith List Bool Arith Lia Permutation.
From PF Require Import Lib.ListX Lib.Calendar Proofs.CalendarFacts Model.Ragged Model.Mapper Model.MapperSpec.
Import ListNotations.
Local Open Scope nat_scope.

(* ------------------------------------------------------------------------- *)
(* equality tests *)
Lemma str_eqb_eq : forall a b, str_eqb a b = true <-> a = b.
Proof.
  induction a as [|x a IH]; destruct b as [|y b]; simpl; split; intro H; try reflexivity; try discriminate.
  - apply andb_prop in H. destruct H as [H1 H2]. apply Z.eqb_eq in H1. apply IH in H2. subst. reflexivity.
  - inversion H; subst. rewrite Z.eqb_refl. simpl. apply IH. reflexivity.
Qed.

Lemma pval_eqb_eq : forall a b, pval_eqb a b = true <-> a = b.
Proof.
  destruct a, b; simpl; split; intro H; try discriminate.
  - apply Z.eqb_eq in H. subst. reflexivity.
  - inversion H. apply Z.eqb_refl.
  - apply str_eqb_eq in H. subst. reflexivity.
  - inversion H. apply str_eqb_eq. reflexivity.
Qed.

Lemma pval_eqb_refl : forall a, pval_eqb a a = true.
Proof. intro a. apply pval_eqb_eq. reflexivity. Qed.

Lemma pval_eqb_neq : forall a b, pval_eqb a b = false <-> a <> b.
Proof.
  intros a b. split; intro H.
  - intro E. apply pval_eqb_eq in E. congruence.
  - destruct (pval_eqb a b) eqn:E; [|reflexivity]. apply pval_eqb_eq in E. contradiction.
Qed.

Lemma pval_eq_dec : forall a b : pval, {a = b} + {a <> b}.
Proof.
  intros a b. destruct (pval_eqb a b) eqn:E.
  - left. apply pval_eqb_eq. exact E.
  - right. apply pval_eqb_neq. exact E.
Qed.

Lemma existsb_pval_In : forall v l, existsb (pval_eqb v) l = true <-> In v l.
Proof.
  intros v l. rewrite existsb_exists. split.
  - intros [x [Hx E]]. apply pval_eqb_eq in E. subst. exact Hx.
  - intro H. exists v. split; [exact H | apply pval_eqb_refl].
Qed.

(* ------------------------------------------------------------------------- *)
(* series plumbing *)
Lemma map_snd_combine : forall {A B} (a : list A) (b : list B), map snd (combine a b) = firstn (length a) b.
Proof. induction a as [|x a IH]; destruct b as [|y b]; simpl; try reflexivity. f_equal. apply IH. Qed.

Lemma map_fst_combine : forall {A B} (a : list A) (b : list B), length a = length b -> map fst (combine a b) = a.
Proof.
  induction a as [|x a IH]; destruct b as [|y b]; simpl; intro H; try reflexivity; try discriminate.
  f_equal. apply IH. lia.
Qed.

Lemma map_snd_combine_eq : forall {A B} (a : list A) (b : list B), length a = length b -> map snd (combine a b) = b.
Proof. intros. rewrite map_snd_combine, H. apply firstn_all. Qed.

Lemma reset_index_values : forall {L C} (s : @series L C), ser_values (reset_index s) = ser_values s.
Proof.
  intros. unfold reset_index, ser_values. apply map_snd_combine_eq. rewrite seq_length, map_length. reflexivity.
Qed.

Lemma reset_index_labels : forall {L C} (s : @series L C), map fst (reset_index s) = seq 0 (length s).
Proof. intros. unfold reset_index. apply map_fst_combine. rewrite seq_length, map_length. reflexivity. Qed.

Lemma mapM_map_total : forall {B C} (f : B -> option C) (g : B -> C) (l : list B),
  (forall x, In x l -> f x = Some (g x)) -> mapM f l = Some (map g l).
Proof.
  induction l as [|x l IH]; intro H; simpl; [reflexivity|].
  rewrite (H x (or_introl eq_refl)), IH; [reflexivity|]. intros y Hy. apply H. right. exact Hy.
Qed.

Lemma mapM_length' : forall {B C} (f : B -> option C) (l : list B) r, mapM f l = Some r -> length r = length l.
Proof.
  induction l as [|x l IH]; simpl; intros r H.
  - inversion H. reflexivity.
  - destruct (f x); [|discriminate]. destruct (mapM f l) eqn:E; [|discriminate]. inversion H. simpl. f_equal.
    apply IH. reflexivity.
Qed.

Lemma mapM_Forall2 : forall {B C} (f : B -> option C) (l : list B) r,
  mapM f l = Some r -> Forall2 (fun x y => f x = Some y) l r.
Proof.
  induction l as [|x l IH]; simpl; intros r H.
  - inversion H. constructor.
  - destruct (f x) eqn:Ex; [|discriminate]. destruct (mapM f l) eqn:E; [|discriminate]. inversion H.
    constructor; [exact Ex | apply IH; reflexivity].
Qed.

Lemma mapM_ext_in : forall {B C} (f g : B -> option C) (l : list B),
  (forall x, In x l -> f x = g x) -> mapM f l = mapM g l.
Proof.
  induction l as [|x l IH]; intro H; simpl; [reflexivity|].
  rewrite (H x (or_introl eq_refl)), IH; [reflexivity|]. intros y Hy. apply H. right. exact Hy.
Qed.

(* ------------------------------------------------------------------------- *)
(* numerical *)
Lemma numerical_faithful : forall {L} (s : @series L (option num)),
  numerical_encode s = map canon_num (ser_values s).
Proof.
  intros. unfold numerical_encode, numerical_forward. rewrite map_map. apply map_ext.
  intros [x|]; reflexivity.
Qed.

(* ------------------------------------------------------------------------- *)
(* the category index *)
Lemma find_index_Some : forall cats v k, find_index cats v = Some k -> k < length cats /\ nth_error cats k = Some v.
Proof.
  induction cats as [|c r IH]; simpl; intros v k H; [discriminate|].
  destruct (pval_eqb c v) eqn:E.
  - inversion H. subst. apply pval_eqb_eq in E. subst. split; [lia | reflexivity].
  - destruct (find_index r v) as [j|] eqn:F; [|discriminate]. inversion H. subst.
    destruct (IH v j F) as [H1 H2]. split; [lia | exact H2].
Qed.

Lemma find_index_None : forall cats v, find_index cats v = None <-> ~ In v cats.
Proof.
  induction cats as [|c r IH]; simpl; intro v.
  - split; [intros _ [] | reflexivity].
  - destruct (pval_eqb c v) eqn:E.
    + apply pval_eqb_eq in E. subst. split; [discriminate | intro H; exfalso; apply H; left; reflexivity].
    + apply pval_eqb_neq in E. destruct (find_index r v) eqn:F; simpl.
      * split; [discriminate|]. intro H. exfalso. apply H. right.
        destruct (in_dec pval_eq_dec v r) as [Hi|Hn]; [exact Hi|]. apply IH in Hn. congruence.
      * split; [|reflexivity]. intros _ [H|H]; [contradiction|]. apply (proj1 (IH v)); assumption.
Qed.

Lemma find_index_In : forall cats v, In v cats -> exists k, find_index cats v = Some k.
Proof.
  intros cats v H. destruct (find_index cats v) eqn:E; [eauto|]. apply find_index_None in E. contradiction.
Qed.

Lemma find_index_nth : forall cats k v, NoDup cats -> nth_error cats k = Some v -> find_index cats v = Some k.
Proof.
  induction cats as [|c r IH]; intros k v ND H; [destruct k; discriminate|].
  inversion ND as [|? ? Hnot ND']; subst. destruct k; simpl in *.
  - inversion H. subst. rewrite pval_eqb_refl. reflexivity.
  - destruct (pval_eqb c v) eqn:E.
    + apply pval_eqb_eq in E. subst. exfalso. apply Hnot. eapply nth_error_In. exact H.
    + rewrite (IH k v ND' H). reflexivity.
Qed.

Lemma index_of_seen : forall cats v, In v cats ->
  (0 <= index_of cats v < Z.of_nat (length cats))%Z /\ nth_error cats (Z.to_nat (index_of cats v)) = Some v.
Proof.
  intros cats v H. unfold index_of. destruct (find_index_In cats v H) as [k E]. rewrite E.
  destruct (find_index_Some _ _ _ E) as [H1 H2]. rewrite Nat2Z.id. split; [lia | exact H2].
Qed.

Lemma index_of_unseen : forall cats v, ~ In v cats -> index_of cats v = (-1)%Z.
Proof. intros cats v H. unfold index_of. apply find_index_None in H. rewrite H. reflexivity. Qed.

Lemma index_of_range : forall cats v, (-1 <= index_of cats v < Z.of_nat (length cats))%Z.
Proof.
  intros cats v. unfold index_of. destruct (find_index cats v) eqn:E; [|lia].
  apply find_index_Some in E. lia.
Qed.

Lemma index_of_inj : forall cats v w, In v cats -> index_of cats v = index_of cats w -> v = w.
Proof.
  intros cats v w H E. unfold index_of in E. destruct (find_index_In cats v H) as [k Ek]. rewrite Ek in E.
  destruct (find_index cats w) as [j|] eqn:Ej; [|lia]. apply Nat2Z.inj in E. subst j.
  apply find_index_Some in Ek. apply find_index_Some in Ej. destruct Ek as [_ Ek], Ej as [_ Ej]. congruence.
Qed.

Lemma index_of_nth : forall cats k v, NoDup cats -> nth_error cats k = Some v -> index_of cats v = Z.of_nat k.
Proof. intros. unfold index_of. rewrite (find_index_nth cats k v); auto. Qed.

(* ------------------------------------------------------------------------- *)
(* the left merge against an index without duplicates *)
Lemma filter_index_absent : forall (r : list pval) (zs : list Z) v,
  ~ In v r -> filter (fun e : pval * Z => pval_eqb (fst e) v) (combine r zs) = [].
Proof.
  induction r as [|c r IH]; intros zs v H; simpl; [reflexivity|]. destruct zs as [|z zs]; [reflexivity|]. simpl.
  destruct (pval_eqb c v) eqn:E.
  - apply pval_eqb_eq in E. subst. exfalso. apply H. left. reflexivity.
  - apply IH. intro. apply H. right. assumption.
Qed.

Lemma filter_index_from : forall cats a v, NoDup cats ->
  filter (fun e : pval * Z => pval_eqb (fst e) v) (combine cats (map Z.of_nat (seq a (length cats)))) =
  match find_index cats v with Some k => [(v, Z.of_nat (a + k))] | None => [] end.
Proof.
  induction cats as [|c r IH]; intros a v ND; simpl; [reflexivity|].
  inversion ND as [|? ? Hnot ND']; subst.
  destruct (pval_eqb c v) eqn:E.
  - apply pval_eqb_eq in E. subst. rewrite filter_index_absent by assumption. rewrite Nat.add_0_r. reflexivity.
  - rewrite (IH (S a) v ND'). destruct (find_index r v); simpl; [|reflexivity].
    repeat f_equal. lia.
Qed.

Lemma filter_range_index : forall cats v, NoDup cats ->
  filter (fun e : pval * Z => pval_eqb (fst e) v) (range_index cats) =
  match find_index cats v with Some k => [(v, Z.of_nat k)] | None => [] end.
Proof. intros. unfold range_index. rewrite filter_index_from by assumption. reflexivity. Qed.

Lemma flat_map_singletons : forall {B C} (f : B -> list C) (g : B -> C) (l : list B),
  (forall x, In x l -> f x = [g x]) -> flat_map f l = map g l.
Proof.
  induction l as [|x l IH]; intro H; simpl; [reflexivity|].
  rewrite (H x (or_introl eq_refl)), IH; [reflexivity|]. intros y Hy. apply H. right. exact Hy.
Qed.

Lemma merge_left_range_index : forall {L} cats (s : @series L (option pval)), NoDup cats ->
  merge_left s (range_index cats) =
  map (fun p => (fst p, snd p, match snd p with
                               | Some v => option_map Z.of_nat (find_index cats v)
                               | None => None
                               end)) s.
Proof.
  intros L cats s ND. unfold merge_left. apply flat_map_singletons. intros [l c] _. simpl.
  destruct c as [v|]; [|reflexivity]. rewrite filter_range_index by assumption.
  destruct (find_index cats v); reflexivity.
Qed.

Lemma categorical_forward_spec : forall {L} cats (s : @series L (option pval)), NoDup cats ->
  categorical_forward cats s =
  map (fun c => match c with Some v => index_of cats v | None => (-1)%Z end) (ser_values s).
Proof.
  intros L cats s ND. unfold categorical_forward. rewrite <- (reset_index_values s). unfold ser_values.
  rewrite merge_left_range_index by assumption.
  rewrite !map_map. apply map_ext. intros [l [v|]]; simpl; [|reflexivity].
  unfold index_of. destruct (find_index cats v); reflexivity.
Qed.

Lemma categorical_faithful : forall {L} cats (s : @series L (option pval)), NoDup cats ->
  categorical_encode cats s = map (canon_cat cats) (ser_values s).
Proof.
  intros. unfold categorical_encode. rewrite categorical_forward_spec by assumption.
  rewrite map_map. apply map_ext. intros [v|]; reflexivity.
Qed.

(* ------------------------------------------------------------------------- *)
(* one-column ragged containers: values = concat of the cells, offsets =
   running sum of the cell lengths  ==>  reading cell by cell gives the cells *)
Lemma cumsum_from_length' : forall l a, length (cumsum_from a l) = length l.
Proof. induction l as [|x l IH]; intro a; simpl; [reflexivity | rewrite IH; reflexivity]. Qed.

Lemma cumsum_from_last' : forall l a, last (a :: cumsum_from a l) 0 = a + sum l.
Proof.
  induction l as [|x l IH]; intro a.
  - simpl. lia.
  - change (last (a :: cumsum_from a (x :: l)) 0) with (last (a :: (a + x) :: cumsum_from (a + x) l) 0).
    change (last (a :: (a + x) :: cumsum_from (a + x) l) 0) with (last ((a + x) :: cumsum_from (a + x) l) 0).
    rewrite IH. simpl. lia.
Qed.

Lemma cumsum_from_nth : forall l a i, i <= length l ->
  nth_error (a :: cumsum_from a l) i = Some (a + sum (firstn i l)).
Proof.
  induction l as [|x l IH]; intros a i H.
  - simpl in H. assert (i = 0) by lia. subst. simpl. f_equal. lia.
  - destruct i as [|i]; [simpl; f_equal; lia|].
    change (nth_error (a :: cumsum_from a (x :: l)) (S i)) with (nth_error ((a + x) :: cumsum_from (a + x) l) i).
    rewrite IH by (simpl in H; lia). simpl. f_equal. lia.
Qed.

Lemma length_concat_sum : forall {A} (F : list (list A)), length (concat F) = sum (map (@length A) F).
Proof. induction F as [|f F IH]; simpl; [reflexivity|]. rewrite app_length, IH. reflexivity. Qed.

Lemma tslice_concat_nth : forall {A} (F : list (list A)) i, i < length F ->
  tslice (concat F) (sum (firstn i (map (@length A) F))) (sum (firstn (S i) (map (@length A) F))) = nth i F [].
Proof.
  induction F as [|f F IH]; intros i H; [simpl in H; lia|].
  destruct i as [|i].
  - unfold tslice. simpl. rewrite Nat.add_0_r, Nat.sub_0_r.
    rewrite firstn_app, Nat.sub_diag, firstn_all. simpl. apply app_nil_r.
  - simpl in H. specialize (IH i ltac:(lia)). unfold tslice in *.
    change (concat (f :: F)) with (f ++ concat F).
    change (sum (firstn (S i) (map (@length A) (f :: F)))) with (length f + sum (firstn i (map (@length A) F))).
    change (sum (firstn (S (S i)) (map (@length A) (f :: F)))) with (length f + sum (firstn (S i) (map (@length A) F))).
    rewrite skipn_app. rewrite (skipn_all2 f) by lia. simpl app.
    replace (length f + sum (firstn i (map (@length A) F)) - length f) with (sum (firstn i (map (@length A) F))) by lia.
    replace (length f + sum (firstn (S i) (map (@length A) F)) - (length f + sum (firstn i (map (@length A) F))))
      with (sum (firstn (S i) (map (@length A) F)) - sum (firstn i (map (@length A) F))) by lia.
    exact IH.
Qed.

Lemma mapM_seq_nth : forall {A} (g : nat -> option A) (F : list A) a d,
  (forall i, i < length F -> g (a + i) = Some (nth i F d)) -> mapM g (seq a (length F)) = Some F.
Proof.
  intros A g F. induction F as [|f F IH]; intros a d H; simpl; [reflexivity|].
  pose proof (H 0 ltac:(simpl; lia)) as H0. rewrite Nat.add_0_r in H0. rewrite H0. simpl.
  rewrite (IH (S a) d); [reflexivity|]. intros i Hi. specialize (H (S i) ltac:(simpl; lia)).
  simpl nth in H. rewrite <- H. f_equal. lia.
Qed.

Lemma mk_mnt_of_cells : forall {A} (F : list (list A)),
  mk_mnt A (length F) 1 (concat F) (cumsum (0 :: map (@length A) F)) =
  Some (MkMnt (length F) 1 (concat F) (0 :: cumsum (map (@length A) F))).
Proof.
  intros A F. unfold cumsum. change (cumsum_from 0 (0 :: map (@length A) F)) with (0 :: cumsum_from 0 (map (@length A) F)).
  unfold mk_mnt. rewrite cumsum_from_last'. simpl length. rewrite cumsum_from_length', map_length.
  rewrite length_concat_sum. simpl "+". rewrite ?Nat.eqb_refl. rewrite ?Nat.mul_1_r, ?Nat.add_1_r, ?Nat.eqb_refl.
  simpl. rewrite ?Nat.eqb_refl. reflexivity.
Qed.

Lemma mnt_column_of_cells : forall {A} (F : list (list A)),
  mnt_column (MkMnt (length F) 1 (concat F) (0 :: cumsum (map (@length A) F))) = Some F.
Proof.
  intros A F. unfold mnt_column. simpl nr. apply mapM_seq_nth with (d := []). intros i Hi.
  unfold mnt_get_value. simpl nc. simpl offs. simpl vals. unfold tget, cumsum.
  replace ((0 + i) * 1 + 0) with i by lia. replace (i + 1) with (S i) by lia.
  rewrite (cumsum_from_nth (map (@length A) F) 0 i) by (rewrite map_length; lia).
  rewrite (cumsum_from_nth (map (@length A) F) 0 (S i)) by (rewrite map_length; lia).
  unfold obind. rewrite !Nat.add_0_l. f_equal. apply tslice_concat_nth. exact Hi.
Qed.

(* ------------------------------------------------------------------------- *)
(* numerical sequences *)
Definition seq_list (c : seq_cell) : list num :=
  match c with SQList l => map astype_float l | _ => [] end.

Lemma seq_lengths : forall cells lens, mapM get_sequence_length cells = Some lens ->
  lens = map (@length num) (map seq_list cells) /\ Forall (fun c => c <> SQOther) cells.
Proof.
  induction cells as [|c cells IH]; simpl; intros lens H.
  - inversion H. split; [reflexivity | constructor].
  - destruct (get_sequence_length c) as [k|] eqn:E; [|discriminate].
    destruct (mapM get_sequence_length cells) as [r|] eqn:M; [|discriminate]. inversion H. subst.
    destruct (IH r eq_refl) as [-> F]. split.
    + f_equal. destruct c; simpl in E; try discriminate; inversion E; simpl; rewrite ?map_length; reflexivity.
    + constructor; [|exact F]. destruct c; simpl in E; congruence.
Qed.

Lemma seq_values : forall {L} (s : @series L seq_cell) lens,
  mapM get_sequence_length (ser_values s) = Some lens ->
  map (fun p : L * option (option num) => match snd p with Some x => astype_float x | None => NNaN end)
      (explode (ser_apply (fun c => match c with SQList l => l | _ => [] end)
                          (map fst (filter snd (combine s (map (fun k => negb (k =? 0)) lens))))))
  = concat (map seq_list (ser_values s)).
Proof.
  induction s as [|[l c] s IH]; intros lens H.
  - simpl in H. inversion H. reflexivity.
  - unfold ser_values in *. cbn [map snd mapM] in H. destruct (get_sequence_length c) as [k|] eqn:E; [|discriminate].
    destruct (mapM get_sequence_length (map snd s)) as [r|] eqn:M; [|discriminate]. inversion H. subst lens.
    specialize (IH r eq_refl). cbn [map combine filter].
    destruct c as [|l0|]; simpl in E; inversion E; subst k.
    + simpl. exact IH.
    + destruct l0 as [|x l0].
      * simpl. exact IH.
      * cbn [length Nat.eqb negb snd]. cbn [map fst].
        unfold ser_apply, explode in *. cbn [map fst snd flat_map]. rewrite map_app.
        cbn [concat]. f_equal; [|exact IH]. simpl. f_equal. rewrite map_map. reflexivity.
Qed.

Lemma labels_eqb_refl : forall {L} (leqb : L -> L -> bool) l, (forall a, leqb a a = true) -> labels_eqb leqb l l = true.
Proof. intros L leqb l H. induction l as [|x l IH]; simpl; [reflexivity|]. rewrite H, IH. reflexivity. Qed.

(* with a reflexive label equality the boolean mask, whose index is the series'
   own index, is applied positionally: the pipeline in closed form *)
Lemma sequence_forward_values : forall {L} (leqb : L -> L -> bool) (s : @series L seq_cell),
  (forall a, leqb a a = true) ->
  sequence_forward leqb s =
  (lens <- mapM get_sequence_length (ser_values s) ;;
   mk_mnt num (length (ser_values s)) 1 (concat (map seq_list (ser_values s))) (cumsum (0 :: lens))).
Proof.
  intros L leqb s Hr. unfold sequence_forward, ser_apply_opt.
  destruct (mapM get_sequence_length (ser_values s)) as [lens|] eqn:M; [|reflexivity].
  cbn [obind].
  assert (Hl : length lens = length s).
  { apply mapM_length' in M. rewrite M. unfold ser_values. apply map_length. }
  assert (Hf : map fst (combine (map fst s) lens) = map fst s)
    by (apply map_fst_combine; rewrite map_length; lia).
  assert (Hs : map snd (combine (map fst s) lens) = lens)
    by (apply map_snd_combine_eq; rewrite map_length; lia).
  unfold mask_select, ser_apply. rewrite !map_map. cbn [fst snd].
  change (map (fun x : L * nat => fst x) (combine (map fst s) lens)) with (map fst (combine (map fst s) lens)).
  rewrite Hf, (labels_eqb_refl leqb _ Hr). cbn [obind].
  assert (Hm : map (fun x : L * nat => negb (snd x =? 0)) (combine (map fst s) lens)
               = map (fun k => negb (k =? 0)) lens) by (rewrite <- Hs at 2; rewrite map_map; reflexivity).
  rewrite Hm.
  pose proof (seq_values s lens M) as V. unfold ser_apply in V. rewrite V.
  replace (ser_values (combine (map fst s) lens)) with lens by (symmetry; exact Hs).
  replace (length (ser_values s)) with (length s) by (unfold ser_values; rewrite map_length; reflexivity).
  reflexivity.
Qed.

Lemma sequence_forward_spec : forall {L} (leqb : L -> L -> bool) (s : @series L seq_cell),
  (forall a, leqb a a = true) ->
  Forall (fun c => c <> SQOther) (ser_values s) ->
  sequence_forward leqb s =
  Some (MkMnt (length s) 1 (concat (map seq_list (ser_values s)))
              (0 :: cumsum (map (@length num) (map seq_list (ser_values s))))).
Proof.
  intros L leqb s Hr Hok. rewrite sequence_forward_values by assumption.
  assert (M : mapM get_sequence_length (ser_values s) = Some (map (@length num) (map seq_list (ser_values s)))).
  { rewrite map_map. apply mapM_map_total. intros c Hc. rewrite Forall_forall in Hok. specialize (Hok c Hc).
    destruct c; simpl; try reflexivity; [|congruence]. rewrite map_length. reflexivity. }
  rewrite M. unfold obind.
  pose proof (mk_mnt_of_cells (map seq_list (ser_values s))) as K.
  assert (Hl : length (map seq_list (ser_values s)) = length s)
    by (rewrite map_length; unfold ser_values; apply map_length).
  rewrite Hl in K. replace (length (ser_values s)) with (length s) by (unfold ser_values; rewrite map_length; reflexivity).
  exact K.
Qed.

Lemma canon_seq_list : forall cells canon, mapM canon_seq cells = Some canon ->
  canon = map (map SNum) (map seq_list cells) /\ Forall (fun c => c <> SQOther) cells.
Proof.
  induction cells as [|c cells IH]; simpl; intros canon H.
  - inversion H. split; [reflexivity | constructor].
  - destruct (canon_seq c) as [e|] eqn:E; [|discriminate].
    destruct (mapM canon_seq cells) as [r|] eqn:M; [|discriminate]. inversion H. subst.
    destruct (IH r eq_refl) as [-> F]. split.
    + f_equal. destruct c; simpl in *; inversion E; try reflexivity. rewrite map_map. apply map_ext.
      intros [x|]; reflexivity.
    + constructor; [|exact F]. destruct c; simpl in E; congruence.
Qed.

Lemma sequence_faithful : forall {L} (leqb : L -> L -> bool) (s : @series L seq_cell) canon,
  (forall a, leqb a a = true) ->
  mapM canon_seq (ser_values s) = Some canon -> sequence_encode leqb s = Some canon.
Proof.
  intros L leqb s canon Hr H. destruct (canon_seq_list _ _ H) as [-> Hok].
  unfold sequence_encode. rewrite (sequence_forward_spec leqb s Hr Hok). unfold obind.
  pose proof (mnt_column_of_cells (map seq_list (ser_values s))) as K.
  assert (Hl : length (map seq_list (ser_values s)) = length s)
    by (rewrite map_length; unfold ser_values; apply map_length).
  rewrite Hl in K. rewrite K. reflexivity.
Qed.

Lemma sequence_raises : forall {L} (leqb : L -> L -> bool) (s : @series L seq_cell),
  mapM canon_seq (ser_values s) = None -> sequence_encode leqb s = None.
Proof.
  intros L leqb s H. unfold sequence_encode, sequence_forward, ser_apply_opt.
  assert (M : mapM get_sequence_length (ser_values s) = None).
  { revert H. generalize (ser_values s). induction l as [|c l IH]; simpl; [discriminate|].
    destruct c; simpl; try reflexivity.
    - destruct (mapM canon_seq l); [discriminate|]. intros _. rewrite IH; reflexivity.
    - destruct (mapM canon_seq l); [discriminate|]. intros _. rewrite IH; reflexivity. }
  rewrite M. reflexivity.
Qed.

(* ------------------------------------------------------------------------- *)
(* timestamps *)
Lemma map_seq_nth_map : forall {A B} (g : A -> B) (l : list A) d,
  map (fun i => g (nth i l d)) (seq 0 (length l)) = map g l.
Proof.
  induction l as [|x l IH]; intro d; simpl; [reflexivity|]. f_equal.
  rewrite <- seq_shift, map_map. apply IH.
Qed.

Definition time_row (c : option Z) : list Z :=
  map nan_to_num_m1
    [dt_field dt_year c; minus1 (dt_field dt_month c); minus1 (dt_field dt_day c); dt_field dt_dayofweek c;
     dt_field hour_of_secs c; dt_field minute_of_secs c; dt_field second_of_secs c].

Lemma nth_map_none : forall (f : option Z -> option Z) l i,
  f None = None -> nth i (map f l) None = f (nth i l None).
Proof. intros f l i H. rewrite <- H at 1. apply map_nth. Qed.

Lemma timestamp_to_tensor_rows : forall cells, timestamp_to_tensor cells = map time_row cells.
Proof.
  intro cells. unfold timestamp_to_tensor, cat_columns. rewrite map_map.
  rewrite <- (map_seq_nth_map time_row cells None). apply map_ext_in. intros i Hi.
  cbn [map]. unfold time_row. cbn [map].
  rewrite !nth_map_none by reflexivity.
  reflexivity.
Qed.

Lemma timestamp_faithful : forall {L} (s : @series L (option Z)),
  timestamp_encode s = map canon_time (ser_values s).
Proof.
  intros. unfold timestamp_encode, timestamp_forward. rewrite timestamp_to_tensor_rows, map_map.
  apply map_ext. intros [x|]; reflexivity.
Qed.

(* the seven components of a real instant are in their calendar ranges, so a
   missing cell (seven -1) can never be confused with a date *)
Lemma canon_time_ranges : forall s y mo d wd h mi se,
  canon_time (Some s) = [SInt y; SInt mo; SInt d; SInt wd; SInt h; SInt mi; SInt se] ->
  (0 <= mo < 12 /\ 0 <= d < 31 /\ 0 <= wd < 7 /\ 0 <= h < 24 /\ 0 <= mi < 60 /\ 0 <= se < 60)%Z.
Proof.
  intros s y mo d wd h mi se H. simpl in H. inversion H; subst.
  pose proof (month_range (days_of_secs s)). pose proof (day_range (days_of_secs s)).
  pose proof (weekday_range (days_of_secs s)). pose proof (time_of_day_range s). lia.
Qed.

Lemma canon_time_missing_distinct : forall s, canon_time (Some s) <> canon_time None.
Proof.
  intros s H. simpl in H. inversion H. pose proof (month_range (days_of_secs s)). lia.
Qed.

(* the encoding loses nothing: the seven components determine the instant *)
Lemma canon_time_inj : forall s s', canon_time (Some s) = canon_time (Some s') -> s = s'.
Proof.
  intros s s' H. simpl in H. inversion H as [[Hy Hm Hd Hw Hh Hmi Hs]].
  assert (D : days_of_secs s = days_of_secs s').
  { apply civil_of_days_inj. unfold year_of_days, month_of_days, day_of_days in *.
    destruct (civil_of_days (days_of_secs s)) as [[a b] c]. destruct (civil_of_days (days_of_secs s')) as [[a' b'] c'].
    simpl in *. f_equal; [f_equal|]; lia. }
  rewrite (secs_decompose s), (secs_decompose s'). congruence.
Qed.

(* ------------------------------------------------------------------------- *)
(* embeddings *)
Lemma met_column_rows : forall (rows : list (list num)) w v0,
  Forall (fun v => length v = w) rows ->
  met_column (MkMet (length rows) 1 (MkT2 rows v0) [0; w]) = Some rows.
Proof.
  intros rows w v0 H. unfold met_column. simpl er. apply mapM_seq_nth with (d := []). intros i Hi.
  unfold met_get_value. simpl evals. simpl t2rows. simpl eoffs. unfold tget. rewrite Nat.add_0_l.
  rewrite (nth_error_nth' rows [] Hi). simpl. f_equal. unfold tslice. simpl. rewrite Nat.sub_0_r.
  rewrite Forall_forall in H. rewrite <- (H (nth i rows [])) by (apply nth_In; exact Hi). apply firstn_all.
Qed.

Lemma forallb_widths : forall (rows : list (list num)) w,
  Forall (fun v => length v = w) rows -> forallb (fun r => length r =? w) rows = true.
Proof.
  intros rows w H. apply forallb_forall. intros x Hx. rewrite Forall_forall in H. rewrite (H x Hx). apply Nat.eqb_refl.
Qed.

Lemma embedding_faithful : forall {L} (s : @series L (list num)) w,
  s <> [] -> Forall (fun v => length v = w) (ser_values s) ->
  embedding_encode s = Some (map canon_vec (ser_values s)).
Proof.
  intros L s w Hne H. unfold embedding_encode, embedding_forward, np_stack.
  destruct (ser_values s) as [|v0 rest] eqn:E; [destruct s; [congruence | discriminate]|].
  assert (Hw : length v0 = w) by (inversion H; assumption).
  rewrite Hw, (forallb_widths _ w H). unfold obind, wrap_embedding. simpl t2rows. unfold mk_met. simpl.
  assert (Hl : length s = length (v0 :: rest)) by (rewrite <- E; unfold ser_values; rewrite map_length; reflexivity).
  rewrite Hl, Hw. rewrite (met_column_rows (v0 :: rest) w w H). reflexivity.
Qed.

Lemma embedded_faithful : forall {L} (s : @series L (list num)) w,
  s <> [] -> Forall (fun v => length v = w) (ser_values s) ->
  embedded_encode s = Some (map canon_vec (ser_values s)).
Proof.
  intros L s w Hne H. unfold embedded_encode, embedded_forward.
  destruct (ser_values s) as [|v0 rest] eqn:E; [destruct s; [congruence | discriminate]|].
  assert (Hw : length v0 = w) by (inversion H; assumption).
  unfold obind, wrap_embedding. simpl t2rows. unfold mk_met. simpl.
  assert (Hl : length s = length (v0 :: rest)) by (rewrite <- E; unfold ser_values; rewrite map_length; reflexivity).
  rewrite Hl, Hw. rewrite (met_column_rows (v0 :: rest) w w H). reflexivity.
Qed.

(* ------------------------------------------------------------------------- *)
(* multicategorical: the explode / merge / dropna / value_counts / reindex /
   cumsum pipeline, row by row *)
Lemma flat_map_flat_map : forall {A B C} (f : A -> list B) (g : B -> list C) (l : list A),
  flat_map g (flat_map f l) = flat_map (fun x => flat_map g (f x)) l.
Proof. induction l as [|x l IH]; simpl; [reflexivity|]. rewrite flat_map_app, IH. reflexivity. Qed.

Lemma filter_flat_map : forall {A B} (f : A -> list B) (k : B -> bool) (l : list A),
  filter k (flat_map f l) = flat_map (fun x => filter k (f x)) l.
Proof. induction l as [|x l IH]; simpl; [reflexivity|]. rewrite filter_app, IH. reflexivity. Qed.

Lemma map_flat_map' : forall {A B C} (f : A -> list B) (g : B -> C) (l : list A),
  map g (flat_map f l) = flat_map (fun x => map g (f x)) l.
Proof. induction l as [|x l IH]; simpl; [reflexivity|]. rewrite map_app, IH. reflexivity. Qed.

Lemma flat_map_ext' : forall {A B} (f g : A -> list B) (l : list A),
  (forall x, f x = g x) -> flat_map f l = flat_map g l.
Proof. intros. induction l as [|x l IH]; simpl; [reflexivity|]. rewrite H, IH. reflexivity. Qed.

Lemma flat_map_snd_combine : forall {A B C} (g : B -> list C) (a : list A) (b : list B),
  length a = length b -> flat_map (fun p => g (snd p)) (combine a b) = concat (map g b).
Proof.
  induction a as [|x a IH]; destruct b as [|y b]; simpl; intro H; try reflexivity; try discriminate.
  rewrite IH by lia. reflexivity.
Qed.

Lemma map_const_repeat : forall {A B} (x : B) (l : list A), map (fun _ => x) l = repeat x (length l).
Proof. induction l as [|y l IH]; simpl; [reflexivity|]. rewrite IH. reflexivity. Qed.

Lemma count_repeat_same : forall a k, length (filter (Nat.eqb a) (repeat a k)) = k.
Proof. induction k as [|k IH]; simpl; [reflexivity|]. rewrite Nat.eqb_refl. simpl. rewrite IH. reflexivity. Qed.

Lemma count_absent : forall t l, ~ In t l -> length (filter (Nat.eqb t) l) = 0.
Proof.
  induction l as [|x l IH]; intro H; simpl; [reflexivity|]. destruct (Nat.eqb t x) eqn:E.
  - apply Nat.eqb_eq in E. subst. exfalso. apply H. left. reflexivity.
  - apply IH. intro. apply H. right. assumption.
Qed.

Definition explode_row {L C} (p : L * list C) : list (L * option C) :=
  match snd p with
  | [] => [(fst p, None)]
  | xs => map (fun x => (fst p, Some x)) xs
  end.
Definition merge_row {L} (right : list (pval * Z)) (p : L * option pval) : list (L * option pval * option Z) :=
  match snd p with
  | None => [(fst p, None, None)]
  | Some v =>
      match filter (fun e => pval_eqb (fst e) v) right with
      | [] => [(fst p, Some v, None)]
      | ms => map (fun e => (fst p, Some v, Some (snd e))) ms
      end
  end.
Definition keep_row {L} (r : L * option pval * option Z) : bool :=
  match r with (_, Some _, Some _) => true | _ => false end.
Definition value_of_row {L} (r : L * option pval * option Z) : list Z :=
  match snd r with Some k => [k] | None => [] end.
Definition label_of_row {L} (r : L * option pval * option Z) : L := fst (fst r).

(* the index values one row contributes: for every member of its set, the
   entries of the mapper's index with that key *)
Definition enc_tokens (cats : list pval) (set : list pval) : list Z :=
  flat_map (fun v => map snd (filter (fun e => pval_eqb (fst e) v) (multicat_index cats))) set.

Lemma row_members : forall {L} cats (i : L) (l : list pval),
  let rows := flat_map (merge_row (multicat_index cats)) (map (fun x => (i, Some x)) l) in
  flat_map value_of_row (filter keep_row rows) = enc_tokens cats l /\
  map label_of_row (filter keep_row rows) = repeat i (length (enc_tokens cats l)).
Proof.
  intros L cats i l. induction l as [|v l [IH1 IH2]]; [split; reflexivity|].
  cbn [map flat_map]. unfold enc_tokens in *. cbn [flat_map].
  rewrite filter_app, flat_map_app, map_app, app_length, repeat_app.
  fold (enc_tokens cats l) in *. rewrite IH1, IH2.
  unfold merge_row at 1 2. cbn [snd fst].
  destruct (filter (fun e : pval * Z => pval_eqb (fst e) v) (multicat_index cats)) as [|e ms] eqn:F.
  - split; reflexivity.
  - set (g := fun e0 : pval * Z => (i, Some v, Some (snd e0))).
    assert (K : filter keep_row (map g (e :: ms)) = map g (e :: ms)).
    { generalize (e :: ms). induction l0 as [|y l0 IHl]; simpl; [reflexivity|]. rewrite IHl. reflexivity. }
    rewrite K. split.
    + f_equal. generalize (e :: ms). induction l0 as [|y l0 IHl]; simpl; [reflexivity|]. rewrite IHl. reflexivity.
    + f_equal. rewrite map_map. unfold g, label_of_row. cbn [fst]. rewrite map_const_repeat, map_length. reflexivity.
Qed.

Lemma row_contribution : forall cats (p : nat * list pval),
  let rows := flat_map (merge_row (multicat_index cats)) (explode_row p) in
  flat_map value_of_row (filter keep_row rows) = enc_tokens cats (snd p) /\
  map label_of_row (filter keep_row rows) = repeat (fst p) (length (enc_tokens cats (snd p))).
Proof.
  intros cats [i set]. unfold explode_row. cbn [fst snd]. destruct set as [|x xs].
  - split; reflexivity.
  - apply (row_members cats i (x :: xs)).
Qed.

Lemma label_lower_bound : forall {B} (h : B -> nat) (ys : list B) b m t,
  In t (flat_map (fun p : nat * B => repeat (fst p) (h (snd p))) (combine (seq b m) ys)) -> b <= t.
Proof.
  intros B h ys b m t H. apply in_flat_map in H. destruct H as [[i y] [Hp Ht]].
  apply repeat_spec in Ht. simpl in Ht. subst t. apply in_combine_l in Hp. apply in_seq in Hp. simpl. lia.
Qed.

Lemma label_counts_rows : forall {B} (h : B -> nat) (xs : list B) a,
  label_counts Nat.eqb (flat_map (fun p : nat * B => repeat (fst p) (h (snd p))) (combine (seq a (length xs)) xs))
               (seq a (length xs)) = map h xs.
Proof.
  intros B h. induction xs as [|x xs IH]; intro a; [reflexivity|].
  cbn [length seq combine flat_map fst snd map]. unfold label_counts in *. cbn [map]. f_equal.
  - rewrite filter_app, app_length, count_repeat_same.
    rewrite count_absent; [lia|].
    intro Hin. apply label_lower_bound in Hin. lia.
  - rewrite <- (IH (S a)). apply map_ext_in. intros t Ht. apply in_seq in Ht.
    rewrite filter_app, app_length. rewrite (count_absent t (repeat a (h x))); [reflexivity|].
    intro Hin. apply repeat_spec in Hin. lia.
Qed.

Lemma multicategorical_forward_spec : forall {L} cats sep (s : @series L mc_cell) sets,
  mapM (fun row => split_by_sep row sep) (ser_values s) = Some sets ->
  multicategorical_forward true cats sep s =
  Some (MkMnt (length s) 1 (concat (map (enc_tokens cats) sets))
              (0 :: cumsum (map (@length Z) (map (enc_tokens cats) sets)))).
Proof.
  intros L cats sep s sets HM. unfold multicategorical_forward, ser_apply_opt. cbn [negb].
  rewrite reset_index_values, HM, reset_index_labels. unfold obind.
  assert (Hlen : length sets = length s).
  { apply mapM_length' in HM. rewrite HM. unfold ser_values. apply map_length. }
  set (rows := combine (seq 0 (length s)) sets).
  change (explode rows) with (flat_map (@explode_row nat pval) rows).
  change (merge_left (flat_map (@explode_row nat pval) rows) (multicat_index cats))
    with (flat_map (merge_row (multicat_index cats)) (flat_map (@explode_row nat pval) rows)).
  rewrite flat_map_flat_map.
  match goal with |- context [filter ?k (flat_map ?f rows)] =>
    change k with (@keep_row nat); rewrite (filter_flat_map f (@keep_row nat) rows) end.
  match goal with |- context [flat_map ?v (flat_map ?f rows)] =>
    change v with (@value_of_row nat); rewrite (flat_map_flat_map f (@value_of_row nat) rows) end.
  match goal with |- context [map ?lb (flat_map ?f rows)] =>
    change lb with (@label_of_row nat); rewrite (map_flat_map' f (@label_of_row nat) rows) end.
  rewrite (flat_map_ext' _ (fun p => enc_tokens cats (snd p)))
    by (intro p; apply (proj1 (row_contribution cats p))).
  rewrite (flat_map_ext' (fun x => map label_of_row _) (fun p => repeat (fst p) (length (enc_tokens cats (snd p)))))
    by (intro p; apply (proj2 (row_contribution cats p))).
  unfold rows. rewrite flat_map_snd_combine by (rewrite seq_length; lia).
  rewrite <- Hlen.
  rewrite (label_counts_rows (fun set => length (enc_tokens cats set)) sets 0).
  rewrite seq_length.
  pose proof (mk_mnt_of_cells (map (enc_tokens cats) sets)) as K. rewrite !map_length in K.
  rewrite map_map. rewrite map_map in K. exact K.
Qed.

(* ------------------------------------------------------------------------- *)
(* multicategorical: what a row's index values are *)
Lemma py_set_In : forall l x, In x (py_set l) <-> In x l.
Proof.
  induction l as [|y l IH]; intro x; simpl; [tauto|].
  destruct (existsb (pval_eqb y) l) eqn:E.
  - rewrite IH. split; [tauto|]. intros [->|H]; [|exact H]. apply existsb_pval_In. exact E.
  - simpl. rewrite IH. tauto.
Qed.

Lemma py_set_NoDup : forall l, NoDup (py_set l).
Proof.
  induction l as [|y l IH]; simpl; [constructor|].
  destruct (existsb (pval_eqb y) l) eqn:E; [exact IH|].
  constructor; [|exact IH]. rewrite py_set_In. intro H. apply existsb_pval_In in H. congruence.
Qed.

Definition enc_idx (cats : list pval) (set : list pval) : list Z :=
  flat_map (fun v => match find_index cats v with Some k => [Z.of_nat k] | None => [] end) set.

Lemma filter_multicat_index : forall cats v, NoDup cats -> ~ In (VInt (-1)) cats ->
  map snd (filter (fun e : pval * Z => pval_eqb (fst e) v) (multicat_index cats)) =
  if pval_eqb (VInt (-1)) v then [(-1)%Z]
  else match find_index cats v with Some k => [Z.of_nat k] | None => [] end.
Proof.
  intros cats v ND Hm. unfold multicat_index. rewrite filter_app, map_app, filter_range_index by assumption.
  cbn [filter fst]. destruct (pval_eqb (VInt (-1)) v) eqn:E.
  - apply pval_eqb_eq in E. subst v. apply find_index_None in Hm. rewrite Hm. reflexivity.
  - destruct (find_index cats v); reflexivity.
Qed.

Lemma enc_tokens_missing : forall cats, NoDup cats -> ~ In (VInt (-1)) cats -> enc_tokens cats [VInt (-1)] = [(-1)%Z].
Proof.
  intros. unfold enc_tokens. cbn [flat_map]. rewrite filter_multicat_index by assumption.
  rewrite pval_eqb_refl. reflexivity.
Qed.

Lemma enc_tokens_idx : forall cats set, NoDup cats -> ~ In (VInt (-1)) cats -> ~ In (VInt (-1)) set ->
  enc_tokens cats set = enc_idx cats set.
Proof.
  intros cats set ND Hm. induction set as [|v set IH]; intro Hs; [reflexivity|].
  unfold enc_tokens, enc_idx in *. cbn [flat_map]. rewrite filter_multicat_index by assumption.
  rewrite IH by (intro; apply Hs; right; assumption). f_equal.
  destruct (pval_eqb (VInt (-1)) v) eqn:E; [|reflexivity].
  apply pval_eqb_eq in E. exfalso. apply Hs. left. symmetry. exact E.
Qed.

Lemma enc_idx_In : forall cats set z,
  In z (enc_idx cats set) <-> exists v k, In v set /\ find_index cats v = Some k /\ z = Z.of_nat k.
Proof.
  intros cats set z. unfold enc_idx. rewrite in_flat_map. split.
  - intros [v [Hv Hz]]. destruct (find_index cats v) as [k|] eqn:E; [|destruct Hz].
    destruct Hz as [<-|[]]. exists v, k. auto.
  - intros [v [k [Hv [E ->]]]]. exists v. split; [exact Hv|]. rewrite E. left. reflexivity.
Qed.

Lemma enc_idx_NoDup : forall cats set, NoDup set -> NoDup (enc_idx cats set).
Proof.
  intros cats set ND. induction ND as [|v set Hnot ND IH]; [constructor|].
  unfold enc_idx in *. cbn [flat_map]. destruct (find_index cats v) as [k|] eqn:E; [|exact IH].
  simpl. constructor; [|exact IH]. intro Hin. apply (proj1 (enc_idx_In cats set _)) in Hin.
  destruct Hin as [w [j [Hw [Ej Hz]]]]. apply Nat2Z.inj in Hz. subst j.
  apply find_index_Some in E. apply find_index_Some in Ej. destruct E as [_ E], Ej as [_ Ej].
  assert (v = w) by congruence. subst. contradiction.
Qed.

Lemma canon_idx_In : forall cats toks k,
  In k (canon_idx cats toks) <-> exists cat, nth_error cats k = Some cat /\ In cat toks.
Proof.
  intros cats toks k. unfold canon_idx. rewrite filter_In, in_seq. split.
  - intros [_ H]. destruct (nth_error cats k) as [cat|]; [|discriminate]. exists cat. split; [reflexivity|].
    apply existsb_pval_In. exact H.
  - intros [cat [E H]]. split.
    + split; [lia|]. simpl. apply nth_error_Some. congruence.
    + rewrite E. apply existsb_pval_In. exact H.
Qed.

Lemma NoDup_map_of_nat : forall l, NoDup l -> NoDup (map Z.of_nat l).
Proof.
  induction 1 as [|x l Hnot ND IH]; simpl; constructor; [|exact IH].
  rewrite in_map_iff. intros [y [E Hy]]. apply Nat2Z.inj in E. subst. contradiction.
Qed.

Lemma enc_idx_perm : forall cats toks, NoDup cats ->
  Permutation (enc_idx cats (py_set toks)) (map Z.of_nat (canon_idx cats toks)).
Proof.
  intros cats toks ND. apply NoDup_Permutation.
  - apply enc_idx_NoDup, py_set_NoDup.
  - apply NoDup_map_of_nat. unfold canon_idx. apply NoDup_filter, seq_NoDup.
  - intro z. rewrite enc_idx_In, in_map_iff. split.
    + intros [v [k [Hv [E ->]]]]. exists k. split; [reflexivity|]. apply canon_idx_In. exists v.
      apply (proj1 (py_set_In _ _)) in Hv. apply find_index_Some in E. tauto.
    + intros [k [<- Hk]]. apply canon_idx_In in Hk. destruct Hk as [cat [E Hc]]. exists cat, k.
      split; [apply py_set_In; exact Hc|]. split; [apply find_index_nth; assumption | reflexivity].
Qed.

Lemma tokens_ok_str : forall sep s, tokens_ok sep (MCStr s).
Proof.
  intros sep s toks H. unfold tokens_of in H. destruct sep as [sp|]; [|discriminate].
  destruct (py_strip s); [inversion H; intros []|].
  destruct (py_split s sp); [|discriminate]. inversion H. rewrite in_map_iff. intros [x [E _]]. discriminate.
Qed.

Lemma split_by_sep_tokens : forall sep c, c <> MCMissing ->
  split_by_sep c sep = option_map py_set (tokens_of sep c).
Proof.
  intros sep c H. destruct c as [|s|l|]; [congruence| | |reflexivity].
  - simpl. destruct sep as [sp|]; [|reflexivity]. destruct (py_strip s); [reflexivity|].
    destruct (py_split s sp); reflexivity.
  - simpl. destruct sep; reflexivity.
Qed.

Lemma multi_cell_perm : forall cats sep c set e,
  NoDup cats -> ~ In (VInt (-1)) cats -> tokens_ok sep c ->
  split_by_sep c sep = Some set -> canon_multi cats sep c = Some e ->
  Permutation (map SInt (enc_tokens cats set)) e.
Proof.
  intros cats sep c set e ND Hm Hok Hs Hc.
  destruct (match c with MCMissing => true | _ => false end) eqn:Ec.
  - destruct c; try discriminate. simpl in Hs, Hc. inversion Hs. inversion Hc. subst.
    rewrite enc_tokens_missing by assumption. apply Permutation_refl.
  - assert (Hne : c <> MCMissing) by (intro; subst; discriminate).
    rewrite split_by_sep_tokens in Hs by assumption.
    assert (Hc' : canon_multi cats sep c =
                  (toks <- tokens_of sep c ;; Some (map (fun k => SInt (Z.of_nat k)) (canon_idx cats toks))))
      by (destruct c; try congruence; reflexivity).
    rewrite Hc' in Hc. destruct (tokens_of sep c) as [toks|] eqn:Et; [|discriminate].
    simpl in Hs, Hc. inversion Hs. inversion Hc. subst.
    rewrite enc_tokens_idx; try assumption.
    + rewrite <- (map_map Z.of_nat SInt). apply Permutation_map. apply enc_idx_perm. assumption.
    + rewrite py_set_In. apply Hok. exact Et.
Qed.

Lemma canon_multi_split : forall cats sep c e, canon_multi cats sep c = Some e -> exists set, split_by_sep c sep = Some set.
Proof.
  intros cats sep c e H. destruct c as [|s|l|].
  - eexists. reflexivity.
  - rewrite split_by_sep_tokens by discriminate. unfold canon_multi in H.
    destruct (tokens_of sep (MCStr s)); [eexists; reflexivity | discriminate].
  - rewrite split_by_sep_tokens by discriminate. unfold canon_multi in H.
    destruct (tokens_of sep (MCList l)); [eexists; reflexivity | discriminate].
  - discriminate.
Qed.

Lemma multicategorical_faithful : forall {L} cats sep (s : @series L mc_cell) canon,
  NoDup cats -> ~ In (VInt (-1)) cats -> Forall (tokens_ok sep) (ser_values s) ->
  mapM (canon_multi cats sep) (ser_values s) = Some canon ->
  exists enc, multicategorical_encode true cats sep s = Some enc /\ Forall2 (@Permutation scalar) enc canon.
Proof.
  intros L cats sep s canon ND Hm Hok Hc.
  assert (HS : exists sets, mapM (fun row => split_by_sep row sep) (ser_values s) = Some sets /\
                            Forall2 (@Permutation scalar) (map (fun set => map SInt (enc_tokens cats set)) sets) canon).
  { revert canon Hok Hc. generalize (ser_values s). induction l as [|c l IH]; intros canon Hok Hc.
    - simpl in Hc. inversion Hc. exists []. split; [reflexivity | constructor].
    - cbn [mapM] in Hc. destruct (canon_multi cats sep c) as [e|] eqn:Ec; [|discriminate].
      destruct (mapM (canon_multi cats sep) l) as [r|] eqn:Er; [|discriminate]. inversion Hc. subst canon.
      inversion Hok as [|? ? Hc0 Hl]; subst.
      destruct (IH r Hl eq_refl) as [sets [HM HP]].
      destruct (canon_multi_split _ _ _ _ Ec) as [set Hset].
      exists (set :: sets). split.
      + cbn [mapM]. rewrite Hset, HM. reflexivity.
      + cbn [map]. constructor; [|exact HP]. eapply multi_cell_perm; eassumption. }
  destruct HS as [sets [HM HP]].
  exists (map (map SInt) (map (enc_tokens cats) sets)). split.
  - unfold multicategorical_encode. rewrite (multicategorical_forward_spec cats sep s sets HM). unfold obind.
    pose proof (mnt_column_of_cells (map (enc_tokens cats) sets)) as K.
    assert (Hl : length (map (enc_tokens cats) sets) = length s).
    { rewrite map_length. apply mapM_length' in HM. rewrite HM. unfold ser_values. apply map_length. }
    rewrite Hl in K. rewrite K. reflexivity.
  - rewrite map_map. exact HP.
Qed.

Lemma multicategorical_dtype_gate : forall {L} cats sep (s : @series L mc_cell),
  multicategorical_encode false cats sep s = None.
Proof. reflexivity. Qed.

Lemma multicategorical_raises : forall {L} dt cats sep (s : @series L mc_cell),
  mapM (canon_multi cats sep) (ser_values s) = None -> multicategorical_encode dt cats sep s = None.
Proof.
  intros L dt cats sep s H. destruct dt; [|reflexivity].
  unfold multicategorical_encode, multicategorical_forward, ser_apply_opt. cbn [negb].
  rewrite reset_index_values.
  assert (M : mapM (fun row => split_by_sep row sep) (ser_values s) = None).
  { revert H. generalize (ser_values s). induction l as [|c l IH]; [discriminate|]. cbn [mapM].
    destruct (canon_multi cats sep c) as [e|] eqn:Ec.
    - destruct (mapM (canon_multi cats sep) l); [discriminate|]. intros _. rewrite IH by reflexivity.
      destruct (split_by_sep c sep); reflexivity.
    - intros _. destruct c as [|s0|l0|]; try discriminate; try reflexivity.
      + rewrite split_by_sep_tokens by discriminate. unfold canon_multi in Ec.
        destruct (tokens_of sep (MCStr s0)); [discriminate | reflexivity].
      + rewrite split_by_sep_tokens by discriminate. unfold canon_multi in Ec.
        destruct (tokens_of sep (MCList l0)); [discriminate | reflexivity]. }
  rewrite M. reflexivity.
Qed.

(* ------------------------------------------------------------------------- *)
(* sets are compared sorted: the canonical cell is THE ascending arrangement *)
From Coq Require Import Sorting.Sorted.

Fixpoint insertZ (x : Z) (l : list Z) : list Z :=
  match l with
  | [] => [x]
  | y :: r => if (x <=? y)%Z then x :: l else y :: insertZ x r
  end.
Definition isortZ (l : list Z) : list Z := fold_right insertZ [] l.

Lemma insert_scalar_ints : forall x l, insert_scalar (SInt x) (map SInt l) = map SInt (insertZ x l).
Proof.
  induction l as [|y l IH]; simpl; [reflexivity|]. destruct (x <=? y)%Z; simpl; [reflexivity|]. rewrite IH. reflexivity.
Qed.

Lemma sort_cell_ints : forall l, sort_cell (map SInt l) = map SInt (isortZ l).
Proof.
  induction l as [|x l IH]; [reflexivity|].
  change (sort_cell (map SInt (x :: l))) with (insert_scalar (SInt x) (sort_cell (map SInt l))).
  rewrite IH. apply insert_scalar_ints.
Qed.

Lemma insertZ_perm : forall x l, Permutation (x :: l) (insertZ x l).
Proof.
  induction l as [|y l IH]; simpl; [apply Permutation_refl|].
  destruct (x <=? y)%Z; [apply Permutation_refl|].
  eapply Permutation_trans; [apply perm_swap|]. apply perm_skip. exact IH.
Qed.

Lemma isortZ_perm : forall l, Permutation l (isortZ l).
Proof.
  induction l as [|x l IH]; simpl; [constructor|].
  eapply Permutation_trans; [apply perm_skip; exact IH | apply insertZ_perm].
Qed.

Lemma insertZ_sorted : forall x l, StronglySorted Z.le l -> StronglySorted Z.le (insertZ x l).
Proof.
  induction l as [|y l IH]; intro H; simpl; [repeat constructor|].
  inversion H as [|? ? Hs Hf]; subst. destruct (x <=? y)%Z eqn:E.
  - apply Z.leb_le in E. constructor; [exact H|]. constructor; [exact E|].
    eapply Forall_impl; [|exact Hf]. intros; lia.
  - apply Z.leb_gt in E. constructor; [apply IH; exact Hs|].
    apply (Permutation_Forall (insertZ_perm x l)). constructor; [lia | exact Hf].
Qed.

Lemma isortZ_sorted : forall l, StronglySorted Z.le (isortZ l).
Proof. induction l as [|x l IH]; simpl; [constructor | apply insertZ_sorted; exact IH]. Qed.

Lemma sorted_perm_unique : forall l1 l2, StronglySorted Z.le l1 -> StronglySorted Z.le l2 -> Permutation l1 l2 -> l1 = l2.
Proof.
  induction l1 as [|a l1 IH]; intros l2 S1 S2 P.
  - apply Permutation_nil in P. subst. reflexivity.
  - destruct l2 as [|b l2]; [apply Permutation_sym, Permutation_nil in P; discriminate|].
    inversion S1 as [|? ? S1' F1]; inversion S2 as [|? ? S2' F2]; subst.
    assert (a = b).
    { assert (Ha : In a (b :: l2)) by (eapply Permutation_in; [exact P | left; reflexivity]).
      assert (Hb : In b (a :: l1)) by (eapply Permutation_in; [apply Permutation_sym; exact P | left; reflexivity]).
      rewrite Forall_forall in F1, F2. destruct Ha as [Ha|Ha]; [congruence|]. destruct Hb as [Hb|Hb]; [congruence|].
      specialize (F1 b Hb). specialize (F2 a Ha). lia. }
    subst b. f_equal. apply IH; try assumption. eapply Permutation_cons_inv. exact P.
Qed.

Lemma StronglySorted_filter : forall {A} (R : A -> A -> Prop) (f : A -> bool) l,
  StronglySorted R l -> StronglySorted R (filter f l).
Proof.
  induction 1 as [|x l Hs IH Hf]; simpl; [constructor|]. destruct (f x); [|exact IH].
  constructor; [exact IH|]. rewrite Forall_forall in *. intros y Hy. apply Hf. apply filter_In in Hy. tauto.
Qed.

Lemma seq_sorted : forall n a, StronglySorted lt (seq a n).
Proof.
  induction n as [|n IH]; intro a; simpl; constructor; [apply IH|].
  rewrite Forall_forall. intros y Hy. apply in_seq in Hy. lia.
Qed.

Lemma canon_idx_sorted : forall cats toks, StronglySorted lt (canon_idx cats toks).
Proof. intros. unfold canon_idx. apply StronglySorted_filter, seq_sorted. Qed.

Lemma of_nat_sorted : forall l, StronglySorted lt l -> StronglySorted Z.le (map Z.of_nat l).
Proof.
  induction 1 as [|x l Hs IH Hf]; simpl; constructor; [exact IH|].
  rewrite Forall_forall in *. intros y Hy. apply in_map_iff in Hy. destruct Hy as [k [<- Hk]]. specialize (Hf k Hk). lia.
Qed.

(* sorting any arrangement of the set gives the canonical cell *)
Lemma sort_cell_canonical : forall e ks,
  StronglySorted lt ks -> Permutation e (map (fun k => SInt (Z.of_nat k)) ks) ->
  sort_cell e = map (fun k => SInt (Z.of_nat k)) ks.
Proof.
  intros e ks Hs P. rewrite <- (map_map Z.of_nat SInt) in *.
  destruct (Permutation_map_inv SInt _ P) as [ez [-> Pz]].
  rewrite sort_cell_ints. f_equal. apply sorted_perm_unique.
  - apply isortZ_sorted.
  - apply of_nat_sorted. exact Hs.
  - eapply Permutation_trans; [apply Permutation_sym, isortZ_perm | apply Permutation_sym; exact Pz].
Qed.

Lemma canon_multi_shape : forall cats sep c e, canon_multi cats sep c = Some e ->
  (c = MCMissing /\ e = [SInt (-1)]) \/
  (exists toks, tokens_of sep c = Some toks /\ e = map (fun k => SInt (Z.of_nat k)) (canon_idx cats toks)).
Proof.
  intros cats sep c e H. destruct c as [|s|l|].
  - left. simpl in H. inversion H. auto.
  - right. unfold canon_multi in H. destruct (tokens_of sep (MCStr s)) as [toks|]; [|discriminate].
    exists toks. simpl in H. inversion H. auto.
  - right. unfold canon_multi in H. destruct (tokens_of sep (MCList l)) as [toks|]; [|discriminate].
    exists toks. simpl in H. inversion H. auto.
  - discriminate.
Qed.

Lemma sort_cell_canon_multi : forall cats sep c e enc,
  canon_multi cats sep c = Some e -> Permutation enc e -> sort_cell enc = e.
Proof.
  intros cats sep c e enc H P. destruct (canon_multi_shape _ _ _ _ H) as [[_ ->]|[toks [_ ->]]].
  - apply Permutation_sym, Permutation_length_1_inv in P. subst. reflexivity.
  - apply sort_cell_canonical; [apply canon_idx_sorted | exact P].
Qed.

Lemma multicategorical_faithful_sorted : forall {L} cats sep (s : @series L mc_cell) canon,
  NoDup cats -> ~ In (VInt (-1)) cats -> Forall (tokens_ok sep) (ser_values s) ->
  mapM (canon_multi cats sep) (ser_values s) = Some canon ->
  exists enc, multicategorical_encode true cats sep s = Some enc /\ map sort_cell enc = canon.
Proof.
  intros L cats sep s canon ND Hm Hok Hc.
  destruct (multicategorical_faithful cats sep s canon ND Hm Hok Hc) as [enc [He HP]].
  exists enc. split; [exact He|]. apply mapM_Forall2 in Hc. revert HP Hc. generalize (ser_values s). clear.
  intros cells HP. revert cells. induction HP as [|x y enc canon Pxy HP IH]; intros cells Hc.
  - reflexivity.
  - inversion Hc as [|c ? cells' ? Hcy Hrest]; subst. simpl. f_equal.
    + eapply sort_cell_canon_multi; eassumption.
    + apply (IH cells'). exact Hrest.
Qed.

(* ------------------------------------------------------------------------- *)
(* No mapper reads a caller's label (C02): the encoded column is a function of
   the cell values alone -- for any two series, over any two label types, with
   the same values.  Duplicated, shuffled or non-numeric labels are all covered:
   the labels are arbitrary. *)
Lemma values_length : forall {L L' C} (s : @series L C) (s' : @series L' C),
  ser_values s = ser_values s' -> length s = length s'.
Proof.
  intros L L' C s s' H. unfold ser_values in H. rewrite <- (map_length snd s), <- (map_length snd s'), H. reflexivity.
Qed.

Lemma merge_left_values : forall {L} (s : @series L (option pval)) right,
  map snd (merge_left s right) =
  flat_map (fun c => match c with
                     | None => [None]
                     | Some v => match filter (fun e : pval * Z => pval_eqb (fst e) v) right with
                                 | [] => [None]
                                 | ms => map (fun e => Some (snd e)) ms
                                 end
                     end) (ser_values s).
Proof.
  intros L s right. unfold merge_left, ser_values. rewrite map_flat_map'.
  assert (FM : forall {A B C} (h : B -> list C) (k : A -> B) (l : list A),
             flat_map h (map k l) = flat_map (fun x => h (k x)) l).
  { intros A B C h k l. induction l as [|x l IH]; simpl; [reflexivity|]. rewrite IH. reflexivity. }
  rewrite FM. apply flat_map_ext'. intros [l c]. cbn [snd fst].
  destruct c as [v|]; [|reflexivity].
  destruct (filter (fun e : pval * Z => pval_eqb (fst e) v) right) as [|e ms]; [reflexivity|].
  rewrite map_map. reflexivity.
Qed.

Lemma numerical_values_only : forall {L L'} (s : @series L (option num)) (s' : @series L' (option num)),
  ser_values s = ser_values s' -> numerical_encode s = numerical_encode s'.
Proof. intros. unfold numerical_encode, numerical_forward. rewrite H. reflexivity. Qed.

Lemma categorical_values_only : forall {L L'} cats (s : @series L (option pval)) (s' : @series L' (option pval)),
  ser_values s = ser_values s' -> categorical_encode cats s = categorical_encode cats s'.
Proof.
  intros. unfold categorical_encode, categorical_forward. rewrite !merge_left_values, !reset_index_values, H. reflexivity.
Qed.

Lemma reset_index_values_only : forall {L L' C} (s : @series L C) (s' : @series L' C),
  ser_values s = ser_values s' -> reset_index s = reset_index s'.
Proof.
  intros L L' C s s' H. unfold reset_index. rewrite (values_length s s' H). unfold ser_values in H. rewrite H. reflexivity.
Qed.

Lemma multicategorical_values_only : forall {L L'} dt cats sep (s : @series L mc_cell) (s' : @series L' mc_cell),
  ser_values s = ser_values s' -> multicategorical_encode dt cats sep s = multicategorical_encode dt cats sep s'.
Proof.
  intros. unfold multicategorical_encode, multicategorical_forward.
  rewrite (reset_index_values_only s s' H). reflexivity.
Qed.

Lemma sequence_values_only : forall {L L'} (leqb : L -> L -> bool) (leqb' : L' -> L' -> bool)
  (s : @series L seq_cell) (s' : @series L' seq_cell),
  (forall a, leqb a a = true) -> (forall a, leqb' a a = true) ->
  ser_values s = ser_values s' -> sequence_encode leqb s = sequence_encode leqb' s'.
Proof. intros. unfold sequence_encode. rewrite !sequence_forward_values by assumption. rewrite H1. reflexivity. Qed.

Lemma timestamp_values_only : forall {L L'} (s : @series L (option Z)) (s' : @series L' (option Z)),
  ser_values s = ser_values s' -> timestamp_encode s = timestamp_encode s'.
Proof. intros. unfold timestamp_encode, timestamp_forward. rewrite H. reflexivity. Qed.

Lemma embedding_values_only : forall {L L'} (s : @series L (list num)) (s' : @series L' (list num)),
  ser_values s = ser_values s' -> embedding_encode s = embedding_encode s'.
Proof.
  intros. unfold embedding_encode, embedding_forward. rewrite (values_length s s' H), H. reflexivity.
Qed.

Lemma embedded_values_only : forall {L L'} (s : @series L (list num)) (s' : @series L' (list num)),
  ser_values s = ser_values s' -> embedded_encode s = embedded_encode s'.
Proof.
  intros. unfold embedded_encode, embedded_forward. rewrite (values_length s s' H), H. reflexivity.
Qed.

(* ------------------------------------------------------------------------- *)
(* the canonical multicategorical cell is "the set of such indices" *)
Lemma canon_multi_index_set : forall cats sep c toks,
  c <> MCMissing -> tokens_of sep c = Some toks ->
  exists ks, canon_multi cats sep c = Some (map (fun k => SInt (Z.of_nat k)) ks) /\
             StronglySorted lt ks /\
             forall k, In k ks <-> exists cat, nth_error cats k = Some cat /\ In cat toks.
Proof.
  intros cats sep c toks Hne Ht. exists (canon_idx cats toks). split; [|split].
  - destruct c; try congruence; unfold canon_multi; rewrite Ht; reflexivity.
  - apply canon_idx_sorted.
  - apply canon_idx_In.
Qed.

Lemma canon_multi_blank : forall cats sp s, py_strip s = [] -> canon_multi cats (Some sp) (MCStr s) = Some [].
Proof.
  intros cats sp s H. unfold canon_multi, tokens_of. rewrite H. cbn [obind]. unfold canon_idx.
  replace (filter _ (seq 0 (length cats))) with (@nil nat); [reflexivity|].
  symmetry. induction (seq 0 (length cats)) as [|k l IH]; [reflexivity|]. simpl.
  destruct (nth_error cats k); exact IH.
Qed.
